"""Build the implementation harness (bvp_c) from /repo's *current working tree*
and the Lean side (lake build), both offline.  Build products are cached under
/verif/.cache keyed by a hash of every input file."""
import hashlib, os, subprocess, shutil, sys, glob, time
from concurrent.futures import ThreadPoolExecutor

VERIF = os.path.dirname(os.path.dirname(os.path.abspath(__file__)))
REPO = os.environ.get("VERIF_REPO", "/repo")
CACHE = os.path.join(VERIF, ".cache")
LEAN = os.path.join(VERIF, "lean")
GUARD = "LIBECBUFR_VERIF"

SAN_FLAGS = ["-O1", "-g", "-fno-omit-frame-pointer", "-ffp-contract=off",
             "-fsanitize=address,undefined", "-fno-sanitize-recover=undefined",
             "-fno-sanitize=shift"]
FAST_FLAGS = ["-O2", "-ffp-contract=off"]

class BuildError(Exception):
    pass

def _hash_files(paths, extra=""):
    h = hashlib.sha256()
    h.update(extra.encode())
    for p in sorted(paths):
        h.update(p.encode())
        with open(p, "rb") as f:
            h.update(f.read())
    return h.hexdigest()[:20]

def repo_sources():
    srcs = sorted(glob.glob(os.path.join(REPO, "API/Sources/*.c")))
    hdrs = sorted(glob.glob(os.path.join(REPO, "API/Headers/*.h")) +
                  glob.glob(os.path.join(REPO, "API/Headers/private/*.h")) +
                  glob.glob(os.path.join(REPO, "API/Headers/*.h.in")))
    cfg = [p for p in [os.path.join(REPO, "config.h")] if os.path.exists(p)]
    return srcs, hdrs, cfg

def harness_sources():
    hd = os.path.join(VERIF, "harness")
    return sorted(glob.glob(os.path.join(hd, "*.c"))), sorted(glob.glob(os.path.join(hd, "*.h")))

FALLBACK_CONFIG = """
#define ENABLE_NLS 1
#define HAVE_CTYPE_H 1
#define HAVE_GETTEXT 1
#define HAVE_INTTYPES_H 1
#define HAVE_LIMITS_H 1
#define HAVE_MATH_H 1
#define HAVE_STDINT_H 1
#define HAVE_STDIO_H 1
#define HAVE_STDLIB_H 1
#define HAVE_STRINGS_H 1
#define HAVE_STRING_H 1
#define HAVE_SYS_STAT_H 1
#define HAVE_SYS_TYPES_H 1
#define HAVE_TIME_H 1
#define HAVE_UINT64_T 1
#define HAVE_UNISTD_H 1
#define HAVE_VALUES_H 1
#define PACKAGE "libecbufr"
#define PACKAGE_VERSION "0.9.4"
#define VERSION "0.9.4"
#ifndef _GNU_SOURCE
# define _GNU_SOURCE 1
#endif
"""

def _run(cmd, **kw):
    r = subprocess.run(cmd, stdout=subprocess.PIPE, stderr=subprocess.STDOUT, text=True, **kw)
    return r.returncode, r.stdout

def build_impl(kind="san"):
    """Compile /repo/API/Sources/*.c + harness into bvp_c.  kind: 'san' (ASan+UBSan) or 'fast' (-O2).
    Returns path of the executable.  Raises BuildError with the compiler output."""
    flags = SAN_FLAGS if kind == "san" else FAST_FLAGS
    srcs, hdrs, cfg = repo_sources()
    hs, hh = harness_sources()
    key = _hash_files(srcs + hdrs + cfg + hs + hh, extra=kind + " ".join(flags))
    out = os.path.join(CACHE, "impl-" + key)
    exe = os.path.join(out, "bvp_c")
    if os.path.exists(exe):
        os.utime(out, None)
        return exe
    tmp = out + ".tmp%d" % os.getpid()
    shutil.rmtree(tmp, ignore_errors=True)
    os.makedirs(os.path.join(tmp, "inc"))
    inc = os.path.join(tmp, "inc")
    if cfg:
        shutil.copy(cfg[0], os.path.join(inc, "config.h"))
    else:
        open(os.path.join(inc, "config.h"), "w").write(FALLBACK_CONFIG)
    api = os.path.join(REPO, "API/Headers/bufr_api.h")
    if os.path.exists(api):
        shutil.copy(api, os.path.join(inc, "bufr_api.h"))
    else:
        s = open(api + ".in").read().replace("@PACKAGE_VERSION@", "0.9.4")
        open(os.path.join(inc, "bufr_api.h"), "w").write(s)
    common = ["gcc", "-std=gnu99", "-DHAVE_CONFIG_H", '-DLOCALEDIR="/usr/share/locale"', "-D" + GUARD,
              "-I" + inc, "-I" + os.path.join(REPO, "API/Headers"), "-I" + os.path.join(REPO, "API/Sources"),
              "-I" + os.path.join(VERIF, "harness"), "-w"] + flags
    jobs = []
    for s in srcs + hs:
        o = os.path.join(tmp, os.path.basename(s)[:-2] + (".h.o" if s in hs else ".o"))
        jobs.append((common + ["-c", s, "-o", o], o))
    def comp(j):
        return _run(j[0])
    with ThreadPoolExecutor(max_workers=16) as ex:
        results = list(ex.map(comp, jobs))
    errs = [o for rc, o in results if rc != 0]
    if errs:
        shutil.rmtree(tmp, ignore_errors=True)
        raise BuildError("compile failed:\n" + "\n".join(errs)[:4000])
    link = ["gcc"] + flags + ["-Wl,--wrap=exit", "-o", os.path.join(tmp, "bvp_c")] + [o for _, o in jobs] + ["-lm"]
    rc, o = _run(link)
    if rc != 0:
        shutil.rmtree(tmp, ignore_errors=True)
        raise BuildError("link failed:\n" + o[:4000])
    try:
        os.rename(tmp, out)
    except OSError:
        shutil.rmtree(tmp, ignore_errors=True)
    _prune()
    return exe

def _prune(keep=6):
    ds = sorted(glob.glob(os.path.join(CACHE, "impl-*")), key=os.path.getmtime, reverse=True)
    for d in ds[keep:]:
        shutil.rmtree(d, ignore_errors=True)

def lake_build(targets, timeout=3000):
    """lake build the given targets; returns (ok, output)."""
    rc, o = _run(["lake", "build"] + list(targets), cwd=LEAN, timeout=timeout)
    return rc == 0, o

def lean_exe():
    return os.path.join(LEAN, ".lake", "build", "bin", "bvp_lean")

def impl_env():
    e = dict(os.environ)
    e["ASAN_OPTIONS"] = "detect_leaks=0:allocator_may_return_null=1:abort_on_error=0:exitcode=99"
    e["UBSAN_OPTIONS"] = "print_stacktrace=1:halt_on_error=1:exitcode=98"
    e["BUFR_TABLES"] = os.path.join(REPO, "Tables")
    return e
