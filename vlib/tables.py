"""Tables "as loaded by the C library": load named table sets in the implementation, dump what its
lookups return, and feed that dump to the model (DESIGN §4.1: a parser defect trips C12 only)."""
import os
from . import build

REPO = build.REPO
SHIPPED = {
    "v13": ("Tables/table_b_bufr-13", "Tables/table_d_bufr-13"),
    "v31": ("Tables/table_b_bufr-31", "Tables/table_d_bufr-31"),
    "v32": ("Tables/table_b_bufr-32", "Tables/table_d_bufr-32"),
    "v35": ("Tables/table_b_bufr-35", "Tables/table_d_bufr-35"),
    "cur": ("Tables/table_b_bufr", "Tables/table_d_bufr"),
}

def setup_tables(runner, sets):
    """sets: {name: (mb, md, lb, ld)} with absolute paths or '-'.  Installs the preambles on the
    runner and returns {name: (Bdump, Ddump)} as parsed python structures."""
    lines = []
    for name, paths in sets.items():
        lines.append("T.load %s %s %s %s %s" % ((name,) + tuple(paths)))
        lines.append("T.dump %s" % name)
    rc, out, err = runner.run_impl(lines)
    if rc != 0 or len(out) != len(lines):
        raise RuntimeError("table load failed: rc=%s %s" % (rc, err[-2000:]))
    impl_pre, lean_pre, parsed = [], [], {}
    for i, (name, paths) in enumerate(sets.items()):
        impl_pre.append(lines[2 * i])
        bd, dd = out[2 * i + 1].split(" ")
        lean_pre.append("T.ingest %s %s %s" % (name, bd, dd))
        B = {}
        for it in bd.split(";"):
            if it and it != "-":
                d, sc, r, nb, t = it.split(",")
                B[int(d)] = (int(sc), int(r), int(nb), int(t))
        D = {}
        for it in dd.split(";"):
            if it and it != "-":
                d, ms = it.split("=")
                D[int(d)] = [int(m) for m in ms.split(",") if m]
        parsed[name] = (B, D)
    runner.preamble["impl"] = runner.preamble["impl"] + impl_pre
    runner.preamble["lean"] = runner.preamble["lean"] + lean_pre
    return parsed

def shipped(name):
    b, d = SHIPPED[name]
    return (os.path.join(REPO, b), os.path.join(REPO, d))
