"""Generic life of a check (DESIGN.md §5): regenerate, lake build, audit, correspond,
oracle, search, report.  Property modules (props/cXX.py) supply theorems, scenario
generators, oracles and mutators; this file is the same for every property."""
import glob, hashlib, json, os, random, re, subprocess, sys, time, tempfile, shutil
from concurrent.futures import ThreadPoolExecutor
from . import build

VERIF = build.VERIF
LEAN = build.LEAN
ALLOWED_AXIOMS = {"propext", "Classical.choice", "Quot.sound"}
FORBIDDEN = re.compile(r"\bsorry\b|\badmit\b|^\s*axiom\s|native_decide|bv_decide|implemented_by|\bunsafe\s|maxHeartbeats\s+0|@\[extern")

TRUSTED_BASE = [
    "Lean 4.33 kernel; axioms propext, Classical.choice, Quot.sound only (audited by #print axioms on every run)",
    "BufrSpec/* as a transcription of WMO FM 94 (read, not proved)",
    "Lean compiler/runtime for bvp_lean (model code runs compiled in the correspondence)",
    "correspondence harness harness/*.c, vlib/*.py, props/*.py, gcc 12 + ASan/UBSan (differential testing of model vs code)",
    "libm/libc contracts (pow, round, printf, strtod, qsort/bsearch) as stated in DESIGN.md §6",
]

class Scenario:
    """a list of protocol lines; every non-comment line yields exactly one output line"""
    __slots__ = ("name", "lines", "meta")
    def __init__(self, name, lines, meta=None):
        self.name = name
        self.lines = [l for l in lines if l.strip() and not l.lstrip().startswith("#")]
        self.meta = meta or {}

def strip_comments(text):
    return [l for l in text.splitlines() if l.strip() and not l.lstrip().startswith("#")]

# --------------------------------------------------------------------------- running

def run_exe(exe, lines, env=None, timeout=120, cwd=None):
    """returns (rc, stdout_lines, stderr_text)"""
    data = ("\n".join(lines) + "\n").encode()
    try:
        p = subprocess.run([exe], input=data, stdout=subprocess.PIPE, stderr=subprocess.PIPE,
                           env=env, timeout=timeout, cwd=cwd)
        return p.returncode, p.stdout.decode("latin-1").splitlines(), p.stderr.decode("latin-1")
    except subprocess.TimeoutExpired as e:
        out = (e.stdout or b"").decode("latin-1").splitlines()
        return -9, out, "TIMEOUT after %ss" % timeout

class Runner:
    def __init__(self, impl_exe, lean_exe, workdir):
        self.impl = impl_exe
        self.lean = lean_exe
        self.env = build.impl_env()
        self.workdir = workdir
        self.preamble = {"impl": [], "lean": []}   # lines run at the start of every process

    def run_impl(self, lines, timeout=120):
        return run_exe(self.impl, lines, env=self.env, timeout=timeout, cwd=self.workdir)

    def run_lean(self, lines, timeout=300):
        return run_exe(self.lean, lines, timeout=timeout, cwd=self.workdir)

    def run_batch(self, scenarios, which, timeout=300):
        """Run scenarios in one process, each preceded by `reset`.  Returns a list of
        (outputs, crash_text or None) per scenario.  A crash is attributed to the scenario
        being processed; the remaining ones are re-run in a new process."""
        N = len(scenarios)
        results = [None] * N
        start = 0
        fn = self.run_impl if which == "impl" else self.run_lean
        while start < N:
            pre = self.preamble[which]
            lines = list(pre)
            for k in range(start, N):
                lines.append("reset")
                lines.extend(scenarios[k].lines)
            rc, out, err = fn(lines, timeout=timeout)
            if len(out) < len(pre):
                raise RuntimeError("%s preamble failed: rc=%s %s" % (which, rc, err[-2000:]))
            out = out[len(pre):]
            pos = 0
            crashed = False
            for k in range(start, N):
                need = 1 + len(scenarios[k].lines)
                if pos + need <= len(out):
                    results[k] = (out[pos + 1:pos + need], None)
                    pos += need
                else:
                    results[k] = (out[pos + 1:], "rc=%d: %s" % (rc, err[-3000:]))
                    start = k + 1
                    crashed = True
                    break
            if not crashed:
                if rc != 0:
                    results[N - 1] = (results[N - 1][0], "rc=%d at exit: %s" % (rc, err[-3000:]))
                break
        return results

def chunks(xs, n):
    k = max(1, (len(xs) + n - 1) // n)
    return [xs[i:i + k] for i in range(0, len(xs), k)]

def run_all(runner, scenarios, which, jobs=16, timeout=600):
    if not scenarios:
        return []
    parts = chunks(scenarios, jobs)
    with ThreadPoolExecutor(max_workers=jobs) as ex:
        res = list(ex.map(lambda p: runner.run_batch(p, which, timeout=timeout), parts))
    out = []
    for r in res:
        out.extend(r)
    return out

# --------------------------------------------------------------------------- audit

def audit_sources():
    """grep the Lean sources for forbidden constructs outside comments"""
    hits = []
    for p in glob.glob(os.path.join(LEAN, "**", "*.lean"), recursive=True):
        if "/.lake/" in p:
            continue
        txt = open(p, encoding="utf-8").read()
        # strip block comments and line comments
        txt2 = re.sub(r"/-.*?-/", lambda m: "\n" * m.group(0).count("\n"), txt, flags=re.S)
        for i, l in enumerate(txt2.splitlines(), 1):
            l2 = l.split("--")[0]
            if FORBIDDEN.search(l2):
                hits.append("%s:%d: %s" % (os.path.relpath(p, VERIF), i, l.strip()))
    return hits

def audit_axioms(pid):
    """run `#print axioms` for every property theorem of pid; returns (theorems{name:[axioms]}, problems)"""
    f = os.path.join(LEAN, "Audit", pid + ".lean")
    rc, out = build._run(["lake", "env", "lean", f], cwd=LEAN, timeout=900)
    thms, problems = {}, []
    for m in re.finditer(r"'([^']+)' depends on axioms: \[([^\]]*)\]", out.replace("\n ", " ")):
        ax = [a.strip() for a in m.group(2).split(",") if a.strip()]
        thms[m.group(1)] = ax
        bad = [a for a in ax if a not in ALLOWED_AXIOMS]
        if bad:
            problems.append("%s uses axioms %s" % (m.group(1), bad))
    for m in re.finditer(r"'([^']+)' does not depend on any axioms", out):
        thms[m.group(1)] = []
    if rc != 0:
        problems.append("audit file failed: " + out[-1500:])
    return thms, problems

# --------------------------------------------------------------------------- evidence / report

def write_evidence(pid, tier, seed, cov, wall, violations, assumptions):
    os.makedirs(os.path.join(VERIF, "evidence"), exist_ok=True)
    ev = {"property_id": pid, "tier": tier, "seed": seed, "level": "proof", "coverage": cov,
          "assumptions": assumptions, "wall_s": round(wall, 2), "violations": violations}
    with open(os.path.join(VERIF, "evidence", pid + ".json"), "w") as f:
        json.dump(ev, f, indent=1)

def load_known():
    p = os.path.join(VERIF, "known_findings.json")
    if not os.path.exists(p):
        return []
    return json.load(open(p))

def write_replay(pid, seed, tag, scen_lines, expected, actual, broke, extra=None):
    d = os.path.join(VERIF, "replays")
    os.makedirs(d, exist_ok=True)
    path = os.path.join(d, "%s-%s-%s.bvp" % (pid, seed, tag))
    with open(path, "w") as f:
        f.write("# replay for property %s (seed %s)\n" % (pid, seed))
        f.write("# broke: %s\n" % broke)
        for l in scen_lines:
            f.write(l + "\n")
        if expected is not None:
            f.write("# expected: %s\n" % json.dumps(expected))
        if actual is not None:
            f.write("# actual: %s\n" % json.dumps(actual))
        if extra:
            for l in str(extra).splitlines():
                f.write("# " + l + "\n")
    return path

# --------------------------------------------------------------------------- shrinking

def ddmin(lines, fails, budget=200):
    """delta debugging over lines; `fails(lines)` -> bool.  Keeps first line groups intact if the
    predicate needs them (the predicate decides)."""
    n = 2
    calls = 0
    while len(lines) >= 2 and calls < budget:
        size = max(1, len(lines) // n)
        removed = False
        for i in range(0, len(lines), size):
            cand = lines[:i] + lines[i + size:]
            if not cand:
                continue
            calls += 1
            if fails(cand):
                lines = cand
                n = max(n - 1, 2)
                removed = True
                break
            if calls >= budget:
                break
        if not removed:
            if size == 1:
                break
            n = min(n * 2, len(lines))
    return lines

# --------------------------------------------------------------------------- main flow

class Outcome:
    def __init__(self):
        self.violations = []   # (replay_path, found_input: bool, text)
        self.known = []        # text lines
        self.internal = []     # my machinery is wrong

def _cut_poisoned(prop):
    """after the library has called the abort handler the harness and the driver answer `poisoned` to every
    further operation until `reset`: the property functions see the scenario up to that point"""
    if getattr(prop, "_cut_poisoned", False):
        return
    def wrap(fn):
        def g(scn, outs, *rest):
            if "poisoned" in outs:
                k = list(outs).index("poisoned")
                scn = Scenario(scn.name, scn.lines[:k], scn.meta)
                outs = list(outs)[:k]
                rest = tuple(list(r)[:k] if isinstance(r, (list, tuple)) else r for r in rest)
            return fn(scn, outs, *rest)
        return g
    for name in ("oracle", "oracle2", "signature", "classify"):
        if hasattr(prop, name):
            setattr(prop, name, wrap(getattr(prop, name)))
    prop._cut_poisoned = True

def _safe(fn, *args):
    """property oracles are written for whole generated scenarios; on the mutilated ones the shrinker and the
    neighbourhood search produce, an oracle that cannot parse its input gives no verdict"""
    try:
        return fn(*args)
    except Exception:
        return None

def compare(scn, c_res, l_res, prop):
    """returns None or (index, c_line, l_line, text)"""
    c_out, c_crash = c_res
    l_out, l_crash = l_res
    if l_crash:
        return ("model-crash", -1, None, None, l_crash)
    if c_crash:
        k = len(c_out)
        return ("impl-crash", k, None, l_out[k] if k < len(l_out) else None, c_crash)
    canon = getattr(prop, "canon", None)
    for i, (a, b) in enumerate(zip(c_out, l_out)):
        if canon:
            a2, b2 = canon(scn.lines[i], a, "impl"), canon(scn.lines[i], b, "model")
        else:
            a2, b2 = a, b
        if a2 != b2:
            return ("differ", i, a, b, "")
    if len(c_out) != len(l_out):
        return ("differ", min(len(c_out), len(l_out)), None, None, "output length %d vs %d" % (len(c_out), len(l_out)))
    return None

def run_check(prop, tier, seed, replay=None):
    t0 = time.time()
    pid = prop.ID
    out = Outcome()
    notes = []
    obligations = list(prop.THEOREMS)
    discharged = 0
    cov_extra = {}
    broke = []          # names of theorems / streams that no longer check

    for old in ([] if replay else glob.glob(os.path.join(VERIF, "replays", pid + "-*"))):
        try: os.remove(old)
        except OSError: pass
    # 1. regenerate
    if hasattr(prop, "regenerate"):
        try:
            prop.regenerate()
        except Exception as e:  # translator can no longer parse its input: tie broken
            broke.append("translator: %r" % (e,))

    # 2. lake build
    targets = ["BufrProps." + pid, "Audit." + pid, "bvp_lean"] + list(getattr(prop, "EXTRA_TARGETS", []))
    ok, log = build.lake_build(targets)
    if not ok:
        errs = re.findall(r"error: (\S+\.lean:\d+:\d+): (.*)", log)
        broke.append("lake build failed: " + "; ".join("%s %s" % e for e in errs[:6]))
        if not os.path.exists(build.lean_exe()):
            out.internal.append("bvp_lean does not build:\n" + log[-3000:])
    # 3. audit
    hits = audit_sources()
    if hits:
        broke.append("forbidden constructs: " + "; ".join(hits[:5]))
    thms, problems = ({}, [])
    if ok:
        thms, problems = audit_axioms(pid)
        for pr in problems:
            broke.append(pr)
        for t in obligations:
            if t in thms and not [a for a in thms[t] if a not in ALLOWED_AXIOMS]:
                discharged += 1
            else:
                broke.append("theorem %s not found in audit output" % t)
    if tier == "thorough" and ok:
        rc, o = build._run(["lake", "env", "leanchecker", "BufrProps." + pid], cwd=LEAN, timeout=1800)
        cov_extra["leanchecker"] = "ok" if rc == 0 else "FAILED: " + o[-500:]
        if rc != 0:
            broke.append("leanchecker rejected BufrProps." + pid)

    # 4. build impl, run streams
    try:
        impl = build.build_impl("san")
    except build.BuildError as e:
        print("INTERNAL: implementation does not build from the working tree:\n%s" % e)
        return 2
    work = tempfile.mkdtemp(prefix="bvp-%s-" % pid, dir=build.CACHE)
    try:
        return _run_streams(prop, tier, seed, replay, t0, out, impl, work, obligations, discharged,
                            thms, broke, cov_extra)
    finally:
        shutil.rmtree(work, ignore_errors=True)

def _run_streams(prop, tier, seed, replay, t0, out, impl, work, obligations, discharged, thms, broke, cov_extra):
    _cut_poisoned(prop)
    pid = prop.ID
    runner = Runner(impl, build.lean_exe(), work)
    rng = random.Random(seed)
    if hasattr(prop, "prepare"):
        prop.prepare(runner, work)

    scenarios = []
    if replay:
        scenarios.append(Scenario("replay:" + os.path.basename(replay), strip_comments(open(replay).read())))
    else:
        for p in sorted(glob.glob(os.path.join(VERIF, "corpus", pid + "-*.bvp"))):
            scenarios.append(Scenario("corpus:" + os.path.basename(p), strip_comments(open(p).read()), {"corpus": True}))
        scenarios.extend(prop.scenarios(rng, tier, runner))

    have_lean = os.path.exists(build.lean_exe())
    pre = getattr(prop, "two_pass", None)
    c_res = run_all(runner, scenarios, "impl")
    if pre:
        # relational tie: the model side sees the implementation's outputs (e.g. encoded bytes)
        lean_scn = [Scenario(s.name, pre(s, r[0]), s.meta) for s, r in zip(scenarios, c_res)]
    else:
        lean_scn = scenarios
    l_res = run_all(runner, lean_scn, "lean") if have_lean else [([], "no model executable")] * len(scenarios)

    known = [k for k in load_known() if k.get("property") == pid]
    known_open = {k["witness"]: k for k in known if k.get("status") == "known"}
    sigs = set()
    dist = {}
    n_eval = 0
    failures = []   # (scenario, kind, idx, c, l, text)
    for s, ls, cr, lr in zip(scenarios, lean_scn, c_res, l_res):
        n_eval += 1
        cmpfn = getattr(prop, "compare", None)
        d = cmpfn(s, ls, cr, lr) if cmpfn else compare(s, cr, lr, prop)
        orc = None
        if cr[1] is None and hasattr(prop, "oracle"):
            orc = prop.oracle(s, cr[0])
        if orc is None and cr[1] is None and lr[1] is None and hasattr(prop, "oracle2"):
            # an oracle that also sees what the *specification side* of the driver computed
            # from the implementation's outputs (e.g. the reference decoder run on the C bytes)
            orc = prop.oracle2(s, cr[0], lr[0])
        if d is None and orc is None:
            sig = prop.signature(s, cr[0]) if hasattr(prop, "signature") else hashlib.md5("|".join(cr[0]).encode()).hexdigest()
            for g in (sig if isinstance(sig, (list, set, tuple)) and not isinstance(sig, str) else [sig]):
                sigs.add(g)
            if hasattr(prop, "classify"):
                for k in prop.classify(s, cr[0]):
                    dist[k] = dist.get(k, 0) + 1
        else:
            failures.append((s, d, orc, cr, lr))

    violations = 0
    seen_known = set()
    # failures on which the property's own oracle (or a crash) speaks come first: they carry a failing input;
    # corpus witnesses keep their place in front (known findings are matched on them)
    failures.sort(key=lambda f: (0 if f[0].meta.get("corpus") else 1, 0 if (f[2] is not None or f[3][1] is not None) else 1))
    for s, d, orc, cr, lr in failures:
        wit = None
        if s.meta.get("corpus"):
            wit = "corpus/" + s.name.split(":", 1)[1]
        if wit and wit in known_open:
            seen_known.add(wit)
            continue
        # search for a concrete failing input on the implementation
        found, scn_lines, exp, act, text = search(prop, runner, s, d, orc, cr, lr, tier)
        what = []
        if d:
            what.append("correspondence stream '%s' line %d (%s) %s" % (s.name, d[1], d[0], d[4][:300] if d[4] else ""))
        if orc:
            what.append("oracle: %s" % (orc,))
        tag = "%s-%d" % ("input" if found else "tie", violations)
        path = write_replay(pid, seed, tag, scn_lines, exp, act, "; ".join(what + broke), text)
        print("VIOLATION property=%s replay=%s%s" % (pid, path, "" if found else " no-failing-input-found"))
        violations += 1
        if violations >= 5:
            break

    if broke and violations == 0:
        # a proof obligation no longer checks and no stream disagrees: still a violation, no input
        path = write_replay(pid, seed, "proof", [], None, None, "; ".join(broke))
        print("VIOLATION property=%s replay=%s no-failing-input-found" % (pid, path))
        violations += 1

    for wit, k in known_open.items():
        if wit in seen_known:
            print("KNOWN-FINDING: property=%s %s" % (pid, k["what_fails"]))
        elif not replay:
            # the witness no longer fails: say so (not an alarm)
            print("NOTE: known finding %s no longer reproduces (witness %s passes)" % (k.get("id"), wit))

    wall = time.time() - t0
    samples = []
    for s in scenarios[:3] + scenarios[-2:]:
        samples.append({"name": s.name, "lines": s.lines[:12] + (["… %d more" % (len(s.lines) - 12)] if len(s.lines) > 12 else [])})
    cov = {
        "obligations": len(obligations), "discharged": discharged,
        "checker_cmd": "cd lean && lake build BufrProps.%s Audit.%s && lake env lean Audit/%s.lean  (#print axioms)" % (pid, pid, pid),
        "trusted_base": TRUSTED_BASE + list(getattr(prop, "TRUSTED_EXTRA", [])),
        "theorems": thms,
        "evaluations": n_eval, "distinct_nontrivial": len(sigs),
        "rule": getattr(prop, "RULE", "scenarios from one PRNG; distinct = distinct output signature"),
        "samples": samples, "distribution": dist,
        "traces_validated_against_impl": n_eval - len(failures),
        "disagreements": len(failures), "known_findings_reproduced": sorted(seen_known),
        "impl_build": os.path.basename(os.path.dirname(impl)),
    }
    cov.update(cov_extra)
    if hasattr(prop, "coverage_extra"):
        cov.update(prop.coverage_extra())
    write_evidence(pid, tier, seed, cov, wall, violations, list(getattr(prop, "ASSUMPTIONS", [])))
    if out.internal:
        print("INTERNAL: " + "\n".join(out.internal))
        return 2
    print("%s %s: %d theorems (%d discharged), %d scenarios, %d distinct, %d disagreements, %.1fs" %
          (pid, tier, len(obligations), discharged, n_eval, len(sigs), len(failures), wall))
    return 1 if violations else 0

def search(prop, runner, s, d, orc, cr, lr, tier):
    """shrink the disagreement and look for an input on which the *property* fails on the
    implementation.  Returns (found, lines, expected, actual, text)."""
    lines = list(s.lines)
    has_oracle = hasattr(prop, "oracle") or hasattr(prop, "oracle2")
    if not hasattr(prop, "oracle"):
        prop.oracle = lambda scn, outs: None
    def impl_out(ls):
        r = runner.run_batch([Scenario("x", ls)], "impl", timeout=60)[0]
        return r
    def kind(msg):
        return str(msg).split(":")[0][:40]
    want_kind = kind(orc) if orc is not None else None
    def oracle_fails(ls):
        o, crash = impl_out(ls)
        if crash:
            return getattr(prop, "CRASH_IS_VIOLATION", True)
        if not has_oracle:
            return False
        sc = Scenario("x", ls, s.meta)
        m = _safe(prop.oracle, sc, o)
        if m is None and hasattr(prop, "oracle2"):
            pre = getattr(prop, "two_pass", None)
            lo = runner.run_batch([Scenario("x", pre(sc, o) if pre else ls)], "lean", timeout=60)[0]
            if lo[1] is None:
                m = _safe(prop.oracle2, sc, o, lo[0])
        return m is not None and (want_kind is None or kind(m) == want_kind)
    want_op = s.lines[d[1]].split()[0] if (d and 0 <= d[1] < len(s.lines)) else None
    def differ(ls):
        c = runner.run_batch([Scenario("x", ls)], "impl", timeout=60)[0]
        pre = getattr(prop, "two_pass", None)
        ls2 = pre(Scenario("x", ls), c[0]) if pre else ls
        l = runner.run_batch([Scenario("x", ls2)], "lean", timeout=60)[0]
        dd = compare(Scenario("x", ls), c, l, prop)
        if dd is None:
            return False
        if want_op is None or not (0 <= dd[1] < len(ls)):
            return True
        return ls[dd[1]].split()[0] == want_op and dd[0] == d[0]
    budget = 60 if tier == "quick" else 300
    # direct: property oracle (or crash) on this scenario
    if orc is not None or (cr[1] is not None and getattr(prop, "CRASH_IS_VIOLATION", True)):
        small = ddmin(lines, oracle_fails, budget)
        o, crash = impl_out(small)
        why = _safe(prop.oracle, Scenario("x", small, s.meta), o) if (has_oracle and not crash) else None
        if why is None and hasattr(prop, "oracle2") and not crash:
            pre = getattr(prop, "two_pass", None)
            sc = Scenario("x", small, s.meta)
            lo = runner.run_batch([Scenario("x", pre(sc, o) if pre else small)], "lean", timeout=60)[0]
            if lo[1] is None:
                why = _safe(prop.oracle2, sc, o, lo[0])
        return True, small, why, o[-3:] if o else None, crash or ""
    # correspondence differs but the oracle is happy on this scenario: shrink the difference,
    # then try the property's own neighbourhood generators on the implementation
    small = ddmin(lines, differ, budget)
    if hasattr(prop, "neighbourhood"):
        rng = random.Random(12345)
        for cand in prop.neighbourhood(Scenario("x", small), rng, tier):
            if oracle_fails(cand.lines):
                small2 = ddmin(cand.lines, oracle_fails, budget)
                o, crash = impl_out(small2)
                why = _safe(prop.oracle, Scenario("x", small2), o) if (has_oracle and not crash) else None
                return True, small2, why, o[-3:] if o else None, crash or ""
    c = impl_out(small)
    pre = getattr(prop, "two_pass", None)
    ls2 = pre(Scenario("x", small), c[0]) if pre else small
    l = runner.run_batch([Scenario("x", ls2)], "lean", timeout=60)[0]
    dd = compare(Scenario("x", small), c, l, prop)
    exp = {"model": dd[3]} if dd else None
    act = {"impl": dd[2]} if dd else None
    return False, small, exp, act, "shrunk disagreement; property oracle found no failing input"
