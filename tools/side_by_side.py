#!/usr/bin/env python3
"""side_by_side.py <Cxx> <file.bvp>: run one scenario file through implementation and model (with the property's
prepare/two_pass/canon) and print the lines of both, marking differences.  Developer aid, not a check."""
import sys, os, importlib
sys.path.insert(0, os.path.dirname(os.path.dirname(os.path.abspath(__file__))))
from vlib import build, engine
prop = importlib.import_module('props.' + sys.argv[1].lower())
work = '/tmp/sbs-work'; os.makedirs(work, exist_ok=True)
runner = engine.Runner(build.build_impl("san"), build.lean_exe(), work)
if hasattr(prop, 'prepare'): prop.prepare(runner, work)
scn = engine.Scenario("sbs", engine.strip_comments(open(sys.argv[2]).read()))
c = runner.run_batch([scn], "impl")[0]
pre = getattr(prop, "two_pass", None)
lscn = engine.Scenario("sbs", pre(scn, c[0]), scn.meta) if pre else scn
l = runner.run_batch([lscn], "lean")[0]
canon = getattr(prop, "canon", lambda x: x)
for i, line in enumerate(scn.lines):
    a = c[0][i] if i < len(c[0]) else "<none>"
    b = l[0][i] if i < len(l[0]) else "<none>"
    mark = "  " if canon(a) == canon(b) else "!!"
    print("%s %3d %s\n      impl : %s\n      model: %s" % (mark, i + 1, line[:200], a[:400], b[:400]))
if c[1]: print("impl crash:", c[1])
if l[1]: print("model crash:", l[1])
if os.environ.get("BVP_REFDEBUG"):
    rc, out, err = runner.run_impl(list(runner.preamble["impl"]) + ["reset"] + scn.lines)
    print("\n".join(sorted(set(l for l in err.splitlines() if l.startswith("ref ")))))
