#!/usr/bin/env python3
"""seed_intake.py <ID> <k> <dir>: confirm a seeded change delivered in <dir> (patch.diff, demo sources, build_and_run.sh,
README.md) on a fresh scratch worktree of /repo's HEAD, outside /verif:
  pristine: library's own suite passes, demonstration exits 0;
  patched : patch applies, library builds, suite still passes (12/12), demonstration exits non-zero.
Only then is it copied to seeded/<ID>/<k>/ with a meta.json saying what was run.  The worktree is removed."""
import json, os, re, shutil, subprocess, sys, tempfile

VERIF = os.path.dirname(os.path.dirname(os.path.abspath(__file__)))

def sh(cmd, **kw):
    r = subprocess.run(cmd, shell=isinstance(cmd, str), stdout=subprocess.PIPE, stderr=subprocess.STDOUT, text=True, **kw)
    return r.returncode, r.stdout

def suite(wt):
    rc, o = sh("make -k check 2>&1 | grep -E '^# (TOTAL|PASS|FAIL|ERROR)'", cwd=wt)
    return " ".join(o.split())

def main():
    pid, k, src = sys.argv[1], sys.argv[2], os.path.abspath(sys.argv[3])
    needs = sys.argv[4] if len(sys.argv) > 4 else ""
    wt = tempfile.mkdtemp(prefix="intake-%s-%s-" % (pid, k))
    os.rmdir(wt)
    ran = []
    try:
        rc, o = sh([os.path.join(VERIF, "tools", "mk_worktree.sh"), wt])
        if rc != 0:
            print("worktree failed", o); return 1
        t0 = suite(wt); ran.append("pristine: make -k check -> " + t0)
        rc0, d0 = sh(["sh", os.path.join(src, "build_and_run.sh"), wt], cwd=src, timeout=1200)
        ran.append("pristine: build_and_run.sh -> exit %d" % rc0)
        rca, oa = sh(["git", "-C", wt, "apply", os.path.join(src, "patch.diff")])
        ran.append("git apply patch.diff -> %d" % rca)
        rcb, ob = sh("make -j16 2>&1 | tail -5", cwd=wt)
        t1 = suite(wt); ran.append("patched: make -k check -> " + t1)
        rc1, d1 = sh(["sh", os.path.join(src, "build_and_run.sh"), wt], cwd=src, timeout=1200)
        ran.append("patched: build_and_run.sh -> exit %d" % rc1)
        rcf, files = sh(["git", "-C", wt, "diff", "--name-only"])
        ok = ("PASS: 12" in t0 and "PASS: 12" in t1 and "FAIL: 0" in t1 and rc0 == 0 and rc1 != 0 and rca == 0)
        print("\n".join(ran)); print("CONFIRMED" if ok else "NOT CONFIRMED")
        if not ok:
            print(d0[-1500:]); print(d1[-1500:]); print(oa)
            return 1
        dst = os.path.join(VERIF, "seeded", pid, k)
        os.makedirs(dst, exist_ok=True)
        for f in os.listdir(src):
            p = os.path.join(src, f)
            if os.path.isfile(p) and os.path.getsize(p) < 200000 and not f.endswith((".o", ".a")) and os.access(p, os.R_OK):
                if f in ("patch.diff", "README.md", "build_and_run.sh") or f.endswith((".c", ".h", ".sh")):
                    shutil.copy(p, os.path.join(dst, f))
        open(os.path.join(dst, "out.pristine"), "w").write(d0[-6000:])
        open(os.path.join(dst, "out.patched"), "w").write(d1[-6000:])
        readme = open(os.path.join(src, "README.md")).read() if os.path.exists(os.path.join(src, "README.md")) else ""
        meta = {"property": pid, "id": "%s-seed-%s" % (pid, k), "files": files.split(), "confirmed": True,
                "needs_to_manifest": needs, "ran": ran, "summary": readme.splitlines()[:14], "results": {}, "caught_by": []}
        json.dump(meta, open(os.path.join(dst, "meta.json"), "w"), indent=1)
        return 0
    finally:
        sh(["git", "-C", "/repo", "worktree", "remove", "--force", wt])
        shutil.rmtree(wt, ignore_errors=True)
        sh(["git", "-C", "/repo", "worktree", "prune"])

if __name__ == "__main__":
    sys.exit(main())
