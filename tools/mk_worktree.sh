#!/bin/sh
# mk_worktree.sh <dir>: a scratch git worktree of /repo's HEAD under <dir>, configured and built in-tree
# (the autotools products are untracked in /repo, so they are copied over, then configure && make run again).
# Remove with: git -C /repo worktree remove --force <dir>
set -e
d=$1
git -C /repo worktree add --detach "$d" HEAD >/dev/null 2>&1
rsync -a --ignore-existing --exclude .git --exclude '*.o' --exclude '*.lo' --exclude '*.la' --exclude '.libs' --exclude '.deps' \
      --exclude '*.log' --exclude '*.trs' --exclude config.status --exclude config.h --exclude Makefile --exclude libtool --exclude stamp-h1 /repo/ "$d"/
cd "$d"
./configure >/dev/null 2>&1
make -j16 >/dev/null 2>&1
echo "built $d"
