#!/usr/bin/env python3
"""seed_matrix.py [--checks own|all|C01,C02] [-j N] [--tier quick] [--seed K] [seeds...]

Runs registered checks against the seeded changes kept under seeded/<ID>/<k>/ and records the outcome
in each meta.json ("results", "caught_by", "matrix_commit").  For every seeded change: a scratch git
worktree of /repo's HEAD is made under /tmp, patch.diff is applied there, a scratch copy of /verif
(with its build output) is pointed at it through VERIF_REPO, and the checks run in that copy, so
neither /repo nor /verif's evidence is touched.  Scratch directories are removed afterwards.

A seeded change is `caught` by a check when the check exits 1 and prints a VIOLATION line.
"""
import argparse, glob, json, os, re, shutil, subprocess, sys, tempfile
from concurrent.futures import ThreadPoolExecutor

VERIF = os.path.dirname(os.path.dirname(os.path.abspath(__file__)))
REPO = "/repo"

def sh(cmd, **kw):
    r = subprocess.run(cmd, stdout=subprocess.PIPE, stderr=subprocess.STDOUT, text=True, **kw)
    return r.returncode, r.stdout

def all_checks():
    return [c["property_id"] for c in json.load(open(os.path.join(VERIF, "MANIFEST.json")))["checks"]]

def run_seed(sd, checks, tier, seed):
    meta_p = os.path.join(sd, "meta.json")
    meta = json.load(open(meta_p))
    own = meta["property"]
    todo = [own] if checks == "own" else (all_checks() if checks == "all" else checks.split(","))
    tmp = tempfile.mkdtemp(prefix="vm-")
    wt = os.path.join(tmp, "repo")
    vf = os.path.join(tmp, "verif")
    res = {}
    try:
        rc, o = sh(["git", "-C", REPO, "worktree", "add", "--detach", wt, "HEAD"])
        if rc != 0:
            return sd, {"error": "worktree: " + o[-300:]}
        rc, o = sh(["git", "-C", wt, "apply", os.path.join(sd, "patch.diff")])
        if rc != 0:
            rc, o = sh(["git", "-C", wt, "apply", "-3", os.path.join(sd, "patch.diff")])
        if rc != 0:
            return sd, {"error": "patch does not apply: " + o[-300:]}
        sh(["rsync", "-a", "--exclude", ".git", "--exclude", "replays", VERIF + "/", vf + "/"])
        env = dict(os.environ, VERIF_REPO=wt, VERIF_SEED=str(seed))
        for c in todo:
            rc, o = sh([sys.executable, "check.py", c, "--tier", tier], cwd=vf, env=env)
            vio = [l for l in o.splitlines() if l.startswith("VIOLATION")]
            summ = [l for l in o.splitlines() if l.strip()][-1:] or [""]
            res[c] = {"exit": rc, "violations": len(vio), "first": vio[0] if vio else "", "summary": summ[0][:300]}
            if vio:
                m = re.search(r"replay=(\S+)", vio[0])
                if m and os.path.exists(m.group(1)):
                    res[c]["replay_head"] = open(m.group(1)).read()[:1500]
    finally:
        sh(["git", "-C", REPO, "worktree", "remove", "--force", wt])
        shutil.rmtree(tmp, ignore_errors=True)
        sh(["git", "-C", REPO, "worktree", "prune"])
    return sd, res

def main():
    ap = argparse.ArgumentParser()
    ap.add_argument("seeds", nargs="*")
    ap.add_argument("--checks", default="own")
    ap.add_argument("--tier", default="quick")
    ap.add_argument("--seed", type=int, default=1)
    ap.add_argument("-j", type=int, default=3)
    a = ap.parse_args()
    sds = [os.path.join(VERIF, "seeded", s) for s in a.seeds] if a.seeds else \
          sorted(os.path.dirname(p) for p in glob.glob(os.path.join(VERIF, "seeded", "*", "*", "meta.json")))
    _, head = sh(["git", "-C", VERIF, "rev-parse", "--short", "HEAD"])
    with ThreadPoolExecutor(max_workers=a.j) as ex:
        for sd, res in ex.map(lambda s: run_seed(s, a.checks, a.tier, a.seed), sds):
            meta_p = os.path.join(sd, "meta.json")
            meta = json.load(open(meta_p))
            rel = os.path.relpath(sd, os.path.join(VERIF, "seeded"))
            if "error" in res:
                print("%s ERROR %s" % (rel, res["error"]))
                continue
            results = meta.get("results", {})
            for c, r in res.items():
                r["verif_commit"] = head.strip()
                results[c] = r
            meta["results"] = results
            meta["caught_by"] = sorted(c for c, r in results.items() if r.get("exit") == 1 and r.get("violations", 0) > 0)
            json.dump(meta, open(meta_p, "w"), indent=1)
            own = meta["property"]
            print("%s own=%s  %s" % (rel, "caught" if own in meta["caught_by"] else "MISSED",
                                     " ".join("%s:%s" % (c, "C" if r["violations"] else ("E%d" % r["exit"] if r["exit"] else "-")) for c, r in sorted(res.items()))))
            sys.stdout.flush()

if __name__ == "__main__":
    main()
