#!/bin/sh
# sweep.sh <tier> <seeds...>: run every claimed check at the given seeds; print one line per run; exit 1 if any run
# exits non-zero or prints a VIOLATION (used to look for false alarms on the unchanged tree)
tier=$1; shift
cd "$(dirname "$0")/.."
rc=0
for seed in "$@"; do
  for id in $(python3 -c "import json;print(' '.join(c['property_id'] for c in json.load(open('MANIFEST.json'))['checks']))"); do
    out=$(VERIF_SEED=$seed python3 check.py $id --tier $tier 2>&1); e=$?
    v=$(echo "$out" | grep -c '^VIOLATION')
    echo "seed=$seed $id exit=$e violations=$v :: $(echo "$out" | tail -1)"
    if [ $e -ne 0 ] || [ $v -ne 0 ]; then rc=1; echo "$out" | grep '^VIOLATION' | head -3; fi
  done
done
exit $rc
