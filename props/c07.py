"""C07 — re-encoding a decoded message is stable: decode-encode is idempotent."""
from vlib.engine import Scenario, run_all
from gen import regs, datasets, templates
from props.c10 import parse_nodes
from props import c01, c09

ID = "C07"
THEOREMS = ["Bufr.C07.C07_code_stable", "Bufr.C07.C07_numeric_stable", "Bufr.C07.C07_characters_stable", "Bufr.C07.C07_element_stable", "Bufr.C07.C07_subset_stable", "Bufr.C07.C07_skipped_no_bits"]
RULE = ("messages of two kinds: (own) produced by the library's encoder from the C01/C02 dataset space, compressed and "
        "not; (foreign) the same datasets re-encoded by the reference encoder with non-minimal increment widths, other "
        "local reference values, explicit increments for constant columns, (de)compression; each is decoded, re-encoded "
        "with the same compression choice (m'), decoded and re-encoded again (m''); distinct = distinct (kind, compressed?, "
        "element kinds and width classes)")
ASSUMPTIONS = c01.ASSUMPTIONS + ["element widths 1..64 bits after operators, 32 for scaled numerics (the property's own scope)"]
P = c01.P
prepare = c01.prepare

def two_pass(scn, c_out):
    """the model decodes the bytes the *implementation* produced (`ds.decodelast`, `ds.decodemsg @`)"""
    lines = c01.two_pass(scn, c_out)
    last = None
    for i, l in enumerate(lines):
        if l.startswith("ds.msg ") and i < len(c_out):
            last = c_out[i] if all(ch in "0123456789abcdef" for ch in c_out[i]) and c_out[i] else None
        elif l == "ds.decodemsg @" and last:
            lines[i] = "ds.decodemsg " + last
    return lines

FORCED = templates.OPERATOR_KINDS + ["203", "203", "204"]

def _tail(nsub, comp):
    ls = ["ds.decodelast 1 0 0"]
    for k in range(nsub):
        ls += ["dd.list %d" % k, "dd.vals %d" % k]
    ls += ["dd.tocur", "ds.encode %d" % comp, "ds.decodelast 1 0 0"]
    for k in range(nsub):
        ls += ["dd.list %d" % k, "dd.vals %d" % k]
    ls += ["dd.tocur", "ds.encode %d" % comp]
    return ls

EDGE = [0, 1, 99, 100, 101, 127, 128, 254, 255]

def _hdr_keys(rng, ed):
    def oct_(): return rng.choice(EDGE + [rng.randrange(256)] * 6)
    year = rng.choice([0, 1, 99, 100, 101, 1900, 1999, 2000, 2001, 2024, 2100, 2101, rng.randrange(1, 3000)])
    centre = rng.choice([0, 7, 54, 255, 256, 65535, rng.randrange(65536)]) if ed != 3 else oct_()
    sub = rng.choice([0, 3, 255, 256, 32767, rng.randrange(32768)]) if ed >= 4 else oct_()
    return ("mt=%d centre=%d sub=%d upd=%d type=%d isub=%d lsub=%d mver=%d lver=%d year=%d month=%d day=%d hour=%d minute=%d second=%d flag=0"
            % (0, centre, sub, oct_(), oct_(), oct_(), oct_(), rng.choice([13, 17, 19, 35, oct_()]), oct_(), year,
               rng.choice([1, 2, 12, oct_()]), rng.choice([1, 28, 29, 31, oct_()]), rng.choice([0, 23, oct_()]),
               rng.choice([0, 59, oct_()]), rng.choice([0, 59, oct_()])))

def _msg_round(nsub, comp):
    ls = []
    for k in range(nsub):
        ls += ["dd.list %d" % k, "dd.vals %d" % k]
    return ls + ["ds.hdr d", "dd.tocur", "ds.msg s %d" % comp]

def mutate_s1(msg, rng):
    """another legal Section 1 for the same message: any octet of Section 1 except its length and the flag octet
    (optional section), drawn with a bias to the corners (0, 99/100/101, 255)"""
    b = bytearray(msg)
    i0 = bytes(b).find(b"BUFR")
    if i0 < 0 or len(b) < i0 + 12:
        return None
    ed = b[i0 + 7]
    if ed < 2:
        return None
    s1 = i0 + 8
    n = (b[s1] << 16) | (b[s1 + 1] << 8) | b[s1 + 2]
    flagidx = 9 if ed >= 4 else 7
    idx = [k for k in range(4, n) if k != flagidx]       # octet 4 (index 3) is the master table: kept 0 (WMO)
    for k in rng.sample(idx, rng.choice([1, 2, 3, len(idx)])):
        b[s1 + k] = rng.choice(EDGE + [rng.randrange(256)] * 4)
        if ed <= 3 and k == 12:
            b[s1 + k] = rng.choice([0, 1, 99, 100, 100, rng.randrange(101)])   # year of the century: 1..100 (0 tolerated)
    return bytes(b)

def msg_scenarios(rng, tier, runner):
    """whole messages: Section 1, header string and additional octets ride along with the data through
    decode -> encode -> decode -> encode; own messages and the same messages under another legal Section 1"""
    n = 120 if tier == "quick" else 2500
    own, stage = [], []
    for i in range(n):
        name = rng.choice(["cur", "loc", "syn", "v13"])
        B, D = P[name]
        nsub = rng.choice([1, 2, 3])
        comp = rng.choice([0, 1])
        ed = rng.choice([2, 3, 3, 4, 4])
        ls, meta = datasets.build_lines(rng, name, B, D, nsub=nsub, same_structure=(comp == 1), edition=ed, ops=False,
                                        depth=rng.choice([0, 1, 2]))
        ls = [l for l in ls if not l.startswith("ss.list") and not l.startswith("ss.vals")]
        ls += ["ds.invalid", "ds.hdr s " + _hdr_keys(rng, ed)]
        if rng.random() < 0.3:
            ls.append("ds.hstr s " + bytes(rng.choice([b"IUSN01 CWAO 121200\r\r\n", b"AB", b"\x01\r\r\n123\r\r\n"])).hex())
        if rng.random() < 0.3:
            # lengths the message reader can leave behind: up to edition 3 one octet beyond the 17 is the fill of the
            # default length 18, not data
            ls.append("ds.s1data s " + bytes(rng.randrange(256) for _ in range(rng.choice([1, 2, 3, 6] if ed >= 4 else [2, 3, 6]))).hex())
        keep = rng.choice([comp, comp, -1])
        ls.append("ds.msg s %d" % comp)
        meta.update(kind="msg-own", comp=comp, ed=ed)
        chain = []
        for _ in range(2):
            chain += ["ds.decodemsg @"] + _msg_round(nsub, keep)
        own.append(Scenario("msg-own-%d" % i, ls + chain, meta))
        stage.append(Scenario("msg-b-%d" % i, ls, dict(meta, keep=keep)))
    out = list(own)
    res = run_all(runner, stage, "impl")
    for s, (o, crash) in zip(stage, res):
        if crash or len(o) != len(s.lines):
            continue
        h = o[-1]
        if not h or any(ch not in "0123456789abcdef" for ch in h):
            continue
        inv = o[[i for i, l in enumerate(s.lines) if l == "ds.invalid"][0]]
        if inv != "0":
            continue
        m2 = mutate_s1(bytes.fromhex(h), rng)
        if m2 is None:
            continue
        nsub, keep = s.meta["nsub"], s.meta["keep"]
        ls = ["T.use " + s.meta["tables"]]
        for _ in range(3):
            ls += ["ds.decodemsg " + (m2.hex() if len(ls) == 1 else "@")] + _msg_round(nsub, keep)
        out.append(Scenario("msg-for-" + s.name, ls, dict(s.meta, kind="msg-foreign")))
    return out

def sample_scenarios(rng, tier):
    """the repository's sample messages (Test/BUFR: data present bit-maps and quality operators 2 22 - 2 37, 2 06/2 07,
    local descriptors, compressed data): decode, re-encode with the original compression, three rounds; judged by
    the property's oracle and, since the bit-map operators are modelled (BufrModel/Bitmap.lean), tied to the model
    line by line."""
    import glob, os
    from vlib import tables
    out = []
    cap = 12000 if tier == "quick" else 200000
    for f in sorted(glob.glob(os.path.join(tables.REPO, "Test/BUFR/*.bufr"))):
        m = open(f, "rb").read()
        i0 = m.find(b"BUFR")
        if i0 < 0 or len(m) > cap:
            continue
        # every message of the file
        pos, k = i0, 0
        while 0 <= pos < len(m) and k < 4:
            ln = (m[pos + 4] << 16) | (m[pos + 5] << 8) | m[pos + 6] if pos + 8 <= len(m) else 0
            if ln < 16 or pos + ln > len(m) or m[pos + ln - 4:pos + ln] != b"7777":
                break
            one = m[pos:pos + ln]
            for tb in ("cur", "loc"):
                ls = ["T.use " + tb]
                for r in range(3):
                    ls += ["ds.decodemsg " + (one.hex() if r == 0 else "@"), "dd.list 0", "dd.vals 0", "dd.list 1", "dd.vals 1",
                           "ds.hdr d", "dd.tocur", "ds.msg s -1"]
                out.append(Scenario("sample-%s-%d-%s" % (os.path.basename(f)[:-5], k, tb), ls,
                                    {"kind": "msg-sample", "tables": tb, "views": 2}))
            pos = m.find(b"BUFR", pos + ln); k += 1
    return out

def wide_scenarios(rng, n):
    """unscaled integer elements of 33-64 bits (synthetic local table 0 62 001-005) holding patterns with the top bit
    set, which the library keeps in an int64 as negative numbers: 2^63 + small, 2^64 - 2, 2^(w-1) ..., in two or
    three subsets, compressed and not, through the decode/encode chain.  (`ss.fill` keeps clear of these patterns;
    added after a seeded change turned negative int64 values into "missing" in the compressed writer only.)"""
    out = []
    B, D = P["syn"]
    wide = [(62001, 33), (62002, 40), (62003, 48), (62004, 63), (62005, 64)]
    others = [d for d in sorted(B) if d // 1000 == 63][:40]
    for i in range(n):
        k = rng.choice([1, 2, 2, 3])
        els = [rng.choice(wide) for _ in range(k)]
        if i % 2 == 0 and (62005, 64) not in els:
            els[0] = (62005, 64)
        t = []
        pos = []
        for d, w in els:
            if rng.random() < 0.5:
                t.append(rng.choice(others))
            pos.append((len(t), w)); t.append(d)
        nsub = rng.choice([2, 2, 3])
        comp = rng.choice([0, 1, 1])
        ls = ["T.use syn", "tm.new %d %s" % (rng.choice([3, 4, 4]), " ".join("%06d" % d for d in t))]
        for s_ in range(nsub):
            ls += ["ss.new", "ss.expand %d" % s_, "ss.fill %d %d %d" % (s_, rng.randrange(1, 2 ** 31), rng.choice([0, 1, 1]))]
            for p_, w in pos:
                top = 1 << (w - 1)
                raw = rng.choice([top, top + rng.randrange(1, 1000), (1 << w) - 2, top | rng.randrange(top), rng.randrange(top), (1 << w) - 1])
                ls.append("ss.setraw %d %d %d" % (s_, p_, raw))
        for s_ in range(nsub):
            ls += ["ss.list %d" % s_, "ss.vals %d" % s_]
        ls += ["ds.invalid", "ds.encode %d" % comp]
        out.append(Scenario("wide-%d" % i, ls + _tail(nsub, comp),
                            {"tables": "syn", "ed": 4, "template": t, "nsub": nsub, "comp": comp, "kind": "own"}))
    return out

def bitmap_api_scenarios(rng, n):
    """datasets with a data present bit-map built through the API: template, subsets, the bits of the bit-map set,
    the subset expanded again (the marker operators take the encoding — and a copy of the value — of the elements
    flagged present), own values given to the markers, then the decode/encode chain.  Tied since the bit-map head of
    bufr_apply_tables2node is modelled on the dataset-building side as well (createDatasubsetB/expandDatasubsetB)."""
    from gen import bitmap as gbm
    out = []
    B, D = P["cur"]
    pool = [d for d in gbm.ELEMENTS if d in B]
    for i in range(n):
        k = rng.choice([1, 2, 3, 4])
        els = [rng.choice(pool) for _ in range(k)]
        op, marker, info = rng.choice(gbm.OPS)
        info = [d for d in info if d in B][:rng.choice([0, 1, 2])]
        nsub = rng.choice([1, 2, 2, 3])
        comp = rng.choice([0, 1])
        same = rng.random() < 0.6
        bits0 = [rng.choice([0, 0, 1]) for _ in range(k)]
        nmark = rng.choice([bits0.count(0), bits0.count(0), k, max(0, bits0.count(0) - 1)])
        t = els + [op, 236000, 101000 + k, 31031] + info + ([101000 + nmark, marker] if nmark else [])
        ls = ["T.use cur", "tm.new 4 " + " ".join("%06d" % d for d in t)]
        first_bit = k + 3
        first_marker = k + 3 + k + len(info) + 1
        for s_ in range(nsub):
            bits = bits0 if same else [rng.choice([0, 0, 1]) for _ in range(k)]
            ls += ["ss.new", "ss.expand %d" % s_, "ss.fill %d %d %d" % (s_, rng.randrange(1, 2 ** 31), rng.choice([0, 1, 1]))]
            for j, b in enumerate(bits):
                ls.append("ss.seti %d %d %d" % (s_, first_bit + j, b))
            ls.append("ss.expand %d" % s_)
            for j in range(nmark):
                if rng.random() < 0.8:
                    ls.append("ss.setraw %d %d %d" % (s_, first_marker + j, rng.randrange(0, 64)))
        for s_ in range(nsub):
            ls += ["ss.list %d" % s_, "ss.vals %d" % s_]
        ls += ["ds.invalid", "ds.encode %d" % comp]
        out.append(Scenario("bmapi-%d" % i, ls + _tail(nsub, comp),
                            {"tables": "cur", "ed": 4, "template": t, "nsub": nsub, "comp": comp, "kind": "own-bitmap"}))
    return out

def scenarios(rng, tier, runner):
    out = msg_scenarios(rng, tier, runner) + sample_scenarios(rng, tier)
    n = 450 if tier == "quick" else 8000
    stage1 = []
    for i in range(n):
        name = rng.choice(["cur", "loc", "syn", "syn", "v13"])
        B, D = P[name]
        comp = rng.choice([0, 1, 1])
        nsub = rng.choice([1, 2, 3, 4])
        # every fourth dataset is built around one operator group of a fixed kind (cycling through the kinds) and is
        # always handed to the reference encoder, which may switch the compression: a foreign message in the
        # layout the implementation's encoder did NOT produce, re-encoded by the path that did not write it
        forced = None
        if i % 3 == 1:
            forced = FORCED[(i // 3) % len(FORCED)]
            nsub = rng.choice([2, 3])
            comp = (i // (3 * len(FORCED))) % 2   # each kind first written by each of the two encoder paths
        while True:
            tmpl = None
            if forced:
                grp = templates.gen_operator_group(rng, B, D, kind=forced)
                tmpl = [templates.pick_element(rng, B) for _ in range(rng.choice([0, 1]))] + grp + [templates.pick_element(rng, B)]
                if rng.random() < 0.4:
                    # the operator left in force at the end of the subset, and elements it would govern at the very
                    # start of the next one: every subset starts from a clean operator state
                    while grp and regs.F(grp[-1]) == 2 and regs.Y(grp[-1]) == 0:
                        grp = grp[:-1]
                    lead = [d for d in grp if regs.F(d) == 0 and regs.X(d) != 31][:2]
                    tmpl = lead + grp
            ls, meta = datasets.build_lines(rng, name, B, D, nsub=nsub, same_structure=(forced is not None) or (comp == 1 and rng.random() < 0.85),
                                            edition=rng.choice([2, 3, 4, 4]), template=tmpl,
                                            same_fill=(forced == "203"))
            tm = next(l for l in ls if l.startswith("tm.new")).split()
            # an operator the edition does not define is read differently by the (strict) dataset builder and
            # the (default, warning) decoder: not a well-formed message, kept out of this stream
            def flat(ds, depth=0):
                for d in ds:
                    if regs.F(d) == 3 and d in D and depth < 12:
                        yield from flat(D[d], depth + 1)
                    else:
                        yield d
            ed = int(tm[1])
            if all(regs.defined_in(ed, regs.X(d)) is not False for d in flat([int(d) for d in tm[2:]]) if regs.F(d) == 2):
                break
        ls += ["ds.invalid", "ds.encode %d" % comp]
        meta["comp"] = comp
        meta["kind"] = "own"
        s = Scenario("own-%d" % i, ls + _tail(nsub, comp), meta)
        out.append(s)
        if i % 3 == 0 or forced:
            stage1.append(Scenario("b-%d" % i, ls, dict(meta)))
    out += wide_scenarios(rng, 40 if tier == "quick" else 600)
    out += bitmap_api_scenarios(rng, 60 if tier == "quick" else 1500)
    # foreign messages: reference re-encoding of what the implementation built
    c1 = run_all(runner, stage1, "impl")
    stage2, keep = [], []
    for s, (o, crash) in zip(stage1, c1):
        if crash or len(o) != len(s.lines) or o[-2] != "0":
            continue
        enc = o[-1].split()
        if len(enc) != 3:
            continue
        lists = datasets.subset_views(s, o, "ss.list")
        B = P[s.meta["tables"]][0]
        ok = True
        for k in lists:
            if lists[k] in ("none", "-"):
                ok = False; break
            its = [nd["desc"] for nd in c09.items_of(parse_nodes(lists[k]))]
            if c09.in_scope(s.meta["ed"], its) or any(regs.F(d) == 0 and d not in B for d in its):
                ok = False
        if not ok:
            continue
        tm = next(l for l in s.lines if l.startswith("tm.new")).split()
        v = rng.randrange(1, 2 ** 31)
        stage2.append(Scenario(s.name, ["T.use " + s.meta["tables"],
                                        "spec.reencode %s %s %s %s %s %d" % (tm[1], enc[0], enc[1], ",".join(tm[2:]), enc[2], v)]))
        keep.append((s, tm, enc))
    l2 = run_all(runner, stage2, "lean")
    for (s, tm, enc), (o2, crash) in zip(keep, l2):
        if crash or len(o2) < 2:
            continue
        f = o2[1].split()
        if len(f) != 2:
            continue
        nsub = int(enc[1])
        comp = 1 if int(f[0]) & 64 else 0
        ls = ["T.use " + s.meta["tables"], " ".join(tm), "ds.decode %s 1 %s %s 0 0 %s %s" % (tm[1], f[0], enc[1], ",".join(tm[2:]), f[1])]
        for k in range(nsub):
            ls += ["dd.list %d" % k, "dd.vals %d" % k]
        ls += ["dd.tocur", "ds.encode %d" % comp] + _tail(nsub, comp)
        meta = dict(s.meta); meta["kind"] = "foreign"; meta["comp"] = comp
        out.append(Scenario("for-" + s.name, ls, meta))
    return out

def compare(scn, lscn, cr, lr):
    if scn.meta.get("nomodel"):
        # outside the model (bit-map operators): only the implementation's own outcome counts; the oracle judges it
        from vlib.engine import compare as cmp0
        return cmp0(scn, cr, (list(cr[0]), None), None)
    # a decode flagged invalid leaves the field that was cut short undefined (not modelled): what is encoded from such
    # a dataset, and everything decoded from that encoding, is outside the tie (and outside the property: m must
    # decode valid)
    c_out, l_out = list(cr[0]), list(lr[0])
    bad = False
    for i, l in enumerate(scn.lines):
        if i >= len(c_out) or i >= len(l_out):
            break
        if l.startswith("tm.new"):
            bad = False
        elif bad and l.split()[0] in ("ds.msg", "ds.encode", "ds.decodemsg", "ds.decodelast", "ds.decode", "ds.hdr", "dd.list", "dd.vals", "dd.tocur"):
            l_out[i] = c_out[i]
        if l.startswith("ds.decode"):
            f = c_out[i].split()
            if f[:1] == ["read"]: f = f[2:]
            bad = bad or (len(f) >= 2 and f[0] == "ok" and f[1] == "1")
    return c01.compare(scn, lscn, (c_out, cr[1]), (l_out, lr[1]))

def oracle(scn, outs):
    # the chain  [E0 =] m -decode-> D0 -encode-> m1 -decode-> D1 -encode-> m2 [-decode-> D2 -encode-> m3]:
    # every decode after the first equals the first decode, every encode after m1 equals m1, and for a message the
    # library's own encoder produced (kind own: the scenario starts with the encode of a built dataset) m1 = m
    if len(outs) != len(scn.lines):
        return None
    lines = scn.lines
    own = scn.meta.get("kind") in ("own", "own-bitmap", "msg-own")     # msg-foreign and msg-sample: m is somebody else's message
    whole = scn.meta.get("kind", "").startswith("msg-")
    decs = [i for i, l in enumerate(lines) if l.startswith("ds.decode")]
    if not decs:
        return None
    is_enc = (lambda l: l.startswith("ds.msg ")) if whole else (lambda l: l.startswith("ds.encode"))
    encs_before = [outs[i].split() for i, l in enumerate(lines[:decs[0]]) if is_enc(l)]
    encs = [outs[i].split() for i, l in enumerate(lines) if is_enc(l) and i > decs[0]]
    if len(decs) != (2 if own else 3) or len(encs) != len(decs) or (own and not encs_before):
        return None     # a shrunk scenario that no longer has the whole chain
    m = encs_before[-1] if own else None
    if whole:
        if any(len(e) != 1 or any(ch not in "0123456789abcdef" for ch in e[0]) for e in encs + ([m] if own else [])):
            return None
    elif any(len(e) != 3 for e in encs + ([m] if own else [])):
        return None
    def dec_out(i):
        f = outs[i].split()
        return f[2:] if f[:1] == ["read"] else f       # `ds.decodemsg` prefixes `read <octets>`
    if dec_out(decs[0])[:2] != ["ok", "0"]:
        return None     # scope: m itself decodes valid (that a well-formed foreign message does is C04's business)
    nsub = int(dec_out(decs[0])[2])
    views = []
    for j, d in enumerate(decs):
        end = decs[j + 1] if j + 1 < len(decs) else len(lines)
        ls, vs = {}, {}
        for i in range(d + 1, end):
            t = lines[i].split()
            if t[0] == "dd.list": ls[int(t[1])] = outs[i]
            if t[0] == "dd.vals": vs[int(t[1])] = outs[i]
            if lines[i] == "ds.hdr d": vs["header"] = outs[i]       # Section 1, flags and header string of the dataset
        views.append((ls, vs))
    l1, v1 = views[0]
    ed = scn.meta.get("ed", 4)
    want = set(range(min(nsub, scn.meta["views"]))) if "views" in scn.meta else set(range(nsub))
    sample = scn.meta.get("kind") == "msg-sample"
    if sample:
        # a subset the message does not have answers `none`: dropped from the views
        for ls_, vs_ in views:
            for k in [k for k in ls_ if k not in want]: del ls_[k]
            for k in [k for k in vs_ if k != "header" and k not in want]: del vs_[k]
    if set(l1) != want or set(v1) - {"header"} != want or (whole and "header" not in v1):
        return None
    for k in l1:
        if l1[k] in ("none", "-"):
            return None
        if not sample and c09.in_scope(ed, [nd["desc"] for nd in c09.items_of(parse_nodes(l1[k]))]):
            return None     # operators outside FM 94 for this edition: not a well-formed message
        for nd, v in zip(parse_nodes(l1[k]), v1[k].split()):
            if nd["flags"] & 4: continue
            # scope: widths 1..64, scaled numerics <= 32
            if nd["type"] in (4, 6, 7) and not (1 <= nd["nbits"] <= 64): return None
            if nd["type"] == 4 and nd["nbits"] > 32 and (nd["scale"] != 0 or nd["ref"] != 0): return None
            # a new reference value of -1 is read as the missing sentinel (known finding of C09, its witness is there)
            if nd["type"] == 8 and v == "i:-1": return None
    for j in range(1, len(decs)):
        name = "m" + "'" * j
        if dec_out(decs[j])[:2] != ["ok", "0"]:
            return "the re-encoded message %s decodes as invalid or is refused: %s" % (name, outs[decs[j]])
        l2, v2 = views[j]
        if set(l2) != want or set(v2) != set(v1):
            return None
        if v1.get("header") != v2.get("header"):
            return "Section 1 / flags / header string of decode(%s) differ from those of decode(m): %s vs %s" % (name, v2.get("header"), v1.get("header"))
        if l1 != l2 or v1 != v2:
            k = next(k for k in sorted(l1) if l1.get(k) != l2.get(k) or v1.get(k) != v2.get(k))
            return "subset %d of decode(%s) differs from decode(m)" % (k, name)
    for j in range(1, len(encs)):
        if encs[j] != encs[0]:
            return "encoding decode(m%s) again does not reproduce m' byte for byte" % ("'" * j)
    if own and encs[0] != m:
        return "re-encoding the decoded own message does not reproduce it byte for byte"
    return None

def signature(scn, outs):
    sig = set()
    for l, o in zip(scn.lines, outs):
        if l.startswith("dd.list") and o not in ("none", "-"):
            for n in parse_nodes(o):
                if n["flags"] & 4: continue
                sig.add((scn.meta.get("kind"), scn.meta.get("comp"), n["type"], min(n["nbits"], 40) // 4, n["af"] > 0))
    return sig

def classify(scn, outs):
    return ["kind=%s" % scn.meta.get("kind"), "comp=%s" % scn.meta.get("comp")]
