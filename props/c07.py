"""C07 — re-encoding a decoded message is stable: decode-encode is idempotent."""
from vlib.engine import Scenario, run_all
from gen import regs, datasets
from props.c10 import parse_nodes
from props import c01, c09

ID = "C07"
THEOREMS = ["Bufr.C07.C07_code_stable", "Bufr.C07.C07_numeric_stable", "Bufr.C07.C07_characters_stable", "Bufr.C07.C07_element_stable", "Bufr.C07.C07_subset_stable", "Bufr.C07.C07_skipped_no_bits"]
RULE = ("messages of two kinds: (own) produced by the library's encoder from the C01/C02 dataset space, compressed and "
        "not; (foreign) the same datasets re-encoded by the reference encoder with non-minimal increment widths, other "
        "local reference values, explicit increments for constant columns, (de)compression; each is decoded, re-encoded "
        "with the same compression choice (m'), decoded and re-encoded again (m''); distinct = distinct (kind, compressed?, "
        "element kinds and width classes)")
ASSUMPTIONS = c01.ASSUMPTIONS + ["element widths 1..64 bits after operators, 32 for scaled numerics (the property's own scope)"]
P = c01.P
prepare = c01.prepare
two_pass = c01.two_pass

def _tail(nsub, comp):
    ls = ["ds.decodelast 1 0 0"]
    for k in range(nsub):
        ls += ["dd.list %d" % k, "dd.vals %d" % k]
    ls += ["dd.tocur", "ds.encode %d" % comp, "ds.decodelast 1 0 0"]
    for k in range(nsub):
        ls += ["dd.list %d" % k, "dd.vals %d" % k]
    ls += ["dd.tocur", "ds.encode %d" % comp]
    return ls

def scenarios(rng, tier, runner):
    out = []
    n = 450 if tier == "quick" else 8000
    stage1 = []
    for i in range(n):
        name = rng.choice(["cur", "loc", "syn", "syn", "v13"])
        B, D = P[name]
        comp = rng.choice([0, 1, 1])
        nsub = rng.choice([1, 2, 3, 4])
        while True:
            ls, meta = datasets.build_lines(rng, name, B, D, nsub=nsub, same_structure=(comp == 1 and rng.random() < 0.85),
                                            edition=rng.choice([2, 3, 4, 4]))
            tm = next(l for l in ls if l.startswith("tm.new")).split()
            # an operator the edition does not define is read differently by the (strict) dataset builder and
            # the (default, warning) decoder: not a well-formed message, kept out of this stream
            def flat(ds, depth=0):
                for d in ds:
                    if regs.F(d) == 3 and d in D and depth < 12:
                        yield from flat(D[d], depth + 1)
                    else:
                        yield d
            ed = int(tm[1])
            if all(regs.defined_in(ed, regs.X(d)) is not False for d in flat([int(d) for d in tm[2:]]) if regs.F(d) == 2):
                break
        ls += ["ds.invalid", "ds.encode %d" % comp]
        meta["comp"] = comp
        meta["kind"] = "own"
        s = Scenario("own-%d" % i, ls + _tail(nsub, comp), meta)
        out.append(s)
        if i % 3 == 0:
            stage1.append(Scenario("b-%d" % i, ls, dict(meta)))
    # foreign messages: reference re-encoding of what the implementation built
    c1 = run_all(runner, stage1, "impl")
    stage2, keep = [], []
    for s, (o, crash) in zip(stage1, c1):
        if crash or len(o) != len(s.lines) or o[-2] != "0":
            continue
        enc = o[-1].split()
        if len(enc) != 3:
            continue
        lists = datasets.subset_views(s, o, "ss.list")
        B = P[s.meta["tables"]][0]
        ok = True
        for k in lists:
            if lists[k] in ("none", "-"):
                ok = False; break
            its = [nd["desc"] for nd in c09.items_of(parse_nodes(lists[k]))]
            if c09.in_scope(s.meta["ed"], its) or any(regs.F(d) == 0 and d not in B for d in its):
                ok = False
        if not ok:
            continue
        tm = next(l for l in s.lines if l.startswith("tm.new")).split()
        v = rng.randrange(1, 2 ** 31)
        stage2.append(Scenario(s.name, ["T.use " + s.meta["tables"],
                                        "spec.reencode %s %s %s %s %s %d" % (tm[1], enc[0], enc[1], ",".join(tm[2:]), enc[2], v)]))
        keep.append((s, tm, enc))
    l2 = run_all(runner, stage2, "lean")
    for (s, tm, enc), (o2, crash) in zip(keep, l2):
        if crash or len(o2) < 2:
            continue
        f = o2[1].split()
        if len(f) != 2:
            continue
        nsub = int(enc[1])
        comp = 1 if int(f[0]) & 64 else 0
        ls = ["T.use " + s.meta["tables"], " ".join(tm), "ds.decode %s 1 %s %s 0 0 %s %s" % (tm[1], f[0], enc[1], ",".join(tm[2:]), f[1])]
        for k in range(nsub):
            ls += ["dd.list %d" % k, "dd.vals %d" % k]
        ls += ["dd.tocur", "ds.encode %d" % comp] + _tail(nsub, comp)
        meta = dict(s.meta); meta["kind"] = "foreign"; meta["comp"] = comp
        out.append(Scenario("for-" + s.name, ls, meta))
    return out

compare = c01.compare

def oracle(scn, outs):
    if len(outs) != len(scn.lines):
        return None
    lines = scn.lines
    encs = [(i, outs[i].split()) for i, l in enumerate(lines) if l.startswith("ds.encode")]
    decs = [(i, outs[i].split()) for i, l in enumerate(lines) if l.startswith("ds.decode")]
    if scn.meta.get("kind") == "own":
        if len(encs) != 3 or len(decs) != 2:
            return None
        m, m1, m2 = encs[0][1], encs[1][1], encs[2][1]
    else:
        if len(encs) != 3 or len(decs) != 3:
            return None
        m, m1, m2 = None, encs[1][1], encs[2][1]
        decs = decs[1:]
        if outs[[i for i, l in enumerate(lines) if l.startswith("ds.decode")][0]].split()[:2] != ["ok", "0"]:
            return None     # the foreign message itself must decode valid (C04's business)
        # m' here is the first re-encoding of the foreign message: encs[0]; compare encs[0] -> encs[1] -> encs[2]
        m, m1, m2 = encs[0][1], encs[1][1], encs[2][1]
    if any(len(e) != 3 for e in (m, m1, m2)):
        return None
    # scope: m decodes valid; widths 1..64, scaled numerics <= 32
    d0 = decs[0][1]
    if d0[:2] != ["ok", "0"]:
        return None
    first = decs[0][0]
    nsub = int(d0[2])
    l1 = {}; v1 = {}; l2 = {}; v2 = {}
    second = decs[1][0]
    for i in range(first + 1, second):
        t = lines[i].split()
        if t[0] == "dd.list": l1[int(t[1])] = outs[i]
        if t[0] == "dd.vals": v1[int(t[1])] = outs[i]
    for i in range(second + 1, len(lines)):
        t = lines[i].split()
        if t[0] == "dd.list": l2[int(t[1])] = outs[i]
        if t[0] == "dd.vals": v2[int(t[1])] = outs[i]
    ed = scn.meta.get("ed", 4)
    for k in l1:
        if l1[k] in ("none", "-"):
            return None
        if c09.in_scope(ed, [nd["desc"] for nd in c09.items_of(parse_nodes(l1[k]))]):
            return None     # operators outside FM 94 for this edition: not a well-formed message
        for nd in parse_nodes(l1[k]):
            if nd["flags"] & 4: continue
            if nd["type"] in (4, 6, 7) and not (1 <= nd["nbits"] <= 64): return None
            if nd["type"] == 4 and nd["nbits"] > 32 and (nd["scale"] != 0 or nd["ref"] != 0): return None
            if nd["type"] == 8: return None     # 2 03: decided by C01/C09 streams, re-encoding needs settled references
    if outs[second].split()[:2] != ["ok", "0"]:
        return "the re-encoded message m' decodes as invalid or is refused: %s" % outs[second]
    want = set(range(nsub))
    if set(l1) != want or set(v1) != want or set(l2) != want or set(v2) != want:
        return None      # a shrunk scenario that no longer lists both decodes completely
    if l1 != l2 or v1 != v2:
        k = next(k for k in sorted(l1) if l1.get(k) != l2.get(k) or v1.get(k) != v2.get(k))
        return "subset %d of decode(m') differs from decode(m)" % k
    if m2 != m1:
        return "encoding decode(m') again does not reproduce m' byte for byte"
    if scn.meta.get("kind") == "own" and m1 != m:
        return "re-encoding the decoded own message does not reproduce it byte for byte"
    return None

def signature(scn, outs):
    sig = set()
    for l, o in zip(scn.lines, outs):
        if l.startswith("dd.list") and o not in ("none", "-"):
            for n in parse_nodes(o):
                if n["flags"] & 4: continue
                sig.add((scn.meta.get("kind"), scn.meta.get("comp"), n["type"], min(n["nbits"], 40) // 4, n["af"] > 0))
    return sig

def classify(scn, outs):
    return ["kind=%s" % scn.meta.get("kind"), "comp=%s" % scn.meta.get("comp")]
