"""C11 — bit-level I/O.  Streams: w.* / r.* ops (exact tie)."""
from vlib.engine import Scenario

ID = "C11"
THEOREMS = ["Bufr.C11.C11_put", "Bufr.C11.C11_get", "Bufr.C11.C11_get_past_end", "Bufr.C11.C11_skip",
            "Bufr.C11.C11_skip_any", "Bufr.C11.C11_skip_past_end", "Bufr.C11.C11_fields", "Bufr.C11.C11_padstring"]
RULE = ("exhaustive (offset 0..7)x(width 1..64)x(4 patterns) write/read-back; skip 0..200 at every offset vs "
        "reads of the same total; reads at/across the section end; random field/string sequences crossing the "
        "4096-byte growth boundary; distinct = distinct (op, bit offset, width, outcome class)")
ASSUMPTIONS = ["bufr_putbits with nbbits > 64 calls bufr_abort (modelled as outcome 'abort', not as a write)"]

def patterns(n):
    ones = (1 << n) - 1
    alt = int(("10" * n)[:n], 2)
    return [0, ones, 1 << (n - 1), alt]

def scenarios(rng, tier, runner):
    out = []
    # 1. exhaustive offset x width x pattern
    for off in range(8):
        for n in range(1, 65):
            ls = []
            for pat in patterns(n):
                ls += ["w.new 16"]
                if off:
                    ls += ["w.put %d %d" % ((1 << off) - 1, off)]
                ls += ["w.put %d %d" % (pat, n), "w.put 1 1", "w.bytes", "w.toreader"]
                if off:
                    ls += ["r.get %d" % off]
                ls += ["r.get %d" % n, "r.get 1"]
            out.append(Scenario("exh-off%d-n%d" % (off, n), ls))
    # 2. skips 0..200 at every offset
    for off in range(8):
        data = "".join("%02x" % rng.randrange(256) for _ in range(40))
        ls = []
        for n in range(0, 201):
            ls += ["r.new " + data]
            if off:
                ls += ["r.get %d" % off]
            ls += ["r.skip %d" % n, "r.get 5"]
        out.append(Scenario("skip-off%d" % off, ls))
    # skip 0 / get at byte boundaries inside and at the very end
    for k in range(1, 6):
        data = "".join("%02x" % rng.randrange(256) for _ in range(k))
        ls = ["r.new " + data]
        for i in range(k):
            ls += ["r.skip 0", "r.get 8", "r.skip 0"]
        ls += ["r.get 1", "r.skip 0", "r.skip 1"]
        out.append(Scenario("skip0-%d" % k, ls))
    # 3. reads at and across the end
    for k in range(1, 13):
        data = "".join("%02x" % rng.randrange(256) for _ in range(k))
        ls = []
        for pre in range(0, min(8 * k, 20)):
            for n in sorted(set([max(1, 8 * k - pre - d) for d in (-9, -8, -1, 0, 1, 7, 8, 9)] + [64, 65])):
                if n > 70:
                    continue
                ls += ["r.new " + data]
                if pre:
                    ls += ["r.get %d" % pre]
                ls += ["r.get %d" % n, "r.get 8", "r.get 1"]
        out.append(Scenario("end-%d" % k, ls))
    # 4. random field / string sequences crossing the growth boundary
    nseq = 6 if tier == "quick" else 80
    for i in range(nseq):
        cap = rng.choice([0, 1, 4, 13, 64, 4096])
        ls = ["w.new %d" % cap]
        total = 0
        target = rng.choice([200, 4096 + cap + 50, 2 * 4096 + cap + 9]) * 8
        widths = []
        while total < target:
            r = rng.random()
            if r < 0.08:
                s = [rng.randrange(256) for _ in range(rng.randrange(1, 12))]
                ls.append("w.putstr " + "".join("%02x" % c for c in s))
                widths.append(("s", len(s)))
                total += 8 * len(s)
            elif r < 0.16:
                s = [rng.randrange(32, 127) for _ in range(rng.randrange(0, 10))]
                enc = rng.randrange(1, 12)
                ls.append("w.padstr %s %d" % ("".join("%02x" % c for c in s) or "-", enc))
                widths.append(("s", enc))
                total += 8 * enc
            else:
                n = rng.choice([1, 2, 3, 7, 8, 9, 12, 16, 17, 24, 31, 32, 33, 48, 63, 64, rng.randrange(1, 65)])
                v = rng.choice([0, (1 << n) - 1, rng.getrandbits(n), rng.getrandbits(64)])
                ls.append("w.put %d %d" % (v, n))
                widths.append(("b", n))
                total += n
        ls += ["w.bytes", "w.toreader"]
        for kind, n in widths:
            ls.append(("r.getstr %d" if kind == "s" else "r.get %d") % n)
        ls += ["r.get 64", "r.get 1"]
        out.append(Scenario("rand-%d" % i, ls))
    out.append(Scenario("abort", ["w.new 8", "w.put 1 65", "w.put 3 2", "w.bytes", "r.new aabb", "r.get 65", "r.get 4"]))
    return out

def _bits(data):
    return "".join(format(b, "08b") for b in data)

def oracle(scn, outs):
    """independent abstract semantics: an MSB-first bit string.  Checks write/read-back and cursors."""
    wbits, rbits, pos, live = "", None, 0, False
    for line, o in zip(scn.lines, outs):
        t = line.split()
        op = t[0]
        if o == "poisoned":
            break      # the library called the abort handler: nothing more is asked of it in this process state
        if op == "w.new":
            wbits = ""
        elif op == "w.put":
            v, n = int(t[1]), int(t[2])
            if n > 64:
                continue
            if n > 0:
                wbits += format(v % (1 << n), "0%db" % n)
            f = o.split()
            if len(f) != 3 or int(f[0]) * 8 + int(f[1]) != len(wbits):
                return "w.put: cursor %s but %d bits were written" % (o, len(wbits))
        elif op == "w.putstr":
            h = bytes.fromhex(t[1]) if t[1] != "-" else b""
            wbits += _bits(h)
        elif op == "w.padstr":
            h = bytes.fromhex(t[1]) if t[1] != "-" else b""
            e = int(t[2])
            h = (h[:e] + b" " * e)[:e]
            wbits += _bits(h)
        elif op == "w.bytes":
            want = wbits + "0" * (-len(wbits) % 8)
            got = _bits(bytes.fromhex(o)) if o != "-" else ""
            if got[:len(wbits)] != wbits or len(got) != len(want):
                return "w.bytes: section bytes are not the bits written (first difference at bit %d)" % \
                    next((i for i, (a, b) in enumerate(zip(got, wbits)) if a != b), min(len(got), len(wbits)))
        elif op == "w.toreader":
            rbits = wbits + "0" * (-len(wbits) % 8)
            pos, live = 0, True
        elif op == "r.new":
            rbits = _bits(bytes.fromhex(t[1])) if t[1] != "-" else ""
            pos, live = 0, True
        elif op in ("r.get", "r.skip", "r.getstr") and live:
            n = int(t[1]) * (8 if op == "r.getstr" else 1)
            f = o.split()
            if op == "r.get" and n > 64:
                if int(f[1]) >= 0:
                    return "r.get %d: no error for more than 64 bits" % n
                continue
            fits = pos + n <= len(rbits)
            if op == "r.get":
                if fits:
                    want = int(rbits[pos:pos + n], 2) if n else 0
                    if int(f[1]) != 0 or int(f[0]) != want:
                        return "r.get %d at bit %d: got %s, expected value %d err 0" % (n, pos, o, want)
                elif int(f[1]) >= 0:
                    return "r.get %d at bit %d of %d: read past the end without error (%s)" % (n, pos, len(rbits), o)
                cur = f[2:4]
            elif op == "r.skip":
                if fits and int(f[0]) != 0:
                    return "r.skip %d at bit %d: error %s" % (n, pos, o)
                if not fits and int(f[0]) >= 0:
                    return "r.skip %d at bit %d of %d: past the end without error" % (n, pos, len(rbits))
                cur = f[1:3]
            else:
                if fits:
                    want = "".join("%02x" % int(rbits[pos + 8 * i:pos + 8 * i + 8], 2) for i in range(n // 8))
                    if f[1] != "ok" or f[0] != want:
                        return "r.getstr %d at bit %d: got %s expected %s" % (n // 8, pos, o, want)
                elif f[1] == "ok":
                    return "r.getstr past the end without error"
                cur = f[2:4]
            if fits:
                pos += n
                if int(cur[0]) * 8 + int(cur[1]) != pos:
                    return "%s: cursor %s, expected bit %d" % (line, cur, pos)
            else:
                live = False   # after an error the cursor is unspecified
    return None

def signature(scn, outs):
    sig = set()
    pos = 0
    for line, o in zip(scn.lines, outs):
        t = line.split()
        if t[0] in ("w.put", "r.get", "r.skip"):
            n = int(t[-1])
            f = o.split()
            if t[0] == "w.put" and len(f) == 3:
                sig.add((t[0], int(f[1]), n))
            elif t[0] == "r.get" and len(f) == 4:
                sig.add((t[0], int(f[3]), n, int(f[1]) < 0))
            elif len(f) == 3:
                sig.add((t[0], int(f[2]), min(n, 80), int(f[0]) < 0))
    return sig

def classify(scn, outs):
    return [scn.name.split("-")[0]]

def neighbourhood(scn, rng, tier):
    """mutations of a shrunk disagreement: same ops at every offset / neighbouring widths"""
    for off in range(8):
        for d in (-1, 0, 1):
            ls = []
            for l in scn.lines:
                t = l.split()
                if t[0] in ("w.put", "r.get", "r.skip") and d:
                    t[-1] = str(max(0, int(t[-1]) + d))
                ls.append(" ".join(t))
            if off:
                ls = [x for l in ls for x in ([l, "w.put 0 %d" % off] if l.startswith("w.new") else
                                               [l, "r.get %d" % off] if l.startswith("r.new") else [l])]
            yield Scenario("nb", ls)
