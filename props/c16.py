"""C16 — valid workloads are memory-clean: no overflow, use-after-free or leak.

Streams
  random   valid interleavings of the object-level API over slots (`own.*`, harness/ops_own.c and
           lean/Driver/OpsOwn.lean): tables created/loaded/merged, lists of tables, templates created/copied/loaded
           from files, datasets and subsets created/expanded/filled, merged, dumped and re-loaded, encoded, written,
           read, decoded, local tables stored in a message and extracted again, everything freed in any order the
           ownership discipline allows; `own.counts` / `own.audit` / `own.refs` at quiescent points
  growth   compressed encodings larger than the encoder's first (uncompressed) size estimate
  error    valid API use that ends in a refusal: template refused, table file unreadable or malformed (CMC and CSV),
           template file in error, damaged message (read fails / decode returns NULL or a flagged dataset), merge of
           unlike templates, subset range outside the message, dump text loaded into another template
  legacy   the workloads of C01/C02/C07/C14 (build, encode, decode, adopt, re-encode, merge, ranges) with audits
  damaged  the C05 workload (Section 3/4 of good messages damaged, then decoded) with audits

Oracle (on the implementation's output only): every audit is "ok" (live counters = what the handles own, no
pointer to freed memory, no file left open), counts after the final frees are all zero, LeakSanitizer finds every
live block reachable, the encoder's writes stay inside the allocation, and the sanitizers are silent (a crash is a
violation).
"""
import os, re
from vlib.engine import Scenario
from vlib.engine import compare as cmp0
from vlib import tables, build
from gen import regs, datasets, own, templates
from props import c01, c14

ID = "C16"
THEOREMS = [
    "Bufr.C16.C16_inv",
    "Bufr.C16.C16_inv_run",
    "Bufr.C16.C16_no_dangling",
    "Bufr.C16.C16_owner_live",
    "Bufr.C16.C16_no_leak",
    "Bufr.C16.C16_counts",
    "Bufr.C16.C16_counts_prim",
    "Bufr.C16.C16_growth",
    "Bufr.C16.C16_growth_elements",
]
RULE = ("op sequences over 8 slots per object kind: random valid interleavings (6-24 object-level operations, several "
        "objects alive, frees in any allowed order), compressed encodings of 1-20 subsets of wide incompressible "
        "elements, refusal paths, and the C01/C02/C05/C07/C14 workloads with audits; distinct = distinct (family, set of "
        "operations, outcomes of the fallible ones, whether the encoder outgrew its estimate)")
ASSUMPTIONS = [
    "the C allocator itself (malloc/free/realloc) is outside the model: heap bytes are observed by ASan/LSan only",
    "the shape of a newly built object (how many descriptors, values, associated fields, run-time meta data a subset "
    "or template holds; how many entries a table file yields; whether a lookup cache exists) is data: the implementation "
    "reports it and the model's transition takes it as a parameter; which object owns what, what a copy duplicates, "
    "what a free releases and which pointers are non-owning is the model's",
    "references point to older roots (a tables object takes master tables only from an older one, a dataset outlives "
    "neither the tables nor the self-contained template it was made from): the model's validity predicate excludes "
    "cyclic table references and frees of something a live object still points into, although the C frees "
    "themselves never follow those pointers",
    "bufr_abort()/exit() end the process in real use: a workload is only judged up to such an outcome",
]
TRUSTED_EXTRA = ["the LIBECBUFR_VERIF live-object counters (hook commit, add-only) and the harness's reachability walker "
                 "(harness/ops_own.c) that compares them with what the application's handles own",
                 "LeakSanitizer's recoverable leak check (__lsan_do_recoverable_leak_check) and the leak check at process exit",
                 "/proc/self/fd as the count of open files"]
CRASH_IS_VIOLATION = True
P = c01.P
KINDS = ["tables", "entryB", "entryD", "template", "dataset", "subset", "descriptor", "value", "af", "afd", "message",
         "sequence", "list", "listnode", "array", "rtmd", "ddop", "dpbm"]
ZEROS = ",".join("0" for _ in KINDS)

# ----------------------------------------------------------------------------- files used by the workloads

def _write(path, text):
    with open(path, "w", encoding="latin-1") as f:
        f.write(text)
    return path

def prepare(runner, work):
    c01.prepare(runner, work)
    R = tables.REPO
    d = os.path.join(work, "c16")
    os.makedirs(d, exist_ok=True)
    # file arguments of the scenarios are location independent (see xpath() in harness/ops_own.c)
    runner.env["BVP_REPO"] = R
    runner.env["BVP_FILES"] = d
    from gen import synth_tables
    synth_tables.write_tables(d)
    own.TABLE_FILES.clear()
    own.TABLE_FILES.update({
        "cur": ("@R/Tables/table_b_bufr", "@R/Tables/table_d_bufr", None, None),
        "v13": ("@R/Tables/table_b_bufr-13", "@R/Tables/table_d_bufr-13", None, None),
        "loc": ("@R/Tables/table_b_bufr", "@R/Tables/table_d_bufr", "@R/Test/local_table_b", "@R/Test/local_table_d"),
        "syn": ("@R/Tables/table_b_bufr", "@R/Tables/table_d_bufr", "@F/synth_local_b", "@F/synth_local_d")})
    own.TABLES_DIR[0] = "@R/Tables"
    def _w(name, text):
        _write(os.path.join(d, name), text)
        return "@F/" + name
    own.BAD_TABLES.clear()
    own.BAD_TABLES.update({
        "missing-b": ("mb", "@F/no-such-table-b"),
        "missing-d": ("md", "@F/no-such-table-d"),
        "missing-lb": ("lb", "@F/no-such-local-b"),
        "garbage-b": ("lb", _w("garbage_b", "this is not a table\n\n012\n* comment\n")),
        "short-b": ("lb", _w("short_b", "063250  SHORT LINE\n063251  X" + " " * 40 + "NUMERIC\n")),
        "garbage-d": ("ld", _w("garbage_d", "363200\n363201 abc def\n\n363202 063001 zzz\n")),
        "cyclic-d": ("ld", _w("cyclic_d", "363210 363211 001001\n363211 363210\n")),
    })
    CSVB = ("ClassNo,ClassName_en,FXY,ElementName_en,Note_en,BUFR_Unit,BUFR_Scale,BUFR_ReferenceValue,BUFR_DataWidth_Bits,"
            "CREX_Unit,CREX_Scale,CREX_DataWidth_Char,Status\n")
    rowsb = "".join("%02d,Class,%06d,\"ELEMENT, %d\",,%s,%d,%d,%d,u,0,5,Operational\n" % (dd // 1000, dd, dd, u, sc, rf, nb)
                    for dd, u, sc, rf, nb in [(1001, "Numeric", 0, 0, 7), (1002, "Numeric", 0, 0, 10), (1015, "CCITT IA5", 0, 0, 160),
                                              (12101, "K", 2, 0, 16), (2001, "Code table", 0, 0, 2), (31001, "Numeric", 0, 0, 8)])
    CSVD = "Category,CategoryOfSequences_en,FXY1,Title_en,SubTitle_en,FXY2,ElementName_en,ElementDescription_en,Note_en,Status\n"
    rowsd = "".join("01,cat,%06d,\"Title, %d\",,%06d,name,,,Operational\n" % (k, k, m)
                    for k, ms in [(301001, [1001, 1002]), (301090, [301001, 12101, 101000, 31001, 2001])] for m in ms)
    own.BAD_TABLES.update({
        "csv-b": ("cb", _w("csv_b.txt", CSVB + rowsb)),
        "csv-d": ("cd", _w("csv_d.txt", CSVD + rowsd)),
        "csv-b-nohdr": ("cb", _w("csv_b_nohdr.txt", "a,b,c\n" + rowsb)),
        "csv-d-nohdr": ("cd", _w("csv_d_nohdr.txt", "FXY1,x\n" + rowsd)),
        "csv-b-missing": ("cb", "@F/no-such-csv-b"),
    })
    # table files named *inside* a template file are opened by the library itself: absolute paths
    lb, ld = os.path.join(R, "Test/local_table_b"), os.path.join(R, "Test/local_table_d")
    mb, md = tables.shipped("cur")
    own.TEMPLATE_FILES.clear()
    T = own.TEMPLATE_FILES
    def tf(key, text, name, ok, descs, ed=4):
        T[key] = (_w(key + ".template", text), name, ok, descs, ed)
    tf("plain", "# comment\nBUFR_EDITION=4\n001001\n001002\n012101\n", "cur", True, [1001, 1002, 12101])
    tf("ed3", "BUFR_EDITION=3\n301011\n101000\n031001\n012101\n", "cur", True, [301011, 101000, 31001, 12101], 3)
    tf("values", "BUFR_EDITION=4\n001001 VALUE=71\n001002 VALUE=123\n001015 VALUE=STATION\n012101 VALUE=273.15\n012101 VALUE=MSNG\n", "cur", True,
       [1001, 1002, 1015, 12101, 12101])
    tf("local", "BUFR_EDITION=4\nLOCAL_TABLEB=%s\nLOCAL_TABLED=%s\n001195\n002207\n001001\n" % (lb, ld), "loc", True, [1195, 2207, 1001])
    tf("unknown", "BUFR_EDITION=4\n001001\n063255\n", "cur", False, [1001, 63255])
    tf("unknown-local", "BUFR_EDITION=4\nLOCAL_TABLEB=%s\n001195\n063255\n" % lb, "cur", False, [1195, 63255])
    tf("pastend", "BUFR_EDITION=4\n001001\n102003\n001002\n", "cur", False, [1001, 102003, 1002])
    tf("notadesc", "BUFR_EDITION=4\n001001\n400000\n", "cur", False, [1001, 400000])
    tf("empty", "# nothing\n", "cur", False, [])
    tf("master", "BUFR_EDITION=4\nMASTER_TABLEB=%s\nMASTER_TABLED=%s\n001001\n301011\n" % (mb, md), "cur", True, [1001, 301011])
    tf("master-late", "BUFR_EDITION=4\n001001\nMASTER_TABLEB=%s\n001002\n" % mb, "cur", True, [1001, 1002])
    tf("master-bad", "BUFR_EDITION=4\nMASTER_TABLEB=%s\nMASTER_TABLED=%s\n001001\n063255\n" % (mb, md), "cur", False, [1001, 63255])
    tf("badlocal", "BUFR_EDITION=4\nLOCAL_TABLEB=%s\n001001\n" % os.path.join(d, "no-such-local-b"), "cur", True, [1001])
    T["nofile"] = ("@F/no-such.template", "cur", False, [], 4)
    # LeakSanitizer on: on demand (own.lsan) and at process exit
    runner.env["ASAN_OPTIONS"] = runner.env["ASAN_OPTIONS"].replace("detect_leaks=0", "detect_leaks=1")
    runner.preamble["impl"] = runner.preamble["impl"] + ["own.base"]
    runner.preamble["lean"] = runner.preamble["lean"] + ["own.base"]

# ----------------------------------------------------------------------------- scenarios

AUDIT = ["own.audit"]
TAIL = ["own.audit", "own.reset", "own.lsan"]

def legacy(rng, i):
    """the C01/C02/C07/C14 shape: build, encode, decode, adopt, re-encode, merge, with audits"""
    name = rng.choice(["cur", "loc", "syn", "syn", "v13"])
    B, D = P[name]
    nsub = rng.choice([1, 2, 3, 4])
    comp = rng.choice([0, 1, 1])
    ls, meta = datasets.build_lines(rng, name, B, D, nsub=nsub, same_structure=(comp == 1 or rng.random() < 0.5))
    ls += AUDIT + ["ds.invalid", "ds.encode %d" % comp] + AUDIT + ["ds.decodelast 1 0 0"] + AUDIT
    for k in range(nsub):
        ls += ["dd.list %d" % k, "dd.vals %d" % k]
    kind = rng.choice(["reencode", "merge", "range", "mergefree"])
    if kind == "reencode":
        ls += ["dd.tocur"] + AUDIT + ["ds.encode %d" % comp, "ds.decodelast 1 0 0"] + AUDIT
    elif kind in ("merge", "mergefree"):
        sp = rng.randrange(nsub); nb = rng.randrange(1, nsub - sp + 1); dp = rng.randrange(nsub + 2)
        ls += ["dd.merge %d %d %d" % (dp, sp, nb)] + AUDIT
        if kind == "mergefree":
            # the source of the merge is released (decoding again replaces it), then the destination is used
            ls += ["ds.decodelast 1 1 1"] + AUDIT
            for k in range(max(nsub, dp + nb)):
                ls += ["ss.setfactors %d 1 2" % k, "ss.expand %d" % k]
            ls += AUDIT + ["ds.encode 0"]
    else:
        a = rng.randrange(1, nsub + 1); b = rng.randrange(a, nsub + 1)
        ls += ["ds.decodelast 1 %d %d" % (a, b)] + AUDIT
    meta["family"] = "legacy"; meta["legacy"] = kind; meta["comp"] = comp
    return Scenario("legacy-%d" % i, ls + TAIL, meta)

def scenarios(rng, tier, runner):
    out = []
    q = tier == "quick"
    for i in range(420 if q else 6000):
        ls, meta = own.random_workload(rng, P)
        out.append(Scenario("random-%d" % i, ls, meta))
    for i in range(120 if q else 1500):
        ls, meta = own.growth_workload(rng, P)
        out.append(Scenario("growth-%d" % i, ls, meta))
    for i in range(260 if q else 4000):
        ls, meta = own.error_workload(rng, P)
        out.append(Scenario("error-%d" % i, ls, meta))
    for i in range(200 if q else 3000):
        out.append(legacy(rng, i))
    out += damaged_decodes(rng, runner, 120 if q else 2000, q)
    return out

def damaged_decodes(rng, runner, n, quick=True):
    """stage 1 builds and encodes with the implementation; the returned scenarios decode damaged copies"""
    from props import c05
    from vlib.engine import run_all
    stage1 = []
    for i in range(n):
        name = rng.choice(["cur", "loc", "syn"])
        B, D = P[name]
        comp = rng.choice([0, 1, 1])
        ls, meta = datasets.build_lines(rng, name, B, D, nsub=rng.choice([1, 2, 3]), same_structure=True, edition=rng.choice([3, 4, 4]))
        meta["comp"] = comp
        stage1.append(Scenario("b-%d" % i, ls + ["ds.invalid", "ds.encode %d" % comp], meta))
    res = run_all(runner, stage1, "impl")
    out = []
    for s, (o, crash) in zip(stage1, res):
        if crash or len(o) != len(s.lines):
            continue
        enc = o[-1].split()
        if len(enc) != 3:
            continue
        tm = next(l for l in s.lines if l.startswith("tm.new")).split()
        ed, descs = int(tm[1]), [int(x) for x in tm[2:]]
        s4 = bytes.fromhex(enc[2]) if enc[2] != "-" else b""
        ls = ["T.use " + s.meta["tables"]]
        # kept out of the quick tier (the work is C05's subject, not ownership): damaged 16-bit replication counts,
        # which make the decoder expand tens of thousands of descriptors
        nodes = " ".join(x for l, x in zip(s.lines, o) if l.startswith("ss.list")).split()
        factors = {int(x.split("/")[0]) for x in nodes if x.split("/")[0].isdigit()} & {31000, 31001, 31002, 31011, 31012}
        wide = bool(factors & {31002, 31011, 31012})
        DATA = ("flip", "rand", "ones", "zeros", "extend", "trunc", "trunc1", "toggle", "desc-swap", "nsub+1", "nsubbig", "empty")
        kinds = [k for k in c05.KINDS4 if not (quick and (k in ("desc-huge", "desc-deep") or (wide and k in DATA)))]
        if not kinds:
            continue
        for _ in range(3):
            kind = rng.choice(kinds)
            flag, nsub, ds, b4 = c05.mutate4(rng, kind, ed, int(enc[0]), int(enc[1]), list(descs), s4, *P[s.meta["tables"]])
            if not ds:
                continue
            nsub = min(nsub, 300)      # the announced count is work for the decoder (C05's subject), not ownership
            ls += ["ds.decode %d %d %d %d 0 0 %s %s" % (ed, rng.choice([0, 1, 2]), flag, nsub, ",".join("%06d" % d for d in ds), b4.hex() or "-")]
            ls += AUDIT
        meta = dict(s.meta); meta["family"] = "damaged"
        out.append(Scenario("damaged-%s" % s.name, ls + TAIL, meta))
    return out

# ----------------------------------------------------------------------------- tie

OBSERVED = ("own.tload", "own.tmerge", "own.mnew", "own.madd", "own.mload", "own.mcopy", "own.dnew", "own.dsub", "own.dexpand", "own.dfill",
            "own.dmerge", "own.enc", "own.gwrite", "own.gread", "own.dec", "own.dseq", "own.extract", "own.dumpload", "own.bset", "own.bcut",
            "own.bflip", "own.bget", "own.dfactors", "own.dhdr", "own.store", "own.lnew", "own.llocal")

def two_pass(scn, c_out):
    """the model's transitions take the data-dependent shapes from the implementation's answers; the functional
    ops of the legacy streams are tied as in C01 (the model decodes the bytes the implementation produced)"""
    lines = c01.two_pass(scn, c_out)
    for i, l in enumerate(lines):
        op = l.split(" ", 1)[0]
        if op in OBSERVED and i < len(c_out):
            lines[i] = l + " => " + c_out[i]
    return lines

def _refs(text):
    """'M0>T0 D0>T0,T1' -> {(M0,T0),...}"""
    r = set()
    for tok in text.split():
        if ">" in tok:
            a, bs = tok.split(">")
            for b in bs.split(","):
                if not b.startswith("S"):        # the immortal table sets of the process are not part of the workload
                    r.add((a, b))
    return r

def compare(scn, lscn, cr, lr):
    c_out, l_out = list(cr[0]), list(lr[0])
    for i, l in enumerate(scn.lines):
        if i >= len(c_out) or i >= len(l_out):
            break
        if l == "own.refs":
            # the model's reference edges are what an object *may* point into; the implementation's walker reports what
            # it does point into: every observed edge must be declared, and nothing may dangle
            if "dangling" not in c_out[i] and _refs(c_out[i]) <= _refs(l_out[i]):
                c_out[i] = l_out[i]
        elif l == "own.lsan":
            l_out[i] = c_out[i]          # LeakSanitizer has no model side; the oracle reads it
    if scn.meta.get("family") in ("legacy", "damaged"):
        # these streams are *workloads* for the oracle: what their functional operations answer is the business of
        # C01-C07/C14, which have their own generators and ties; here only the ownership lines are tied
        for i, l in enumerate(scn.lines):
            if i < len(c_out) and i < len(l_out) and not l.startswith("own."):
                l_out[i] = c_out[i]
    return cmp0(scn, (c_out, cr[1]), (l_out, lr[1]), None)

# ----------------------------------------------------------------------------- oracle

def _audit_text(o):
    why = []
    if "unowned" in o: why.append("live objects that no handle of the application owns (leaked, or released twice)")
    if "dangling" in o: why.append("pointers into freed memory")
    if "files" in o: why.append("a file the library opened is still open")
    return "audit: %s: %s" % (o, "; ".join(why))

def oracle(scn, outs):
    if any(o in ("abort", "exit") for o in outs):
        return None      # bufr_abort()/exit() ends the process in real use: what follows is not a workload of the property
    for l, o in zip(scn.lines, outs):
        t = l.split()
        if l == "own.audit":
            if o == "nohook":
                return "the library was built without the LIBECBUFR_VERIF counters hook"
            if o != "ok":
                return _audit_text(o)
        elif l == "own.lsan":
            if o != "0":
                return "LeakSanitizer: unreachable heap blocks after everything was released"
        elif l == "own.reset":
            if o == "nohook":
                return "the library was built without the LIBECBUFR_VERIF counters hook"
            if o != ZEROS:
                bad = ["%s=%s" % (k, v) for k, v in zip(KINDS, o.split(",")) if v != "0"]
                return "objects still allocated after every handle was released: " + " ".join(bad)
        elif t[0] == "own.enc" and o.startswith("ok"):
            f = o.split()
            if int(f[2]) > int(f[4]):       # f[4]: the allocation in octets (s4.max_len)
                return "encoder: %s octets of Section 4 written into an allocation of %s" % (f[2], f[4])
        elif l == "own.refs" and "dangling" in o:
            return "refs: %s" % o
    return None

def signature(scn, outs):
    sig = set()
    fam = scn.meta.get("family")
    ops = frozenset(l.split()[0] for l in scn.lines)
    sig.add((fam, ops))
    for l, o in zip(scn.lines, outs):
        t = l.split()
        if t[0] in ("own.mnew", "own.mload", "own.dec", "own.gread", "own.dmerge", "own.tload", "own.dumpload", "own.extract", "own.lnew"):
            sig.add((fam, t[0], o.split()[0] if o else ""))
        if t[0] == "own.enc" and o.startswith("ok"):
            f = o.split()
            sig.add((fam, "enc", f[1], int(f[2]) > int(f[3])))
    return sig

def classify(scn, outs):
    c = [scn.meta.get("family", "corpus")]
    for l, o in zip(scn.lines, outs):
        t = l.split()
        if t[0] == "own.enc" and o.startswith("ok"):
            f = o.split()
            if f[1] == "1" and int(f[2]) > int(f[3]):
                c.append("compressed>estimate")
        if t[0] in ("own.mnew", "own.mload") and o.startswith("fail"): c.append("template-refused")
        if t[0] == "own.dec" and o.startswith("null"): c.append("decode-null")
        if t[0] == "own.dec" and o.startswith("ok 1"): c.append("decode-flagged")
        if t[0] == "own.gread" and o.startswith("fail"): c.append("read-failed")
        if t[0] == "own.tload" and o.startswith("1"): c.append("load-failed")
        if t[0] == "own.dmerge" and o.startswith("-1"): c.append("merge-refused")
        if t[0] == "own.extract" and o.startswith("ok"): c.append("tables-extracted")
    return sorted(set(c))
