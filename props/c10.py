"""C10 — template expansion equals the regulated expansion, and always terminates."""
import os
from vlib.engine import Scenario
from vlib import tables
from gen import regs, templates

ID = "C10"
THEOREMS = ["Bufr.C10.C10_static_refines", "Bufr.C10.C10_rejects", "Bufr.C10.C10_rejects_unknown", "Bufr.C10.C10_factor_count",
            "Bufr.C10.C10_terminates", "Bufr.C10.C10_total_correct", "Bufr.C10.C10_fuel_irrelevant"]
RULE = ("exhaustive: every Table D entry of every shipped table set as a one-descriptor template, expanded with "
        "cyclic factor assignments; generated templates nesting fixed/delayed replication and Table D to depth 4 "
        "with all five class 31 factors; ill-formed variants (unknown descriptors, spans past the end, overlapping "
        "spans, missing class 31); distinct = distinct (accepted?, nesting shape, factor pattern) signature")
ASSUMPTIONS = ["operator descriptors (F=2) are carried through expansion unchanged; their effect is C09's subject"]

P = {}   # table sets as loaded: name -> (B, D)

def prepare(runner, work):
    global P
    sets = {}
    for name in tables.SHIPPED:
        sets[name] = tables.shipped(name) + ("-", "-")
    sets["loc"] = tables.shipped("cur") + (os.path.join(tables.REPO, "Test/local_table_b"), os.path.join(tables.REPO, "Test/local_table_d"))
    # a local Table D whose entries are themselves ill-formed (C10: rejected, never expanded wrongly)
    bad = os.path.join(work, "bad_local_d")
    with open(bad, "w") as f:
        f.write("* ill-formed local Table D entries for C10\n")
        for d, ms in BAD_D.items():
            f.write("%06d %s\n" % (d, " ".join("%06d" % m for m in ms)))
    sets["bad"] = tables.shipped("cur") + ("-", bad)
    P = tables.setup_tables(runner, sets)

BAD_D = {
    363101: [101000, 12101],                 # delayed replication without its class 31 factor
    363102: [12101, 101000],                 # ... as the last descriptor
    363103: [102001, 12101],                 # span running past the end of the sequence
    363104: [7004, 363101, 12101],           # referenced from another sequence
    363105: [12101, 363102, 7004],
    363106: [103000, 31001, 12101],          # delayed span past the end
    363107: [101002, 363103],
    363108: [12101, 63999],                  # unknown element inside
    363109: [101000, 12101, 7004],           # no factor, span otherwise closed
    363110: [7004, 101000, 12101, 7004],
    363111: [12101, 363109],
    363112: [102002, 102002, 1001, 12101, 1001],   # overlapping replications closed within the sequence (recursed without end)
    363113: [1001, 363114],                  # a circular pair (the loader reports -2 and keeps the entries)
    363114: [12101, 363113],
    363116: [7004, 363116],                  # a sequence naming itself
    363117: [101002, 363113, 7004],          # reaches the circular pair from inside a replication
}

FACTOR_SETS = ["2 1 0 3", "0", "1", "3 0 2", "1 2"]

def expand_ops(nrounds, rng):
    ls = ["tm.gabarit", "ss.new", "ss.list 0"]
    for _ in range(nrounds):
        ls += ["ss.setfactors 0 " + rng.choice(FACTOR_SETS), "ss.expand 0", "ss.list 0"]
    ls += ["ds.invalid"]
    return ls

def scenarios(rng, tier, runner):
    out = []
    names = list(tables.SHIPPED) if tier == "thorough" else ["cur", "v13"]
    for name in names:
        B, D = P[name]
        for d in sorted(D):
            out.append(Scenario("tabled-%s-%06d" % (name, d), ["T.use " + name, "tm.new 4 %06d" % d] + expand_ops(3, rng),
                                {"tables": name, "template": [d]}))
    # templates that reach the ill-formed local sequences directly, nested, inside replications
    B, D = P["bad"]
    k = 0
    for d in sorted(BAD_D):
        for t in ([d], [12101, d], [d, 7004], [101002, d], [101000, 31001, d], [102000, 31001, 12101, d], [107002, 12101, d][:3] + [d]):
            for ed in (3, 4):
                out.append(Scenario("badd-%d" % k, ["T.use bad", "tm.new %d %s" % (ed, " ".join("%06d" % x for x in t))] +
                                    expand_ops(2, rng), {"tables": "bad", "template": t}))
                k += 1
    n = 1500 if tier == "quick" else 20000
    for i in range(n):
        name = rng.choice(["cur", "loc", "v13", "v35"])
        B, D = P[name]
        t = templates.gen_template(rng, B, D, depth=rng.choice([1, 2, 2, 3, 4]), ops=False)
        if rng.random() < 0.3:
            t = templates.mutate_illformed(rng, t, B, D)
        ed = rng.choice([2, 3, 4])
        out.append(Scenario("gen-%d" % i, ["T.use " + name, "tm.new %d %s" % (ed, " ".join("%06d" % d for d in t))] +
                            expand_ops(rng.choice([1, 2, 3, 4]), rng), {"tables": name, "template": t}))
    return out

def parse_nodes(line):
    if line in ("-", "none"):
        return []
    nodes = []
    for tok in line.split():
        f = tok.split("/")
        nodes.append({"desc": int(f[0]), "flags": int(f[1]), "type": int(f[2]), "nbits": int(f[3]), "scale": int(f[4]),
                      "ref": int(f[5]), "af": int(f[6]), "hasval": f[7] == "1", "ival": None if f[8] == "-" else int(f[8])})
    return nodes

def items_of(nodes):
    """data-bearing view: not skipped, F = 0 or 2"""
    return [n for n in nodes if not (n["flags"] & 4) and regs.F(n["desc"]) in (0, 2)]

def check_listing(D, template, nodes):
    its = items_of(nodes)
    def next_factor(c, pos):
        if pos >= len(its) or its[pos]["desc"] != c:
            raise regs.Malformed("factor %06d expected at item %d" % (c, pos))
        v = its[pos]["ival"]
        return 0 if v is None or v < 0 else v
    try:
        want = regs.expand(D, template, next_factor)
    except regs.Malformed as e:
        return "expansion does not follow regulation 94.5: %s" % e
    got = [n["desc"] for n in its]
    if got != want:
        k = next((i for i, (a, b) in enumerate(zip(got, want)) if a != b), min(len(got), len(want)))
        return "expanded sequence differs from regulation 94.5 at item %d: got %s want %s (lengths %d/%d)" % (
            k, got[k:k + 3], want[k:k + 3], len(got), len(want))
    return None

def oracle(scn, outs):
    name = scn.meta.get("tables")
    t = scn.meta.get("template")
    if name is None:
        # replay: recover from the lines
        for l in scn.lines:
            if l.startswith("T.use"): name = l.split()[1]
            if l.startswith("tm.new"): t = [int(x) for x in l.split()[2:]]
    if name not in P or t is None:
        return None
    B, D = P[name]
    wf = regs.well_formed(B, D, t)
    wfd = wf or regs.well_formed_deferred(B, D, t)
    accepted, have_subset, dead = None, False, False
    ts = " ".join("%06d" % d for d in t)
    for line, o in zip(scn.lines, outs):
        op = line.split()[0]
        if op == "T.use" and line.split()[1] in P:
            B, D = P[line.split()[1]]
        if op == "tm.new":
            t = [int(x) for x in line.split()[2:]]
            ts = " ".join("%06d" % d for d in t)
            wf = regs.well_formed(B, D, t)
            wfd = wf or regs.well_formed_deferred(B, D, t)
            accepted = o.startswith("ok")
            have_subset, dead = False, False
            if accepted and not wfd:
                return "ill-formed template accepted: %s" % ts
            if not accepted and wf:
                return "well-formed template refused (%s): %s" % (o, ts)
        elif op == "ss.new" and accepted:
            have_subset = not o.startswith("-")
            if not have_subset and wf:
                return "no subset could be created for a well-formed template: %s" % ts
        elif op == "ss.expand" and accepted and have_subset and o.startswith("-"):
            if wf:
                return "expansion of a well-formed template failed: %s" % ts
            dead = True     # ill-formed part reached: refused with an error, as the property asks
        elif op == "ss.list" and accepted and have_subset and not dead:
            r = check_listing(D, t, parse_nodes(o))
            if r:
                return r + " template: " + ts
    return None

def signature(scn, outs):
    t = scn.meta.get("template") or []
    shape = tuple((regs.F(d), regs.Y(d) == 0 if regs.F(d) == 1 else 0) for d in t)
    acc = next((o.split()[0] for l, o in zip(scn.lines, outs) if l.startswith("tm.new")), "?")
    sizes = tuple(len(o.split()) for l, o in zip(scn.lines, outs) if l.startswith("ss.list"))
    return [(acc, shape if len(shape) < 12 else hash(shape), sizes)]

def classify(scn, outs):
    t = scn.meta.get("template") or []
    c = [scn.name.split("-")[0]]
    if any(regs.F(d) == 1 and regs.Y(d) == 0 for d in t): c.append("delayed")
    if any(regs.F(d) == 1 and regs.Y(d) > 0 for d in t): c.append("fixed")
    if any(regs.F(d) == 3 for d in t): c.append("tableD")
    acc = next((o.split()[0] for l, o in zip(scn.lines, outs) if l.startswith("tm.new")), "?")
    c.append("tm=" + acc)
    return c
