"""C08 — scaling arithmetic.  Streams: scale.powcheck, cvt.* (exact tie with BufrModel/Scale.lean).

The oracle is the property itself, evaluated on the implementation's outputs with exact
`fractions.Fraction` arithmetic; it never looks at the model:

  1 round trip     raw below all-ones: encode(decode(raw)) == raw                     (cvt.rtd / cvt.rtf / sweeps)
  2 monotone       decode strictly increasing in raw                                  (cvt.rtd / cvt.rtf / sweeps)
  3 missing        decode(raw) is "missing" <=> raw is all-ones; encode(missing) == all-ones;
                   bufr_missing_ivalue(n) == 2^n-1                                    (cvt.rtd, cvt.d2i, cvt.missing)
  4 out of range   y = x*10^s outside [r-1/2, r+2^n-2+1/2]  =>  all-ones, and inside the range a value within
                   1/2-2^-20 of grid point k encodes to k-r                           (cvt.d2i / cvt.f2i / cvt.i32 / cvt.setd)

Exact half-way points (|y-k| within 2^-20 of 1/2) and the half-open strips just outside the range
[r-1/2, r) and (M, M+1/2] are a side stream whose only requirement is "one of the two neighbours"
(the neighbour of the edge grid point being `missing`).
"""
import glob, os, re, struct
from fractions import Fraction as Fr
from vlib.engine import Scenario
from vlib import build

ID = "C08"
THEOREMS = [
    "Bufr.C08.C08_encode_grid",
    "Bufr.C08.C08_encode_grid_interior",
    "Bufr.C08.C08_roundtrip",
    "Bufr.C08.C08_strict_mono",
    "Bufr.C08.C08_missing_iff",
    "Bufr.C08.C08_encode_missing",
    "Bufr.C08.C08_class31_count",
    "Bufr.C08.C08_missing_pattern",
    "Bufr.C08.C08_out_of_range",
    "Bufr.C08.C08_range_test_rejects",
    "Bufr.C08.C08_neg_scale_bounds_exact",
    "Bufr.C08.C08_encode_grid_neg_scale",
    "Bufr.C08.C08_range_is_encoder_range",
    "Bufr.C08.C08_single_roundtrip_partial",
    "Bufr.C08.C08_single_roundtrip_scale0_partial",
    "Bufr.C08.C08_single_roundtrip_fails",
    "Bufr.C08.C08_int32_path",
]
RULE = ("every numeric entry of every shipped Table B file (own fixed-column parser; identical encodings across "
        "versions run once and are counted per file) x raw in {0,1,mid,max-2,max-1,all-ones}+random, both paths; "
        "synthetic encodings scale -10..12, ref -2^30..2^30, width 1..32; physical values on/near/between grid "
        "points, at the range edges and far outside; halves in a side stream; thorough adds C-side exhaustive "
        "sweeps to 2^20 raws per entry (strided beyond) and 2*10^6 model-side round trips; "
        "distinct = distinct (op, sign of scale, sign of ref, width class, zone/outcome)")
ASSUMPTIONS = [
    "pow(10.0,s) is the correctly rounded double of 10^s for s=-20..20 (checked on every run: scale.powcheck)",
    "IEEE 754 binary64/binary32 arithmetic, round-to-nearest-even, FLT_EVAL_METHOD=0, no FMA contraction",
    "float->integer casts out of range (UB in C) behave as on x86-64 (cvttsd2si); only reachable from inputs "
    "outside the hypotheses of the theorems",
    "single-precision main stream is generated under the forced hypothesis |raw+ref| <= 2^22 (2^24 for scale 0); "
    "beyond it the witnesses in corpus/ apply",
]
TRUSTED_EXTRA = ["libm pow contract as above; C round() exact"]

TOL = Fr(1, 1 << 20)
HALF = Fr(1, 2)
DMAX = struct.unpack(">d", bytes.fromhex("7fefffffffffffff"))[0]
FMAX = struct.unpack(">f", bytes.fromhex("7f7fffff"))[0]
F_EXACT = 1 << 22      # forced hypothesis of the single-precision round trip (scale != 0)
F_EXACT0 = 1 << 24     # … for scale 0

# ------------------------------------------------------------------ helpers

def dhex(x):
    return struct.pack(">d", x).hex()

def fhex(x):
    return struct.pack(">f", x).hex()

def hexd(h):
    return struct.unpack(">d", bytes.fromhex(h))[0]

def hexf(h):
    return struct.unpack(">f", bytes.fromhex(h))[0]

def tofloat32(x):
    """nearest binary32 of a python float, as a python float (inf if too large)"""
    try:
        return struct.unpack(">f", struct.pack(">f", x))[0]
    except OverflowError:
        return float("inf") if x > 0 else float("-inf")

def p10(s):
    return Fr(10) ** s

def finite(x):
    return x == x and x not in (float("inf"), float("-inf"))

def parse_table_b(path):
    """independent fixed-column parser: (descriptor, kind, scale, reference, width)"""
    out = []
    def atoi(s):
        m = re.match(r"\s*([+-]?\d+)", s)
        return int(m.group(1)) if m else 0
    with open(path, encoding="latin-1") as f:
        for l in f:
            if l[:1] != "0" or len(l) < 82:
                continue
            try:
                d = int(l[0:6])
            except ValueError:
                continue
            unit = l[52:63].strip().upper()
            if unit.startswith("CCITT"):
                kind = "ccitt"
            elif unit.replace(" ", "").startswith(("CODETABLE", "TABLECODE")):
                kind = "code"
            elif unit.replace(" ", "").startswith(("FLAGTABLE", "TABLEFLAG", "MARQUEURS")):
                kind = "flag"
            else:
                kind = "numeric"
            out.append((d, kind, atoi(l[63:66]), atoi(l[66:78]), atoi(l[78:])))
    return out

_tables = None
def shipped():
    global _tables
    if _tables is None:
        _tables = {}
        for p in sorted(glob.glob(os.path.join(build.REPO, "Tables", "table_b_bufr*"))):
            _tables[os.path.basename(p)] = parse_table_b(p)
    return _tables

_cov = {}
def coverage_extra():
    return {"shipped_tables": _cov}

# ------------------------------------------------------------------ scenario generation

def raws_for(n, rng, extra):
    ones = (1 << n) - 1
    c = {0, 1, 2, ones // 2, ones - 3, ones - 2, ones - 1}
    for _ in range(extra):
        c.add(rng.randrange(0, ones + 1))
        c.add(min(ones, rng.randrange(0, 1 << rng.randrange(1, n + 1))))
    return sorted(x for x in c if 0 <= x < ones)

def phys_values(s, r, n, rng, k_extra):
    """doubles on / near / between grid points, at the edges, and outside the range"""
    ones = (1 << n) - 1
    M = r + ones - 1
    ks = {r, r + 1, M - 1, M, r + (ones - 1) // 2}
    for _ in range(k_extra):
        ks.add(r + rng.randrange(0, ones))
    offs = [Fr(0), Fr(1, 4), Fr(-1, 4), Fr(49, 100), Fr(-49, 100), HALF - Fr(1, 1 << 19), -HALF + Fr(1, 1 << 19),
            HALF, -HALF]
    xs = set()
    for k in ks:
        if k < r or k > M:
            continue
        for f in offs:
            try:
                xs.add(float((k + f) / p10(s)))
            except OverflowError:
                pass
    # beyond the range
    for y in (Fr(M) + Fr(51, 100), Fr(M) + 1, Fr(M) + 2, Fr(M) + 1000000, Fr(M) * 3 + 7, Fr(r) - Fr(51, 100), Fr(r) - 1,
              Fr(r) - 2, Fr(r) - 1000000, Fr(ones), Fr(ones) + 1, Fr(1 << 32), Fr(1 << 33) + 5, -Fr(1 << 32)):
        xs.add(float(y / p10(s)))
    return sorted(xs)

EXPLORE = bool(os.environ.get("C08_EXPLORE"))   # exploration: leave the forced hypothesis of the float path

FAR_POS = [1e30, 1.9e19, 1e300, 4.9e-324, 0.0]
# x*10^s <= -2^63 used to make `minval - 1` overflow in the underflow diagnostics (fixed, fb67ac6)
FAR_NEG_UB = [-1e30, -1e300]

def entry_lines(d, s, r, n, rng, tier, shipped_entry):
    ls = []
    ones = (1 << n) - 1 if n > 0 else 0
    ex = 2 if tier == "quick" else 12
    enc = "%d %d %d" % (s, r, n)
    ls.append("cvt.range %d %s" % (d, enc))
    if n == 0:
        ls.append("cvt.missing 0")
        return ls
    rs = raws_for(n, rng, ex)
    for i in rs:
        ls.append("cvt.rtd %d %s %d" % (d, enc, i))
    ls.append("cvt.rtd %d %s %d" % (d, enc, ones))
    ls.append("cvt.i2d %s -1" % enc)
    ls.append("cvt.d2i %d %s 7fefffffffffffff" % (d, enc))
    # single-precision path, inside its forced hypothesis (witnesses beyond it are in corpus/)
    lim = F_EXACT0 if s == 0 else F_EXACT
    for i in rs:
        if EXPLORE or (abs(i + r) <= lim and abs(r) <= lim and i <= lim):
            ls.append("cvt.rtf %d %s %d" % (d, enc, i))
    ls.append("cvt.rtf %d %s %d" % (d, enc, ones))
    ls.append("cvt.f2i %d %s 7f7fffff" % (d, enc))
    hole = in_known_hole(d, s, r, n)
    for x in phys_values(s, r, n, rng, 1 if tier == "quick" else 6):
        if hole and demanded(Fr(x) * p10(s), r, n)[1] not in ("grid", "half"):
            continue      # out-of-range values on these encodings: corpus witnesses only
        h = dhex(x)
        ls.append("cvt.d2i %d %s %s" % (d, enc, h))
        if rng.random() < 0.3:
            ls.append("cvt.setd %d %s %s" % (d, enc, h))
    if not hole and rng.random() < (0.15 if tier == "quick" else 1.0):
        far = FAR_POS + [float(Fr(-(1 << 62)) / p10(s)), float(Fr(1 << 62) / p10(s)), float(Fr((1 << 64) + 4096) / p10(s))]
        far += FAR_NEG_UB
        for x in far:
            ls.append("cvt.d2i %d %s %s" % (d, enc, dhex(x)))
    # INT32 value with a reference: bufr_put_desc_value converts through double (through float before 8cba48a)
    if s == 0 and r > 0 and n + r.bit_length() <= 32:
        for v in sorted({r, r + 1, r + ones - 1, r + (ones - 1) // 2, r + rng.randrange(0, ones),
                         (1 << 24) - 1, (1 << 24) + 1, (1 << 24) + 3, (1 << 25) + 2, r - 1, r + ones, r + ones + 1}):
            if abs(v) < (1 << 31):
                ls.append("cvt.i32 %d %s %d" % (d, enc, v))
    return ls

def synthetic(rng):
    s = rng.choice([rng.randrange(-10, 13), rng.randrange(-10, 13), 0, 1, 2, -1, 9, 10, 12, -10])
    n = rng.choice([rng.randrange(1, 33), rng.randrange(1, 33), 1, 2, 8, 16, 24, 31, 32])
    kind = rng.randrange(8)
    if kind == 0:
        r = 0
    elif kind == 1:
        r = rng.choice([-(1 << 30), 1 << 30, (1 << 30) - 1, -(1 << 30) + 1])
    elif kind == 2:
        r = -rng.randrange(0, 1 << rng.randrange(1, 31))
    elif kind == 3:
        r = rng.randrange(0, 1 << rng.randrange(1, 31))
    elif kind == 4:      # all-negative range: -(ref) above 2^n - 2
        r = -min(1 << 30, (1 << n) + rng.randrange(0, 1 << rng.randrange(1, 30)))
    elif kind == 5:      # range straddling zero
        r = -min(1 << 30, rng.randrange(0, 1 << n))
    else:
        r = rng.randrange(-(1 << 30), (1 << 30) + 1)
    d = rng.choice([63001, 12101, 31001, 31002, 20011, 1001])
    return d, s, r, n

def in_known_hole(d, s, r, n):
    """encodings whose out-of-range physical values are kept out of the generated streams because of a
    recorded, unrepaired defect.  None at present: the all-negative-range defects (scale < 0, scale >= 10)
    are repaired (fix commits ec70392, ae1395b) and their witnesses in corpus/ must pass."""
    return False

def scenarios(rng, tier, runner):
    out = []
    # 0. contracts and constants
    ls = ["scale.powcheck", "cvt.missd", "cvt.missf"]
    ls += ["cvt.missing %d" % n for n in range(-2, 67)]
    for h in ("7fefffffffffffff", "7ff0000000000000", "fff0000000000000", "7ff8000000000000", "ffefffffffffffff",
              "7feffffffffffffe", "0000000000000000", "8000000000000000", "3ff0000000000000"):
        ls.append("cvt.ismissd " + h)
    for h in ("7f7fffff", "7f800000", "ff800000", "7fc00000", "ff7fffff", "7f7ffffe", "00000000", "3f800000"):
        ls.append("cvt.ismissf " + h)
    out.append(Scenario("contracts", ls, {"stream": "contracts"}))

    # 1. shipped tables
    seen = {}
    for fn, ents in shipped().items():
        num = [e for e in ents if e[1] == "numeric"]
        _cov[fn] = {"entries": len(ents), "numeric": len(num), "distinct_new": 0}
        for (d, kind, s, r, n) in num:
            key = (d, s, r, n)
            if key in seen:
                continue
            seen[key] = fn
            _cov[fn]["distinct_new"] += 1
    keys = sorted(seen)
    indom = [k for k in keys if 1 <= k[3] <= 32 and abs(k[2]) <= (1 << 30) and -16 <= k[1] <= 15]
    _cov["theorem_domain"] = {"distinct_numeric_encodings": len(keys), "inside_Enc.Valid": len(indom),
                              "outside": [list(k) for k in keys if k not in set(indom)][:20]}
    group = []
    gi = 0
    for key in keys:
        d, s, r, n = key
        group += entry_lines(d, s, r, n, rng, tier, True)
        if len(group) > 1500:
            out.append(Scenario("shipped-%d" % gi, group, {"stream": "shipped"}))
            group, gi = [], gi + 1
    if group:
        out.append(Scenario("shipped-%d" % gi, group, {"stream": "shipped"}))

    # 2. synthetic encodings
    nsyn = 3000 if tier == "quick" else 30000
    group, gi = [], 0
    for _ in range(nsyn):
        d, s, r, n = synthetic(rng)
        group += entry_lines(d, s, r, n, rng, tier, False)
        if len(group) > 1500:
            out.append(Scenario("synthetic-%d" % gi, group, {"stream": "synthetic"}))
            group, gi = [], gi + 1
    if group:
        out.append(Scenario("synthetic-%d" % gi, group, {"stream": "synthetic"}))

    # 2b. the INT32-with-reference path of bufr_put_desc_value (scale 0, ref > 0, nbits + bits(ref) <= 32)
    group = []
    for _ in range(150 if tier == "quick" else 3000):
        n = rng.randrange(2, 32)
        rb = rng.randrange(1, 33 - n)
        r = rng.randrange(1 << (rb - 1), 1 << rb)
        ones = (1 << n) - 1
        enc = "0 %d %d" % (r, n)
        vs = {r, r + 1, r + ones - 1, r + ones, r - 1, r + rng.randrange(0, ones), r + rng.randrange(0, ones)}
        vs |= {(1 << 24) + 1, (1 << 24) + 3, (1 << 25) + 2, (1 << 26) + 4}
        for v in sorted(vs):
            if abs(v) < (1 << 31):
                group.append("cvt.i32 63001 %s %d" % (enc, v))
    out.append(Scenario("int32path", group, {"stream": "int32path"}))

    # 3. sweeps through both sides (model cost ~60 us per round trip)
    budget = 120000 if tier == "quick" else 2000000
    per = 4000 if tier == "quick" else 20000
    sw = []
    pool = keys[:]
    rng.shuffle(pool)
    while budget > 0 and pool:
        d, s, r, n = pool.pop()
        if n == 0:
            continue
        ones = (1 << n) - 1
        cnt = min(per, ones)
        step = max(1, ones // cnt)
        lo = rng.randrange(0, step)
        sw.append("cvt.sweepd %d %d %d %d %d %d %d" % (d, s, r, n, lo, ones, step))
        budget -= cnt
    for i in range(0, len(sw), 4):
        out.append(Scenario("sweep-%d" % (i // 4), sw[i:i + 4], {"stream": "sweep"}))

    # 4. thorough: C-side exhaustive sweeps (fast build); every bad raw becomes an explicit scenario
    if tier == "thorough":
        out += c_side_sweeps(keys, rng)
    return out

def c_side_sweeps(keys, rng):
    import subprocess
    from concurrent.futures import ThreadPoolExecutor
    exe = build.build_impl("fast")
    jobs = []
    for (d, s, r, n) in keys:
        if n == 0:
            continue
        ones = (1 << n) - 1
        if ones <= (1 << 20):
            jobs.append(("cvt.sweepd %d %d %d %d 0 %d 1" % (d, s, r, n, ones), (d, s, r, n)))
        else:
            step = ones // (1 << 20) + 1
            jobs.append(("cvt.sweepd %d %d %d %d 0 %d 1" % (d, s, r, n, 1 << 19), (d, s, r, n)))
            jobs.append(("cvt.sweepd %d %d %d %d %d %d 1" % (d, s, r, n, ones - (1 << 19), ones), (d, s, r, n)))
            jobs.append(("cvt.sweepd %d %d %d %d %d %d %d" % (d, s, r, n, rng.randrange(0, step), ones, step), (d, s, r, n)))
        lim = F_EXACT0 if s == 0 else F_EXACT
        if abs(r) <= lim:
            hi = min(ones, lim - r if r >= 0 else lim + (-r if -r < lim else 0))
            hi = min(hi, lim)
            lo = 0
            if hi > lo:
                jobs.append(("cvt.sweepf %d %d %d %d %d %d 1" % (d, s, r, n, lo, hi), (d, s, r, n)))
    def run(part):
        p = subprocess.run([exe], input=("\n".join(j[0] for j in part) + "\n").encode(), stdout=subprocess.PIPE,
                           stderr=subprocess.PIPE, env=build.impl_env())
        return p.stdout.decode().splitlines()
    k = max(1, (len(jobs) + 15) // 16)
    parts = [jobs[i:i + k] for i in range(0, len(jobs), k)]
    with ThreadPoolExecutor(max_workers=16) as ex:
        res = list(ex.map(run, parts))
    out, total = [], 0
    for part, lines in zip(parts, res):
        for (line, key), o in zip(part, lines):
            f = o.split()
            if len(f) != 3:
                out.append(Scenario("csweep-crash", [line], {"stream": "csweep"}))
                continue
            total += int(f[0])
            if int(f[1]) != 0:
                d, s, r, n = key
                op = "cvt.rtd" if line.startswith("cvt.sweepd") else "cvt.rtf"
                fb = int(f[2])
                out.append(Scenario("csweep-bad", ["%s %d %d %d %d %d" % (op, d, s, r, n, i)
                                                   for i in (max(0, fb - 1), fb)], {"stream": "csweep"}))
    _cov["c_side_exhaustive"] = {"sweeps": len(jobs), "round_trips": total}
    return out

# ------------------------------------------------------------------ oracle

def demanded(y, r, n):
    """set of acceptable raw results for exact scaled value y = x*10^s (Fraction), per clause 4"""
    ones = (1 << n) - 1
    M = r + ones - 1
    miss = ones
    if y <= r - HALF - TOL or y >= M + HALF + TOL:
        return {miss}, "out"
    if y < r:
        return {miss, 0}, "edge-lo"
    if y > M:
        return {miss, ones - 1}, "edge-hi"
    lo = y.numerator // y.denominator
    fr = y - lo
    if fr <= HALF - TOL:
        return {lo - r}, "grid"
    if fr >= HALF + TOL:
        return {lo + 1 - r}, "grid"
    return {lo - r, lo + 1 - r}, "half"

def check_decode(x, missing_x, s, r, n, raw, rel):
    ones = (1 << n) - 1
    if raw < 0 or raw == ones:
        if not missing_x:
            return "raw %d is the missing pattern but decodes to a value" % raw
        return None
    if missing_x:
        return "raw %d (below all-ones %d) decodes to missing" % (raw, ones)
    want = Fr(raw + r)
    got = Fr(x) * p10(s)
    if abs(got - want) > max(abs(want), 1) * rel:
        return "raw %d decodes to %r, expected about %s/10^%d" % (raw, x, raw + r, s)
    return None

def oracle(scn, outs):
    last = {}
    for line, o in zip(scn.lines, outs):
        t = line.split()
        op = t[0]
        f = o.split()
        if o in ("bad-op", "abort", "exit"):
            return "%s -> %s" % (line, o)
        try:
            if op == "scale.powcheck":
                if len(f) != 41:
                    return "powcheck: %d patterns" % len(f)
                for k, h in enumerate(f):
                    s = k - 20
                    v = Fr(hexd(h))
                    ex = p10(s)
                    ulp = Fr(2) ** (_ilog2(ex) - 52)
                    if abs(v - ex) > ulp / 2:
                        return "pow(10,%d) = %s is not the correctly rounded double" % (s, h)
            elif op == "cvt.missing":
                n = int(t[1])
                if 1 <= n <= 64 and int(o) != (1 << n) - 1:
                    return "bufr_missing_ivalue(%d) = %s, expected %d" % (n, o, (1 << n) - 1)
            elif op in ("cvt.ismissd", "cvt.ismissf"):
                x = hexd(t[1]) if op.endswith("d") else hexf(t[1])
                want = (not finite(x)) or x == (DMAX if op.endswith("d") else FMAX)
                if int(o) != int(want):
                    return "%s -> %s" % (line, o)
            elif op == "cvt.missd":
                if o != "7fefffffffffffff":
                    return "missing double is %s" % o
            elif op == "cvt.missf":
                if o != "7f7fffff":
                    return "missing float is %s" % o
            elif op in ("cvt.rtd", "cvt.rtf", "cvt.i2d", "cvt.i2f"):
                dbl = op in ("cvt.rtd", "cvt.i2d")
                rt = op in ("cvt.rtd", "cvt.rtf")
                a = t[2:] if rt else t[1:]
                s, r, n, raw = int(a[0]), int(a[1]), int(a[2]), int(a[3])
                x = hexd(f[0]) if dbl else hexf(f[0])
                miss = (not finite(x)) or x == (DMAX if dbl else FMAX)
                e = check_decode(x, miss, s, r, n, raw, Fr(1, 1 << 50) if dbl else Fr(1, 1 << 22))
                if e:
                    return "%s: %s" % (line, e)
                ones = (1 << n) - 1
                if rt:
                    back = int(f[1])
                    if raw == ones:
                        if back != ones:
                            return "%s: missing re-encodes to %d, expected all-ones %d" % (line, back, ones)
                    else:
                        if back != raw:
                            return "%s: round trip gives %d (decoded %s)" % (line, back, f[0])
                if 0 <= raw < ones:
                    key = (op[-1], t[1] if rt else "", s, r, n)
                    if key in last:
                        praw, px = last[key]
                        if (praw < raw and not px < x) or (praw > raw and not px > x):
                            return "%s: not strictly increasing: raw %d -> %r, raw %d -> %r" % (line, praw, px, raw, x)
                    last[key] = (raw, x)
            elif op in ("cvt.d2i", "cvt.f2i"):
                dbl = op == "cvt.d2i"
                d, s, r, n = int(t[1]), int(t[2]), int(t[3]), int(t[4])
                x = hexd(t[5]) if dbl else hexf(t[5])
                got = int(o)
                ones = (1 << n) - 1
                if n > 32:
                    continue
                if (not finite(x)) or x == (DMAX if dbl else FMAX):
                    if got != ones:
                        return "%s: missing value encodes to %d, expected all-ones %d" % (line, got, ones)
                    continue
                if n == 0:
                    continue
                y = Fr(x) * p10(s)
                ok, zone = demanded(y, r, n)
                if got not in ok:
                    return "%s: x=%r scaled y=%s (%s) encodes to %d, allowed %s" % (line, x, _fmt(y), zone, got, sorted(ok))
            elif op == "cvt.i32":
                d, s, r, n, v = int(t[1]), int(t[2]), int(t[3]), int(t[4]), int(t[5])
                ones = (1 << n) - 1
                got = int(o)
                ok, zone = demanded(Fr(v) * p10(s), r, n)
                if got not in ok:
                    return "%s: integer %d through the INT32 path encodes to %d, allowed %s" % (line, v, got, sorted(ok))
            elif op == "cvt.range":
                d, s, r, n = int(t[1]), int(t[2]), int(t[3]), int(t[4])
                if f[0] != "1":
                    return "%s: rc %s" % (line, f[0])
                mn, mx = Fr(hexd(f[1])) * p10(s), Fr(hexd(f[2])) * p10(s)
                top = r + (1 << n) - 1 - (0 if (d // 1000) % 100 == 31 else 1)
                rel = Fr(1, 1 << 50)
                if abs(mn - r) > max(abs(r), 1) * rel or abs(mx - top) > max(abs(top), 1) * rel:
                    return "%s: range [%s,%s], expected [%d,%d]/10^%d" % (line, f[1], f[2], r, top, s)
            elif op == "cvt.setd":
                d, s, r, n = int(t[1]), int(t[2]), int(t[3]), int(t[4])
                x = hexd(t[5])
                if (not finite(x)) or x == DMAX:
                    if o != "ok 1":
                        return "%s: missing stored as %s" % (line, o)
                    continue
                y = Fr(x) * p10(s)
                top = r + (1 << n) - 1 - (0 if (d // 1000) % 100 == 31 else 1)
                slack = max(abs(y), 1) * Fr(1, 1 << 48)
                if r + slack <= y <= top - slack and o != "ok 0":
                    return "%s: in-range value %r refused (%s)" % (line, x, o)
                if (y < r - slack or y > top + slack) and o != "err 1":
                    return "%s: out-of-range value %r not stored as missing (%s)" % (line, x, o)
            elif op in ("cvt.sweepd", "cvt.sweepf"):
                if len(f) != 3 or int(f[1]) != 0:
                    return "%s: %s (checked, bad, first bad raw)" % (line, o)
        except (ValueError, IndexError, struct.error) as e:
            return "%s: unparsable output %r (%r)" % (line, o, e)
    return None

def _ilog2(q):
    """floor(log2 q) for a positive Fraction"""
    e = q.numerator.bit_length() - q.denominator.bit_length()
    if Fr(2) ** e > q:
        e -= 1
    return e

def _fmt(y):
    return "%s+%s" % (y.numerator // y.denominator, y - y.numerator // y.denominator)

# ------------------------------------------------------------------ evidence helpers

def _wclass(n):
    return 0 if n == 0 else 1 if n <= 8 else 2 if n <= 16 else 3 if n <= 24 else 4 if n <= 31 else 5

def _sg(v):
    return (v > 0) - (v < 0)

def signature(scn, outs):
    sig = set()
    for line, o in zip(scn.lines, outs):
        t = line.split()
        op = t[0]
        try:
            if op in ("cvt.rtd", "cvt.rtf"):
                s, r, n, raw = int(t[2]), int(t[3]), int(t[4]), int(t[5])
                ones = (1 << n) - 1
                pos = "miss" if raw == ones else "lo" if raw < 2 else "hi" if raw >= ones - 3 else "mid"
                sig.add((op, s, _sg(r), _wclass(n), pos, (raw + r > 0) - (raw + r < 0),
                         r < 0 and ones - 1 + r < 0))
            elif op in ("cvt.d2i", "cvt.f2i"):
                s, r, n = int(t[2]), int(t[3]), int(t[4])
                x = hexd(t[5]) if op == "cvt.d2i" else hexf(t[5])
                zone = "special"
                if finite(x) and n > 0:
                    zone = demanded(Fr(x) * p10(s), r, n)[1]
                sig.add((op, s, _sg(r), _wclass(n), zone, int(o) == (1 << n) - 1, (x > 0) - (x < 0)))
            else:
                sig.add((op, o if len(o) < 8 else len(o)))
        except (ValueError, IndexError, struct.error):
            pass
    return sig

def classify(scn, outs):
    ks = {}
    for line in scn.lines:
        op = line.split()[0]
        ks[op] = ks.get(op, 0) + 1
    out = [scn.meta.get("stream", scn.name.split("-")[0].split(":")[0])]
    for k, v in ks.items():
        out += [k] * 1 if v else []
    return out

def neighbourhood(scn, rng, tier):
    """mutations of a shrunk disagreement: neighbouring raws / widths / scales, and the round trip of
    whatever raw values appear"""
    for l in scn.lines:
        t = l.split()
        if t[0] in ("cvt.rtd", "cvt.rtf", "cvt.i2d", "cvt.i2f"):
            a = t[2:] if t[0] in ("cvt.rtd", "cvt.rtf") else t[1:]
            d = t[1] if t[0] in ("cvt.rtd", "cvt.rtf") else "63001"
            s, r, n, raw = int(a[0]), int(a[1]), int(a[2]), int(a[3])
            for dn in (0, -1, 1):
                for ds in (0, -1, 1):
                    n2 = min(32, max(1, n + dn))
                    ls = []
                    for dr in range(-3, 4):
                        i = min(max(0, raw + dr), (1 << n2) - 1)
                        ls.append("cvt.rtd %s %d %d %d %d" % (d, s + ds, r, n2, i))
                        ls.append("cvt.rtf %s %d %d %d %d" % (d, s + ds, r, n2, i))
                    yield Scenario("nb", ls)
        elif t[0] in ("cvt.d2i", "cvt.f2i"):
            d, s, r, n = t[1], int(t[2]), int(t[3]), int(t[4])
            dbl = t[0] == "cvt.d2i"
            x = hexd(t[5]) if dbl else hexf(t[5])
            if not finite(x):
                continue
            ls = []
            for k in range(-4, 5):
                x2 = x
                for _ in range(abs(k)):
                    x2 = _next(x2, k > 0)
                ls.append("cvt.d2i %s %d %d %d %s" % (d, s, r, n, dhex(x2)))
            for m in (0.5, 0.999, 1.001, 2.0, -1.0):
                ls.append("cvt.d2i %s %d %d %d %s" % (d, s, r, n, dhex(x * m)))
            yield Scenario("nb", ls)

def _next(x, up):
    import math
    return math.nextafter(x, float("inf") if up else float("-inf"))
