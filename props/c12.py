"""C12 — loaded tables are exactly what the files say; local entries override master.

Streams (tbl.* ops, exact tie with the model):
  shipped   every shipped Table B/D pair and the test local tables: load, full dump, version,
            every descriptor fetched (plus absent neighbours), every sequence matched
  csv       the shipped tables re-written in the WMO CSV layout (quoted cells, empty cells)
  synth     synthesised CMC/CSV files: shuffled order, rulers, `-` marks, comments, blank lines,
            CRLF, extreme values, high bytes, truncated lines, missing final newline
  override  master/local overlaps, repeated loads into the same set (any order of new and overriding
            entries), bufr_merge_tables before and after lookups
  inter     random interleavings of load / fetch / dump / match over a small key universe (loads after
            lookups, local keys shadowing descriptors already looked up, …)
  version   bufr_use_tables_list over the shipped versions and synthetic version lists
The oracle is an independent, line-oriented reading of the same bytes and a dictionary model of
"local over master, later load over earlier load"; it knows nothing of caches, arrays or atoi.
In-file duplicates and malformed lines are `unspecified` for that descriptor: counted, never
treated as agreement (fetches of duplicated keys carry a `?` tag and are masked in the tie).
"""
import os, re, random
from vlib.engine import Scenario
from vlib import build

ID = "C12"
THEOREMS = [
    "Bufr.C12.C12_parse_line", "Bufr.C12.C12_glibc_contract", "Bufr.C12.C12_bsearch_sorted",
    "Bufr.C12.C12_lookup", "Bufr.C12.C12_lookup_history", "Bufr.C12.C12_local_wins", "Bufr.C12.C12_local_wins_fetch",
    "Bufr.C12.C12_fetch_absent", "Bufr.C12.C12_load_first", "Bufr.C12.C12_merge_union",
    "Bufr.C12.C12_ops_preserve_inv", "Bufr.C12.C12_merge_tables", "Bufr.C12.C12_version_exact",
    "Bufr.C12.C12_checkloop_reports", "Bufr.C12.C12_checkloop_accepts_partial",
    "Bufr.Generated.shippedD_acyclic",      # generated obligation (translate/tables2lean.py, rewritten each run)
]
EXTRA_TARGETS = ["Generated.ShippedD"]
RULE = ("exhaustive over every line of the 5 shipped Table B/D pairs and the test local tables (CMC and "
        "re-written as CSV); synthesised files and interleavings from one PRNG; distinct = distinct "
        "(op, outcome class, file feature) triples")
ASSUMPTIONS = [
    "the source object of bufr_merge_tables is not used afterwards (master arrays are shared by reference), and an "
    "object is merged into at most once per scenario",
    "descriptor, width: non-negative; files whose columns lie beyond the end of a line read stale buffer bytes "
    "(modelled for the whole 1024-byte `ligne`)",
    "a sequence with more than 1023 members exceeds the readers' capacity (truncated with a warning): unspecified",
    "a Table B line holding all six fields but shorter than 82 bytes is dropped by the loader (known finding "
    "C12-short-line): the generators pad lines to 83 bytes",
]
REPO = build.REPO

# ------------------------------------------------------------------ independent readers
AMBIG = "ambiguous"
NUM, CCITT, CODE, FLAG = 4, 5, 6, 7
INT_RE = re.compile(rb"^[ \t]*[-+]?[0-9]+[ \t\r]*$")

def unit_type(unit):
    u = unit.upper()
    for pre, t in ((b"NUMERI", NUM), (b"FLAG TABLE", FLAG), (b"TABLE FLAG", FLAG), (b"TABLEFLAG", FLAG),
                   (b"MARQUEURS", FLAG), (b"FLAGTABLE", FLAG), (b"TABLE CODE", CODE), (b"TABLECODE", CODE),
                   (b"CODE TABLE", CODE), (b"CODETABLE", CODE), (b"CCITT IA5", CCITT), (b"CCITTIA5", CCITT)):
        if u.startswith(pre):
            return t
    return NUM

def in_int(v):
    return -2**31 <= v < 2**31

class BFile:
    """entries: list of (key, entry | AMBIG) in file order; entry = (desc, scale, ref, nbits, type, unit, descr)"""
    def __init__(self):
        self.entries, self.version, self.notes = [], -1, set()

def read_cmc_b(data):
    f = BFile()
    lines = data.split(b"\n")
    if lines and lines[-1] == b"":
        lines.pop()
    cols, first = [0, 8, 52, 63, 66, 78], 0
    if lines:
        stars = [i for i, c in enumerate(lines[0]) if c == 0x2A]
        if len(stars) >= 6:
            cols, first = stars[:7], 1
            f.notes.add("ruler%d" % min(len(stars), 8))
            if len(stars) > 7:
                f.notes.add("ruler>7")
    # a first line of asterisks that leaves no room for the fields (a banner of contiguous asterisks): the library
    # takes it for a column ruler all the same and reads every number from its column start to wherever the digits
    # end; what such a file "says" is not defined: unspecified (found at seed 5; the tie still covers it)
    degenerate = first == 1 and (cols[1] - cols[0] < 6 or any(cols[k + 1] - cols[k] < 2 for k in range(1, len(cols) - 1)))
    if degenerate:
        f.notes.add("ruler-degenerate")
    for ln in lines[first:]:
        if len(ln) + 1 > 255:
            f.notes.add("longline")
        if len(ln) + 1 > 1023:
            f.notes.add("overlong-line")
        if f.version < 0 and ln.startswith(b"** VERSION"):
            m = re.match(rb"[ \t]*([0-9]+)", ln[11:])
            f.version = int(m.group(1)) if m else 0
        if not ln.startswith(b"0"):
            continue
        if ln.startswith(b"DATA_"):
            continue
        body = ln.rstrip(b"\r")
        m = re.match(rb"^([0-9]{6})(?![0-9])", body[cols[0]:])
        if not m:
            f.notes.add("garbled-descriptor")
            continue
        key = int(m.group(1))
        if key >= 100000:
            continue
        end5 = cols[6] if len(cols) > 6 else cols[5] + 5
        fs = [body[cols[3]:cols[4]], body[cols[4]:cols[5]], body[cols[5]:end5]]
        if len(cols) > 6 and len(stars) == 7 and body[cols[6]:cols[6] + 1] == b"-":
            f.notes.add("dash-excluded")
            continue
        if len(body) < cols[5] + 1 or not all(INT_RE.match(x) for x in fs):
            f.entries.append((key, AMBIG))          # truncated or garbled line: unspecified
            f.notes.add("malformed-line")
            continue
        if degenerate:
            f.entries.append((key, AMBIG))
            continue
        sc, rf, nb = (int(x) for x in fs)
        if not (in_int(sc) and in_int(rf) and in_int(nb)) or nb < 0:
            f.entries.append((key, AMBIG))
            f.notes.add("out-of-int")
            continue
        if b"\0" in body:
            f.entries.append((key, AMBIG))
            f.notes.add("nul-byte")
            continue
        unit = body[cols[2]:cols[3]].rstrip(b" \t\r\n\v\f")
        if cols[3] - cols[2] != 11:
            f.notes.add("unit-width")
            unit = None                              # the C reads 11 bytes whatever the ruler says
        descr = body[cols[1]:cols[2]].rstrip(b" ")
        ut = unit_type(body[cols[2]:cols[3]].rstrip(b" \t\r\n\v\f"))
        if len(ln) + 1 < 82:
            f.notes.add("short-complete-line")
        f.entries.append((key, (key, sc, rf, nb, ut, unit, descr)))
    return f

class DFile:
    def __init__(self):
        self.entries, self.notes = [], set()

def read_cmc_d(data):
    f = DFile()
    lines = data.split(b"\n")
    if lines and lines[-1] == b"":
        lines.pop()
    for ln in lines:
        if len(ln) + 1 > 8191:
            f.notes.add("longline")
        if ln.startswith(b"*TABLED7890123456"):
            f.notes.add("tabled-ruler")
        if not ln.startswith(b"3"):
            continue
        toks = ln.replace(b"\r", b" ").split()
        if not all(re.match(rb"^[0-9]{6}$", t) for t in toks):
            if toks and re.match(rb"^[0-9]{6}$", toks[0]):
                f.entries.append((int(toks[0]), AMBIG))
            f.notes.add("malformed-line")
            continue
        if len(toks) < 2:
            continue
        if len(toks) > 1024:
            f.notes.add("too-many-members")          # capacity of the reader: truncated with a warning
            f.entries.append((int(toks[0]), AMBIG))
            continue
        f.entries.append((int(toks[0]), tuple(int(t) for t in toks[1:])))
    return f

def csv_rows(data):
    """RFC-4180 style rows (quotes may contain commas; `""` is a quote) — not the C tokenizer"""
    rows = []
    for ln in data.split(b"\n"):
        ln = ln.rstrip(b"\r")
        if ln == b"":
            continue
        cells, cur, i, q = [], bytearray(), 0, False
        quoted_cell = False
        while i < len(ln):
            c = ln[i:i + 1]
            if q:
                if c == b'"':
                    if ln[i + 1:i + 2] == b'"':
                        cur += b'"'; i += 1
                    else:
                        q = False
                else:
                    cur += c
            elif c == b'"' and not cur:
                q = True; quoted_cell = True
            elif c == b",":
                cells.append(bytes(cur)); cur = bytearray()
            else:
                cur += c
            i += 1
        cells.append(bytes(cur))
        rows.append((cells, ln))
    return rows

def read_csv_b(data):
    f = BFile()
    rows = csv_rows(data)
    if not rows:
        return f
    hdr = [c.strip() for c in rows[0][0]]
    need = [b"FXY", b"ElementName_en", b"BUFR_Unit", b"BUFR_Scale", b"BUFR_ReferenceValue", b"BUFR_DataWidth_Bits"]
    if not all(n in hdr for n in need):
        f.notes.add("no-header")
        return None
    if hdr.index(need[-1]) == len(hdr) - 1 or any(hdr.index(n) == len(hdr) - 1 for n in need):
        f.notes.add("needed-column-last")
    pos = [hdr.index(n) for n in need]
    for cells, raw in rows[1:]:
        if len(raw) + 1 > 1023:
            f.notes.add("longline")
        if len(cells) != len(hdr):
            f.notes.add("cellcount")
            continue
        v = [cells[p] for p in pos]
        if not re.match(rb"^[ \t]*[0-9]{6}[ \t]*$", v[0]):
            f.notes.add("garbled-descriptor")
            continue
        key = int(v[0])
        if key >= 100000:
            continue
        if not all(INT_RE.match(x) for x in v[3:6]):
            f.entries.append((key, AMBIG)); f.notes.add("malformed-line"); continue
        sc, rf, nb = int(v[3]), int(v[4]), int(v[5])
        if not (in_int(sc) and in_int(rf) and in_int(nb)) or nb < 0:
            f.entries.append((key, AMBIG)); f.notes.add("out-of-int"); continue
        f.entries.append((key, (key, sc, rf, nb, unit_type(v[2]), v[2], None)))   # description text not compared
    return f

def read_csv_d(data):
    f = DFile()
    rows = csv_rows(data)
    if not rows:
        return f
    hdr = [c.strip() for c in rows[0][0]]
    need = [b"FXY1", b"Title_en", b"FXY2"]
    if not all(n in hdr for n in need):
        return None
    pos = [hdr.index(n) for n in need]
    cur = None
    for cells, raw in rows[1:]:
        if len(cells) != len(hdr):
            f.notes.add("cellcount"); continue
        a, b = cells[pos[0]], cells[pos[2]]
        if not (re.match(rb"^[0-9]{6}$", a.strip()) and re.match(rb"^[0-9]{6}$", b.strip())):
            f.notes.add("malformed-line"); cur = None; continue
        a, b = int(a), int(b)
        if cur is not None and cur[0] == a:
            cur[1].append(b)
        else:
            cur = (a, [b]); f.entries.append(cur)
    f.entries = [(k, tuple(m) if len(m) <= 1023 else AMBIG) for k, m in f.entries]
    return f

# ------------------------------------------------------------------ dictionary model of the property
def as_dict(entries, base=None):
    """later entries win across loads; the same key twice inside one load is unspecified"""
    d = dict(base or {})
    seen = set()
    for k, e in entries:
        if k in seen or e is AMBIG:
            d[k] = AMBIG
        else:
            d[k] = e
        seen.add(k)
    return d

class Obj:
    def __init__(self):
        self.mB = self.lB = self.mD = self.lD = None
        self.mver, self.lver = 0, 0
        self.consumed = False
    def lookupB(self, d):
        if d // 100000 in (1, 2, 3):
            return None
        for t in (self.lB, self.mB):
            if t is not None and d in t:
                return t[d]
        return None
    def lookupD(self, d):
        if d // 100000 != 3:
            return None
        for t in (self.lD, self.mD):
            if t is not None and d in t:
                return t[d]
        return None
    def loop_rc_class(self, which):
        """0 = closed and acyclic seen from the entries of the given set, else -1"""
        t = self.lD if which == "l" else self.mD
        if not t:
            return 0
        ok = {}
        def good(d, path):
            if d // 100000 != 3:
                return True
            if d in path:
                return False
            if d in ok:
                return ok[d]
            ms = self.lookupD(d)
            if ms is None or ms is AMBIG:
                r = False if ms is None else None
            else:
                r = True
                for m in ms:
                    g = good(m, path | {d})
                    if g is None:
                        r = None
                    elif not g:
                        r = False; break
            ok[d] = r
            return r
        res = 0
        for k, ms in t.items():
            if ms is AMBIG:
                return None
            for m in ms:
                g = good(m, frozenset())
                if g is None:
                    return None
                if not g:
                    res = -1
        return res

_parse_cache = {}
def parsed(kind, key, data_fn):
    ck = (kind, key)
    if ck not in _parse_cache:
        data = data_fn()
        if len(_parse_cache) > 4000:
            _parse_cache.clear()
        _parse_cache[ck] = None if data is None else \
            {"b": read_cmc_b, "d": read_cmc_d, "cb": read_csv_b, "cd": read_csv_d}[kind](data)
    return _parse_cache[ck]

def fmt_b(e, with_text=True):
    return e[:5]

def parse_b_out(s):
    t = s.split()
    if len(t) != 7:
        return None
    unit = b"" if t[5] == "-" else bytes.fromhex(t[5])
    descr = b"" if t[6] == "-" else bytes.fromhex(t[6])
    return (int(t[0]), int(t[1]), int(t[2]), int(t[3]), int(t[4]), unit, descr)

def same_b(exp, got):
    if exp[:5] != got[:5]:
        return False
    if exp[5] is not None and exp[5] != got[5]:
        return False
    if exp[6] is not None and exp[6] != got[6]:
        return False
    return True

def show_b(e):
    if e is None:
        return "none"
    return "(desc %d scale %d ref %d width %d type %d unit %r description %r)" % e

class Spec:
    """walks a scenario; yields per line the expectation"""
    def __init__(self):
        self.files, self.objs, self.cur, self.vlist = {}, [Obj() for _ in range(8)], 0, []
    def data(self, path):
        if path.startswith("@"):
            return self.files.get(path[1:])
        try:
            return open(path, "rb").read()
        except OSError:
            return None
    def pf(self, kind, path):
        if path.startswith("@"):
            d = self.files.get(path[1:])
            return parsed(kind, ("@", d), lambda: d)
        return parsed(kind, path, lambda: self.data(path))

def oracle(scn, outs):
    return _walk(scn, outs)[0]

def _walk(scn, outs):
    """returns (violation text | None, stats)"""
    sp = Spec()
    stats = {"checked": 0, "unspecified": 0, "notes": set()}
    def bad(i, msg):
        return ("line %d `%s`: %s" % (i, scn.lines[i][:80], msg), stats)
    for i, (line, o) in enumerate(zip(scn.lines, outs)):
        t = line.split()
        op = t[0]
        if op == "tbl.file":
            sp.files[t[1]] = b"" if t[2] == "-" else bytes.fromhex(t[2])
            continue
        if op == "tbl.new":
            k = int(t[1]) if len(t) > 1 else 0
            sp.objs[k] = Obj(); sp.cur = k
            continue
        if op == "tbl.sel":
            sp.cur = int(t[1]); continue
        ob = sp.objs[sp.cur]
        if o in ("consumed", "bad-op"):
            continue
        if op.startswith("tbl.load") and t[1].startswith("@") and t[1][1:] not in sp.files:
            return (None, stats)        # ill-formed scenario (a shrinking step removed the file): no verdict
        if op in ("tbl.load_m_b", "tbl.load_l_b", "tbl.load_csv_b"):
            f = sp.pf("cb" if op.endswith("csv_b") else "b", t[1])
            loc = op == "tbl.load_l_b"
            old = ob.lB if loc else ob.mB
            if f is None:
                exp_rc = -1 if old is None else 0
            else:
                stats["notes"] |= f.notes
                new = as_dict(f.entries, old)
                if loc:
                    ob.lB = new
                    if op != "tbl.load_csv_b": ob.lver = f.version
                else:
                    ob.mB = new
                    if op != "tbl.load_csv_b": ob.mver = f.version
                exp_rc = 0
            if o == "fault":
                return bad(i, "loader ran off a buffer")
            if int(o) != exp_rc:
                return bad(i, "rc %s, expected %d" % (o, exp_rc))
            stats["checked"] += 1
        elif op in ("tbl.load_m_d", "tbl.load_l_d", "tbl.load_csv_d"):
            f = sp.pf("cd" if op.endswith("csv_d") else "d", t[1])
            loc = op == "tbl.load_l_d"
            old = ob.lD if loc else ob.mD
            if f is not None:
                stats["notes"] |= f.notes
                new = as_dict(f.entries, old)
                if loc: ob.lD = new
                else: ob.mD = new
            elif old is None and op != "tbl.load_csv_d" and sp.data(t[1]) is not None:
                pass
            if o == "fault":
                return bad(i, "loader ran off a buffer")
            cls = ob.loop_rc_class("l" if loc else "m")
            if cls is None:
                stats["unspecified"] += 1
            elif (int(o) == 0) != (cls == 0):
                return bad(i, "rc %s but the table is %s" % (o, "closed and acyclic" if cls == 0 else "cyclic or open"))
            else:
                stats["checked"] += 1
        elif op == "tbl.checkloop":
            w = t[1][0]
            if w == "l" and ob.lD is None: ob.lD = {}
            if w == "m" and ob.mD is None: ob.mD = {}
            cls = ob.loop_rc_class(w)
            if cls is None:
                stats["unspecified"] += 1
            elif (int(o) == 0) != (cls == 0):
                return bad(i, "rc %s but the table is %s" % (o, "closed and acyclic" if cls == 0 else "cyclic or open"))
            else:
                stats["checked"] += 1
        elif op == "tbl.merge":
            src = sp.objs[int(t[1])]
            if src.mB is not None:
                ob.mB, ob.mver = src.mB, src.mver
            if src.mD is not None:
                ob.mD = src.mD
            lb = dict(ob.lB or {}); lb.update(src.lB or {}); ob.lB = lb
            ld = dict(ob.lD or {}); ld.update(src.lD or {}); ob.lD = ld
            ob.lver = max(ob.lver, src.lver)
            src.consumed = True
        elif op == "tbl.fetchB":
            d = int(t[1])
            exp = ob.lookupB(d)
            if o == "fault":
                return bad(i, "lookup read freed memory")
            if exp is AMBIG:
                stats["unspecified"] += 1
            elif exp is None:
                if o != "none":
                    return bad(i, "descriptor is absent from the loaded files but the lookup returned %s" % o[:60])
                stats["checked"] += 1
            else:
                got = parse_b_out(o) if o != "none" else None
                if got is None or not same_b(exp, got):
                    return bad(i, "the files say %s, the lookup returned %s" % (show_b(exp), show_b(got)))
                stats["checked"] += 1
        elif op == "tbl.fetchD":
            d = int(t[1])
            exp = ob.lookupD(d)
            if exp is AMBIG:
                stats["unspecified"] += 1
            elif exp is None:
                if o != "none":
                    return bad(i, "absent sequence returned %s" % o[:60])
                stats["checked"] += 1
            else:
                if o.split() != [str(d)] + [str(m) for m in exp]:
                    return bad(i, "expected %s, got %s" % (exp, o[:80]))
                stats["checked"] += 1
        elif op == "tbl.match":
            seq = tuple(int(x) for x in t[1:])
            exp, amb = None, False
            for tb in (ob.lD, ob.mD):
                if tb:
                    if any(v is AMBIG for v in tb.values()):
                        amb = True
                    ks = sorted(k for k, v in tb.items() if v == seq)
                    if ks:
                        exp = ks[0]; break
            if amb:
                stats["unspecified"] += 1
            elif (o == "none") != (exp is None) or (exp is not None and int(o) != exp):
                return bad(i, "expected %s, got %s" % (exp, o))
            else:
                stats["checked"] += 1
        elif op in ("tbl.dumpB", "tbl.dumpD"):
            isB = op == "tbl.dumpB"
            tb = {"Bm": ob.mB, "Bl": ob.lB, "Dm": ob.mD, "Dl": ob.lD}[("B" if isB else "D") + t[1][0]]
            if o == "null":
                if tb:
                    return bad(i, "nothing loaded but the files hold %d entries" % len(tb))
                continue
            parts = o.split(" ", 1)
            ents = parts[1].split(";") if len(parts) > 1 else []
            got = {}
            for e in ents:
                k = int(e.split()[0])
                got.setdefault(k, []).append(e)
            tb = tb or {}
            if set(got) != set(tb):
                miss = sorted(set(tb) - set(got))[:5]; extra = sorted(set(got) - set(tb))[:5]
                return bad(i, "descriptor sets differ: missing %s, not in the file %s" % (miss, extra))
            for k, exp in tb.items():
                if exp is AMBIG:
                    stats["unspecified"] += 1
                    continue
                if len(got[k]) != 1:
                    return bad(i, "descriptor %d present %d times" % (k, len(got[k])))
                if isB:
                    g = parse_b_out(got[k][0])
                    if g is None or not same_b(exp, g):
                        return bad(i, "descriptor %d: the file says %s, loaded %s" % (k, show_b(exp), show_b(g)))
                elif got[k][0].split() != [str(k)] + [str(m) for m in exp]:
                    return bad(i, "sequence %d: expected %s, loaded %s" % (k, exp, got[k][0][:80]))
                stats["checked"] += 1
        elif op == "tbl.version":
            if o.split() != [str(ob.mver), str(ob.lver)]:
                return bad(i, "expected versions %d %d" % (ob.mver, ob.lver))
            stats["checked"] += 1
        elif op == "tbl.ingestB":
            w = t[1][0]
            cur = dict((ob.lB if w == "l" else ob.mB) or {})
            k = int(t[2])
            unit = b"" if t[7] == "-" else bytes.fromhex(t[7]); descr = b"" if t[8] == "-" else bytes.fromhex(t[8])
            cur[k] = AMBIG if k in cur else (k, int(t[3]), int(t[4]), int(t[5]), int(t[6]), unit, descr)
            if w == "l": ob.lB = cur
            else: ob.mB = cur
        elif op == "tbl.ingestD":
            w = t[1][0]
            cur = dict((ob.lD if w == "l" else ob.mD) or {})
            k = int(t[2])
            cur[k] = AMBIG if k in cur else tuple(int(x) for x in t[3:])
            if w == "l": ob.lD = cur
            else: ob.mD = cur
        elif op == "tbl.list_add":
            f = sp.pf("b", t[1])
            v = f.version if f is not None else 0
            sp.vlist.append(v)
            if o.split()[-1] != str(v):
                return bad(i, "version %s, the file says %d" % (o.split()[-1], v))
            stats["checked"] += 1
        elif op == "tbl.list_addv":
            sp.vlist.append(int(t[1]))
        elif op == "tbl.use":
            v = int(t[1])
            if v in sp.vlist:
                if o == "none" or int(o.split()[1]) != v:
                    return bad(i, "version %d is loaded but %s was selected" % (v, o))
                stats["checked"] += 1
            elif sp.vlist and o == "none":
                return bad(i, "no tables selected although %d are loaded" % len(sp.vlist))
            else:
                stats["unspecified"] += 1
    return (None, stats)

def canon(line, out, side):
    # fetches of a descriptor that is duplicated inside one array: bsearch/qsort may return either
    if line.endswith(" ?"):
        return "*"
    return out

def signature(scn, outs):
    sig = set()
    for l, o in zip(scn.lines, outs):
        op = l.split()[0]
        if op == "tbl.file":
            continue
        cls = o.split()[0] if o in ("none", "null", "fault", "ok", "consumed") or op.startswith("tbl.load") or op in ("tbl.checkloop", "tbl.version", "tbl.use") else \
            ("t%s" % o.split()[4] if op == "tbl.fetchB" else "n%d" % min(len(o.split()), 9))
        sig.add((scn.meta.get("stream", "?"), scn.meta.get("feature", ""), op, cls))
    return sig

def classify(scn, outs):
    ks = ["stream=" + scn.meta.get("stream", "corpus")]
    _, st = _walk(scn, outs)
    _totals["checked"] += st["checked"]
    _totals["unspecified"] += st["unspecified"]
    if st["unspecified"]:
        ks.append("has-unspecified")
    for n in st["notes"]:
        ks.append("file:" + n)
    return ks

_totals = {"checked": 0, "unspecified": 0}
def coverage_extra():
    return {"oracle_assertions_checked": _totals["checked"],
            "oracle_unspecified_not_counted_as_agreement": _totals["unspecified"],
            "shipped_data_note": "table_d_bufr (-31, -32, -35 and current) defines 3 01 130 twice with different members "
                                 "and 3 07 092 twice: lookups of these are unspecified (bsearch may return either)"}

# ------------------------------------------------------------------ generators
def hx(b):
    return b.hex() if b else "-"

STD_COLS = [0, 8, 52, 63, 66, 78]
ALT_COLS = [[0, 8, 52, 63, 66, 78], [0, 7, 40, 51, 55, 68], [0, 10, 60, 71, 76, 90], [0, 8, 52, 63, 67, 80]]

def fmt_line(d, descr, unit, sc, rf, nb, tail=b"", cols=STD_COLS, flag=None):
    c = cols
    ln = bytearray(b" " * (max(c[5] + 5, 83) + (3 if flag is not None else 0)))
    def put(pos, txt):
        ln[pos:pos + len(txt)] = txt
    put(c[0], b"%06d" % d)
    put(c[1], descr[:c[2] - c[1]])
    put(c[2], unit[:c[3] - c[2]])
    put(c[3], (b"%d" % sc).rjust(c[4] - c[3]))
    put(c[4], (b"%d" % rf).rjust(c[5] - c[4] - 1))
    put(c[5], (b"%d" % nb).rjust(5))
    if flag is not None:
        put(c[5] + 6, flag)
    # lines are blank-padded to 83 bytes: a complete line shorter than 82 bytes (with its newline) is dropped by
    # the loader (known finding C12-short-line, corpus witness)
    return bytes(ln) + tail

def ruler(cols):
    r = bytearray(b" " * (cols[-1] + 1))
    for c in cols:
        r[c] = 0x2A
    return bytes(r)

UNITS = [b"NUMERIC", b"CODE TABLE", b"FLAG TABLE", b"CCITT IA5", b"K", b"M/S", b"PA", b"DEGREE TRUE", b"Numeric",
         b"code table", b"TABLE CODE", b"CODETABLE", b"TABLEFLAG", b"MARQUEURS", b"CCITTIA5", b"KG/M**2", b"%", b"",
         b"NUMERICAL", b"FLAGTABLE", b"TABLE FLAG", b"TABLECODE", b"Flag table", b"\xb0C", b"M\xb2"]

def rand_entry(rng, d, extreme=False):
    unit = rng.choice(UNITS)
    descr = bytes(rng.choice(b"ABCDEFGHIJKLMNOPQRSTUVWXYZ ,/()-0123456789") for _ in range(rng.randrange(1, 44))).strip() or b"X"
    if rng.random() < 0.1:
        descr = descr[:20] + bytes([rng.randrange(0xA0, 0x100)]) + descr[20:40]
    if extreme:
        sc = rng.choice([-99, 999, -9, 0, 127, -128])
        # INT_MIN is a known finding of its own (negation overflow in bufr_value_nbits): corpus witness
        rf = rng.choice([-2**31 + 1, 2**31 - 1, -1073741824, 0, 1, -1, 999999999, -999999999])
        nb = rng.choice([0, 1, 64, 99999, 255, 32, 33])
    else:
        sc = rng.randrange(-3, 8); rf = rng.choice([0, 0, -1024, rng.randrange(-99999, 99999)]); nb = rng.randrange(1, 33)
    return (d, descr, unit, sc, rf, nb)

def gen_cmc_b(rng, keys, feat=(), version=None):
    """feat ⊆ {shuffle, ruler6, ruler7, crlf, comments, extreme, trailing, nonl}"""
    es = [rand_entry(rng, d, "extreme" in feat) for d in keys]
    if "dups" in feat:      # the same descriptor twice in one file, with different content: unspecified
        for d in rng.sample(list(keys), min(len(keys), rng.randrange(1, 4))):
            es.insert(rng.randrange(len(es) + 1), rand_entry(rng, d))
    if "shuffle" in feat:
        rng.shuffle(es)
    nl = b"\r\n" if "crlf" in feat else b"\n"
    out = []
    cols = STD_COLS
    if "ruler7" in feat:
        cols = rng.choice(ALT_COLS)
        out.append(ruler(cols + [cols[5] + 6]))
    elif "ruler6" in feat:
        cols = rng.choice(ALT_COLS)
        out.append(ruler(cols))
    elif "nohead" not in feat:
        out.append(b"** SYNTHESISED TABLE B")      # "nohead": the first line of the file is the version line or an entry
    if version is not None:
        out.append(b"** VERSION %03d.001 test" % version)
    for e in es:
        if "comments" in feat and rng.random() < 0.3:
            out.append(rng.choice([b"", b"* a comment", b"# another", b"   ", b"*" * 30, b"** VERSION 099 late", b"DATA_CATEGORY=12",
                                   b"1 not a table b line" + b" " * 80, b" 012345 leading blank" + b" " * 70]))
        if "ruler7" in feat:
            out.append(fmt_line(*e, cols=cols, flag=rng.choice([b" ", b"M", b"-", b"x"])))
        else:
            tail = rng.choice([b"", b" M", b"   ", b" trailing words 123"]) if "trailing" in feat else b""
            out.append(fmt_line(*e, tail=tail, cols=cols))
    data = nl.join(out) + (b"" if "nonl" in feat else nl)
    return data

def gen_cmc_d(rng, keys, universe, feat=()):
    out = [b"* SYNTHESISED TABLE D"]
    ks = list(keys)
    if "shuffle" in feat:
        rng.shuffle(ks)
    nl = b"\r\n" if "crlf" in feat else b"\n"
    for k in ks:
        if "comments" in feat and rng.random() < 0.3:
            out.append(rng.choice([b"", b"* title of the next sequence", b"# x", b"*", b"2 05 001"]))
        n = rng.randrange(1, 9)
        ms = [rng.choice(universe) for _ in range(n)]
        sep = b"\t" if "tabs" in feat and rng.random() < 0.5 else b" "
        out.append(sep.join(b"%06d" % x for x in [k] + ms))
    return nl.join(out) + (b"" if "nonl" in feat else nl)

CSVB_HDR = b"ClassNo,ClassName_en,FXY,ElementName_en,Note_en,BUFR_Unit,BUFR_Scale,BUFR_ReferenceValue,BUFR_DataWidth_Bits,CREX_Unit,CREX_Scale,CREX_DataWidth_Char,Status"
CSVD_HDR = b"Category,CategoryOfSequences_en,FXY1,Title_en,SubTitle_en,FXY2,ElementName_en,ElementDescription_en,Note_en,Status"

def csv_cell(rng, text, force_quote=False):
    if b"," in text or force_quote:
        return b'"' + text + b'"'
    return text

def to_csv_b(entries, rng, crlf=False, notes=True):
    out = [CSVB_HDR]
    for (d, sc, rf, nb, ut, unit, descr) in entries:
        name = descr.replace(b'"', b"'")
        note = b"see note" if (notes and rng.random() < 0.3) else b""
        q = b"," in name or rng.random() < 0.15
        out.append(b",".join([b"%02d" % (d // 1000), b"Class", b"%06d" % d, csv_cell(rng, name, q), note,
                              csv_cell(rng, unit or b"x"), b"%d" % sc, b"%d" % rf, b"%d" % nb, b"unit", b"0", b"5", b"Operational"]))
    nl = b"\r\n" if crlf else b"\n"
    return nl.join(out) + nl

def to_csv_d(entries, rng, crlf=False):
    out = [CSVD_HDR]
    for k, ms in entries:
        for m in ms:
            out.append(b",".join([b"%02d" % (k // 1000 % 100), b"cat", b"%06d" % k, csv_cell(rng, b"Title, of %d" % k, True), b"sub",
                                  b"%06d" % m, b"elem", b"", b"", b"Operational"]))
    nl = b"\r\n" if crlf else b"\n"
    return nl.join(out) + nl

SHIPPED = ["", "-13", "-31", "-32", "-35"]

def shipped_scenarios():
    out = []
    for sfx in SHIPPED:
        pb = os.path.join(REPO, "Tables", "table_b_bufr" + sfx)
        pd = os.path.join(REPO, "Tables", "table_d_bufr" + sfx)
        fb, fd = read_cmc_b(open(pb, "rb").read()), read_cmc_d(open(pd, "rb").read())
        bk = [k for k, _ in fb.entries]
        dk = [k for k, _ in fd.entries]
        ls = ["tbl.new", "tbl.load_m_b " + pb, "tbl.load_m_d " + pd, "tbl.version", "tbl.dumpB m", "tbl.dumpD m", "tbl.dumpB l"]
        ls += ["tbl.fetchB %d" % k for k in bk]
        ls += ["tbl.fetchB %d" % k for k in bk[::3]]                    # again, now from the cache
        absent = sorted(set(k + 1 for k in bk) - set(bk))
        ls += ["tbl.fetchB %d" % k for k in absent[::4]] + ["tbl.fetchB 0", "tbl.fetchB 99999", "tbl.fetchB 100000",
               "tbl.fetchB 101000", "tbl.fetchB 201130", "tbl.fetchB 301001", "tbl.fetchB 400000", "tbl.fetchB 999999"]
        ls += ["tbl.fetchD %d" % k for k in dk]
        ls += ["tbl.fetchD %d" % (k + 1) for k in dk[::5] if k + 1 not in dk] + ["tbl.fetchD 1001", "tbl.fetchD 399999", "tbl.fetchD 201000"]
        for k, ms in fd.entries[::2]:
            if ms is not AMBIG:
                ls.append("tbl.match " + " ".join(str(m) for m in ms))
        ls += ["tbl.match 1 2 3", "tbl.checkloop m", "tbl.dumpD m"]
        out.append(Scenario("shipped" + (sfx or "-current"), ls, {"stream": "shipped", "feature": sfx}))
    # test local tables on top of the current master
    pb, pd = os.path.join(REPO, "Test", "local_table_b"), os.path.join(REPO, "Test", "local_table_d")
    fb, fd = read_cmc_b(open(pb, "rb").read()), read_cmc_d(open(pd, "rb").read())
    ls = ["tbl.new", "tbl.load_m_b " + os.path.join(REPO, "Tables", "table_b_bufr"),
          "tbl.load_m_d " + os.path.join(REPO, "Tables", "table_d_bufr"),
          "tbl.load_l_b " + pb, "tbl.load_l_d " + pd, "tbl.version", "tbl.dumpB l", "tbl.dumpD l"]
    ls += ["tbl.fetchB %d" % k for k, _ in fb.entries] + ["tbl.fetchB %d" % (k + 1) for k, _ in fb.entries]
    ls += ["tbl.fetchD %d" % k for k, _ in fd.entries] + ["tbl.fetchB 12101", "tbl.fetchD 301001"]
    for k, ms in fd.entries:
        ls.append("tbl.match " + " ".join(str(m) for m in ms))
    out.append(Scenario("test-local", ls, {"stream": "shipped", "feature": "local"}))
    # local tables alone
    ls = ["tbl.new", "tbl.load_l_b " + pb, "tbl.load_l_d " + pd, "tbl.dumpB l", "tbl.dumpB m", "tbl.dumpD l", "tbl.version"]
    ls += ["tbl.fetchB %d" % k for k, _ in fb.entries[::-1]] + ["tbl.fetchB 12101", "tbl.fetchD 311010", "tbl.fetchD 301011"]
    out.append(Scenario("test-local-alone", ls, {"stream": "shipped", "feature": "local-alone"}))
    return out

def csv_scenarios(rng, tier):
    out = []
    for sfx in (["", "-13"] if tier == "quick" else SHIPPED):
        fb = read_cmc_b(open(os.path.join(REPO, "Tables", "table_b_bufr" + sfx), "rb").read())
        fd = read_cmc_d(open(os.path.join(REPO, "Tables", "table_d_bufr" + sfx), "rb").read())
        eb = [e for _, e in fb.entries if e is not AMBIG]
        ed = [(k, m) for k, m in fd.entries if m is not AMBIG and len(m) < 1000]
        cb, cd = to_csv_b(eb, rng, crlf=(sfx == "-13")), to_csv_d(ed, rng, crlf=(sfx == "-13"))
        ls = ["tbl.file csvb " + hx(cb), "tbl.file csvd " + hx(cd), "tbl.new", "tbl.load_csv_b @csvb", "tbl.load_csv_d @csvd",
              "tbl.dumpB m", "tbl.dumpD m", "tbl.version"]
        ls += ["tbl.fetchB %d" % e[0] for e in eb[::2]] + ["tbl.fetchD %d" % k for k, _ in ed[::2]]
        ls += ["tbl.fetchB 5", "tbl.fetchD 300001"]
        out.append(Scenario("csv" + (sfx or "-current"), ls, {"stream": "csv", "feature": sfx}))
    return out

FEATS_B = [(), ("shuffle",), ("ruler6",), ("ruler7", "shuffle"), ("crlf",), ("comments", "shuffle"), ("extreme",),
           ("trailing",), ("nonl",), ("crlf", "comments", "trailing", "shuffle"), ("ruler7", "crlf", "comments"),
           ("dups",), ("dups", "shuffle", "comments"), ("nohead",), ("nohead", "shuffle", "crlf"), ("nohead", "comments")]
FEATS_D = [(), ("shuffle",), ("crlf",), ("comments",), ("tabs", "shuffle"), ("nonl",), ("crlf", "comments", "shuffle", "nonl")]

def pick_keys(rng, n, lo=1, hi=63):
    ks = set()
    while len(ks) < n:
        ks.add(rng.randrange(0, 64) * 1000 + rng.choice([1, 2, 3, 50, 191, 192, 200, 255]))
    return sorted(ks)

def synth_scenarios(rng, tier):
    out = []
    n = 330 if tier == "quick" else 1500
    for i in range(n):
        feat = FEATS_B[i % len(FEATS_B)]
        keys = pick_keys(rng, rng.randrange(1, 40))
        data = gen_cmc_b(rng, keys, feat, version=rng.choice([None, 7, 35, 0]))
        w = rng.choice(["m", "l"])
        ls = ["tbl.file f " + hx(data), "tbl.new", "tbl.load_%s_b @f" % w, "tbl.version", "tbl.dumpB " + w]
        ks = list(keys); rng.shuffle(ks)
        fparsed = read_cmc_b(data)
        seen, dupk = set(), set()
        for k, _ in fparsed.entries:
            (dupk if k in seen else seen).add(k)
        tag = lambda k: " ?" if k in dupk else ""       # either entry may be returned: masked in the tie
        ls += ["tbl.fetchB %d%s" % (k, tag(k)) for k in ks] + ["tbl.fetchB %d" % (k + 1) for k in ks[:8] if k + 1 not in dupk] + \
              ["tbl.fetchB %d%s" % (k, tag(k)) for k in ks[:5]]
        out.append(Scenario("synthB-%d" % i, ls, {"stream": "synth", "feature": "+".join(feat) or "plain"}))
    uni = [1001, 1002, 2001, 4001, 5001, 6001, 101000, 31001, 201130, 201000, 102003]
    for i in range(n // 2):
        feat = FEATS_D[i % len(FEATS_D)]
        keys = sorted(set(300000 + rng.randrange(0, 64) * 1000 + rng.randrange(1, 256) for _ in range(rng.randrange(1, 25))))
        # members: plain descriptors plus earlier (smaller) sequences: acyclic and closed by construction
        data_keys = []
        lines_uni = list(uni)
        entries = []
        for k in keys:
            entries.append(k)
        data = gen_cmc_d(rng, keys, uni, feat)
        # add nested references to smaller keys (still acyclic)
        if len(keys) > 2 and rng.random() < 0.7:
            extra = b"%06d %06d %06d 001001\n" % (399001, keys[0], keys[1])
            data += (b"" if data.endswith(b"\n") else b"\n") + extra
        w = rng.choice(["m", "l"])
        fd = read_cmc_d(data)
        ls = ["tbl.file f " + hx(data), "tbl.new", "tbl.load_%s_d @f" % w, "tbl.dumpD " + w]
        ls += ["tbl.fetchD %d" % k for k, _ in fd.entries] + ["tbl.fetchD %d" % (k + 1) for k, _ in fd.entries[:5]]
        for k, ms in fd.entries[:6]:
            if ms is not AMBIG:
                ls.append("tbl.match " + " ".join(str(m) for m in ms))
        ls.append("tbl.checkloop " + w)
        out.append(Scenario("synthD-%d" % i, ls, {"stream": "synth", "feature": "D:" + ("+".join(feat) or "plain")}))
    # cyclic / open Table D (load reports it; the table stays loaded)
    cyc = [(b"363001 363002 001001\n363002 363001\n", "two-cycle"), (b"363001 363001\n", "self-loop"),
           (b"363001 363002\n363002 363003\n363003 363001 001001\n", "three-cycle"),
           (b"363001 363009 001001\n", "unknown-member"), (b"363001 001001 363002\n363002 002001\n363005 363001 363002\n", "acyclic"),
           (b"363001 363002\n363002 363404\n363003 363001\n363004 001001\n", "open-deep")]
    for data, name in cyc:
        for w in ("l", "m"):
            ls = ["tbl.file f " + hx(data), "tbl.new", "tbl.load_%s_d @f" % w, "tbl.dumpD " + w, "tbl.fetchD 363001", "tbl.checkloop " + w]
            out.append(Scenario("loop-%s-%s" % (name, w), ls, {"stream": "synth", "feature": "loop:" + name}))
    # csv, synthesised
    for i in range(n // 4):
        keys = pick_keys(rng, rng.randrange(1, 30))
        es = []
        for d in keys:
            e = rand_entry(rng, d, i % 5 == 0)
            es.append((e[0], e[3], e[4], e[5], unit_type(e[2]), e[2].strip() or b"x", e[1]))
        if i % 3 == 1:
            rng.shuffle(es)
        cb = to_csv_b(es, rng, crlf=(i % 4 == 2))
        if i % 6 == 5:   # a row with the wrong number of cells is skipped
            rows = cb.split(b"\n"); rows.insert(2, b"01,short,row"); cb = b"\n".join(rows)
        ls = ["tbl.file f " + hx(cb), "tbl.new", "tbl.load_csv_b @f", "tbl.dumpB m"] + ["tbl.fetchB %d" % k for k in keys]
        out.append(Scenario("synthCsvB-%d" % i, ls, {"stream": "synth", "feature": "csvB"}))
        dkeys = sorted(set(300000 + rng.randrange(0, 50) * 1000 + rng.randrange(1, 200) for _ in range(rng.randrange(1, 12))))
        ed = [(k, tuple(rng.choice(uni) for _ in range(rng.randrange(1, 7)))) for k in dkeys]
        cd = to_csv_d(ed, rng, crlf=(i % 4 == 1))
        ls = ["tbl.file f " + hx(cd), "tbl.new", "tbl.load_csv_d @f", "tbl.dumpD m"] + ["tbl.fetchD %d" % k for k in dkeys]
        out.append(Scenario("synthCsvD-%d" % i, ls, {"stream": "synth", "feature": "csvD"}))
    return out

def override_scenarios(rng, tier):
    out = []
    n = 200 if tier == "quick" else 800
    for i in range(n):
        uni = pick_keys(rng, 24)
        ka = sorted(rng.sample(uni, 12)); kb = rng.sample(uni, 10)
        fa = gen_cmc_b(rng, ka, (), version=11)
        # any order of new and overriding descriptors (sorted, shuffled, new ones first)
        kb = [sorted(kb), kb, [k for k in kb if k not in ka] + [k for k in kb if k in ka]][i % 3]
        fb = gen_cmc_b(rng, kb, (), version=12)
        order = i % 4
        ls = ["tbl.file a " + hx(fa), "tbl.file b " + hx(fb), "tbl.new"]
        first, second = {0: ("m", "l"), 1: ("l", "m"), 2: ("l", "l"), 3: ("m", "m")}[order]
        ls.append("tbl.load_%s_b @%s" % (first, "a" if order != 1 else "b"))
        if i % 2:           # lookups between the two loads: the second load must still be seen
            ks = list(uni); rng.shuffle(ks)
            ls += ["tbl.fetchB %d" % k for k in ks[:10]]
        ls.append("tbl.load_%s_b @%s" % (second, "b" if order != 1 else "a"))
        ls += ["tbl.version", "tbl.dumpB m", "tbl.dumpB l"]
        ks = list(uni); rng.shuffle(ks)
        ls += ["tbl.fetchB %d" % k for k in ks] + ["tbl.fetchB %d" % k for k in ks[:6]]
        out.append(Scenario("override-%d" % i, ls, {"stream": "override", "feature": "order%d%s" % (order, "+fetch" if i % 2 else "")}))
    # bufr_merge_tables: dst ← src, with and without lookups on dst before
    for i in range(n // 2):
        uni = pick_keys(rng, 20)
        km, kl1, kl2, km2 = (sorted(rng.sample(uni, 8)) for _ in range(4))
        fm, fm2 = gen_cmc_b(rng, km, (), version=20), gen_cmc_b(rng, km2, (), version=21)
        fl1, fl2 = gen_cmc_b(rng, kl1), gen_cmc_b(rng, kl2, ("shuffle",))
        ls = ["tbl.file m " + hx(fm), "tbl.file m2 " + hx(fm2), "tbl.file l1 " + hx(fl1), "tbl.file l2 " + hx(fl2),
              "tbl.new 0", "tbl.load_m_b @m", "tbl.load_l_b @l1"]
        if i % 3:
            ks = list(uni); rng.shuffle(ks)
            ls += ["tbl.fetchB %d" % k for k in ks[:8]]
        ls.append("tbl.new 1")
        if i % 2 == 0:
            ls.append("tbl.load_m_b @m2")
        ls += ["tbl.load_l_b @l2", "tbl.fetchB %d" % uni[0], "tbl.sel 0", "tbl.merge 1", "tbl.version", "tbl.dumpB m", "tbl.dumpB l"]
        ks = list(uni); rng.shuffle(ks)
        ls += ["tbl.fetchB %d" % k for k in ks] + ["tbl.sel 1", "tbl.fetchB 1001"]
        out.append(Scenario("mergetables-%d" % i, ls, {"stream": "override", "feature": "merge_tables" + ("+fetch" if i % 3 else "")}))
    return out

def interleavings(rng, tier):
    """random histories of loads (CMC, either set, any key order), lookups, dumps"""
    out = []
    n = 600 if tier == "quick" else 4000
    for i in range(n):
        uni = pick_keys(rng, 14)
        duni = [300001 + j for j in range(8)]
        ls = []
        nfile = 0
        loaded = {"mB": False, "lB": False}
        ls.append("tbl.new")
        for step in range(rng.randrange(8, 40)):
            r = rng.random()
            if r < 0.22:
                w = rng.choice(["m", "l"])
                ks = rng.sample(uni, rng.randrange(1, 8))
                feat = rng.choice([(), ("crlf",), ("comments",), ("trailing",), ("shuffle",)])
                data = gen_cmc_b(rng, sorted(ks) if rng.random() < 0.5 else ks, feat, version=rng.choice([None, 3, 9]))
                name = "f%d" % nfile; nfile += 1
                ls += ["tbl.file %s %s" % (name, hx(data)), "tbl.load_%s_b @%s" % (w, name)]
                loaded[w + "B"] = True
            elif r < 0.32:
                w = rng.choice(["m", "l"])
                ks = rng.sample(duni, rng.randrange(1, 5))
                body = b"".join(b"%06d %s\n" % (k, b" ".join(b"%06d" % rng.choice(uni + [x for x in duni if x < k] + [101000]) for _ in range(rng.randrange(1, 5)))) for k in ks)
                name = "f%d" % nfile; nfile += 1
                ls += ["tbl.file %s %s" % (name, hx(body)), "tbl.load_%s_d @%s" % (w, name)]
            elif r < 0.72:
                d = rng.choice(uni + [uni[0] + 1, 101000, 301001])
                ls.append("tbl.fetchB %d" % d)
            elif r < 0.82:
                ls.append("tbl.fetchD %d" % rng.choice(duni + [1001]))
            elif r < 0.88:
                ls.append("tbl.dumpB " + rng.choice("ml"))
            elif r < 0.92:
                ls.append("tbl.dumpD " + rng.choice("ml"))
            elif r < 0.96:
                ls.append("tbl.version")
            else:
                ls.append("tbl.match %d %d" % (rng.choice(uni), rng.choice(uni)))
        ls += ["tbl.fetchB %d" % k for k in uni] + ["tbl.dumpB m", "tbl.dumpB l"]
        out.append(Scenario("inter-%d" % i, ls, {"stream": "inter", "feature": ""}))
    return out

def version_scenarios(rng, tier):
    ls = []
    for sfx in ["-13", "-31", "-32", "-35"]:
        ls.append("tbl.list_add %s %s" % (os.path.join(REPO, "Tables", "table_b_bufr" + sfx), os.path.join(REPO, "Tables", "table_d_bufr" + sfx)))
    ls += ["tbl.use %d" % v for v in (13, 31, 32, 35, 12, 14, 30, 33, 34, 36, 0, 99, -1)]
    out = [Scenario("versions-shipped", ls, {"stream": "version", "feature": "shipped"})]
    for i in range(60 if tier == "quick" else 600):
        vs = [rng.randrange(0, 12) for _ in range(rng.randrange(0, 7))]
        ls = ["tbl.list_addv %d" % v for v in vs] + ["tbl.use %d" % v for v in range(-1, 13)]
        out.append(Scenario("versions-%d" % i, ls, {"stream": "version", "feature": "synthetic"}))
    return out

def ingest_scenarios(rng, tier):
    """tables passed "as loaded": dump what the C loaded, ingest it into a fresh object, same lookups"""
    out = []
    pb = os.path.join(REPO, "Test", "local_table_b")
    fb = read_cmc_b(open(pb, "rb").read())
    ls = ["tbl.new"]
    for k, e in fb.entries:
        ls.append("tbl.ingestB m %d %d %d %d %d %s %s" % (e[0], e[1], e[2], e[3], e[4], hx(e[5]), hx(e[6])))
    ls += ["tbl.ingestD l 311010 1008 1023 301011", "tbl.ingestD m 301011 4001 4002 4003", "tbl.dumpB m", "tbl.dumpD l"]
    ls += ["tbl.fetchB %d" % k for k, _ in fb.entries] + ["tbl.fetchD 311010", "tbl.fetchD 301011", "tbl.checkloop l"]
    out.append(Scenario("ingest", ls, {"stream": "ingest", "feature": ""}))
    return out

def scenarios(rng, tier, runner):
    out = []
    out += shipped_scenarios()
    out += csv_scenarios(rng, tier)
    out += synth_scenarios(rng, tier)
    out += override_scenarios(rng, tier)
    out += interleavings(rng, tier)
    out += version_scenarios(rng, tier)
    out += ingest_scenarios(rng, tier)
    return out

def neighbourhood(scn, rng, tier):
    """mutations of a shrunk disagreement: drop/duplicate lookups, swap the load order"""
    ls = list(scn.lines)
    loads = [i for i, l in enumerate(ls) if l.startswith("tbl.load")]
    for _ in range(20 if tier == "quick" else 100):
        m = list(ls)
        if len(loads) >= 2 and rng.random() < 0.5:
            a, b = rng.sample(loads, 2); m[a], m[b] = m[b], m[a]
        fetches = [l for l in m if l.startswith("tbl.fetch")]
        if fetches:
            m.insert(rng.randrange(len(m) + 1), rng.choice(fetches))
        yield Scenario("nb", m)

def regenerate():
    try:
        from translate import tables2lean
    except ImportError:
        return
    tables2lean.main()
