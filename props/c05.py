"""C05 — decoding arbitrary bytes is memory-safe, terminates and never kills the process."""
from vlib.engine import Scenario, run_all
from gen import regs, datasets, frame, templates
from props import c01

ID = "C05"
THEOREMS = ["Bufr.C05.C05_decode_total", "Bufr.C05.C05_expansion_bounded", "Bufr.C05.C05_reader_in_bounds", "Bufr.C05.C05_element_shape",
            "Bufr.C05.C05_bitmap_in_bounds", "Bufr.C05.C05_bitmap_step"]
RULE = ("valid messages of the C01/C02 space (own encoder) mutated at the data-section level (truncation at every "
        "octet class, bit flips, random tails, wrong subset counts incl. 0 and 65535, compression flag toggled, "
        "descriptor lists with unknown/ill-formed/huge-replication descriptors) and at the message level (section "
        "lengths, total length, truncation, nested start markers, random bytes); pure random byte strings; compressed "
        "data whose delayed replication factors differ between subsets; data present bit-map templates of every shape (tied to BufrModel/Bitmap.lean, compressed and not); the repository's sample messages, damaged (implementation only). "
        "distinct = distinct (mutation kind, outcome class)")
ASSUMPTIONS = c01.ASSUMPTIONS + ["the process is the harness: exit() is intercepted at link time, the abort handler is the application's"]
P = c01.P
prepare = c01.prepare

KINDS4 = ["trunc", "trunc1", "flip", "rand", "extend", "nsub0", "nsubbig", "nsub+1", "toggle", "desc-swap", "desc-huge",
          "desc-unknown", "desc-nofactor", "desc-deep", "desc-af-nest", "empty", "ones", "zeros", "desc-illformed", "desc-illformed"]
KINDSM = ["m-ok", "m-trunc", "m-len0", "m-lenbig", "m-s4len", "m-s3len", "m-s1len", "m-flip", "m-nested", "m-prefix", "m-rand", "m-s2", "m-odd"]

def mutate4(rng, kind, ed, flag, nsub, descs, s4, B=None, D=None):
    s4 = bytearray(s4)
    if kind == "trunc":
        s4 = s4[:rng.randrange(len(s4) + 1)]
    elif kind == "trunc1":
        s4 = s4[:max(0, len(s4) - rng.choice([1, 1, 2, 3]))]
    elif kind == "flip":
        for _ in range(rng.choice([1, 1, 2, 5])):
            if s4:
                i = rng.randrange(len(s4)); s4[i] ^= 1 << rng.randrange(8)
    elif kind == "rand":
        k = rng.randrange(len(s4) + 1)
        s4 = s4[:k] + bytearray(rng.randrange(256) for _ in range(rng.choice([0, 1, 4, 20, 100])))
    elif kind == "extend":
        s4 += bytearray([rng.choice([0, 255])] * rng.choice([1, 2, 50]))
    elif kind == "nsub0": nsub = 0
    elif kind == "nsubbig": nsub = rng.choice([255, 1000, 65535])
    elif kind == "nsub+1": nsub += rng.choice([1, 2])
    elif kind == "toggle": flag ^= 64
    elif kind == "desc-swap" and len(descs) > 1:
        i = rng.randrange(len(descs) - 1); descs = descs[:i] + [descs[i + 1], descs[i]] + descs[i + 2:]
    elif kind == "desc-huge":
        descs = [rng.choice([101000, 102000, 105000]), rng.choice([31001, 31002, 31000, 31011, 31012])] + descs
        s4 = bytearray(rng.choice([[0, 5], [0, 255], [3, 0], [255, 255]] if rng.random() < 0.15 else [[0, 5], [0, 40], [1, 0]])) + s4
    elif kind == "desc-unknown":
        descs = descs[:]; descs.insert(rng.randrange(len(descs) + 1), rng.choice([1250, 63999, 363255, 225255, 241000, 222000, 236000, 237000, 399999 % 400000]))
    elif kind == "desc-nofactor":
        descs = descs + [rng.choice([101000, 103000]), descs[0]]
    elif kind == "desc-deep":
        descs = [101000, 31001, 101000, 31001, 101000, 31002] + descs[:1]
        s4 = bytearray(rng.choice([[255, 255, 255, 255, 255], [3, 2, 0, 9, 0], [9, 9, 0, 4, 4]])) + s4
    elif kind == "desc-af-nest":
        k = rng.choice([9, 17, 64, 65, 256, 257, 300])
        descs = [rng.choice([204001, 204001, 204007]), 31021] * k + descs[:2]
    elif kind == "desc-illformed":
        # Section 3 lists that are not templates (spans past the end, overlapping spans at two and three levels,
        # missing factors, Y = 256 ...), in front of data whose first octets read as small replication counts
        descs = templates.mutate_illformed(rng, descs[:rng.choice([0, 1, 2, len(descs)])], B, D)
        s4 = bytearray(rng.choice([[3, 3, 3, 3], [1, 1, 1, 1], [7, 2, 5, 1], [0, 3, 0, 3], [255, 3, 3, 3]])) + s4
    elif kind == "empty": s4 = bytearray()
    elif kind == "ones": s4 = bytearray([255] * rng.choice([1, 8, len(s4) + 5]))
    elif kind == "zeros": s4 = bytearray([0] * rng.choice([1, 8, len(s4) + 5]))
    return flag, nsub, descs, bytes(s4)

def mutatem(rng, kind, ed, flag, nsub, descs, s4):
    if kind == "m-s2":
        return frame.frame(ed, flag, nsub, descs, s4, s2=bytes(rng.randrange(256) for _ in range(rng.choice([0, 1, 2, 7]))))
    if kind == "m-odd":
        return frame.frame(4, flag, nsub, descs, s4, s3_extra=rng.choice([0, 1]), s4_extra=rng.choice([0, 1, 3]))
    m = bytearray(frame.frame(ed, flag, nsub, descs, s4))
    if kind == "m-trunc": m = m[:rng.randrange(len(m))]
    elif kind == "m-len0": m[4:7] = bytes([0, 0, rng.choice([0, 1, 8, 12])])
    elif kind == "m-lenbig": m[4:7] = bytes([rng.choice([0, 255]), 255, 255])
    elif kind in ("m-s4len", "m-s3len", "m-s1len"):
        # walk the sections to find the length octets
        pos = 8
        offs = []
        try:
            for _ in range(3):
                offs.append(pos); pos += (m[pos] << 16) | (m[pos + 1] << 8) | m[pos + 2]
        except IndexError:
            pass
        idx = {"m-s1len": 0, "m-s3len": 1, "m-s4len": 2}[kind]
        if idx < len(offs):
            o = offs[idx]
            m[o:o + 3] = frame.i3(rng.choice([0, 1, 2, 3, 4, 5, 7, 2 ** 24 - 1, 65536, len(m), len(m) + 1]))
    elif kind == "m-flip":
        for _ in range(rng.choice([1, 2, 8])):
            i = rng.randrange(len(m)); m[i] ^= 1 << rng.randrange(8)
    elif kind == "m-nested":
        i = rng.randrange(8, len(m)); m[i:i] = b"BUFR"
    elif kind == "m-prefix":
        m = bytearray(rng.choice([b"BUF", b"B", b"BUFBUFR", b"\r\r\nIUSC01 CWAO 121200\r\r\n", b"BU\0"])) + m
    elif kind == "m-rand":
        m = bytearray(rng.randrange(256) for _ in range(rng.choice([0, 3, 8, 30, 200])))
        if rng.random() < 0.5: m[0:4] = b"BUFR"
    return bytes(m)

def factor_scenarios(rng, n):
    """compressed data whose delayed replication factor column is not constant (94.6.3 forbids it): small
    factors that differ between subsets, nested factors, a random tail"""
    out = []
    for i in range(n):
        name = rng.choice(["cur", "syn", "v13"])
        B, D = P[name]
        nums = [d for d, e in B.items() if e[3] == regs.NUMERIC and regs.X(d) != 31 and 1 <= e[2] <= 24]
        bits = []
        def put(v, w): bits.extend((v >> (w - 1 - k)) & 1 for k in range(w))
        def const(d): put(rng.randrange(1 << B[d][2]), B[d][2]); put(0, 6)
        pre = [rng.choice(nums) for _ in range(rng.choice([0, 0, 1, 2]))]
        body = [rng.choice(nums) for _ in range(rng.choice([1, 1, 2, 3]))]
        fac = rng.choice([31001, 31001, 31002, 31000])
        nsub = rng.choice([2, 3, 4])
        descs = pre + [100000 + 1000 * len(body), fac] + body + [rng.choice(nums) for _ in range(rng.choice([0, 1]))]
        if rng.random() < 0.25:
            descs = pre + [100000 + 1000 * (len(body) + 2), fac, 101000, rng.choice([31001, 31000])] + body
        for d in pre: const(d)
        w = B[fac][2]
        nb = rng.choice([1, 1, 2, 3])
        put(rng.choice([0, 0, 1, 2]), w); put(min(nb, w) if rng.random() < 0.9 else w + 1, 6)
        for _ in range(nsub): put(rng.randrange(1 << nb), nb)
        for _ in range(rng.choice([0, 8, 40, 200])): bits.append(rng.randrange(2))
        while len(bits) % 8: bits.append(0)
        s4 = bytes(int("".join(map(str, bits[k:k + 8])), 2) for k in range(0, len(bits), 8))
        ls = ["T.use " + name, "ds.decode %d 1 64 %d 0 0 %s %s" % (rng.choice([3, 4]), nsub, ",".join("%06d" % d for d in descs), s4.hex() or "-")]
        for k in range(nsub):
            ls += ["dd.list %d" % k, "dd.vals %d" % k]
        out.append(Scenario("cfac-%d" % i, ls, {"kind": "compressed-factor", "tables": name}))
    return out

def bitmap_scenarios(rng, n):
    """data present bit-maps (2 22/2 23/2 24/2 25/2 32 000, 2 36/2 37, 0 31 031, marker operators, class 33
    elements).  Bit-map sizes, marker counts and the data disagree on purpose.  Tied since BufrModel/Bitmap.lean
    models the bit-map head of bufr_apply_tables2node (index, count-down, evaluation, marker resolution), compressed
    and not; every second scenario comes from gen/bitmap.wild_template (delayed bit-maps, markers outside
    replications, several groups, operators and associated fields on the elements referred to)."""
    from gen import bitmap as gbm
    out = []
    for i in range(n):
        name = rng.choice(["cur", "v13"])
        B, D = P[name]
        nums = [d for d, e in B.items() if regs.X(d) not in (31, 33) and 1 <= e[2] <= 32]
        q33 = [d for d in B if regs.X(d) == 33] or [33007]
        data = [rng.choice(nums) for _ in range(rng.choice([1, 2, 3, 5]))]
        op = rng.choice([222000, 223000, 224000, 225000, 232000])
        nbm = rng.choice([0, 1, len(data), len(data), len(data) + 1, 2 * len(data) + 3])
        bm = rng.choice([[236000], [], [237000], [236000, 236000]]) + \
             (rng.choice([[101000 + nbm, 31031], [101000, 31001, 31031], [31031] * min(nbm, 4)]) if nbm or rng.random() < 0.5 else [])
        nmk = rng.choice([0, 1, len(data), len(data) + 2, 7])
        mk = op + 255
        inner = rng.choice([[1031, 1032], [8023], [8024], []])
        body = rng.choice([[mk], [q33[0] if op == 222000 else mk], [mk, rng.choice(q33)]])
        marks = ([100000 + 1000 * len(body) + nmk] + body) if nmk else body * rng.choice([0, 1, 2])
        descs = data + [op] + bm + inner + marks
        if rng.random() < 0.3:
            descs += [rng.choice([235000, 237255, 237000])] + [op, 237000] + marks
        if rng.random() < 0.2:
            descs = [rng.choice(nums)] + descs + [rng.choice(nums)]
        if rng.random() < 0.15:
            rng.shuffle(descs)
        flag = rng.choice([0, 0, 64])
        nsub = rng.choice([1, 1, 2, 3])
        kind = rng.choice(["zeros", "ones", "rand", "short"])
        ln = rng.choice([0, 2, 10, 40, 120]) if kind != "short" else rng.choice([0, 1, 2])
        s4 = bytes({"zeros": 0, "ones": 255}.get(kind, 0) if kind in ("zeros", "ones") else rng.randrange(256) for _ in range(ln))
        ls = ["T.use " + name, "ds.decode %d 1 %d %d 0 0 %s %s" % (rng.choice([3, 4, 4]), flag, nsub, ",".join("%06d" % d for d in descs), s4.hex() or "-")]
        for k in range(min(nsub, 2)):
            ls += ["dd.list %d" % k, "dd.vals %d" % k]
        out.append(Scenario("dpbm-%d" % i, ls, {"kind": "bitmap-" + kind, "tables": name}))
        msg, t, nsub = gbm.build_wild(rng, B, D, compressed=(i % 3 == 0))
        ls = ["T.use " + name, "ds.decodemsg " + msg.hex()]
        for k in range(min(nsub, 2)):
            ls += ["dd.list %d" % k, "dd.vals %d" % k]
        out.append(Scenario("dpbw-%d" % i, ls, {"kind": "bitmap-wild" + ("-c" if i % 3 == 0 else ""), "tables": name}))
    return out

def sample_scenarios(rng, per_file):
    """the repository's sample messages (Test/BUFR: data present bit-maps, 2 06/2 07, local descriptors, compressed
    data), damaged at the message level: implementation only (`nomodel`)"""
    import glob, os
    from vlib import tables
    out = []
    files = sorted(f for f in glob.glob(os.path.join(tables.REPO, "Test/BUFR/*.bufr")) if os.path.getsize(f) <= 9000)
    for f in files:
        m0 = open(f, "rb").read()
        for j in range(per_file):
            m = bytearray(m0)
            kind = rng.choice(["ok", "flip", "flip", "flip8", "trunc", "zero-run", "ones-run", "s4-rand"]) if j else "ok"
            if kind == "flip":
                i = rng.randrange(len(m)); m[i] ^= 1 << rng.randrange(8)
            elif kind == "flip8":
                for _ in range(8):
                    i = rng.randrange(len(m)); m[i] ^= 1 << rng.randrange(8)
            elif kind == "trunc":
                m = m[:rng.randrange(8, len(m))]
            elif kind in ("zero-run", "ones-run"):
                i = rng.randrange(len(m)); k = rng.choice([1, 2, 4, 16])
                m[i:i + k] = bytes([0 if kind == "zero-run" else 255] * len(m[i:i + k]))
            elif kind == "s4-rand":
                i = rng.randrange(len(m) // 2, len(m))
                for q in range(i, min(len(m), i + rng.choice([2, 8, 40]))):
                    m[q] = rng.randrange(256)
            ls = ["T.use " + rng.choice(["cur", "cur", "loc"]), "ds.decodemsg " + bytes(m).hex(), "dd.list 0", "dd.vals 0", "dd.vals 1"]
            out.append(Scenario("sample-%s-%d-%s" % (os.path.basename(f)[:-5], j, kind), ls,
                                {"kind": "sample-" + kind, "tables": "cur"}))
    return out

def scenarios(rng, tier, runner):
    n = 160 if tier == "quick" else 3000
    stage1 = []
    for i in range(n):
        name = rng.choice(["cur", "loc", "syn", "v13"])
        B, D = P[name]
        comp = rng.choice([0, 1])
        ls, meta = datasets.build_lines(rng, name, B, D, nsub=rng.choice([1, 2, 3]), same_structure=True, edition=rng.choice([2, 3, 4, 4]))
        ls += ["ds.encode %d" % comp]
        stage1.append(Scenario("b-%d" % i, ls, meta))
    c1 = run_all(runner, stage1, "impl")
    out = []
    for s, (o, crash) in zip(stage1, c1):
        if crash or len(o) != len(s.lines):
            continue
        enc = o[-1].split()
        if len(enc) != 3:
            continue
        tm = next(l for l in s.lines if l.startswith("tm.new")).split()
        ed = int(tm[1]); descs = [int(d) for d in tm[2:]]
        flag, nsub, s4 = int(enc[0]), int(enc[1]), bytes.fromhex(enc[2]) if enc[2] != "-" else b""
        for kind in rng.sample(KINDS4, 4):
            f2, n2, d2, b2 = mutate4(rng, kind, ed, flag, nsub, list(descs), s4, *P[s.meta["tables"]])
            ls = ["T.use " + s.meta["tables"],
                  "ds.decode %d 1 %d %d 0 0 %s %s" % (ed, f2, n2, ",".join("%06d" % d for d in d2), b2.hex() or "-")]
            for k in range(min(n2, 3)):
                ls += ["dd.list %d" % k, "dd.vals %d" % k]
            out.append(Scenario("s4-%s-%s" % (kind, s.name), ls, {"kind": kind, "tables": s.meta["tables"]}))
        for kind in rng.sample(KINDSM, 3):
            m = mutatem(rng, kind, ed, flag, nsub, descs, s4)
            ls = ["T.use " + s.meta["tables"], "ds.decodemsg %s" % (m.hex() or "-")]
            for k in range(min(nsub, 2)):
                ls += ["dd.list %d" % k, "dd.vals %d" % k]
            out.append(Scenario("msg-%s-%s" % (kind, s.name), ls, {"kind": kind, "tables": s.meta["tables"]}))
    out += factor_scenarios(rng, 120 if tier == "quick" else 2500)
    out += bitmap_scenarios(rng, 250 if tier == "quick" else 6000)
    out += sample_scenarios(rng, 6 if tier == "quick" else 150)
    return out

def _section3(m):
    """the descriptors of Section 3 of a (possibly damaged) message, read leniently; [] when they cannot be found"""
    try:
        i = m.find(b"BUFR")
        if i < 0 or len(m) < i + 8:
            return []
        ed = m[i + 7]; pos = i + 8
        n1 = int.from_bytes(m[pos:pos + 3], "big")
        if n1 < 8 or pos + n1 > len(m):
            return []
        has2 = bool(m[pos + (9 if ed >= 4 else 7)] & 0x80)
        pos += n1
        if has2:
            n2 = int.from_bytes(m[pos:pos + 3], "big")
            if n2 < 4 or pos + n2 > len(m):
                return []
            pos += n2
        n3 = int.from_bytes(m[pos:pos + 3], "big")
        if n3 < 7 or pos + n3 > len(m):
            return []
        s3 = m[pos:pos + n3]
        return [((s3[7 + 2 * k] >> 6) * 100000) + ((s3[7 + 2 * k] & 63) * 1000) + s3[8 + 2 * k] for k in range((n3 - 7) // 2)]
    except Exception:
        return []

def _outside_model(scn):
    """a replication descriptor over ZERO descriptors (1 00 YYY; FM 94 has X >= 1) is outside the model: the
    library's bufr_assign_descriptors is a do-while and flags one node beyond such a "replication" as passed over,
    the model's expansion takes the X = 0 nodes the descriptor names.  Such inputs run on the implementation alone
    (sanitizers, outcome oracle).  Found by the thorough tier on a damaged sample message.  (Data present bit-map
    operators were outside the model until BufrModel/Bitmap.lean.)"""
    for l in scn.lines:
        t = l.split()
        ds = []
        if t and t[0] == "ds.decode" and len(t) >= 9:
            ds = [int(d) for d in t[7].split(",") if d.isdigit()]
        elif t and t[0] == "ds.decodemsg" and len(t) == 2 and t[1] not in ("-", "@"):
            try:
                ds = _section3(bytes.fromhex(t[1]))
            except ValueError:
                ds = []
        if any(d // 100000 == 1 and d // 1000 % 100 == 0 for d in ds):
            return True
    return False

def compare(scn, lscn, cr, lr):
    """exact tie on the outcome; after a decode flagged invalid the values are not compared (the partially
    read field is not modelled)"""
    from vlib.engine import compare as cmp0
    if scn.meta.get("nomodel") or _outside_model(scn):
        # outside the model: only the implementation's own outcome counts (crash, time-out, exit: the oracle)
        return cmp0(scn, cr, (list(cr[0]), None), None)
    c_out, l_out = list(cr[0]), list(lr[0])
    bad = False
    for i, l in enumerate(scn.lines):
        if i >= len(c_out) or i >= len(l_out):
            break
        if l.startswith("ds.decode"):
            f = c_out[i].split()
            bad = len(f) >= 3 and f[-3] == "ok" and f[-2] == "1"
        elif bad and l.startswith("dd.vals"):
            c_out[i] = l_out[i] = "-"
        elif bad and l.startswith("dd.list"):
            # the flags of nodes the decoder never reached are not modelled on this path
            strip = lambda o: " ".join("/".join(f for k, f in enumerate(n.split("/")) if k not in (1, 7, 8)) for n in o.split())
            c_out[i], l_out[i] = strip(c_out[i]), strip(l_out[i])
    return cmp0(scn, (c_out, cr[1]), (l_out, lr[1]), None)

def oracle(scn, outs):
    """outcomes the property allows: a failure return or a dataset (possibly invalid); the application's abort
    handler is a refusal.  `exit` is a violation; crashes are reported by the engine."""
    for l, o in zip(scn.lines, outs):
        if l.startswith("ds.decode"):
            if "exit" in o.split():
                return "the library called exit() while decoding"
            t = o.replace("read ", "").split()
            if o in ("noread", "null", "abort") or o.endswith(" null") or o.endswith("abort"):
                continue
            if len(t) >= 3 and t[-3] == "ok":
                continue
            if o in ("bad-op",):
                continue
            return "unexpected outcome %r" % o
    return None

def signature(scn, outs):
    o = next((o for l, o in zip(scn.lines, outs) if l.startswith("ds.decode")), "?")
    cls = "ok-valid" if " ok 0" in " " + o else "ok-invalid" if " ok 1" in " " + o else o.split()[-1] if o else "?"
    return {(scn.meta.get("kind"), cls)}

def classify(scn, outs):
    return ["kind=%s" % scn.meta.get("kind")]
