"""C19 — IEEE 754 fields are stored bit-exactly.  Streams: ieee.* ops.

Tie: exact on every output line.  The exponent guess `(int)(logf(x)/logf(2.0))` is the one libm
input of the portable encoder; the harness prints it next to each encode result and `two_pass`
hands it to the model, which uses it and checks the contract GuessOK on it.  In the bulk sweeps the
model uses the exact exponent (justified by the guess-independence in C19_encode32/64)
and the harness counts contract violations (`gbad`).  `ieee.xsweep32/64` are answered by the
implementation only (oracle-only bulk ops; the model line is the constant `c-only`)."""
import json, os, struct
from vlib.engine import Scenario

ID = "C19"
THEOREMS = [
    "Bufr.C19.C19_decode32",
    "Bufr.C19.C19_decode64",
    "Bufr.C19.C19_encode32",
    "Bufr.C19.C19_encode64",
    "Bufr.C19.C19_roundtrip32",
    "Bufr.C19.C19_roundtrip64",
    "Bufr.C19.C19_value_roundtrip32",
    "Bufr.C19.C19_value_roundtrip64",
    "Bufr.C19.C19_nan32",
    "Bufr.C19.C19_nan64",
    "Bufr.C19.C19_native_paths",
    "Bufr.C19.C19_native_on",
]
RULE = ("every (sign, exponent) of binary32 (512) and binary64 (4096) with boundary and random mantissas through "
        "encode and decode; named boundary patterns (±0, smallest/largest subnormal, 2^(emin-1) neighbours, smallest "
        "normal, 1.0, max finite, ±inf, quiet/signalling NaNs); strided sweeps of the whole pattern space through "
        "model and implementation (ieee.sweep*), denser strided / exhaustive 2^32 sweep on the implementation only "
        "(ieee.xsweep*, oracle); both with bufr_use_C_ieee754(0) and after bufr_use_C_ieee754(1); "
        "distinct = distinct (op, sign, exponent class, mantissa class, outcome)")
ASSUMPTIONS = [
    "exponent guess g = (int)(logf(x)/logf(2.0)), (int)(log(x)/log(2.0)) with floor(log2 x)-1 <= g <= floor(log2 x)+2 for normal x (irrelevant below 2^emin): checked by the model on "
    "every ieee.enc* line (two_pass hands it over) and counted by the harness in the sweeps (gbad)",
    "pow(2.0,k), powf(2.0,k), 1.0/pow(2,i) exact for the integral k, i used: checked by `ieee.libm` on every run",
    "host float/double are binary32/binary64 (x86-64); FLT_EVAL_METHOD 0, -ffp-contract=off",
    "the harness repeats the static guess expression of bufr_*_get_significand (same translation flags)",
    "the message-level uses (bufr_dataset.c TYPE_IEEE_FP: putbits/getbits of the codec result) are exercised by the "
    "codec unit, not here",
]

M32, M64 = (1 << 32) - 1, (1 << 64) - 1
_counts = {"patterns_through_model": 0, "patterns_impl_only": 0}

def is_nan(bits, k):
    if k == 32:
        return (bits & 0x7f800000) == 0x7f800000 and (bits & 0x7fffff) != 0
    return (bits & 0x7ff0000000000000) == 0x7ff0000000000000 and (bits & 0xfffffffffffff) != 0

def hx(bits, k):
    return "%0*x" % (k // 4, bits)

def both(bits, k):
    return ["ieee.enc%d %s" % (k, hx(bits, k)), "ieee.dec%d %s" % (k, hx(bits, k))]

def mantissas(t, rng, nrand):
    top = 1 << (t - 1)
    full = (1 << t) - 1
    ms = [0, 1, 2, 3, top - 1, top, top + 1, full - 1, full, 0x55555555555555 & full, 0xaaaaaaaaaaaaaa & full]
    ms += [rng.getrandbits(t) for _ in range(nrand)]
    ms += [1 << rng.randrange(t) for _ in range(2)]
    return ms

BOUNDARY32 = {
    "zero": [0x00000000, 0x80000000],
    "subnormal-low": [0x00000001, 0x00000002, 0x00000003, 0x000116c2, 0x003fffff, 0x80000001, 0x803fffff],
    "subnormal-high": [0x00400000, 0x00400001, 0x007fffff, 0x80400000, 0x807fffff],
    "normal": [0x00800000, 0x00800001, 0x3f800000, 0x3f7fffff, 0x3f800001, 0x40000000, 0xbf800000, 0x7f7fffff,
               0xff7fffff, 0x7f000000, 0x00ffffff, 0x3e200000, 0xc43b8a00],
    "inf": [0x7f800000, 0xff800000],
    "nan": [0x7fc00000, 0x7f800001, 0x7fffffff, 0xffc00000, 0xff800001, 0x7fa00000],
}
BOUNDARY64 = {
    "zero": [0, 1 << 63],
    "subnormal-low": [1, 2, 3, 0x00000000000116c2, 0x0007ffffffffffff, (1 << 63) | 1, (1 << 63) | 0x0007ffffffffffff],
    "subnormal-high": [0x0008000000000000, 0x0008000000000001, 0x000fffffffffffff, (1 << 63) | 0x000fffffffffffff],
    "normal": [0x0010000000000000, 0x0010000000000001, 0x3ff0000000000000, 0x3fefffffffffffff, 0x3ff0000000000001,
               0x4000000000000000, 0xbff0000000000000, 0x7fefffffffffffff, 0xffefffffffffffff, 0x7fe0000000000000,
               0x001fffffffffffff, 0x3fc4000000000000, 0xc087714000000000, 0x38100fb32c6204c4],
    "inf": [0x7ff0000000000000, 0xfff0000000000000],
    "nan": [0x7ff8000000000000, 0x7ff0000000000001, 0x7fffffffffffffff, 0xfff8000000000000, 0x7ff4000000000000],
}

def _known_excludes():
    """classes excluded from *generated* scenarios because they are registered as known findings
    (known_findings.json, property C19, status "known", field "excludes"); their corpus witnesses still run"""
    p = os.path.join(os.path.dirname(os.path.dirname(os.path.abspath(__file__))), "known_findings.json")
    ex = set()
    try:
        for k in json.load(open(p)):
            if k.get("property") == ID and k.get("status") == "known":
                ex.update(k.get("excludes", []))
    except (OSError, ValueError):
        pass
    return ex

def _sweeps(out, op, name, k, lo, hi, total, parts, rng):
    """`parts` scenarios, each one `op` line: an arithmetic progression of about total/parts patterns in [lo, hi)"""
    span = hi - lo
    total = min(total, span)
    stride = max(1, span // total)
    if stride > 1:
        stride |= 1
    per = (span // stride + parts - 1) // parts
    n = 0
    for i in range(parts):
        a = lo + i * per * stride + (rng.randrange(stride) if stride > 1 else 0)
        cnt = min(per, (hi - a + stride - 1) // stride)
        if cnt <= 0:
            continue
        out.append(Scenario("%s-%02d" % (name, i), ["%s%d %s %d %d" % (op, k, hx(a, k), cnt, stride)]))
        n += cnt
    return n

def prepare(runner, work):
    """tables for the message-level stream (2 09 0YY elements in datasets)"""
    from vlib import tables
    from props import c01
    c01.P.clear()
    c01.P.update(tables.setup_tables(runner, {"cur": tables.shipped("cur") + ("-", "-")}))

MSG64 = [0x0000000000000000, 0x3ff0000000000000, 0xbff8000000000000, 0x0000000000000001, 0x000fffffffffffff,
         0x0010000000000000, 0x7fefffffffffffff, 0xffefffffffffffff, 0x7ff0000000000000, 0xfff0000000000000,
         0x47efffffe0000000, 0x3ff0000000000001, 0x4059000000000000]
MSG32 = [0x00000000, 0x3f800000, 0xbfc00000, 0x00000001, 0x007fffff, 0x00800000, 0x7f7fffff, 0xff7fffff,
         0x7f800000, 0xff800000, 0x3f800001, 0x42c80000]

def msg_scenarios(rng, tier):
    """2 09 032 / 2 09 064 elements inside datasets, alone and with 2 01 / 2 07 / 2 02 also in force, compressed
    and not: the value set is the value decoded, bit for bit"""
    out = []
    n = 60 if tier == "quick" else 800
    for i in range(n):
        k = rng.choice([32, 64])
        el = rng.choice([12101, 10004, 7002, 11002])
        pre, post = rng.choice([([], []), ([], []), ([201130], [201000]), ([207002], [207000]), ([202129], [202000])])
        if rng.random() < 0.5:
            t = pre + [209000 + k, el, 209000] + post
            ix = len(pre) + 1
        else:
            t = [209000 + k] + pre + [el] + post + [209000]
            ix = 1 + len(pre)
        nsub = rng.choice([1, 2, 3])
        comp = rng.choice([0, 1])
        ls = ["T.use cur", "tm.new 5 " + " ".join("%06d" % d for d in t)]
        pool = MSG64 if k == 64 else MSG32
        extreme = rng.random() < 0.3
        if extreme:
            # a column holding only infinities and the largest finite values (the library's own "missing" reals
            # among them), not all alike: each is a value of its own and is listed in compressed data
            nsub = rng.choice([2, 3]); comp = rng.choice([1, 1, 0])
            pool = [0x7ff0000000000000, 0xfff0000000000000, 0x7fefffffffffffff, 0xffefffffffffffff] if k == 64 else \
                   [0x7f800000, 0xff800000, 0x7f7fffff, 0xff7fffff]
            picks = rng.sample(pool, nsub)
        for s_ in range(nsub):
            v = picks[s_] if extreme else rng.choice(pool) if rng.random() < 0.8 else rng.getrandbits(k)
            if (v >> (k - 1)) and not (v & ((1 << (k - 1)) - 1)):
                v = 0        # -0.0: the model's exact rationals identify it with +0.0 (witness in corpus/C19-compressed-signed-zero.c)
            ls += ["ss.new", "ss.set%s %d %d %0*x" % ("d" if k == 64 else "f", s_, ix, k // 4, v)]
        for s_ in range(nsub):
            ls += ["ss.list %d" % s_, "ss.vals %d" % s_]
        ls += ["ds.encode %d" % comp, "ds.decodelast 1 0 0"]
        for s_ in range(nsub):
            ls += ["dd.vals %d" % s_]
        out.append(Scenario("msg-%d" % i, ls, {"msg": True, "k": k, "ix": ix, "nsub": nsub}))
    return out

def scenarios(rng, tier, runner):
    thorough = tier != "quick"
    excl = _known_excludes()
    lowsub = "subnormal-low" not in excl
    out = [Scenario("libm", ["ieee.libm"])] + msg_scenarios(rng, tier)
    _counts["patterns_through_model"] = _counts["patterns_impl_only"] = 0
    _counts["excluded_as_known_findings"] = sorted(excl)
    # 1. named boundary patterns, portable path
    for k, table in ((32, BOUNDARY32), (64, BOUNDARY64)):
        for cls, pats in table.items():
            if cls in excl:
                continue
            ls = []
            for p in pats:
                ls += both(p, k)
            out.append(Scenario("bnd%d-%s" % (k, cls), ls))
    # 2. the switch, then the boundary patterns with whatever path is in force after ieee.native 1
    if "native-on" not in excl:
        for k, table in ((32, BOUNDARY32), (64, BOUNDARY64)):
            ls = ["ieee.native 1"]
            for cls in ("zero", "subnormal-high", "normal", "inf", "nan"):
                for p in table[cls]:
                    ls += both(p, k)
            ls += ["ieee.native 0"] + both(table["normal"][2], k)
            out.append(Scenario("native%d" % k, ls))
    # 3. every (sign, exponent) with boundary and random mantissas (low subnormals: their own scenarios)
    for k, w, t in ((32, 8, 23), (64, 11, 52)):
        nrand = (3 if k == 32 else 1) if not thorough else 12
        group = 16 if k == 32 else 64
        for s in (0, 1):
            for e0 in range(0, 1 << w, group):
                ls = []
                for e in range(e0, min(e0 + group, 1 << w)):
                    for m in mantissas(t, rng, nrand):
                        if e == 0 and 0 < m < (1 << (t - 1)):
                            continue
                        ls += both((s << (k - 1)) | (e << t) | m, k)
                out.append(Scenario("exp%d-s%d-e%d" % (k, s, e0), ls))
        if lowsub:
            ls = []
            for s in (0, 1):
                for m in mantissas(t, rng, nrand + 4):
                    if 0 < m < (1 << (t - 1)):
                        ls += both((s << (k - 1)) | m, k)
            out.append(Scenario("exp%d-subnormal-low" % k, ls))
    # 4. strided sweeps through model and implementation, 5. denser / exhaustive on the implementation only.
    #    Pattern space per sign s: {s|0} ∪ A = [s|1, s|2^(t-1)) (low subnormals) ∪ B = [s|2^(t-1), s|2^(k-1))
    for k, t in ((32, 23), (64, 52)):
        if k == 32:
            nB, nA = (1 << 20, 4096) if not thorough else (1 << 23, 1 << 18)
            xB, xA = ((1 << 31) // 61, (1 << 22) // 61) if not thorough else (1 << 31, 1 << 22)
        else:
            nB, nA = (50000, 2048) if not thorough else (1 << 21, 1 << 17)
            xB, xA = (1 << 19, 1 << 14) if not thorough else (10 << 20, 1 << 20)
        for s in (0, 1):
            sb = s << (k - 1)
            half = 1 << (t - 1)
            _counts["patterns_through_model"] += _sweeps(out, "ieee.sweep", "sweep%d-s%d" % (k, s), k, sb | half,
                                                          sb + (1 << (k - 1)), nB, 32, rng)
            _counts["patterns_impl_only"] += _sweeps(out, "ieee.xsweep", "xsweep%d-s%d" % (k, s), k, sb | half,
                                                      sb + (1 << (k - 1)), xB, 32 if not thorough else 128, rng)
            if lowsub:
                _counts["patterns_through_model"] += _sweeps(out, "ieee.sweep", "sweep%d-subnormal-low-s%d" % (k, s),
                                                              k, sb | 1, sb | half, nA, 1, rng)
                _counts["patterns_impl_only"] += _sweeps(out, "ieee.xsweep", "xsweep%d-subnormal-low-s%d" % (k, s),
                                                          k, sb | 1, sb | half, xA, 1, rng)
    # every double exponent: `dense` consecutive patterns at each end of the mantissa range
    dense = 64 if not thorough else 2048
    for s in (0, 1):
        for e0 in range(0, 2048, 128):
            ls = []
            for e in range(e0, e0 + 128):
                base = (s << 63) | (e << 52)
                ls.append("ieee.xsweep64 %s %d 1" % (hx(base | (1 << 51) if e == 0 else base, 64), dense))
                ls.append("ieee.xsweep64 %s %d 1" % (hx(base | ((1 << 52) - dense), 64), dense))
                _counts["patterns_impl_only"] += 2 * dense
            out.append(Scenario("xexp64-s%d-e%d" % (s, e0), ls))
    # the engine splits the list into contiguous batches, one per worker: interleave so that the heavy sweeps
    # are spread over all workers
    head, rest = out[:1], out[1:]
    return head + [x for r in range(16) for x in rest[r::16]]

# ------------------------------------------------------------------ tie

def two_pass(scn, impl_out):
    if scn.meta.get("msg"):
        from props import c01
        return c01.two_pass(scn, impl_out)
    return _two_pass_ieee(scn, impl_out)

def _two_pass_ieee(scn, impl_out):
    """hand the implementation's exponent guess to the model"""
    ls = []
    for i, l in enumerate(scn.lines):
        t = l.split()
        if t[0] in ("ieee.enc32", "ieee.enc64") and len(t) == 2 and i < len(impl_out):
            f = impl_out[i].split()
            if len(f) == 2:
                l = l + " " + f[1]
        ls.append(l)
    return ls

def canon(line, out, side):
    if line.startswith("ieee.xsweep"):
        return "c-only"
    return out

# ------------------------------------------------------------------ oracle (independent of the model)

def _value(bits, k):
    return struct.unpack(">f" if k == 32 else ">d", struct.pack(">I" if k == 32 else ">Q", bits))[0]

def _bits(x, k):
    return struct.unpack(">I" if k == 32 else ">Q", struct.pack(">f" if k == 32 else ">d", x))[0]

def _parse_sweep(o):
    d = {}
    for f in o.split():
        if "=" not in f:
            return None
        a, b = f.split("=", 1)
        d[a] = b
    return d

def _msg_oracle(scn, outs):
    k, ix = scn.meta["k"], scn.meta["ix"]
    sv, dv, rcs = {}, {}, {}
    dec = None
    for line, o in zip(scn.lines, outs):
        t = line.split()
        if t[0] in ("ss.setd", "ss.setf"): rcs[int(t[1])] = (o, t[3])
        elif t[0] == "ss.vals": sv[int(t[1])] = o.split()
        elif t[0] == "dd.vals": dv[int(t[1])] = o.split()
        elif t[0] == "ds.decodelast": dec = o.split()
    if dec is None or not sv:
        return None
    if dec[:2] != ["ok", "0"]:
        return "a message with 2 09 0%d elements does not decode as valid: %s" % (k, " ".join(dec))
    for s_ in sorted(sv):
        if s_ not in dv or ix >= len(sv[s_]) or ix >= len(dv[s_]):
            return None
        want, got = sv[s_][ix], dv[s_][ix]
        rc, bits = rcs.get(s_, ("?", "?"))
        # what was set is what the dataset shows (the setter keeps every finite value, infinities and the maxima)
        if rc == "1" and want.split(":")[-1].lower() != bits.lower() and not is_nan(int(bits, 16), k):
            return "set %s but the dataset holds %s" % (bits, want)
        if want != got:
            a = int(want.split(":")[1], 16) if ":" in want else None
            b = int(got.split(":")[1], 16) if ":" in got else None
            if a is not None and b is not None and is_nan(a, k) and is_nan(b, k):
                continue
            return "2 09 0%d element of subset %d: %s encoded, %s decoded" % (k, s_, want, got)
    return None

def oracle(scn, outs):
    """bit identity, checked on the implementation's own output with Python's struct"""
    if scn.meta.get("msg"):
        return _msg_oracle(scn, outs)
    for line, o in zip(scn.lines, outs):
        t = line.split()
        op = t[0]
        if op == "ieee.libm":
            if o != "pow=0 powf=0 frac=0":
                return "libm contract: %s" % o
        elif op == "ieee.native":
            if o != ("1" if int(t[1]) else "0"):
                return "native switch: ieee.native %s returned %s, the native-layout path cannot be switched %s" % (
                    t[1], o, "on" if int(t[1]) else "off")
        elif op in ("ieee.enc32", "ieee.enc64"):
            k = int(op[-2:])
            b = int(t[1], 16)
            f = o.split()
            try:
                got = int(f[0], 16)
            except (ValueError, IndexError):
                return "unparsable result: %s -> %r" % (line, o)
            if is_nan(b, k):
                if not is_nan(got, k):
                    return "encode%d NaN: %s written as %s, not a NaN pattern" % (k, line, f[0])
            else:
                want = _bits(_value(b, k), k)          # the IEEE 754 bit pattern of the value (== b)
                if got != want:
                    return "encode%d not bit-exact: %s, value %r written as %s, its IEEE 754 pattern is %s" % (
                        k, line, _value(b, k), f[0], hx(want, k))
        elif op in ("ieee.dec32", "ieee.dec64"):
            k = int(op[-2:])
            b = int(t[1], 16)
            if is_nan(b, k):
                if o != "nan":
                    return "decode%d NaN: %s, NaN pattern read as %s" % (k, line, o)
            else:
                if o == "nan":
                    return "decode%d not bit-exact: %s read as NaN" % (k, line)
                try:
                    got = int(o, 16)
                except ValueError:
                    return "unparsable result: %s -> %r" % (line, o)
                x, y = _value(b, k), _value(got, k)
                if not (x == y and _bits(x, k) == _bits(y, k)):
                    return "decode%d not bit-exact: %s, pattern of %r read back as %r (%s)" % (k, line, x, y, o)
        elif op[:-2] in ("ieee.sweep", "ieee.xsweep"):
            k = int(op[-2:])
            d = _parse_sweep(o)
            if d is None or not all(x in d for x in ("n", "nan", "encbad", "decbad", "sum", "gbad")):
                return "unparsable result: %s -> %r" % (line, o)
            start, count, stride = int(t[1], 16), int(t[2]), int(t[3])
            if int(d["n"]) != count:
                return "sweep count: %s swept %s patterns" % (line, d["n"])
            if int(d["gbad"]) != 0:
                return "libm contract: %s, %s exponent guesses outside [floor(log2 x)-1, floor(log2 x)+2] or above emin for a subnormal" % (line, d["gbad"])
            if int(d["encbad"]) != 0:
                return "encode%d not bit-exact: %s, %s values not written as their IEEE 754 pattern, first (pattern:written) %s" % (
                    k, line, d["encbad"], d["encfirst"])
            if int(d["decbad"]) != 0:
                return "decode%d not bit-exact: %s, %s patterns not read back as the identical value, first (pattern:read) %s" % (
                    k, line, d["decbad"], d["decfirst"])
            if count <= 300000:
                mask = (1 << k) - 1
                nan, sm = 0, 0
                for i in range(count):
                    b = (start + i * stride) & mask
                    if is_nan(b, k):
                        nan += 1
                    else:
                        sm += b
                if nan != int(d["nan"]) or (sm & M64) != int(d["sum"], 16):
                    return "sweep checksum: %s, written patterns %s/%s, expected %d/%016x" % (
                        line, d["nan"], d["sum"], nan, sm & M64)
    return None

# ------------------------------------------------------------------ coverage accounting

def _cls(bits, k):
    w, t = (8, 23) if k == 32 else (11, 52)
    s = bits >> (k - 1)
    e = (bits >> t) & ((1 << w) - 1)
    m = bits & ((1 << t) - 1)
    ec = "zero-exp" if e == 0 else "max-exp" if e == (1 << w) - 1 else "e%d" % e
    mc = ("m0" if m == 0 else "m-low" if m < (1 << (t - 1)) else "m-high") + \
         ("-min" if m == 1 else "-max" if m == (1 << t) - 1 else "")
    return (s, ec, mc)

def signature(scn, outs):
    sig = set()
    for line, o in zip(scn.lines, outs):
        t = line.split()
        if t[0] in ("ieee.enc32", "ieee.enc64", "ieee.dec32", "ieee.dec64"):
            k = int(t[0][-2:])
            sig.add((t[0],) + _cls(int(t[1], 16), k))
        elif "sweep" in t[0]:
            k = int(t[0][-2:])
            b = int(t[1], 16)
            sig.add((t[0], b >> (k - 9), t[3]))
        else:
            sig.add((line, o))
    return sig

def classify(scn, outs):
    return [scn.name.split(":")[0].split("-")[0]]

def coverage_extra():
    return dict(_counts)

def neighbourhood(scn, rng, tier):
    """around a disagreeing pattern: the same mantissa at neighbouring exponents, both signs, both ops"""
    for l in scn.lines:
        t = l.split()
        if t[0] in ("ieee.enc32", "ieee.dec32", "ieee.enc64", "ieee.dec64"):
            k = int(t[0][-2:])
            tbits = 23 if k == 32 else 52
            b = int(t[1], 16)
            for d in (-2, -1, 0, 1, 2):
                for s in (0, 1 << (k - 1)):
                    nb = ((b + (d << tbits)) & ((1 << (k - 1)) - 1)) | s
                    yield Scenario("nb", both(nb, k))
