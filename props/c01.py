"""C01 — encode then decode returns every value and the subset structure unchanged."""
import os
from vlib.engine import Scenario
from vlib import tables
from gen import regs, datasets
from props.c10 import parse_nodes

ID = "C01"
THEOREMS = ["Bufr.C01.C01_static_roundtrip", "Bufr.C01.C01_structure", "Bufr.C01.C01_layout_rederived", "Bufr.C01.C01_element", "Bufr.C01.C01_raw_bits",
            "Bufr.C01.C01_dynamic_subset", "Bufr.C01.C01_dynamic_roundtrip", "Bufr.C01.C01_dynamic_positions",
            "Bufr.C01.C01_bitmap_head_inert", "Bufr.C01.C01_subset_loop_head_inert", "Bufr.C01.C01_bitmap_head_inert_build"]
RULE = ("datasets over generated templates (every element type, Table D, fixed/delayed replication to depth 3 with "
        "zero counts, in-scope Table C operators), 1..4 subsets, values on the quantisation grid incl. 0, max-1 and "
        "missing, editions 2-4: encode uncompressed, decode, compare every descriptor and value; distinct = distinct "
        "(element type, width class, value class, replication shape)")
ASSUMPTIONS = ["values are set through the setter matching the value's C type, from the raw pattern they decode to"]
P = {}

def prepare(runner, work):
    sets = {"cur": tables.shipped("cur") + ("-", "-"),
            "loc": tables.shipped("cur") + (os.path.join(tables.REPO, "Test/local_table_b"), os.path.join(tables.REPO, "Test/local_table_d")),
            "v13": tables.shipped("v13") + ("-", "-")}
    from gen import synth_tables
    pb, pd = synth_tables.write_tables(os.path.join(work, "syn"))
    sets["syn"] = tables.shipped("cur") + (pb, pd)
    P.clear()
    P.update(tables.setup_tables(runner, sets))

def scenarios(rng, tier, runner):
    out = []
    n = 700 if tier == "quick" else 12000
    for i in range(n):
        name = rng.choice(["cur", "loc", "syn", "syn", "v13"])
        B, D = P[name]
        ls, meta = datasets.build_lines(rng, name, B, D)
        ls += ["ds.invalid", "ds.encode 0", "ds.decodelast 1 0 0"]
        for k in range(meta["nsub"]):
            ls += ["dd.list %d" % k, "dd.vals %d" % k]
        out.append(Scenario("rt-%d" % i, ls, meta))
    # delayed replications that occur many times (14 … 300) with operators inside the replicated block that narrow
    # its elements (2 08 YYY on long character elements, 2 01 YYY below 128): the decoder's "message too short for
    # this factor" guard must measure a lower bound (added after a seeded change made it count strings at their
    # Table B width and refuse messages the library had just written)
    B, D = P["cur"]
    strs = [d for d in (1015, 1019, 1011) if d in B and B[d][3] == 5]
    nums = [d for d in (12101, 10004, 7004, 11002) if d in B]
    for i in range(24 if tier == "quick" else 300):
        fac = rng.choice([14, 25, 40, 120, 300])
        body = []
        if strs and rng.random() < 0.8:
            body += [208000 + rng.choice([1, 2, 3]), rng.choice(strs)] + ([rng.choice(strs)] if rng.random() < 0.3 else []) + [208000]
        if rng.random() < 0.5:
            body += [201000 + rng.choice([120, 124, 126]), rng.choice(nums), 201000]
        if not body or rng.random() < 0.3:
            body.append(rng.choice(nums))
        fd = 31001 if fac <= 255 else 31002
        t = [rng.choice(nums), 100000 + 1000 * len(body), fd] + body + [rng.choice(nums)]
        nsub = rng.choice([1, 2])
        ls = ["T.use cur", "tm.new 4 " + " ".join("%06d" % d for d in t)]
        for k in range(nsub):
            ls += ["ss.new", "ss.setfactors %d %d" % (k, fac), "ss.expand %d" % k,
                   "ss.fill %d %d %d" % (k, rng.randrange(1, 2 ** 31), rng.choice([0, 1, 1]))]
        for k in range(nsub):
            ls += ["ss.list %d" % k, "ss.vals %d" % k]
        ls += ["ds.invalid", "ds.encode 0", "ds.decodelast 1 0 0"]
        for k in range(nsub):
            ls += ["dd.list %d" % k, "dd.vals %d" % k]
        out.append(Scenario("many-%d" % i, ls, {"tables": "cur", "ed": 4, "template": t, "nsub": nsub, "seeds": []}))
    return out

def two_pass(scn, c_out):
    """the model decodes the bytes the *implementation* produced"""
    lines = list(scn.lines)
    enc = None
    tm = None
    for i, l in enumerate(lines):
        t = l.split()
        if t[0] == "tm.new":
            tm = t
        if t[0] == "ds.encode" and i < len(c_out):
            enc = c_out[i].split()
        if t[0] == "ds.decodelast" and enc and len(enc) == 3 and tm:
            lines[i] = "ds.decode %s %s %s %s %s %s %s %s" % (tm[1], t[1], enc[0], enc[1], t[2], t[3], ",".join(tm[2:]), enc[2])
    return lines

import struct
from fractions import Fraction

def parse_val(tok):
    """-> ('none',) | ('miss',) | ('num', Fraction) | ('str', hex) ; the @af suffix is returned separately"""
    af = None
    if "@" in tok:
        tok, af = tok.split("@", 1)
    if tok == "-":
        return ("none",), af
    if ":" not in tok:
        return ("?", tok), af
    k, v = tok.split(":", 1)
    if k in ("i", "l"):
        return (("miss",) if int(v) == -1 else ("num", Fraction(int(v)))), af
    if k == "d":
        if v == "7fefffffffffffff": return ("miss",), af
        return ("num", Fraction(struct.unpack(">d", bytes.fromhex(v))[0])), af
    if k == "f":
        if v == "7f7fffff": return ("miss",), af
        return ("num", Fraction(struct.unpack(">f", bytes.fromhex(v))[0])), af
    if k == "s":
        b = bytes.fromhex(v) if v != "-" else b""
        return (("miss",) if b and all(c == 0xff for c in b) else ("str", v)), af
    return ("?", tok), af

def same_value(x, y, scale, af_bits=1, ref=0):
    """property-level equality: numeric within half the precision 10^-scale, others exactly; the C type
    of the value (int or double) may differ when a new reference value changes the element's encoding"""
    if x == y:
        return True
    (a, afa), (b, afb) = parse_val(x), parse_val(y)
    if af_bits > 0 and afa != afb:
        return False     # the associated field is part of the data only when the encoding has one
    if af_bits == 0 and a == b:
        return True
    if ref < 0 and x.split("@")[0] in ("i:-1", "l:-1") and b == ("num", Fraction(-1)):
        # an integer-typed value holding the physical value -1 under a (redefined) negative reference:
        # the library's -1 sentinel is ambiguous here, the encoder treats it as the number -1
        return True
    if a[0] == "num" and b[0] == "num":
        return abs(a[1] - b[1]) < Fraction(1, 2) * Fraction(10) ** (-scale)
    return a == b

def compare(scn, lscn, cr, lr):
    """exact tie, except that after a decode flagged invalid (short read) the values are not
    compared: the field that was cut short is not modelled.  This also covers the values of such a
    dataset once it has become the current one (`dd.tocur`) or has been merged from (`dd.merge`)."""
    from vlib.engine import compare as cmp0
    c_out, l_out = list(cr[0]), list(lr[0])
    bad = False
    sticky = False
    for i, l in enumerate(scn.lines):
        if i >= len(c_out) or i >= len(l_out):
            break
        if l.startswith("ds.decode"):
            f = c_out[i].split()
            bad = len(f) >= 3 and f[-3] == "ok" and f[-2] == "1"
        elif l.startswith("tm.new"):
            sticky = False
        elif bad and (l.startswith("dd.tocur") or l.startswith("dd.merge")):
            sticky = True
        elif bad and l.startswith("dd.vals"):
            c_out[i] = l_out[i] = "-"
        elif sticky and l.startswith("ss.vals"):
            c_out[i] = l_out[i] = "-"
    return cmp0(scn, (c_out, cr[1]), (l_out, lr[1]), None)

def strip_flags(nodes):
    return [(n["desc"], n["flags"] & 4, n["type"], n["nbits"], n["scale"], n["ref"], n["af"]) for n in nodes]

def oracle(scn, outs):
    built_l = datasets.subset_views(scn, outs, "ss.list")
    built_v = datasets.subset_views(scn, outs, "ss.vals")
    dec_l = datasets.subset_views(scn, outs, "dd.list")
    dec_v = datasets.subset_views(scn, outs, "dd.vals")
    inv = next((o for l, o in zip(scn.lines, outs) if l == "ds.invalid"), "0")
    dec = next((o for l, o in zip(scn.lines, outs) if l.startswith("ds.decodelast")), None)
    if dec is None or not built_l:
        return None
    # a factor that was set must have been expanded before encoding (API contract); shrunk
    # scenarios that break this are not workloads of the property
    pending = set()
    for l in scn.lines:
        t = l.split()
        if t[0] == "ss.setfactors": pending.add(t[1])
        elif t[0] == "ss.expand": pending.discard(t[1])
        elif t[0] == "ds.encode" and pending: return None
    if inv != "0":
        return None        # the dataset itself was flagged invalid when built (operator not defined in the edition …)
    if any(o in ("none", "-") for o in built_l.values()):
        return None
    f = dec.split()
    if f[0] != "ok":
        return "decoding the library's own uncompressed message failed: %s" % dec
    if f[1] != "0":
        return "decoded dataset is flagged invalid"
    if int(f[2]) != len(built_l):
        return "decoded %s subsets, encoded %d" % (f[2], len(built_l))
    for k in sorted(built_l):
        a, b = parse_nodes(built_l[k]), parse_nodes(dec_l.get(k, "-"))
        da = [(n["desc"], bool(n["flags"] & 4)) for n in a]
        db = [(n["desc"], bool(n["flags"] & 4)) for n in b]
        if da != db:
            return "subset %d: decoded descriptor sequence differs from the encoded one" % k
        va, vb = built_v.get(k, "").split(), dec_v.get(k, "").split()
        for i, (x, y, n) in enumerate(zip(va, vb, a)):
            if n["flags"] & 4:
                continue
            if n["type"] == 4 and n["nbits"] > 32 and (n["scale"] != 0 or n["ref"] != 0):
                continue    # scaled numerics wider than 32 bits are outside the property (and unsupported)
            if not same_value(x, y, n["scale"], n["af"], n["ref"]):
                return "subset %d item %d (%06d, %d bits): value %s decoded as %s" % (k, i, n["desc"], n["nbits"], x, y)
    return None

def signature(scn, outs):
    sig = set()
    for l, o in zip(scn.lines, outs):
        if l.startswith("ss.list") and o not in ("none", "-"):
            vals = None
            for n in parse_nodes(o):
                if n["flags"] & 4: continue
                sig.add((n["type"], min(n["nbits"], 40) // 4, n["scale"] < 0, n["ref"] < 0, n["af"] > 0, scn.meta.get("ed")))
    return sig

def classify(scn, outs):
    c = ["ed%s" % scn.meta.get("ed"), "nsub%s" % scn.meta.get("nsub")]
    t = scn.meta.get("template") or []
    if any(regs.F(d) == 1 and regs.Y(d) == 0 for d in t): c.append("delayed")
    if any(regs.F(d) == 2 for d in t): c.append("operators")
    if any(regs.F(d) == 3 for d in t): c.append("tableD")
    dec = next((o for l, o in zip(scn.lines, outs) if l.startswith("ds.decodelast")), "?")
    c.append("decode=" + dec.split()[0])
    return c
