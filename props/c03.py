"""C03 — encoder output is the FM 94 wire format for the template and values.
The oracle is the *reference decoder* of BufrSpec/RefDecode.lean (written from the regulation,
shares no code with the model of the library) run on the bytes the implementation produced."""
import os
from vlib.engine import Scenario
from vlib import tables
from gen import regs, datasets
from props.c10 import parse_nodes
from props import c01

ID = "C03"
THEOREMS = ["Bufr.C03.C03_element_bits", "Bufr.C03.C03_section4_bits", "Bufr.C03.C03_characters", "Bufr.C03.C03_raw_value", "Bufr.C03.C03_missing_all_ones", "Bufr.C03.C03_column_bits", "Bufr.C03.C03_refdecode_element", "Bufr.C03.C03_refdecode_column"]
RULE = ("same dataset space as C01/C02, both compression choices: the reference decoder (Lean spec) must accept the "
        "implementation's Section 4 strictly (no stray bits) and recover exactly the raw pattern chosen for every "
        "element, the strings, associated fields and replication factors; distinct = distinct (kind, width class, "
        "compressed?, missing?)")
ASSUMPTIONS = c01.ASSUMPTIONS + ["sequences outside the scope of the Table C transcription (2 07 nested with 2 01/2 02, "
                                 "2 05 under 2 04/2 08, bitmap operators) are not generated"]
P = c01.P
prepare = c01.prepare

def scenarios(rng, tier, runner):
    out = []
    n = 700 if tier == "quick" else 10000
    for i in range(n):
        name = rng.choice(["cur", "loc", "syn", "syn", "v13"])
        B, D = P[name]
        comp = rng.choice([0, 1, 1])
        ls, meta = datasets.build_lines(rng, name, B, D, nsub=rng.choice([1, 2, 3, 4]) if comp else None,
                                        same_structure=bool(comp) and rng.random() < 0.85,
                                        edition=rng.choice([2, 3, 4, 4]))
        ls += ["ds.invalid", "ds.encode %d" % comp, "spec.decode"]
        if i % 3 == 0:
            # the whole message: Section 3 and the framing of the sections, read independently (gen/frame.py)
            from props import c07
            ls += ["ds.hdr s " + c07._hdr_keys(rng, meta["ed"]), "ds.msg s %d" % comp]
        meta["comp"] = comp
        out.append(Scenario("wire-%d" % i, ls, meta))
    from props import c02
    out += c02.string_family(rng, 40 if tier == "quick" else 600, lambda nsub: ["ds.invalid", "ds.encode 1", "spec.decode"])
    # a dataset that carries the COMPRESSED flag (decoded from a compressed message) and is then given a subset of
    # another shape: whatever compression is asked for, Section 3 must say what Section 4 is (added after a seeded
    # change kept the stale flag and wrote subsets of different structure column-wise)
    from gen import regs
    for i in range(40 if tier == "quick" else 600):
        name = rng.choice(["cur", "loc", "syn"])
        B, D = P[name]
        nsub = rng.choice([2, 3])
        while True:
            ls, meta = datasets.build_lines(rng, name, B, D, nsub=nsub, same_structure=True, depth=rng.choice([1, 2, 2, 3]))
            if not any(d // 1000 == 203 for d in meta["template"]) and regs.operators_defined(meta["ed"], meta["template"], D):
                break
        ls += ["ds.invalid", "ds.encode 1", "ds.decodelast 1 0 0", "dd.tocur", "ss.new",
               "ss.setfactors %d %s" % (nsub, rng.choice(datasets.FACTOR_SETS)), "ss.expand %d" % nsub,
               "ss.setfactors %d %s" % (nsub, rng.choice(datasets.FACTOR_SETS)), "ss.expand %d" % nsub,
               "ss.fill %d %d %d" % (nsub, rng.randrange(1, 2 ** 31), rng.choice([0, 1, 1, 4]))]
        for k in range(nsub + 1):
            ls += ["ss.list %d" % k, "ss.vals %d" % k]
        comp = rng.choice([1, 0, -1])
        ls += ["ds.invalid", "ds.encode %d" % comp, "spec.decode"]
        meta = dict(meta); meta["nsub"] = nsub + 1; meta["comp"] = comp; meta["family"] = "flagged"
        out.append(Scenario("flagged-%d" % i, ls, meta))
    return out

def two_pass(scn, c_out):
    lines = list(scn.lines)
    tm, enc = None, None
    for i, l in enumerate(lines):
        t = l.split()
        if t[0] == "tm.new": tm = t
        if t[0] == "ds.encode" and i < len(c_out): enc = c_out[i].split()
        if t[0] == "spec.decode" and enc and len(enc) == 3 and tm:
            lines[i] = "spec.decode %s %s %s %s %s 1" % (tm[1], enc[0], enc[1], ",".join(tm[2:]), enc[2])
    return lines

def compare(scn, lscn, cr, lr):
    from vlib.engine import compare as cmp0
    c_out, l_out = list(cr[0]), list(lr[0])
    for i, l in enumerate(scn.lines):
        if l.startswith("spec.decode") and i < len(c_out) and i < len(l_out):
            c_out[i] = l_out[i]          # the implementation has no counterpart of the spec op
    return cmp0(scn, (c_out, cr[1]), (l_out, lr[1]), None)

def oracle(scn, outs):
    """the whole message (`ds.msg`): sections framed as FM 94 prescribes for the edition, Section 3 = subset count,
    flags and the template's descriptors, Section 4 = the data `ds.encode` produced (zero fill to an even length up
    to edition 3 only)"""
    if len(outs) != len(scn.lines):
        return None
    from gen import frame
    tm = next((l.split() for l in scn.lines if l.startswith("tm.new")), None)
    enc = None
    for l, o in zip(scn.lines, outs):
        if l.startswith("ds.encode"):
            enc = o.split()         # the data as last encoded (new reference values are settled by a first encode)
        if not l.startswith("ds.msg ") or not tm or not enc or len(enc) != 3:
            continue
        if not o or any(ch not in "0123456789abcdef" for ch in o):
            continue
        try:
            pm = frame.parse(bytes.fromhex(o))
        except ValueError as e:
            return "whole message: %s" % e
        ed = int(tm[1]); descs = [int(d) for d in tm[2:]]
        if pm["edition"] != ed:
            return "whole message: edition %d written for a template of edition %d" % (pm["edition"], ed)
        if pm["descs"] != descs:
            return "whole message: Section 3 lists %s, the template is %s" % (pm["descs"][:12], descs[:12])
        if pm["nsub"] != int(enc[1]):
            return "whole message: Section 3 announces %d subsets, %s were encoded" % (pm["nsub"], enc[1])
        if bool(pm["flag"] & 64) != bool(int(enc[0]) & 64):
            return "whole message: compression flag of Section 3 does not say how Section 4 was written"
        data = bytes.fromhex(enc[2]) if enc[2] != "-" else b""
        body = pm["s4"]
        fill = body[len(data):]
        if body[:len(data)] != data or any(fill) or len(fill) > (1 if ed <= 3 else 0):
            return "whole message: Section 4 is not the encoded data (%d octets of data, %d in the section)" % (len(data), len(body))
    return None

DATA_TYPES = (4, 5, 6, 7, 8, 9)

def expected_items(nodes, vals, seed_mode):
    """what FM 94 says Section 4 holds for this subset: (desc, width, afW, af, raw|bytes)"""
    out = []
    for i, (n, v) in enumerate(zip(nodes, vals)):
        if n["flags"] & 4 or n["type"] not in DATA_TYPES or n["nbits"] <= 0:
            continue
        (pv, af) = c01.parse_val(v)
        afw, afv = 0, 0
        if n["af"] > 0 and af:
            afw, afv = (int(x) for x in af.split(":"))
        w = n["nbits"]
        if n["type"] == 5:
            k, hx = v.split("@")[0].split(":", 1) if ":" in v else ("-", "")
            b = bytes.fromhex(hx) if (k == "s" and hx != "-") else b"\xff" * (w // 8)
            b = (b[:w // 8] + b" " * (w // 8))[:w // 8]
            out.append((n["desc"], w, afw, afv, ("s", b.hex() or "-")))
            continue
        if n["type"] == 4 and w > 32 and (n["scale"] != 0 or n["ref"] != 0):
            out.append((n["desc"], w, afw, afv, ("r", None)))   # scaled numerics wider than 32 bits: outside the property
            continue
        if regs.X(n["desc"]) == 31 and regs.F(n["desc"]) == 0:
            raw = n["ival"] if n["ival"] is not None and n["ival"] >= 0 else (1 << w) - 1
        elif n["type"] == 8 and pv[0] in ("miss", "none"):
            raw = None    # a new reference value that was never set: what goes on the wire is not defined
        elif pv[0] == "miss" and n["ref"] < 0 and v.split("@")[0] in ("i:-1", "l:-1"):
            raw = None    # integer -1 under a negative reference: the library's sentinel is ambiguous (see c01.same_value)
        elif pv[0] == "miss" or pv[0] == "none":
            raw = (1 << w) - 1
        elif seed_mode is not None:
            raw = datasets.fill_raw(seed_mode[1], seed_mode[0], i, w, n["type"])
            if n["type"] == 8 and raw == 1 << (w - 1):
                raw = 0      # sign-and-magnitude "minus zero" is the value 0, which FM 94 writes as 0
        else:
            raw = None
        out.append((n["desc"], w, afw, afv, ("r", raw)))
    return out

def parse_spec(line):
    if not line.startswith("S"):
        return None
    subs = []
    for part in line[1:].split("|"):
        items = []
        for tok in part.split():
            af = (0, 0)
            if "@" in tok:
                tok, a = tok.split("@")
                af = tuple(int(x) for x in a.split(":"))
            f = tok.split(":")
            if f[1] == "s":
                items.append((int(f[0]), None, af[0], af[1], ("s", f[2])))
            else:
                items.append((int(f[0]), int(f[1]), af[0], af[1], ("r", int(f[2]))))
        subs.append(items)
    return subs

def oracle2(scn, c_out, l_out):
    lists = datasets.subset_views(scn, c_out, "ss.list")
    vals = datasets.subset_views(scn, c_out, "ss.vals")
    inv = next((o for l, o in zip(scn.lines, c_out) if l == "ds.invalid"), "0")
    if inv != "0" or not lists or any(v in ("none", "-") for v in lists.values()):
        return None
    pending = set()
    for l in scn.lines:
        t = l.split()
        if t[0] == "ss.setfactors": pending.add(t[1])
        elif t[0] == "ss.expand": pending.discard(t[1])
        elif t[0] == "ds.encode" and pending: return None
    spec = next((o for l, o in zip(scn.lines, l_out) if l.startswith("spec.decode")), None)
    enc = next((o for l, o in zip(scn.lines, c_out) if l.startswith("ds.encode")), None)
    if spec is None or enc is None or len(enc.split()) != 3:
        return None
    B = P.get(scn.meta.get("tables"), ({}, {}))[0]
    ed = scn.meta.get("ed")
    if ed is None:
        tml = next((l.split() for l in scn.lines if l.startswith("tm.new")), None)
        if tml is None: return None
        ed = int(tml[1])
    # the regulation transcription must cover the sequence
    from props import c09
    for k in lists:
        its = [n["desc"] for n in c09.items_of(parse_nodes(lists[k]))]
        if c09.in_scope(ed, its):
            return None
        if any(regs.F(d) == 0 and d not in B for d in its):
            return None
    for k in lists:
        if any(n["type"] in DATA_TYPES and n["nbits"] <= 0 and not (n["flags"] & 4) for n in parse_nodes(lists[k])):
            return None       # an operator reduced an element's width to zero or less: not a width FM 94 knows (cf. C09)
    if spec == "none":
        return "the reference decoder rejects the encoder's data section (not a well-formed FM 94 encoding of this template)"
    subs = parse_spec(spec)
    if subs is None:
        return None
    if len(subs) != len(lists):
        return "reference decoder found %d subsets, %d were encoded" % (len(subs), len(lists))
    seeds = scn.meta.get("seeds")
    for k in sorted(lists):
        nodes = parse_nodes(lists[k])
        want = expected_items(nodes, vals.get(k, "").split(), seeds[k] if seeds and k < len(seeds) else None)
        got = subs[k]
        if len(want) != len(got):
            return "subset %d: the wire holds %d fields, the template and values call for %d" % (k, len(got), len(want))
        for j, (w, g) in enumerate(zip(want, got)):
            if w[0] != g[0]:
                return "subset %d field %d: descriptor %06d on the wire where %06d is due" % (k, j, g[0], w[0])
            if g[1] is not None and w[1] != g[1]:
                return "subset %d field %d (%06d): width %d, FM 94 gives %d" % (k, j, w[0], w[1], g[1])
            if (w[2], w[3]) != (g[2], g[3]) and w[2] > 0:
                return "subset %d field %d (%06d): associated field %s on the wire, %s set" % (k, j, w[0], g[2:4], w[2:4])
            if w[4][1] is not None and w[4] != g[4]:
                return "subset %d field %d (%06d, %s bits): wire holds %s, the value's pattern is %s" % (k, j, w[0], w[1], g[4][1], w[4][1])
    return None

def signature(scn, outs):
    sig = set()
    for l, o in zip(scn.lines, outs):
        if l.startswith("ss.list") and o not in ("none", "-"):
            for n in parse_nodes(o):
                if n["flags"] & 4: continue
                sig.add((n["type"], min(n["nbits"], 40) // 4, n["af"] > 0, scn.meta.get("comp"), scn.meta.get("ed")))
    return sig

def classify(scn, outs):
    enc = next((o.split()[0] for l, o in zip(scn.lines, outs) if l.startswith("ds.encode")), "?")
    return ["comp=%s" % scn.meta.get("comp"), "flag=" + enc, "ed%s" % scn.meta.get("ed")]
