"""C17 — search returns the first match, honouring value, range and qualifier keys.

Streams: find.meta / find.quals / find.desc / find.vals on built (`ss`) and decoded (`dd`) subsets (exact tie).
The oracle is a brute-force first-match search written from the property text over the implementation's own
`ss.list`/`ss.vals` (or `dd.*`) listing: exact rational arithmetic for "within half the element precision",
inclusive ranges, the qualifier in effect found by scanning backwards.  It does not use `find.quals` for the
search (it checks those lists separately against its own scan)."""
import os, struct
from fractions import Fraction
from vlib.engine import Scenario, run_all
from vlib import tables
from gen import regs, templates
from props.c01 import two_pass   # the model decodes the bytes the implementation encoded

ID = "C17"
THEOREMS = ["Bufr.C17.C17_descriptor", "Bufr.C17.C17_values", "Bufr.C17.C17_none", "Bufr.C17.C17_first",
            "Bufr.C17.C17_qualifiers", "Bufr.C17.C17_keys", "Bufr.C17.C17_values_spec"]
RULE = ("templates with fixed and delayed replication (counts 0..4, nested) around 1-3 elements and 1-2 qualifiers of "
        "classes 01-09, values from 2-3 value alphabets incl. missing so that the same descriptor occurs many times; "
        "queries at EVERY start (-2..count+1) for subsets up to 40 descriptors: descriptor only, hits drawn from the "
        "values present (int/float/double/string/missing keys), near misses at value +- half precision (exact, one part "
        "in 2^30 inside and outside, nearest double), absent values, multi-value keys, ranges touching both bounds, "
        "lo > hi, key sequences of length 1-4 cut from the subset (self-overlapping runs A A B on A A A B), qualifier "
        "keys with/without value for qualifiers in effect, overridden, cancelled, absent and behind zero-count "
        "placeholders; built and decoded subsets; re-run of the qualifier tracking after a value change; "
        "distinct = distinct (query shape, key kinds, outcome class)")
ASSUMPTIONS = [
    "a position is an index into the subset's descriptor list, placeholders of zero-count replications included",
    "missing equals missing and nothing else; a missing value lies in no range; text is equal up to trailing blanks",
    "a missing qualifier cancels the qualifier in effect; placeholders (FLAG_SKIPPED) neither define nor cancel; "
    "descriptors flagged class 31/33 (replication factors, quality information after 2 22..2 37) carry no qualifiers "
    "(documented design of bufr_expand_qualifiers)",
    "qualifier lists are those of the last bufr_expand_qualifiers call with meta tracking on; queries with qualifier keys "
    "are only judged while the subset has not been modified since",
    "outside the oracle (model/implementation tie only): keys whose number has a flag bit (>= 131072), two-value text keys, "
    "range bounds that are missing, NaN/Inf double keys, text with NUL bytes, 32-bit IEEE elements, |d - h| within 2^-40 h of "
    "the tolerance h (the C compares in double arithmetic; the model mirrors it bit for bit), INT64 values beyond 2^53 against real keys",
    "time/location keys are not modelled (harness and driver answer 'unsupported'); callback keys are the three callbacks the harness registers (always, never, INT32 value equals)",
]
TRUSTED_EXTRA = [
    "libm pow(10, scale) correctly rounded (contract of BufrModel.Scale.pow10, as for C08); IEEE double subtraction and comparison",
    "harness/ops_find.c: keys are built through bufr_set_key_int32/_flt32/_string/_qualifier*; FLT64 and INT64 key values, which "
    "have no constructor, are created with bufr_create_value; find.quals calls the extern bufr_expand_qualifiers directly "
    "(what bufr_expand_datasubset does when meta tracking is on) and prints each descriptor's qualifier pointers as positions",
    "scenarios switch meta tracking off (find.meta 0) while the subset is built so that qualifier lists only come from find.quals",
]
CRASH_IS_VIOLATION = True
P = {}

def prepare(runner, work):
    sets = {"cur": tables.shipped("cur") + ("-", "-"),
            "loc": tables.shipped("cur") + (os.path.join(tables.REPO, "Test/local_table_b"), os.path.join(tables.REPO, "Test/local_table_d"))}
    from gen import synth_tables
    pb, pd = synth_tables.write_tables(os.path.join(work, "syn"))
    sets["syn"] = tables.shipped("cur") + (pb, pd)
    P.clear()
    P.update(tables.setup_tables(runner, sets))

# ----------------------------------------------------------------------------- listing

FLT_MAX = 0x7f7fffff
DBL_MAX = 0x7fefffffffffffff

def f32_of(bits): return struct.unpack(">f", struct.pack(">I", bits))[0]
def f64_of(bits): return struct.unpack(">d", struct.pack(">Q", bits))[0]
def bits_f32(x): return struct.unpack(">I", struct.pack(">f", x))[0]
def bits_f64(x): return struct.unpack(">Q", struct.pack(">d", x))[0]
def f32_special(bits): return (bits >> 23) & 0xff == 0xff
def f64_special(bits): return (bits >> 52) & 0x7ff == 0x7ff

def parse_nodes(list_line, vals_line):
    if list_line == "none" or vals_line == "none":
        return None          # no such subset
    if list_line == "-" or vals_line == "-":
        return []
    ls, vs = list_line.split(), vals_line.split()
    if len(ls) != len(vs):
        return None
    nodes = []
    for tok, v in zip(ls, vs):
        f = tok.split("/")
        v = v.split("@")[0]
        if v == "-":
            val = ("none",)
        else:
            k, x = v.split(":", 1)
            if k == "i": val = ("i", int(x))
            elif k == "l": val = ("l", int(x))
            elif k == "f": val = ("f", int(x, 16))
            elif k == "d": val = ("d", int(x, 16))
            else: val = ("s", b"" if x == "-" else bytes.fromhex(x))
        nodes.append({"desc": int(f[0]), "flags": int(f[1]), "type": int(f[2]), "nbits": int(f[3]), "scale": int(f[4]),
                      "ref": int(f[5]), "val": val})
    return nodes

# ----------------------------------------------------------------------------- the property, in Python

ODD = ("odd",)      # outside the oracle

def str_missing(b):
    i = len(b)
    while i > 1 and b[i - 1] == 32:
        i -= 1
    return all(c == 255 for c in b[:i])

def sem(val):
    """('none',) | ('miss',) | ('num', Fraction, kind) | ('str', bytes) | ODD"""
    k = val[0]
    if k == "none": return ("none",)
    if k in ("i", "l"):
        return ("miss",) if val[1] == -1 else ("num", Fraction(val[1]), k)
    if k == "f":
        if val[1] == FLT_MAX or f32_special(val[1]): return ("miss",)
        return ("num", Fraction(f32_of(val[1])), "f")
    if k == "d":
        if val[1] == DBL_MAX: return ("miss",)
        if f64_special(val[1]): return ODD
        return ("num", Fraction(f64_of(val[1])), "d")
    if k == "s":
        return ("str", val[1])
    return ODD

def node_missing(n):
    v = n["val"]
    if v[0] == "none": return True
    if v[0] in ("i", "l"): return v[1] == -1
    if v[0] == "f": return v[1] == FLT_MAX or f32_special(v[1])
    if v[0] == "d": return v[1] == DBL_MAX or f64_special(v[1])
    return str_missing(v[1])

def trim(b): return b.rstrip(b" ")

BAND = Fraction(1, 2 ** 40)

def val_eq(scale, xval, kval):
    """True / False / None (outside the oracle)"""
    x, k = sem(xval), sem(kval)
    if x is ODD or k is ODD: return None
    if x[0] == "str" or k[0] == "str":
        if x[0] != k[0]: return None            # refused by the harness
        if 0 in x[1] or 0 in k[1]: return None
        return trim(x[1]) == trim(k[1])
    if xval[0] == "f": return None              # 32-bit IEEE elements
    if x[0] == "miss" or k[0] == "miss":
        return x[0] == k[0]
    a, b = x[1], k[1]
    if x[2] in ("i", "l") and scale < 0: return None
    if x[2] in ("i", "l") and k[2] in ("i", "l"):
        return a == b if scale >= 0 else None
    if (x[2] == "l" and abs(a) > 2 ** 53) or (k[2] == "l" and abs(b) > 2 ** 53): return None
    h = Fraction(1, 2) * Fraction(10) ** (-scale)
    d = abs(a - b)
    if scale == 0 or d == 0:
        return d <= h
    if abs(d - h) <= h * BAND: return None
    return d <= h

def in_range(lo, xval, hi):
    l, x, u = sem(lo), sem(xval), sem(hi)
    if ODD in (l, x, u): return None
    if "str" in (l[0], x[0], u[0]): return None
    if xval[0] == "f": return None
    if l[0] == "miss" or u[0] == "miss": return None
    if x[0] == "miss": return False
    for t in (l, x, u):
        if t[2] == "l" and abs(t[1]) > 2 ** 53 and not all(z[2] in ("i", "l") for z in (l, x, u)): return None
    return l[1] <= x[1] <= u[1]

def and3(xs):
    r = True
    for x in xs:
        if x is False: return False
        if x is None: r = None
    return r

def or3(xs):
    r = False
    for x in xs:
        if x is True: return True
        if x is None: r = None
    return r

def is_qualifier(d): return d // 100000 == 0 and 1 <= d // 1000 % 100 <= 9

NOQ = -1
def in_effect(nodes, i, d):
    """position of the qualifier d in effect at i, or NOQ"""
    if nodes[i]["flags"] & (1 | 8) or not is_qualifier(d):
        return NOQ
    for k in range(i - 1, -1, -1):
        n = nodes[k]
        if n["desc"] == d and n["val"][0] != "none" and not (n["flags"] & 4):
            return NOQ if node_missing(n) else k
    return NOQ

def elem_key_match(n, key):
    if n["desc"] != key["desc"]: return False
    if key.get("cb") is not None:
        # the harness's callbacks: 0 always, 1 never, 2 the element holds the INT32 value given
        kind, arg = key["cb"]
        if kind == 0: return True
        if kind == 1: return False
        return n["val"][0] == "i" and n["val"][1] == arg
    vs = key["vals"]
    if not vs: return True
    if n["val"][0] == "none": return False
    if len(vs) == 2: return in_range(vs[0], n["val"], vs[1])
    return or3(val_eq(n["scale"], n["val"], v) for v in vs)

def qual_key_holds(nodes, i, key):
    k = in_effect(nodes, i, key["desc"])
    if k == NOQ: return False
    if not key["vals"]: return True
    return val_eq(nodes[k]["scale"], nodes[k]["val"], key["vals"][0])

def matches_at(nodes, ekeys, qkeys, p):
    if p + len(ekeys) > len(nodes): return False
    return and3(and3([elem_key_match(nodes[p + j], ek)] + [qual_key_holds(nodes, p + j, q) for q in qkeys])
                for j, ek in enumerate(ekeys))

def judge(nodes, ekeys, qkeys, start, r):
    """None, or why the implementation's answer r contradicts the property"""
    count = len(nodes)
    s = max(start, 0)
    if r < -1 or r >= max(count, 1) and r != -1:
        return "result %d is not a position" % r
    if r >= 0:
        if r < s: return "result %d is before the start %d" % (r, start)
        if matches_at(nodes, ekeys, qkeys, r) is False:
            return "the keys do not match at the position returned (%d)" % r
    for p in range(s, count if r < 0 else r):
        if matches_at(nodes, ekeys, qkeys, p) is True:
            return "the keys match at %d, the search from %d returned %d" % (p, start, r)
    return None

def expected(nodes, ekeys, qkeys, start):
    """the definite answer, or None when a don't-care decides"""
    for p in range(max(start, 0), len(nodes)):
        m = matches_at(nodes, ekeys, qkeys, p)
        if m is None: return None
        if m: return p
    return -1

# ----------------------------------------------------------------------------- key syntax

def parse_token(t):
    k, body = t[0], t[1:]
    try:
        if k in ("i", "l") and len(body) > 11: return None     # the protocol's number syntax
        if k == "i":
            v = int(body); v = (v + 2 ** 31) % 2 ** 32 - 2 ** 31
            return ("i", v)
        if k == "l": return ("l", int(body))
        if k == "f" and len(body) == 8: return ("f", int(body, 16))
        if k == "d" and len(body) == 16: return ("d", int(body, 16))
        if k == "s":
            b = b"" if body == "-" else bytes.fromhex(body)
            return ("s", b.split(b"\0")[0])
    except ValueError:
        pass
    return None

def parse_key(tok):
    """-> dict(q, desc, vals) or None"""
    if tok.startswith("c"):
        d, _, vs = tok[1:].partition("=")
        ts = vs.split(",")
        if not d.isdigit() or len(d) > 6 or len(ts) != 2: return None
        k, a = parse_token(ts[0]), parse_token(ts[1])
        if not k or not a or k[0] != "i" or a[0] != "i": return None
        return {"q": False, "desc": int(d), "vals": [], "cb": (k[1], a[1])}
    q = tok.startswith("q")
    if q: tok = tok[1:]
    d, _, vs = tok.partition("=")
    if not d.isdigit() or len(d) > 7: return None
    vals = []
    if "=" in tok:
        for t in vs.split(","):
            v = parse_token(t) if t else None
            if v is None: return None
            vals.append(v)
    return {"q": q, "desc": int(d), "vals": vals}

def in_scope(keys):
    for k in keys:
        if k["desc"] >= 0x20000: return False
        if k.get("cb") is not None and not (0 <= k["cb"][0] <= 2): return False
        if k["q"] and len(k["vals"]) > 1: return False
        if len(k["vals"]) == 2 and any(v[0] == "s" for v in k["vals"]): return False
    return True

# ----------------------------------------------------------------------------- walking a scenario

MUTATORS = ("ss.setraw", "ss.setstr", "ss.fill", "ss.expand", "ss.setfactors", "ss.seti", "ss.new", "tm.new", "ds.encode")

def walk(scn, outs):
    """yields records for the find.* lines: dict(op, idx, nodes, fresh, meta_on, ...)"""
    lists, vals, nodes, fresh = {}, {}, {}, {}
    meta_on = True
    for idx, (line, o) in enumerate(zip(scn.lines, outs)):
        t = line.split()
        op = t[0]
        if op in ("ss.list", "dd.list") and len(t) == 2:
            lists[(op[:2], t[1])] = o
        elif op in ("ss.vals", "dd.vals") and len(t) == 2:
            key = (op[:2], t[1])
            vals[key] = o
            if key in lists:
                nodes[key] = parse_nodes(lists[key], o)
        elif op in MUTATORS:
            for key in list(nodes):
                if key[0] == "ss": del nodes[key]
            for key in list(fresh):
                if key[0] == "ss": fresh[key] = False
            lists = {k: v for k, v in lists.items() if k[0] != "ss"}
        elif op in ("ds.decode", "ds.decodelast"):
            for key in list(nodes):
                if key[0] == "dd": del nodes[key]
            for key in list(fresh):
                if key[0] == "dd": fresh[key] = False
            lists = {k: v for k, v in lists.items() if k[0] != "dd"}
        elif op == "find.meta" and len(t) == 2:
            if o == "ok": meta_on = t[1] == "1"
        elif op == "find.quals" and len(t) == 3:
            key = (t[1], t[2])
            if meta_on and key in nodes and nodes[key] is not None:
                fresh[key] = True
            yield {"op": op, "idx": idx, "line": line, "out": o, "nodes": nodes.get(key), "meta_on": meta_on}
        elif op == "find.desc" and len(t) == 5:
            key = (t[1], t[2])
            yield {"op": op, "idx": idx, "line": line, "out": o, "nodes": nodes.get(key), "t": t}
        elif op == "find.vals" and len(t) >= 4:
            key = (t[1], t[2])
            yield {"op": op, "idx": idx, "line": line, "out": o, "nodes": nodes.get(key), "t": t, "fresh": fresh.get(key, False)}

def is_int(s):
    """the protocol's number syntax: optional minus, digits, at most 11 characters"""
    b = s[1:] if s.startswith("-") else s
    return len(s) <= 11 and b.isdigit() and b.isascii()

def c_int(s):
    """the API takes C ints: the harness narrows what it reads"""
    return (int(s) + 2 ** 31) % 2 ** 32 - 2 ** 31

def check_quals(rec):
    nodes = rec["nodes"]
    f = rec["out"].split()
    if not f or not is_int(f[0]): return "find.quals: %s" % rec["out"]
    if not nodes:
        return None
    if int(f[0]) != len(nodes) or len(f) != 1 + len(nodes):
        return "find.quals returned %s for %d descriptors" % (f[0], len(nodes))
    if not rec["meta_on"]:
        return None
    qds = sorted({n["desc"] for n in nodes if is_qualifier(n["desc"])})
    for i, tok in enumerate(f[1:]):
        lst = [] if tok == "-" else [int(x) for x in tok.split(",")]
        for d in qds:
            got = next((k for k in lst if 0 <= k < len(nodes) and nodes[k]["desc"] == d), NOQ)
            want = in_effect(nodes, i, d)
            if got != want:
                return ("qualifier %06d for the descriptor at %d (%06d): the list gives %s, in effect is %s" %
                        (d, i, nodes[i]["desc"], "none" if got == NOQ else got, "none" if want == NOQ else want))
        for k in lst:
            if not (0 <= k < len(nodes)) or not is_qualifier(nodes[k]["desc"]):
                return "qualifier list of %d holds %d, which is not a qualifier" % (i, k)
    return None

def analyse(rec):
    """-> (verdict, cls): verdict None | text; cls a classification string or None (outside)"""
    nodes, o = rec["nodes"], rec["out"]
    if rec["op"] == "find.quals":
        return (check_quals(rec) if nodes is not None else None), "quals"
    if nodes is None:
        return None, None
    t = rec["t"]
    if rec["op"] == "find.desc":
        if not (is_int(t[3]) and is_int(t[4])): return None, None
        d, start = c_int(t[3]), c_int(t[4])
        if not is_int(o): return "find.desc answered %s" % o, "desc"
        r = int(o)
        want = next((p for p in range(max(start, 0), len(nodes)) if nodes[p]["desc"] == d), -1)
        if r != want:
            return "first descriptor %d from %d is at %d, find_descriptor returned %d" % (d, start, want, r), "desc"
        return None, "desc:" + ("hit" if r >= 0 else "none")
    # find.vals
    if not is_int(t[3]): return None, None
    start = c_int(t[3])
    keys = [parse_key(k) for k in t[4:]]
    if any(k is None for k in keys) or not in_scope(keys):
        return None, None
    # text against numbers is refused by the harness
    for k in keys:
        for v in k["vals"]:
            for n in nodes:
                if n["desc"] == k["desc"] and n["val"][0] != "none" and (n["val"][0] == "s") != (v[0] == "s"):
                    return (None if o == "unsupported" else "expected 'unsupported', got %s" % o), None
    ekeys = [k for k in keys if not k["q"]]
    qkeys = [k for k in keys if k["q"]]
    if qkeys and not rec["fresh"]:
        return None, None
    if not is_int(o):
        return "find.vals answered %s" % o, "vals"
    r = int(o)
    if not nodes:
        return (None if r == -1 else "search of an empty subset returned %d" % r), "vals:empty"
    if start >= len(nodes):
        return (None if r == -1 else "start %d is past the end (%d), result %d" % (start, len(nodes), r)), "vals:past-end"
    why = judge(nodes, ekeys, qkeys, start, r)
    exp = expected(nodes, ekeys, qkeys, start)
    shape = "k%d%s" % (len(ekeys), "+q%d" % len(qkeys) if qkeys else "")
    kinds = "".join(sorted({("any" if not k["vals"] else "rng" if len(k["vals"]) == 2 else "multi" if len(k["vals"]) > 2 else k["vals"][0][0])
                            for k in keys}))
    res = "band" if exp is None else "none" if exp < 0 else "at-start" if exp == max(start, 0) else "later"
    return why, "vals:%s:%s:%s%s" % (shape, kinds, res, ":neg" if start < 0 else "")

def oracle(scn, outs):
    for rec in walk(scn, outs):
        why, _ = analyse(rec)
        if why:
            return "%s  [line %d: %s => %s]" % (why, rec["idx"], rec["line"], rec["out"])
    return None

def signature(scn, outs):
    sigs = set()
    for rec in walk(scn, outs):
        _, cls = analyse(rec)
        if cls:
            sigs.add(cls + ("/dd" if " dd " in rec["line"] else ""))
    return sorted(sigs) or ["none"]

def classify(scn, outs):
    out = []
    for rec in walk(scn, outs):
        _, cls = analyse(rec)
        if cls is None:
            out.append("outside-oracle")
        else:
            f = cls.split(":")
            out.append(f[0] + (":" + f[-1] if len(f) > 1 else ""))
            if len(f) > 2 and "+q" in f[1]: out.append("with-qualifier-key")
            if len(f) > 2 and f[1].startswith(("k2", "k3", "k4")): out.append("sequence-key")
    return out

# ----------------------------------------------------------------------------- generation

NUM, CCITT, CODE, FLAG = regs.NUMERIC, regs.CCITT, regs.CODE, regs.FLAG

def pools(B):
    quals, elems, texts = [], [], []
    for d, (sc, ref, nb, typ) in sorted(B.items()):
        x = regs.X(d)
        if nb <= 0 or x in (0, 31, 33) or regs.F(d) != 0:
            continue
        if typ == CCITT:
            if nb <= 8 * 24:
                (quals if 1 <= x <= 9 else texts).append(d)
            continue
        if nb > 64: continue
        if typ in (CODE, FLAG) and (sc != 0 or ref != 0): continue      # odd local entries (0 49 039, 0 04 212): outside every unit's quantifier
        (quals if 1 <= x <= 9 else elems).append(d)
    return quals, elems, texts

_pool_cache = {}
def pools_of(name):
    if name not in _pool_cache:
        _pool_cache[name] = pools(P[name][0])
    return _pool_cache[name]

def pick_elems(rng, name, k):
    quals, elems, texts = pools_of(name)
    B = P[name][0]
    out = []
    while len(out) < k:
        r = rng.random()
        if r < 0.15 and texts: d = rng.choice(texts)
        elif r < 0.45:
            cand = [e for e in elems if B[e][0] != 0]
            d = rng.choice(cand or elems)
        elif r < 0.6:
            cand = [e for e in elems if B[e][3] in (CODE, FLAG)]
            d = rng.choice(cand or elems)
        else: d = rng.choice(elems)
        if d not in out: out.append(d)
    return out

def gen_template(rng, name):
    quals, elems, texts = pools_of(name)
    A, Bd, C = pick_elems(rng, name, 3)
    Q1 = rng.choice(quals); Q2 = rng.choice([q for q in quals if q != Q1])
    n = rng.choice([2, 3, 3, 4, 5]); m = rng.choice([2, 3])
    shape = rng.randrange(10)
    if shape == 0: t = [Q1, 101000 + n, A, Bd]
    elif shape == 1: t = [102000 + n, A, Bd, C]
    elif shape == 2: t = [Q1, 103000 + n, Q1, A, Bd, C, Q2, A]
    elif shape == 3: t = [Q1, A, 103000, 31001, Q1, A, Bd, A, Bd]
    elif shape == 4: t = [Q1, Q2, 101000, 31001, A, Q1, A, 102000, 31002, Q2, A, A, Bd]
    elif shape == 5: t = [A, A, A, Bd, A, A, Bd, A]
    elif shape == 6: t = [Q1, 102000 + m, 101000 + n, A, Bd, C]
    elif shape == 7: t = [Q1, A, 101000, 31001, Q1, A, 102000 + m, Q2, A]
    elif shape == 8: t = [Q1, 104000, 31001, Q2, A, Q1, A, Bd]
    else:
        D = P[name][1]
        t = templates.gen_template(rng, P[name][0], D, depth=rng.choice([0, 1, 2]), ops=False, n=rng.choice([1, 2, 3])) + [Q1, A, A, Bd]
    return t

def build_phase1(rng, name, t, factors):
    ls = ["T.use " + name, "find.meta 0", "tm.new 4 " + " ".join("%06d" % d for d in t), "ss.new"]
    for fs in factors:
        ls += ["ss.setfactors 0 " + fs, "ss.expand 0"]
    return ls

TEXTS = [b"A", b"AB", b"ABC", b"AB ", b"XY", b"ABCD", b"B"]

def value_lines(rng, nodes):
    """small per-descriptor alphabets, so that values repeat"""
    alpha = {}
    ls = []
    for i, n in enumerate(nodes):
        d, nb, typ, fl = n["desc"], n["nbits"], n["type"], n["flags"]
        if regs.F(d) != 0 or not n["hasval"] or fl & 1 or regs.X(d) == 31 or nb <= 0:
            continue
        if typ == 5:
            w = nb // 8
            if d not in alpha:
                alpha[d] = [x[:w] for x in rng.sample(TEXTS, 2)] + [None]
            s = rng.choice(alpha[d] + alpha[d][:2])
            if s is not None:
                ls.append("ss.setstr 0 %d %s" % (i, s.hex() or "-"))
            continue
        if typ not in (4, 6, 7) or nb > 64: continue
        if typ in (6, 7) and (n["scale"] != 0 or n["ref"] != 0): continue   # odd local code tables (0 49 043, 0 04 212): not this unit's
        allones = (1 << nb) - 1
        if d not in alpha:
            top = min(allones - 1, (1 << 62) - 1) if nb == 64 else allones - 1
            r0 = rng.randrange(0, max(top, 1)) if top > 0 else 0
            r1 = min(r0 + rng.choice([1, 1, 2, 10]), max(top, 0))
            alpha[d] = [r0, r1, allones]
        w = [5, 4, 2] if not is_qualifier(d) else [4, 3, 3]
        raw = rng.choices(alpha[d], weights=w)[0]
        ls.append("ss.setraw 0 %d %d" % (i, raw))
    return ls

def c10_nodes(line):
    if line in ("-", "none"): return []
    out = []
    for tok in line.split():
        f = tok.split("/")
        out.append({"desc": int(f[0]), "flags": int(f[1]), "type": int(f[2]), "nbits": int(f[3]), "scale": int(f[4]),
                    "ref": int(f[5]), "hasval": f[7] == "1"})
    return out

# --- key tokens from a node

def tok_d(x): return "d%016x" % bits_f64(x)
def tok_f(x): return "f%08x" % bits_f32(x)

def itok(v):
    """an `i` token, only for a non-missing value that fits an int"""
    return "i%d" % v if (-2 ** 31 <= v < 2 ** 31 and v != -1) else None

def to_f32(q):
    try:
        return struct.unpack(">f", struct.pack(">f", float(q)))[0]
    except (OverflowError, struct.error):
        return None

def value_tokens(rng, n, mode):
    """key value tokens for node n.  mode: hit, near, absent, missing"""
    v = n["val"]; s = n["scale"]
    P10 = Fraction(10) ** (-s)
    h = P10 / 2
    if mode == "missing" or v[0] == "none":
        return [rng.choice(["i-1", "f7f7fffff", "d7fefffffffffffff", "f7fc00000", "fff800000"])]
    if v[0] == "s":
        b = v[1].split(b"\0")[0]
        core = b.rstrip(b" ")
        if mode == "hit":
            c = rng.choice([core, core + b" ", b, core + b"  "])
        elif mode == "near":
            c = rng.choice([core[:-1] if core else b"Z", core + b"Z", core[:1], b"", core.lower() if core.lower() != core else core + b"."])
        else:
            c = b"QQ"
        return ["s" + (c.hex() or "-")]
    if node_missing(n):
        if mode == "hit":
            return [rng.choice(["i-1", "f7f7fffff", "d7fefffffffffffff", "f7f800000"])]
        return [rng.choice(["i0", "f00000000", "i-2", "fbf800000", "dbff0000000000000"])]
    if v[0] in ("i", "l"):
        x = Fraction(v[1])
    elif v[0] == "d":
        x = Fraction(f64_of(v[1]))
    else:
        x = Fraction(f32_of(v[1]))
    xf = float(x)
    intlike = v[0] in ("i", "l")
    if mode == "hit":
        c = []
        if intlike: c += ([itok(v[1])] * 2 if itok(v[1]) else []) + (["l%d" % v[1]] if abs(v[1]) < 10 ** 10 else [])
        c += [tok_d(xf)]
        if to_f32(x) is not None and abs(Fraction(to_f32(x)) - x) <= h: c.append(tok_f(to_f32(x)))
        r = round(x)
        if abs(Fraction(r) - x) <= h and itok(r): c.append(itok(r))
        c.append(tok_d(float(x + h * Fraction(2 ** 30 - 1, 2 ** 30))))
        c.append(tok_d(float(x - h * Fraction(2 ** 30 - 1, 2 ** 30))))
        return [rng.choice(c)]
    if mode == "near":
        c = [tok_d(float(x + h)), tok_d(float(x - h)),
             tok_d(float(x + h * Fraction(2 ** 30 + 1, 2 ** 30))), tok_d(float(x - h * Fraction(2 ** 30 + 1, 2 ** 30))),
             tok_d(float(x + h * Fraction(2 ** 30 - 1, 2 ** 30))), tok_d(float(x + P10))]
        for y in (x + h, x - h, x + h * Fraction(101, 100), x - h * Fraction(99, 100)):
            if to_f32(y) is not None: c.append(tok_f(to_f32(y)))
        if intlike:
            c += [itok(v[1] + 1) or "i7", itok(v[1] - 1) or itok(v[1] + 2) or "i7",
                  tok_f(to_f32(x + Fraction(9, 10)) or 0.0), tok_f(to_f32(x - Fraction(2, 5)) or 0.0)]
        return [rng.choice(c)]
    # absent
    far = x + P10 * rng.choice([3, 7, -5, 1000])
    return [rng.choice([tok_d(float(far)), itok(int(far)) or tok_d(float(far))])]

def range_tokens(rng, n):
    v = n["val"]; s = n["scale"]
    P10 = Fraction(10) ** (-s)
    if v[0] in ("none", "s") or node_missing(n):
        return ["i0", "i5"]
    x = Fraction(v[1]) if v[0] in ("i", "l") else Fraction(f64_of(v[1])) if v[0] == "d" else Fraction(f32_of(v[1]))
    def tk(q, kinds):
        k = rng.choice(kinds)
        if k == "i" and q.denominator == 1 and abs(q) < 2 ** 31 and q != -1: return "i%d" % int(q)
        if k == "f" and to_f32(q) is not None: return tok_f(to_f32(q))
        return tok_d(float(q))
    kinds = rng.choice([["d"], ["f"], ["i", "d"], ["d", "f", "i"]])
    c = rng.randrange(9)
    if c == 0: lo, hi = x, x
    elif c == 1: lo, hi = x - P10, x
    elif c == 2: lo, hi = x, x + P10
    elif c == 3: lo, hi = x + P10 / 1000, x + P10          # just above
    elif c == 4: lo, hi = x - P10, x - P10 / 1000          # just below
    elif c == 5: lo, hi = x + P10, x - P10                 # lo > hi
    elif c == 6: lo, hi = x - 3 * P10, x + 3 * P10
    elif c == 7: lo, hi = Fraction(-5), max(x, Fraction(5))
    else: lo, hi = x - P10 * Fraction(1, 2), x + P10 * Fraction(1, 2)
    return [tk(lo, kinds), tk(hi, kinds)]

def key_for(rng, n, mode):
    d = n["desc"]
    if mode == "any" or (n["val"][0] == "none" and mode != "absent"):
        return "%d" % d
    if mode == "range":
        return "%d=%s" % (d, ",".join(range_tokens(rng, n)))
    if mode == "multi":
        ts = value_tokens(rng, n, "absent") + value_tokens(rng, n, rng.choice(["hit", "near"])) + value_tokens(rng, n, "absent")
        if n["val"][0] == "s": ts = [t for t in ts if t.startswith("s")]
        rng.shuffle(ts)
        return "%d=%s" % (d, ",".join(ts if len(ts) != 2 else ts + ts[:1]))
    return "%d=%s" % (d, value_tokens(rng, n, mode)[0])

def starts_for(rng, count, small, focus):
    if small:
        return list(range(-2, count + 2))
    c = {0, -1, count - 1, count, count + 3}
    for p in focus:
        c |= {p, p + 1, max(p - 1, 0)}
    for _ in range(4):
        c.add(rng.randrange(count))
    return sorted(c)

def queries(rng, which, nodes, tier):
    """find.* lines for one listed subset"""
    ls = []
    count = len(nodes)
    if count == 0:
        return ["find.desc %s 0 12001 0" % which, "find.vals %s 0 0 12001" % which, "find.vals %s 0 0" % which]
    small = count <= 40
    descs = sorted({n["desc"] for n in nodes})
    # descriptor search
    for d in rng.sample(descs, min(len(descs), 3)) + [rng.choice([12001, 31001, 999999])]:
        for s in starts_for(rng, count, small and count <= 25, []):
            ls.append("find.desc %s 0 %d %d" % (which, d, s))
    valued = [i for i, n in enumerate(nodes) if n["val"][0] != "none"]
    nsets = (10 if tier == "quick" else 16)
    keysets = []
    # 1. sequences cut from the subset
    for _ in range(nsets):
        L = rng.choice([1, 1, 2, 2, 3, 4])
        p = rng.randrange(0, max(count - L + 1, 1))
        L = min(L, count - p)
        modes = [rng.choice(["any", "hit", "hit", "hit", "near", "multi", "range", "absent", "missing"]) for _ in range(L)]
        if rng.random() < 0.6:
            modes = [m if m in ("any", "hit", "multi", "range") else "hit" for m in modes]
        keysets.append(([key_for(rng, nodes[p + j], modes[j]) for j in range(L)], [p]))
    # 2. self-overlapping runs: A A … then what follows, with and without values
    runs = [i for i in range(count - 1) if nodes[i]["desc"] == nodes[i + 1]["desc"]]
    for _ in range(3):
        if not runs: break
        i = rng.choice(runs)
        L = rng.choice([2, 3, 3, 4])
        if i + L > count: L = count - i
        seq = [nodes[i + j] for j in range(L)]
        # shift by one: the key built from positions i+1.. often first matches partially at i
        keysets.append((["%d" % n["desc"] for n in seq], [i]))
        keysets.append(([key_for(rng, n, rng.choice(["hit", "any"])) for n in seq], [i]))
        if i + L < count:
            seq2 = [nodes[i + 1 + j] for j in range(L)]
            keysets.append(([key_for(rng, n, rng.choice(["hit", "any"])) for n in seq2], [i, i + 1]))
    # 2b. callback keys (bufr_set_key_callback) in first, second or later place, on runs of one descriptor and
    #     elsewhere: a partial match abandoned because the callback says no, with the true match beginning inside it
    strdescs = {n["desc"] for n in nodes if n["val"][0] == "s"}
    def cbkey(n, want):
        if n["desc"] in strdescs:
            return "%d" % n["desc"]      # the harness types its callback values as numbers: no callback keys on character elements
        if want == "hit" and n["val"][0] == "i":
            return "c%d=i2,i%d" % (n["desc"], n["val"][1])
        if want == "miss" and n["val"][0] == "i":
            return "c%d=i2,i%d" % (n["desc"], (n["val"][1] + 1) % 2 ** 20)
        return "c%d=i%d,i0" % (n["desc"], 0 if want in ("hit", "always") else 1)
    for _ in range(4):
        if runs:
            i = rng.choice(runs)
            L = min(rng.choice([2, 2, 3]), count - i)
            seq = [nodes[i + j] for j in range(L)]
            # A, cb(A = value of a later member of the run): fails on the first pairs, true match starts inside
            last = nodes[min(i + L, count - 1)] if nodes[min(i + L, count - 1)]["desc"] == seq[0]["desc"] else seq[-1]
            keysets.append((["%d" % seq[0]["desc"]] + [cbkey(last, "hit")], [i, i + 1]))
            keysets.append((["%d" % n["desc"] for n in seq[:-1]] + [cbkey(seq[-1], rng.choice(["hit", "miss", "never", "always"]))], [i]))
            keysets.append(([cbkey(seq[0], rng.choice(["hit", "always"]))] + ["%d" % n["desc"] for n in seq[1:]], [i]))
        p = rng.randrange(0, max(count - 2, 1))
        L = min(rng.choice([1, 2, 3]), count - p)
        ks = [key_for(rng, nodes[p + j], rng.choice(["any", "hit"])) for j in range(L)]
        j = rng.randrange(L)
        ks[j] = cbkey(nodes[p + j], rng.choice(["hit", "hit", "miss", "never", "always"]))
        keysets.append((ks, [p]))
    # 3. periodic patterns: A B A B … keys A B A
    for _ in range(2):
        if count < 4: break
        i = rng.randrange(count - 2)
        seq = [nodes[i], nodes[i + 1], nodes[i]]
        keysets.append((["%d" % n["desc"] for n in seq], [i]))
    # 4. qualifier keys
    quals = [i for i, n in enumerate(nodes) if is_qualifier(n["desc"]) and n["val"][0] != "none"]
    qds = sorted({nodes[i]["desc"] for i in quals})
    for _ in range(nsets if qds else 0):
        i = rng.choice(valued) if valued and rng.random() < 0.8 else rng.randrange(count)
        d = rng.choice(qds)
        k = in_effect(nodes, i, d)
        src = nodes[k] if k != NOQ else nodes[rng.choice(quals)]
        m = rng.choice(["novalue", "hit", "hit", "near", "absent", "missing"])
        qk = "q%d" % d if m == "novalue" else "q%d=%s" % (d, value_tokens(rng, src, m)[0])
        ks = [qk, key_for(rng, nodes[i], rng.choice(["any", "hit"]))]
        if rng.random() < 0.3 and i + 1 < count:
            ks.append(key_for(rng, nodes[i + 1], rng.choice(["any", "hit"])))
        if rng.random() < 0.2 and len(qds) > 1:
            d2 = rng.choice(qds)
            ks.insert(rng.randrange(len(ks) + 1), "q%d" % d2)
        if rng.random() < 0.1:
            ks = ["q%d" % rng.choice([1001, 8002, 12001, 4005])] + ks
        keysets.append((ks, [i]))
    if qds and rng.random() < 0.5:
        keysets.append((["q%d" % rng.choice(qds)], [0]))
    for ks, focus in keysets:
        for s in starts_for(rng, count, small, focus):
            ls.append("find.vals %s 0 %d %s" % (which, s, " ".join(ks)))
    ls.append("find.vals %s 0 %d" % (which, rng.randrange(-1, count + 1)))
    return ls

MALFORMED = [
    "find.vals ss 0", "find.vals ss 0 x 12001", "find.vals ss 0 0 12001=", "find.vals ss 0 0 12001=i", "find.vals ss 0 0 12001=i5,",
    "find.vals ss 0 0 =i5", "find.vals ss 0 0 q", "find.vals ss 0 0 12001=f123", "find.vals ss 0 0 12001=d0123456789abcdeg",
    "find.vals ss 0 0 12001=s4", "find.vals ss 0 0 12001=x5", "find.vals ss 0 0 -12001", "find.vals ss 0 0 12345678",
    "find.vals ss 0 0 524288", "find.vals ss 0 0 655360=i1", "find.vals ss 0 0 q301023", "find.vals ss 0 0 q12001=i1,i2",
    "find.vals ss 0 0 131073=i1", "find.vals ss 0 0 201129", "find.vals ss 0 0 241000 12001", "find.vals ss 0 0 301023", "find.vals ss 0 0 301023=i1",
    "find.vals ss 0 0 301023=i1,i2", "find.vals ss 0 0 393217", "find.vals xx 0 0 12001", "find.vals ss 7 0 12001", "find.vals ss -1 0 12001",
    "find.vals dd 0 0 12001", "find.vals ss 0 99999999999 12001", "find.vals ss 0 -99999999999 12001", "find.vals ss 0 4294967296 12001",
    "find.vals ss 0 0 12001=i4294967295", "find.vals ss 0 0 12001=i99999999999", "find.vals ss 0 0 12001=l99999999999",
    "find.desc ss 0 12001", "find.desc ss 0 x 0", "find.desc ss 0 -1 0", "find.desc ss 0 4294979297 0", "find.desc ss 9 12001 0",
    "find.desc dd 0 12001 0", "find.quals ss", "find.quals ss x", "find.quals zz 0", "find.quals ss 5", "find.meta 2", "find.meta",
    "find.vals ss 0 0 12001=i1 unsupported=1", "find.vals ss 0 0 524288 12001=", "find.vals ss 0 0 12001= 524288",
]

def scenarios(rng, tier, runner):
    n = 150 if tier == "quick" else 1600
    plans = []
    for i in range(n):
        name = rng.choice(["cur", "cur", "loc", "syn", "syn"])
        t = gen_template(rng, name)
        factors = [rng.choice(["0", "1", "2", "3", "2 0", "0 2", "1 3", "4 1", "3 0 2"]) for _ in range(rng.choice([1, 1, 2]))]
        plans.append({"name": name, "t": t, "p1": build_phase1(rng, name, t, factors)})
    # phase 1: the expanded structure, as the implementation builds it
    r1 = run_all(runner, [Scenario("p1", p["p1"] + ["ss.list 0"]) for p in plans], "impl")
    for p, (o, crash) in zip(plans, r1):
        nodes = c10_nodes(o[-1]) if (not crash and o) else []
        p["vlines"] = value_lines(rng, nodes)
        p["decode"] = rng.random() < 0.45
        p["p2"] = p["p1"] + p["vlines"] + (["ds.encode 0", "ds.decodelast 1 0 0"] if p["decode"] else []) + ["ss.list 0", "ss.vals 0"] + \
                  (["dd.list 0", "dd.vals 0"] if p["decode"] else [])
    # phase 2: the values, as the implementation stores them
    r2 = run_all(runner, [Scenario("p2", p["p2"]) for p in plans], "impl")
    out = []
    for i, (p, (o, crash)) in enumerate(zip(plans, r2)):
        if crash or len(o) != len(p["p2"]):
            out.append(Scenario("find-%d" % i, p["p2"], {"template": p["t"]}))
            continue
        k = len(p["p2"]) - (4 if p["decode"] else 2)
        ss_nodes = parse_nodes(o[k], o[k + 1]) or []
        ls = list(p["p2"]) + ["find.vals ss 0 0 q%d %d" % (ss_nodes[0]["desc"] if ss_nodes else 1001, ss_nodes[-1]["desc"] if ss_nodes else 1001),
                              "find.meta 1", "find.quals ss 0"]
        ls += queries(rng, "ss", ss_nodes, tier)
        if p["decode"]:
            dd_nodes = parse_nodes(o[k + 2], o[k + 3]) or []
            ls += ["find.quals dd 0"] + queries(rng, "dd", dd_nodes, tier)
        # change a value, run the tracking again, search again
        if ss_nodes and rng.random() < 0.5:
            qs = [j for j, nd in enumerate(ss_nodes) if is_qualifier(nd["desc"]) and nd["val"][0] in ("i", "l", "d") and not nd["flags"] & 4]
            if qs:
                j = rng.choice(qs)
                nd = ss_nodes[j]
                raw = (1 << nd["nbits"]) - 1 if (not node_missing(nd) and rng.random() < 0.7) else rng.randrange(0, max((1 << min(nd["nbits"], 30)) - 1, 1))
                ls += ["ss.setraw 0 %d %d" % (j, raw), "ss.list 0", "ss.vals 0"]
                if rng.random() < 0.15:
                    ls += ["find.meta 0", "find.quals ss 0", "find.meta 1"]
                ls += ["find.quals ss 0"]
                # the new values are not known here: descriptor-only and valueless qualifier keys
                tracked = [nd2 for nd2 in ss_nodes[j + 1:] if not nd2["flags"] & 9][:6]
                for nd2 in tracked:
                    ls.append("find.vals ss 0 %d q%d %d" % (rng.choice([0, j]), nd["desc"], nd2["desc"]))
        out.append(Scenario("find-%d" % i, ls, {"template": p["t"]}))
    # malformed / unsupported requests on a small fixed subset
    base = ["T.use cur", "find.meta 0", "tm.new 4 008002 012001 012001 001015", "ss.new", "ss.setraw 0 0 5", "ss.setraw 0 1 2731", "ss.list 0", "ss.vals 0",
            "find.meta 1", "find.quals ss 0"]
    out.append(Scenario("malformed", base + MALFORMED))
    out.append(Scenario("no-subset", ["T.use cur", "find.quals ss 0", "find.desc ss 0 12001 0", "find.vals ss 0 0 12001", "find.vals ss 0 0",
                                      "tm.new 4 012001", "find.vals ss 0 0 12001", "ss.new", "find.vals ss 0 0 12001", "find.vals ss 0 1", "find.vals ss 0 0"]))
    return out

def neighbourhood(scn, rng, tier):
    """after a model/implementation disagreement on a find line: the same subset, every start"""
    build = [l for l in scn.lines if not l.startswith(("find.desc", "find.vals"))]
    qs = [l for l in scn.lines if l.startswith("find.vals")]
    for q in qs[-3:]:
        t = q.split()
        yield Scenario("nb", build + [" ".join(t[:3] + [str(s)] + t[4:]) for s in range(-1, 45)])
