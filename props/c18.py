"""C18 — templates survive save, load and copy.

Streams (exact tie on every line):
  full   template with default values of the type its descriptors call for -> descvals/gabvals/save ->
         reload (save + load) -> copy -> compare -> the three templates expanded and encoded
  text   the same without encoding: extreme values, many values per descriptor, long lines, editions 2-5
  odd    default values of a type the descriptor does not call for, strings the text form cannot carry
  mal    template texts: valid ones, and mutations (unknown descriptors, bad replication, garbage, CRLF, ...)

The oracle reads the implementation's outputs only.  It has its own reader of the template text format
(`read_text`), its own idea of the value type a descriptor calls for (`natural_type`), and uses gen/regs.py
(regulation 94.5) to decide which descriptor lists must be refused."""
import os, struct, math
from vlib.engine import Scenario
from vlib import tables
from gen import regs, templates

ID = "C18"
THEOREMS = ["Bufr.C18.C18_text", "Bufr.C18.C18_same_expansion", "Bufr.C18.C18_copy", "Bufr.C18.C18_copy_created", "Bufr.C18.C18_copy_loaded",
            "Bufr.C18.C18_refuses", "Bufr.C18.C18_compare_sound", "Bufr.C18.C18_real_roundtrip", "Bufr.C18.C18_text_fails_newline"]
RULE = ("templates from gen/templates.py (operators, fixed/delayed replication to depth 3, Table D) x editions 2-5 x "
        "default values on elements, class 31 factors and 2 05 YYY: integers (negative, missing, extremes of int32/int64), "
        "reals (many digits, subnormal, huge, powers of ten, 15- and 17-digit cases), strings (blanks, quotes, #, commas, "
        "high bytes, all-ones), 1..600 values per descriptor; texts mutated with unknown descriptors, bad spans, missing "
        "factors, garbage, lines of 2048+ bytes, CRLF, NUL, no final newline, hex floats, inf/nan; distinct = distinct "
        "(stream, edition, value kinds, shape, outcome)")
ASSUMPTIONS = [
    "the text form carries no value types: `Savable` asks that a default value has the type (and, for strings, the length) "
    "bufr_load_template gives the values of that descriptor, as the library's own example does",
    "string defaults of the element's width holding a newline, or a double quote directly followed by a comma, tab or newline, are "
    "demanded by the oracle like any other but kept out of the generated streams while finding C18-string-newline is open "
    "(the text form has no escaping; Lean: `Savable` excludes them, C18_text_fails_newline)",
    "default values on class 31 replication factors stay small (0..3): a large preset factor means a large expansion, which is "
    "not this property's subject; elements defining new reference values (between 2 03 YYY and 2 03 255) get no default in the encoding stream",
    "table-file keys (MASTER_TABLEB=...) in a template text are not modelled; the streams only name files that do not exist",
    "-0.0 is identified with 0 in the model (the canonical lines are compared with the sign of zero removed)",
    "printf %.15g/%.17g and strtod/strtof are exactly rounded (glibc, C locale): contracts checked on every real in the streams",
]
TRUSTED_EXTRA = ["glibc printf(%.15g, %.17g), strtod, strtof, atoi, atol in the C locale as modelled in BufrModel/TemplateText.lean"]
CRASH_IS_VIOLATION = True
P = {}

def prepare(runner, work):
    sets = {"cur": tables.shipped("cur") + ("-", "-"),
            "loc": tables.shipped("cur") + (os.path.join(tables.REPO, "Test/local_table_b"), os.path.join(tables.REPO, "Test/local_table_d")),
            "v13": tables.shipped("v13") + ("-", "-")}
    from gen import synth_tables
    pb, pd = synth_tables.write_tables(os.path.join(work, "syn"))
    sets["syn"] = tables.shipped("cur") + (pb, pd)
    P.clear()
    P.update(tables.setup_tables(runner, sets))

# ----------------------------------------------------------------------------- value types (independent reading)

def value_nbits(v):
    i = 1
    while i < 64 and not ((1 << i) - 1 > v):
        i += 1
    return i

def natural_type(B, d):
    """('i'|'l'|'d'|'s'|None, strlen): the value type bufr_load_template gives descriptor d (bufr_encoding_to_valtype)"""
    f, x, y = regs.F(d), regs.X(d), regs.Y(d)
    if f == 2 and x == 5:
        return ("s", y)
    if f != 0 or d not in B:
        return (None, 0)
    sc, ref, nb, typ = B[d]
    if typ == regs.CCITT:
        return ("s", nb // 8)
    if typ == regs.NUMERIC:
        if sc == 0 and ref >= 0:
            rb = value_nbits(ref) if ref != 0 else 0
            if nb + rb <= 31: return ("i", 0)
            if nb + rb <= 64: return ("l", 0)
        return ("d", 0)
    if typ in (regs.CODE, regs.FLAG):
        return ("i", 0) if nb <= 31 else ("l", 0)
    return (None, 0)

DBL_MISSING = "7fefffffffffffff"

def dbits(x):
    return "%016x" % struct.unpack(">Q", struct.pack(">d", x))[0]
def dval(h):
    return struct.unpack(">d", bytes.fromhex(h))[0]
def fval(h):
    return struct.unpack(">f", bytes.fromhex(h))[0]

REALS = [0.0, 273.15, 0.1, 0.2, 1.0 / 3.0, 1e-5, 9.99999e-6, 1e22, 1e23, 5e-324, 2.2250738585072014e-308, 2.225073858507201e-308,
         1.0000000000000002, 123456789012345.6, 1e15, 1e16, 1e17, 0.0001, 0.00001234, -273.15, -0.5, -1e-300, 9007199254740993.0,
         0.30000000000000004, 1.7976931348623155e308, 4.35, 8.41e21, 2.0 ** -1022, 2.0 ** 1023, 999999999999999.9, 99999999999999.98,
         1e-4, 9.999999999999999e-5, 123456.0, 1234567.0, 100.0, 1e21, 5e-5, 0.5, 1e100, 1.5e-10, 6.02214076e23, -1.0, 2.5, 1e-7]

def gen_real(rng):
    r = rng.random()
    if r < 0.45:
        return rng.choice(REALS)
    if r < 0.55:
        return None                      # missing
    if r < 0.80:
        while True:
            b = rng.getrandbits(64)
            if (b >> 52) & 0x7ff != 0x7ff and b != 0x8000000000000000 and b != 0x7fefffffffffffff:
                return dval("%016x" % b)
    if r < 0.90:
        return round(rng.uniform(-1000, 1000), rng.choice([0, 1, 2, 3, 6])) + 0.0     # (+ 0.0: no negative zero, see ASSUMPTIONS)
    return float(rng.randrange(-10 ** 6, 10 ** 6)) * 10.0 ** rng.randrange(-30, 30) + 0.0

def gen_string(rng, n, savable=True):
    if n == 0:
        return b""
    r = rng.random()
    if r < 0.08:
        return b"\xff" * n               # the missing string
    alphabet = b"ABCDEFGHIJKLMNOPQRSTUVWXYZabcxyz0123456789      \"\"##,,==''.-_/\t;:!*\\\xe9\xff\x01\x7f"
    if r < 0.25:
        alphabet = b"ABCDEFGHIJ 0123456789"
    k = n if rng.random() < 0.5 else rng.randrange(0, n + 1)
    s = bytes(rng.choice(alphabet) for _ in range(k)) + b" " * (n - k)
    if savable:
        s = bytearray(s)
        for i in range(len(s) - 1):
            if s[i] == 34 and s[i + 1] in (9, 10, 44):
                s[i] = 39
        s = bytes(s)
        if s and all(c == 0xff for c in s.rstrip(b" ")) and s != b"\xff" * n:
            s = b"A" + s[1:]            # bufr_value_set_string pads an all-0xFF prefix with 0xFF: keep strings in normal form
    return s

def string_normal(s, n):
    """what bufr_value_set_string(str, n) stores: truncated, padded with blanks (with 0xFF when every byte is 0xFF)"""
    s = s.split(b"\0")[0][:n]
    pad = b"\xff" if all(c == 0xff for c in s) else b" "
    return s + pad * (n - len(s))

def vtok(kind, v):
    if kind == "i": return "i:%d" % v
    if kind == "l": return "l:%d" % v
    if kind == "d": return "d:" + (DBL_MISSING if v is None else dbits(v))
    if kind == "f": return "f:%08x" % struct.unpack(">I", struct.pack(">f", v))[0]
    if kind == "s": return "s:" + (v.hex() if v else "-")
    raise ValueError(kind)

def in_range_value(rng, B, d):
    """a natural default value an encoder can represent (for the full stream)"""
    kind, n = natural_type(B, d)
    if kind is None:
        return None
    if kind == "s":
        return vtok("s", gen_string(rng, n))
    sc, ref, nb, typ = B[d] if d in B else (0, 0, 0, 0)
    if nb <= 0 or nb > 62:
        return None
    raw = rng.choice([0, 1, (1 << nb) - 2, rng.randrange(0, (1 << nb) - 1)]) if nb > 1 else 0
    if rng.random() < 0.12:
        return vtok(kind, -1 if kind in "il" else None)
    if kind in "il":
        v = raw + (ref if typ == regs.NUMERIC else 0)
        if v == -1: v = 0
        return vtok(kind, v)
    return vtok("d", (raw + ref) / 10.0 ** sc if sc >= 0 else float((raw + ref) * 10 ** (-sc)))

def extreme_value(rng, B, d):
    kind, n = natural_type(B, d)
    if kind is None:
        return None
    if kind == "s":
        return vtok("s", gen_string(rng, n))
    if kind == "i":
        return vtok("i", rng.choice([0, 1, 5, 13, -1, -2, -75, 2 ** 31 - 1, -2 ** 31, rng.randrange(-2 ** 31, 2 ** 31), 1000000, -1]))
    if kind == "l":
        return vtok("l", rng.choice([0, -1, 7, 2 ** 40, -2 ** 40, 2 ** 63 - 1, -2 ** 63, rng.randrange(-2 ** 63, 2 ** 63), 2 ** 31, -2 ** 31 - 1]))
    return vtok("d", gen_real(rng))

def odd_value(rng, B, d):
    """a value of a type the descriptor does not call for, or a string the text cannot carry"""
    kind, n = natural_type(B, d)
    r = rng.random()
    if kind == "s" and r < 0.5:
        k = rng.choice([0, 1, max(0, n - 1), n + 3, n + 1])
        s = gen_string(rng, k, savable=True)
        if rng.random() < 0.3 and k > 2:
            # what the text form cannot carry (known finding C18-string-newline), here on strings of another length than the element's
            s = s[:1] + rng.choice([b"\",", b"\"\t", b"\n"]) + s[3:] if len(s) >= 3 else s
        if len(s) == n:
            s += b"x"
        return vtok("s", s)
    other = [k for k in "ildfs" if k != kind]
    k = rng.choice(other)
    if k == "i": return vtok("i", rng.choice([0, 5, -1, -7, 123456, 2 ** 31 - 1]))
    if k == "l": return vtok("l", rng.choice([0, 5, -1, 2 ** 40, -2 ** 62]))
    if k == "d": return vtok("d", gen_real(rng))
    if k == "f": return vtok("f", rng.choice([0.0, 0.1, 273.15, 1e-30, 3.0e38, -2.5, 16777217.0, 1.17549435e-38, 1e-45]))
    return vtok("s", gen_string(rng, rng.choice([1, 3, 8]), savable=True))

# ----------------------------------------------------------------------------- scenarios

FACTOR_SETS = ["2 1 0 3", "0", "1", "3 0 2", "1 2"]

def with_defaults(rng, B, t, picker, p_elem=0.45, p_factor=0.5, multi=False, no203=False):
    """items `desc[=v;v]` for template t"""
    items = []
    in203 = False
    for d in t:
        f, x = regs.F(d), regs.X(d)
        vals = []
        if d // 1000 == 203:
            in203 = d % 1000 not in (0, 255)
        if in203 and no203:
            pass      # the element carries a new reference value here: what it may hold is C09's subject, not this one's
        elif f == 0 and x == 31 and d in regs.FACTORS:
            if rng.random() < p_factor:
                kind, _ = natural_type(B, d)
                vals = [vtok(kind or "i", rng.choice([0, 1, 1, 2, 3]))]
        elif (f == 0 or (f == 2 and x == 5)) and rng.random() < p_elem:
            v = picker(rng, B, d)
            if v is not None:
                vals = [v]
                if multi and rng.random() < 0.35:
                    n = rng.choice([2, 2, 3, 4, 7])
                    vals += [x for x in (picker(rng, B, d) for _ in range(n - 1)) if x is not None]
        items.append("%06d" % d + ("=" + ";".join(vals) if vals else ""))
    return items

def encode_ops(rng, fill):
    ls = ["ss.new"]
    for _ in range(rng.choice([0, 1, 2])):
        ls += ["ss.setfactors 0 " + rng.choice(FACTOR_SETS), "ss.expand 0"]
    if fill is not None:
        ls.append("ss.fill 0 %d %d" % fill)
    ls += ["ss.list 0", "ss.vals 0", "ds.invalid", "ds.encode 0"]
    return ls

def scn_template(rng, i, kind):
    name = rng.choice(["cur", "loc", "syn", "syn", "v13"])
    B, D = P[name]
    ed = rng.choice([2, 3, 4, 4]) if kind == "full" else rng.choice([2, 3, 4, 5])
    t = templates.gen_template(rng, B, D, depth=rng.choice([0, 1, 2, 2, 3]), ops=(kind != "full" or rng.random() < 0.5),
                               n=rng.choice([1, 2, 3, 4, 6]))
    if kind == "full":
        items = with_defaults(rng, B, t, in_range_value, no203=True)
    elif kind == "text":
        items = with_defaults(rng, B, t, extreme_value, p_elem=0.7, multi=True)
        if rng.random() < 0.08:
            # a line of several thousand bytes: one descriptor with hundreds of values
            els = [k for k, d in enumerate(t) if natural_type(B, d)[0] in ("i", "l", "d") and d not in regs.FACTORS]
            if els:
                k = rng.choice(els)
                vals = [extreme_value(rng, B, t[k]) for _ in range(rng.choice([150, 300, 600]))]
                items[k] = "%06d=" % t[k] + ";".join(vals)
    else:
        items = with_defaults(rng, B, t, odd_value, p_elem=0.6, multi=True)
        if rng.random() < 0.4:
            # values on descriptors that take none: replications, operators, sequences
            for k, d in enumerate(t):
                if regs.F(d) in (1, 2, 3) and "=" not in items[k] and rng.random() < 0.4:
                    items[k] += "=" + rng.choice(["i:5", "d:3ff0000000000000", "s:4142", "i:-1;i:2"])
    ls = ["T.use " + name, "tm.newv 0 %d %s" % (ed, " ".join(items)),
          "tm.descvals 0", "tm.gabvals 0", "tm.save 0",
          "tm.reload 1 0", "tm.descvals 1", "tm.gabvals 1", "tm.compare 1 0", "tm.save 1",
          "tm.copy 2 0", "tm.descvals 2", "tm.gabvals 2", "tm.compare 2 0", "tm.compare 0 0"]
    # another template to compare with: same list without values and with another edition, a sequence replaced by its members
    # (same expansion), or a different list
    v = rng.choice(["plain", "members", "append", "swap", "drop"])
    t2 = list(t)
    if v == "members":
        k = [i for i, d in enumerate(t2) if regs.F(d) == 3 and d in D]
        if k:
            i = rng.choice(k); t2[i:i + 1] = D[t2[i]]
    elif v == "append":
        t2.append(templates.pick_element(rng, B))
    elif v == "swap" and len(t2) > 1:
        i = rng.randrange(len(t2) - 1); t2[i], t2[i + 1] = t2[i + 1], t2[i]
    elif v == "drop" and len(t2) > 1:
        t2.pop()
    ls += ["tm.newv 3 %d %s" % (rng.choice([2, 3, 4]), " ".join("%06d" % d for d in t2)), "tm.gabvals 3", "tm.compare 3 0", "tm.compare 0 3"]
    if kind == "full":
        fill = (rng.randrange(1, 2 ** 31), rng.choice([0, 1, 1, 2, 3, 4])) if rng.random() < 0.4 else None
        st = rng.getstate()
        for k in range(3):
            rng.setstate(st)          # the same operations on the original, the reloaded and the copied template
            ls += ["tm.use %d" % k] + encode_ops(rng, fill)
    else:
        for k in range(3):
            ls += ["tm.use %d" % k, "ss.new", "ss.list 0", "ss.vals 0"]
    return Scenario("%s-%d" % (kind, i), ls, {"tables": name, "kind": kind, "ed": ed, "template": t, "items": items})

def render_text(rng, ed, items, style):
    """an independent writer of the template text format (several accepted spellings)"""
    out = []
    if style.get("comment", True):
        out.append(b"# This file contains %d Codes of section 3 or Template" % len(items))
    if ed is not None:
        out.append(rng.choice([b"BUFR_EDITION=%d", b"BUFR_EDITION %d", b"BUFR_EDITION = %d", b"BUFR_EDITION=%d  # edition"]) % ed)
    out.append(b"#")
    for d, vals in items:
        l = (b"%06d" if style.get("pad6") else b"%d") % d
        if style.get("lead"): l = b"  " + l
        if vals:
            l += rng.choice([b",VALUE=", b" VALUE=", b"\tVALUE\t", b",VALUE,", b"=VALUE="]) + b",".join(vals)
        elif style.get("names") and rng.random() < 0.5:
            l += b"  SOME ELEMENT NAME, WITH WORDS"
        out.append(l)
        if style.get("blank") and rng.random() < 0.3:
            out.append(b"")
    out.append(b"#")
    nl = b"\r\n" if style.get("crlf") else b"\n"
    return nl.join(out) + (b"" if style.get("nofinalnl") else nl)

REAL_TEXTS = [b"273.15", b"0.1", b"-0.5", b"1e22", b"1E-5", b"+5", b".5", b"5.", b"1e400", b"-1e400", b"1e-400", b"4.9e-324", b"2.4703282292062327e-324",
              b"2.4703282292062328e-324", b"1.7976931348623158e308", b"1.797693134862315807e308", b"1.7976931348623157e308", b"0x1.8p1", b"0X.8", b"0x", b"0x1p-1074",
              b"0x1p-1075", b"0x1.fffffffffffff8p1023", b"inf", b"-Infinity", b"nan", b"NAN(abc)", b"MSNG", b" MSNG", b"msng", b"", b"abc", b"1e", b"1e+", b"1.e5", b"..5",
              b"9007199254740993", b"9007199254740992.5000000000000000000000000001", b"0.000000000000000000000000000001e30", b"1" + b"0" * 400, b"1" + b"0" * 300 + b"e-300",
              b"0." + b"0" * 400 + b"1", b"1e99999999999999999999", b"1e-99999999999999999999", b" 12", b"12 ", b"1,5", b"1\t5", b"--5", b"5e3e2", b"1_000"]
INT_TEXTS = [b"0", b"5", b"-5", b"+7", b"007", b"2147483647", b"2147483648", b"-2147483648", b"-2147483649", b"4294967301", b"9223372036854775807", b"9223372036854775808",
             b"-9223372036854775809", b"99999999999999999999", b"-99999999999999999999", b"MSNG", b" MSNG", b"MSNGX", b"", b"abc", b"12abc", b" 12", b"\v12", b"1.9", b"0x10", b"1e3", b"- 5", b"\"5\""]
STR_TEXTS = [b"\"ABC\"", b"\"AB,C\"", b"\"A\"B\"", b"\"\"", b"\"", b"\"abc", b"abc\"", b"abc", b"\"a\",\"b\"", b"\"a\"x\",y", b"MSNG", b"\"MSNG\"", b"\"   \"", b"\"a=b\"", b"a=b", b"=a",
             b"\"tab\there\"", b"\"q\"\tz\"", b"\"\xff\xff\xff\"", b"\xff\xff", b"\"long " + b"x" * 300 + b"\"", b"\"cr\"\r", b"\"#\"", b"# not a comment", b"\"a\"\"", b"\"\"\""]

def has_negzero(text, B):
    """does some value token of a real element read as negative zero?"""
    import re
    for d, toks in read_text(text)[1]:
        if natural_type(B, d)[0] == "d" or True:
            for t in toks:
                m = re.match(rb"[ \t\n\v\f\r]*-(0[xX])?[0.]*([eEpP][+-]?\d+)?", t)
                if m and m.end() > 0 and b"0" in m.group(0):
                    rest = t[m.end():]
                    if not rest[:1].isdigit() and not (m.group(1) and rest[:1] in b"abcdefABCDEF123456789"):
                        return True
                try:
                    x = float(t.split(b"\0")[0])
                    if x == 0 and math.copysign(1, x) < 0:
                        return True
                except ValueError:
                    pass
    return False

def scn_malformed(rng, i, tier):
    name = rng.choice(["cur", "loc", "syn", "v13"])
    B, D = P[name]
    t = templates.gen_template(rng, B, D, depth=rng.choice([0, 1, 2, 3]), ops=True, n=rng.choice([1, 2, 3, 4]))
    mut = rng.choice(["valid", "valid", "illformed", "illformed", "garbage", "longline", "nul", "negative", "edition", "keys", "values", "values", "empty"])
    if mut == "illformed":
        t = templates.mutate_illformed(rng, t, B, D)
    style = {k: rng.random() < p for k, p in (("pad6", 0.5), ("lead", 0.15), ("names", 0.3), ("blank", 0.3), ("crlf", 0.15), ("nofinalnl", 0.2), ("comment", 0.8))}
    items = []
    for d in t:
        vals = []
        kind, n = natural_type(B, d)
        if rng.random() < (0.6 if mut == "values" else 0.25):
            pool = {"i": INT_TEXTS, "l": INT_TEXTS, "d": REAL_TEXTS, "s": STR_TEXTS}.get(kind, INT_TEXTS + STR_TEXTS)
            if mut != "values":
                pool = pool[:8]
            if d in regs.FACTORS:
                pool = [b"0", b"1", b"2", b"3", b"MSNG", b"007", b" 2", b"+1", b"-3", b"abc"]   # a large default factor means a large expansion
            vals = [rng.choice(pool) for _ in range(rng.choice([1, 1, 2, 3]))]
        items.append((d, vals))
    ed = rng.choice([2, 3, 4, 5, None])
    text = render_text(rng, ed, items, style)
    text0 = text
    lines = text.split(b"\n")
    if mut == "garbage":
        g = rng.choice([b"hello world", b"?", b"12x", b"-", b",,,", b"= =", b"VALUE=5", b"1 2 3", b"  # indented comment", b"*star", b" *star", b"\xff\xfe",
                        b"BUFR_EDITIONX=3", b"bufr_edition=3", b"1001,VALUES=5", b"001001,VALUE", b"001001,VALUE=", b"001001,VALUE=,,,"])
        lines.insert(rng.randrange(len(lines)), g)
    elif mut == "longline":
        k = rng.choice([2040, 2046, 2047, 2048, 2049, 4100, 9000])
        g = rng.choice([b"#" + b"c" * k, b"001001 " + b"n" * k, b"001001,VALUE=" + b",".join([b"%d" % (j % 100) for j in range(k // 3)]),
                        b"0" * k + b"1001", b"001015,VALUE=\"" + b"s" * k + b"\"", b" " * k + b"001001", b"1" * k])
        lines.insert(rng.randrange(len(lines)), g)
    elif mut == "nul":
        k = rng.randrange(len(text) + 1)
        text = text[:k] + b"\0" + text[k:]
        lines = None
    elif mut == "negative":
        lines.insert(rng.randrange(len(lines)), rng.choice([b"-5", b"-1001", b"-100000", b"206008\n-5", b"-0", b"206008\n-99999", b"-2147483648", b"4294968297", b"4294967295"]))
    elif mut == "edition":
        lines.insert(rng.randrange(len(lines)), rng.choice([b"BUFR_EDITION=-3", b"BUFR_EDITION=99999999999", b"BUFR_EDITION", b"BUFR_EDITION=", b"BUFR_EDITION=x",
                                                             b"BUFR_EDITION=3\nBUFR_EDITION=2", b"BUFR_EDITION=2147483648", b"BUFR_EDITION4", b"BUFR_EDITION\t 7 8"]))
    elif mut == "keys":
        # table files that do not exist.  LOCAL_* keys then change nothing; a MASTER_TABLEB key drops the master tables, which
        # the next descriptor line installs again; a MASTER_TABLED key after the first descriptor line would leave the template
        # without Table D (not modelled: see ASSUMPTIONS)
        dl = [k for k, l in enumerate(lines) if l.strip()[:1].isdigit()]
        first, last = (dl[0], dl[-1]) if dl else (0, 0)
        key = rng.choice([b"LOCAL_TABLEB=/nonexistent/tb", b"LOCAL_TABLED /nonexistent/td", b"LOCAL_TABLEB", b"LOCAL_TABLEB=",
                          b"LOCAL_TABLEDX=/nonexistent/q", b"MASTER_TABLEB=/nonexistent/mb", b"MASTER_TABLED=/nonexistent/md", b"MASTER_TABLEB=/nonexistent/mb"])
        if key.startswith(b"MASTER_TABLED"):
            lines.insert(rng.randrange(first + 1), key)
        elif key.startswith(b"MASTER_TABLEB"):
            lines.insert(rng.randrange(last + 1), key)
        else:
            lines.insert(rng.randrange(len(lines)), key)
    elif mut == "empty":
        lines = rng.choice([[b""], [b"#", b""], [b"", b"", b""], [b"BUFR_EDITION=3", b""], [b"#no newline"]])
    if lines is not None:
        text = b"\n".join(lines)
    if has_negzero(text, B):
        text = text0          # -0.0 is not distinguished from 0 by the model (see ASSUMPTIONS)
    ls = ["T.use " + name, "tm.loadtext 1 " + (text.hex() if text else "-"), "tm.descvals 1", "tm.gabvals 1", "tm.save 1",
          "tm.reload 2 1", "tm.descvals 2", "tm.compare 2 1", "tm.use 1", "ss.new", "ss.list 0", "ss.vals 0"]
    return Scenario("mal-%s-%d" % (mut, i), ls, {"tables": name, "kind": "mal", "mut": mut, "text": text})

def scenarios(rng, tier, runner):
    out = []
    quick = tier == "quick"
    for kind, n in (("full", 2000 if quick else 45000), ("text", 2000 if quick else 45000), ("odd", 700 if quick else 15000)):
        for i in range(n):
            out.append(scn_template(rng, i, kind))
    for i in range(3000 if quick else 70000):
        out.append(scn_malformed(rng, i, tier))
    return out

# ----------------------------------------------------------------------------- independent reader of the text format

SP = b" \t\n\v\f\r"

def c_atoi(tok, bits=32):
    """atoi/atol of glibc: white space, sign, digits; strtol saturates at 64 bits, the cast to int wraps"""
    i = 0
    while i < len(tok) and tok[i] in SP: i += 1
    neg = False
    if i < len(tok) and tok[i] in b"+-":
        neg = tok[i] == 45; i += 1
    v = 0
    while i < len(tok) and 48 <= tok[i] <= 57:
        v = v * 10 + tok[i] - 48; i += 1
    v = -v if neg else v
    v = max(-2 ** 63, min(2 ** 63 - 1, v))
    if bits == 32:
        v = (v + 2 ** 31) % 2 ** 32 - 2 ** 31
    return v

def split_tokens(s, delims):
    out, cur = [], bytearray()
    for c in s:
        if c in delims:
            if cur: out.append(bytes(cur)); cur = bytearray()
        else:
            cur.append(c)
    if cur: out.append(bytes(cur))
    return out

def split_values(s):
    """the values of a line after the word VALUE: separated by tab, newline, comma (and `=` before the first one); a value
    that begins with a quote runs to the first quote followed by a separator or the end"""
    vals, i, first = [], 0, True
    while True:
        delims = b"\t\n,=" if first else b"\t\n,"
        while i < len(s) and s[i] in delims: i += 1
        if i >= len(s): return vals
        j = i
        if s[i] == 34:
            k = i + 1
            while True:
                k = s.find(b'"', k)
                if k < 0: break
                if k + 1 == len(s) or s[k + 1] in b"\t\n,":
                    j = k + 1; break
                k += 1
        while j < len(s) and s[j] not in delims: j += 1
        vals.append(s[i:j])
        i = j + 1
        first = False

def read_text(text):
    """-> (edition, [(descriptor, [value tokens])]) as the format is documented: `#`/`*` comments, KEY lines, one descriptor per line"""
    ed, items = 4, []
    pos = 0
    lines = []
    while pos < len(text):
        k = text.find(b"\n", pos)
        k = len(text) if k < 0 else k + 1
        lines.append(text[pos:k]); pos = k
    for line in lines:
        line = line.split(b"\0")[0]
        if line[:1] in (b"#", b"*"): continue
        if any(line.startswith(k) for k in (b"LOCAL_TABLEB", b"MASTER_TABLEB", b"LOCAL_TABLED", b"MASTER_TABLED")): continue
        if line.startswith(b"BUFR_EDITION"):
            toks = split_tokens(line[12:], b" =\t\n")
            if toks: ed = c_atoi(toks[0])
            continue
        # first token: the descriptor; second: optionally the word VALUE
        i = 0
        D1 = b" \t\n,="
        while i < len(line) and line[i] in D1: i += 1
        if i >= len(line): continue
        j = i
        while j < len(line) and line[j] not in D1: j += 1
        d = c_atoi(line[i:j])
        k = j
        while k < len(line) and line[k] in D1: k += 1
        m = k
        while m < len(line) and line[m] not in D1: m += 1
        vals = split_values(line[m:]) if line[k:m] == b"VALUE" else []
        items.append((d, vals))
    return ed, items

def value_of_token(kind, n, tok):
    """the canonical value a token denotes for a descriptor of natural type kind (None: not checked)"""
    if kind == "s":
        if len(tok) > 1 and tok[:1] == b'"' and tok[-1:] == b'"':
            tok = tok[1:-1]
        return "s:" + (string_normal(tok, n).hex() or "-")
    if kind in ("i", "l"):
        if tok == b"MSNG": return kind + ":-1"
        return "%s:%d" % (kind, c_atoi(tok, 32 if kind == "i" else 64))
    if kind == "d":
        if tok == b"MSNG": return "d:" + DBL_MISSING
        return None      # reals are checked where Python's float() reads the same grammar (see real_of_text)
    return "-"

def real_of_text(tok):
    """strtod for the plain decimal spellings Python's float() shares with C; None otherwise"""
    t = tok.lstrip(SP)
    import re
    m = re.match(rb"[+-]?(\d+\.?\d*([eE][+-]?\d+)?|\.\d+([eE][+-]?\d+)?)", t)
    if not m or m.group(0) != t:
        return None
    try:
        x = float(t)
    except ValueError:
        return None
    if math.isinf(x) or math.isnan(x) or x == 1.7976931348623157e308:
        return "d:" + DBL_MISSING
    return "d:" + dbits(x + 0.0 if x != 0 else 0.0)

# ----------------------------------------------------------------------------- canonical lines

def canon(line, out, side):
    """-0.0 and 0.0 are one value in the model"""
    if "8000000000000000" in out or "f:80000000" in out:
        out = out.replace("d:8000000000000000", "d:0000000000000000").replace("f:80000000", "f:00000000")
    return out

def parse_descvals(o):
    """'ed d[=v;v] ...' -> (ed, [(d, [v])])"""
    f = o.split(" ")
    items = []
    for it in f[1:]:
        if "=" in it:
            d, vs = it.split("=", 1)
            items.append((int(d), vs.split(";")))
        else:
            items.append((int(it), []))
    return int(f[0]), items

def item_list(items):
    out = []
    for it in items:
        if "=" in it:
            d, vs = it.split("=", 1)
            out.append((int(d), vs.split(";")))
        else:
            out.append((int(it), []))
    return out

def val_savable(B, d, v):
    """has the value the type and form the text format can carry for this descriptor?"""
    kind, n = natural_type(B, d)
    if kind is None or v[0] != kind:
        return False
    if kind == "s":
        s = bytes.fromhex(v[2:]) if v[2:] != "-" else b""
        # (a newline, or a quote followed by a separator, inside the string is what the text form cannot carry: the property
        #  is demanded all the same, the generated streams avoid such strings while finding C18-string-newline is open)
        return len(s) == n and string_normal(s, n) == s
    if kind == "d":
        b = int(v[2:], 16)
        return (b >> 52) & 0x7ff != 0x7ff
    return True

def nz(v):
    return canon("", v, "impl")

# ----------------------------------------------------------------------------- oracle

def oracle(scn, outs):
    kind = scn.meta.get("kind")
    o = dict()
    for l, x in zip(scn.lines, outs):
        o.setdefault(l, x)
    name = scn.meta.get("tables")
    if name is None:
        for l in scn.lines:
            if l.startswith("T.use"): name = l.split()[1]
    if name not in P:
        return None
    B, D = P[name]
    if any(l.startswith("tm.loadtext") for l in scn.lines):
        return oracle_text(scn, outs, B, D)
    new = next((l for l in scn.lines if l.startswith("tm.newv 0 ")), None)
    if new is None or not o.get(new, "").startswith("ok"):
        return None
    f = new.split()
    ed, items = int(f[2]), item_list(f[3:])
    # what was created is what was asked for
    dv0 = o.get("tm.descvals 0")
    if dv0 is None:
        return None
    e0, it0 = parse_descvals(dv0)
    if e0 != ed or [d for d, _ in it0] != [d for d, _ in items]:
        return "template created with edition/descriptors %s, asked for %d %s" % (dv0[:80], ed, items[:4])
    savable = all(val_savable(B, d, v) for d, vs in it0 for v in vs) and -2 ** 31 <= ed < 2 ** 31
    # ---- copy
    if "tm.copy 2 0" in o:
        if not o["tm.copy 2 0"].startswith("ok"):
            return "copy of a valid template failed: %s" % o["tm.copy 2 0"]
        if o.get("tm.compare 2 0") != "0":
            return "the copy does not compare equal to the original (%s)" % o.get("tm.compare 2 0")
        if o.get("tm.descvals 2") != dv0:
            return "the copy has another edition, descriptor list or default values: %s vs %s" % (o.get("tm.descvals 2", "")[:200], dv0[:200])
        if o.get("tm.gabvals 2") != o.get("tm.gabvals 0"):
            return "the copy expands to other descriptors/values than the original"
    if o.get("tm.compare 0 0") not in (None, "0"):
        return "a template does not compare equal to itself"
    # compare against another template: 0 exactly when the expanded descriptor lists are the same
    g0, g3, c30, c03 = o.get("tm.gabvals 0"), o.get("tm.gabvals 3"), o.get("tm.compare 3 0"), o.get("tm.compare 0 3")
    if g0 not in (None, "none") and g3 not in (None, "none") and c30 in ("0", "-1"):
        same = [x.split("/")[0] for x in g0.split()] == [x.split("/")[0] for x in g3.split()] if g0 != "-" and g3 != "-" else g0 == g3
        if (c30 == "0") != same:
            return "compare returned %s for templates whose expanded descriptor lists are %s" % (c30, "the same" if same else "different")
        if c03 != c30:
            return "compare is not symmetric: %s / %s" % (c30, c03)
    # ---- text
    text = o.get("tm.save 0")
    if text in (None, "none", "fail"):
        return "saving a valid template failed: %s" % text
    raw = bytes.fromhex(text) if text != "-" else b""
    if savable:
        try:
            e1, it1 = read_text(raw)
        except Exception as e:   # pragma: no cover
            return "the saved text cannot be read: %r" % (e,)
        if e1 != ed:
            return "saved text says edition %s, template has %d" % (e1, ed)
        if [d for d, _ in it1] != [d for d, _ in it0]:
            return "saved text lists descriptors %s, template has %s" % ([d for d, _ in it1][:8], [d for d, _ in it0][:8])
        for (d, toks), (_, vs) in zip(it1, it0):
            k, n = natural_type(B, d)
            if len(toks) != len(vs):
                return "descriptor %06d: %d values saved as %d tokens %s" % (d, len(vs), len(toks), toks[:3])
            for tok, v in zip(toks, vs):
                w = value_of_token(k, n, tok)
                if w is None:
                    w = real_of_text(tok)
                    if w is None:
                        return "descriptor %06d: real written as %r, not a plain decimal" % (d, tok)
                if nz(w) != nz(v):
                    return "descriptor %06d: value %s saved as %r, which reads as %s" % (d, v, tok, w)
    rl = o.get("tm.reload 1 0")
    if rl is None:
        return None
    if savable:
        if not rl.startswith("ok"):
            return "the saved text of a valid template is refused on load (%s)" % rl
        if o.get("tm.compare 1 0") != "0":
            return "the reloaded template does not compare equal to the original (%s)" % o.get("tm.compare 1 0")
        if nz(o.get("tm.descvals 1", "")) != nz(dv0):
            return "reloaded template differs in edition, descriptors or default values: %s vs %s" % (o.get("tm.descvals 1", "")[:300], dv0[:300])
        if nz(o.get("tm.gabvals 1", "")) != nz(o.get("tm.gabvals 0", "")):
            return "reloaded template expands differently from the original"
        if o.get("tm.save 1") != text:
            return "saving the reloaded template gives another text"
    # (a template with default values the text cannot carry: nothing is promised about the reloaded one)
    # ---- expansion and encoding of the three templates
    blocks = []
    cur = None
    for l, x in zip(scn.lines, outs):
        if l.startswith("tm.use "):
            cur = [l]; blocks.append((int(l.split()[1]), cur, []))
        elif cur is not None:
            blocks[-1][2].append((l, x))
    base = next((b for b in blocks if b[0] == 0), None)
    if base:
        for k, _, res in blocks:
            if k == 0 or (k == 1 and not savable):
                continue
            if len(res) != len(base[2]):
                continue
            for (l, x), (l0, x0) in zip(res, base[2]):
                if l == l0 and nz(x) != nz(x0):
                    return "%s of the %s template differs from the original: %s vs %s" % (
                        l, "reloaded" if k == 1 else "copied", x[:200], x0[:200])
    return None

def repl_wf(B, D, ds, depth=0, in_delayed=False):
    """the part of well-formedness C18 names: every descriptor known (an unknown element directly after 2 06 YYY is
    described by it), replication spans closed inside their enclosing span, delayed replication followed by a class 31
    factor.  Sequences under a delayed replication are only required to exist (they are expanded when the factor is known)."""
    if depth > 50:
        return False
    i = 0
    while i < len(ds):
        d = ds[i]
        if d < 0 or regs.F(d) > 3 or regs.Y(d) > 255:
            return False
        f = regs.F(d)
        if f == 0:
            if d not in B and not (i > 0 and ds[i - 1] // 1000 == 206):
                return False
            i += 1
        elif f == 3:
            if d not in D:
                return False
            if not in_delayed and not repl_wf(B, D, D[d], depth + 1, in_delayed):
                return False
            i += 1
        elif f == 2:
            i += 1
        else:
            x, y = regs.X(d), regs.Y(d)
            off = 1
            if y == 0:
                if i + 1 >= len(ds) or ds[i + 1] not in regs.FACTORS:
                    return False
                off = 2
            body = ds[i + off:i + off + x]
            if len(body) < x or not repl_wf(B, D, body, depth, in_delayed or y == 0):
                return False
            i += off + x
    return True

def oracle_text(scn, outs, B, D):
    o = dict()
    for l, x in zip(scn.lines, outs):
        o.setdefault(l, x)
    ld = next((l for l in scn.lines if l.startswith("tm.loadtext 1 ")), None)
    if ld is None:
        return None
    h = ld.split()[2]
    text = bytes.fromhex(h) if h != "-" else b""
    res = o.get(ld, "")
    ed, items = read_text(text)
    descs = [d for d, _ in items]
    bad = any(d < 0 for d in descs)
    wf = (not bad) and regs.well_formed(B, D, descs)
    if res.startswith("ok"):
        if not repl_wf(B, D, descs):
            return "a text naming an unknown descriptor or ill-formed replication was accepted: %s" % descs[:12]
        dv = o.get("tm.descvals 1")
        if dv:
            e1, it1 = parse_descvals(dv)
            if e1 != ed:
                return "text says edition %d, loaded template has %d" % (ed, e1)
            if [d for d, _ in it1] != descs:
                return "text lists %s, loaded template has %s" % (descs[:10], [d for d, _ in it1][:10])
            for (d, toks), (_, vs) in zip(items, it1):
                k, n = natural_type(B, d)
                if len(toks) != len(vs):
                    return "descriptor %06d: %d value tokens %s loaded as %d values" % (d, len(toks), toks[:3], len(vs))
                for tok, v in zip(toks, vs):
                    w = value_of_token(k, n, tok)
                    if w is None:
                        w = real_of_text(tok)
                    if w is not None and nz(w) != nz(v):
                        return "descriptor %06d: token %r loaded as %s, denotes %s" % (d, tok[:40], v, w)
            # a loaded template is itself savable whenever no value slot is empty: it survives another round
            if all(v != "-" for _, vs in it1 for v in vs) and all(val_savable(B, d, v) for d, vs in it1 for v in vs):
                r2 = o.get("tm.reload 2 1")
                if r2 is not None:
                    if not r2.startswith("ok"):
                        return "a loaded template, saved, is refused on load (%s)" % r2
                    if nz(o.get("tm.descvals 2", "")) != nz(dv):
                        return "a loaded template does not survive save and load: %s vs %s" % (o.get("tm.descvals 2", "")[:200], dv[:200])
                    if o.get("tm.compare 2 1") != "0":
                        return "a loaded template, saved and loaded, does not compare equal"
    elif res == "fail":
        if wf:
            return "a well-formed template text was refused: %s" % descs[:12]
    return None

def signature(scn, outs):
    kind = scn.meta.get("kind", "?")
    first = next((x for l, x in zip(scn.lines, outs) if l.startswith("tm.newv") or l.startswith("tm.loadtext")), "?").split()[0]
    sig = set()
    dv = next((x for l, x in zip(scn.lines, outs) if l.startswith("tm.descvals")), "")
    kinds = set()
    for it in dv.split(" ")[1:]:
        if "=" in it:
            vs = it.split("=", 1)[1].split(";")
            kinds.add((vs[0][:1], min(len(vs), 5)))
    t = scn.meta.get("template") or []
    shape = (any(regs.F(d) == 1 and regs.Y(d) == 0 for d in t), any(regs.F(d) == 1 and regs.Y(d) > 0 for d in t),
             any(regs.F(d) == 2 for d in t), any(regs.F(d) == 3 for d in t))
    for k in kinds or {("-", 0)}:
        sig.add((kind, scn.meta.get("mut"), first, scn.meta.get("ed"), k, shape))
    return sig

def classify(scn, outs):
    c = [scn.meta.get("kind", "corpus")]
    if scn.meta.get("mut"): c.append("mut=" + scn.meta["mut"])
    if scn.meta.get("ed"): c.append("ed%d" % scn.meta["ed"])
    first = next((x for l, x in zip(scn.lines, outs) if l.startswith("tm.newv") or l.startswith("tm.loadtext")), "?").split()[0]
    c.append("first=" + first)
    rl = next((x for l, x in zip(scn.lines, outs) if l.startswith("tm.reload")), None)
    if rl: c.append("reload=" + rl.split()[0])
    return c
