"""C15 — results do not depend on diagnostic settings or on what was processed before; diagnostic
text of any length is produced without memory errors."""
import itertools, os, re, struct
from concurrent.futures import ThreadPoolExecutor
from vlib.engine import Scenario, run_all
from vlib.engine import compare as cmp0
from vlib import tables, build
from gen import regs, datasets, templates
from props.c10 import parse_nodes
from props import c01, c07, c13

ID = "C15"
THEOREMS = [
    "Bufr.C15.C15_switches",
    "Bufr.C15.C15_switch_setters",
    "Bufr.C15.C15_sites_covered",
    "Bufr.C15.C15_ieee_switch",
    "Bufr.C15.C15_trimzero_switch",
    "Bufr.C15.C15_history",
    "Bufr.C15.C15_history_function",
    "Bufr.C15.C15_statics",
    "Bufr.C15.C15_state_covered",
    "Bufr.C15.C15_sprintf_bound",
    "Bufr.C15.C15_sprintf_site",
    "Bufr.C15.C15_sprintf_partial",
    "Bufr.C15.C15_sprintf_fails",
]
EXTRA_TARGETS = ["Generated.SwitchSites", "Generated.StaticState", "Generated.SprintfSites"]
RULE = ("workloads of the C01/C02/C07/C13 space (round trip, compressed, decode-encode-decode, dump and load) plus "
        "character fields of 255 octets (2 05 255, 2 08 255) and 3000 octets (local table), doubles from 4.9e-324 to 1.7e308 set "
        "past the range check, elements wider than 32 bits, 30-80 subsets: each run under all 16 settings of "
        "(debug, verbose, run-time meta data, zero trimming) [+ the native IEEE path in the thorough tier], set in random order, "
        "in one process; batches of 3-5 workloads run each alone in a fresh process, then together in random order with "
        "repetitions, with and without a reset in between, interleaved with lookups, other templates, encodings and "
        "decodings on the same tables; long file names, environment values, tokens and messages through every text-producing "
        "entry point; random formats through the library's snprintf against the model; distinct = distinct (family, "
        "element kinds, width class, outcome)")
ASSUMPTIONS = c01.ASSUMPTIONS + [
    "the format strings are the msgids (no message catalogue is installed: NLS off in the harness; the shipped translations "
    "po/*.po with the same directives are checked statically as alternative formats)",
    "run-time meta data and zero trimming change the text of a dump by design (C13 proves it loads back to the same values for "
    "both trimming settings): dump texts are compared between settings that agree on those two switches, what is loaded from "
    "them between all",
    "the public printers without a size parameter (bufr_print_value, …, bufr_print_rtmd_*) are called by applications with "
    "buffers large enough for the value (documented by the library as a known bug): recorded finding C15-printers-without-size",
    "index-checked writes (outstr[pos] = c) are outside the sprintf-family inventory of the static table",
]
TRUSTED_EXTRA = [
    "clang 14 JSON AST as the reading of the C sources for translate/{switch,state,sprintf}_sites.py; the syntactic "
    "harmlessness check and the annotation files translate/*_annotations.json (one-line justifications, read not proved)",
    "glibc snprintf as modelled in BufrModel/Sprintf.lean (tied by the sp.fmt stream)",
]
CRASH_IS_VIOLATION = True
P = c01.P
X = {}          # extra material prepared per run: paths

def regenerate():
    """the three inventories are read again from the sources on every check"""
    from translate import switch_sites, state_sites, sprintf_sites
    switch_sites.main()
    state_sites.main()
    sprintf_sites.main()

# ----------------------------------------------------------------------------- tables

WIDE_CC = 63250        # local CCITT IA5 element of 3000 octets

def prepare(runner, work):
    from gen import synth_tables
    sets = {"cur": tables.shipped("cur") + ("-", "-"),
            "loc": tables.shipped("cur") + (os.path.join(tables.REPO, "Test/local_table_b"), os.path.join(tables.REPO, "Test/local_table_d")),
            "v13": tables.shipped("v13") + ("-", "-")}
    pb, pd = synth_tables.write_tables(os.path.join(work, "syn"))
    sets["syn"] = tables.shipped("cur") + (pb, pd)
    wb = os.path.join(work, "c15_local_b")
    with open(wb, "w") as f:
        f.write("* local Table B of props/c15.py: one very wide character element\n")
        f.write(synth_tables.bline(WIDE_CC, "VERY LONG TEXT", 5, 0, 0, 24000) + "\n")
    sets["wide"] = tables.shipped("cur") + (wb, "-")
    P.clear()
    P.update(tables.setup_tables(runner, sets))
    X.clear()
    X["runner"] = runner
    X["work"] = work
    X["tableb"] = tables.shipped("cur")[0]
    X["tabled"] = tables.shipped("cur")[1]

# ----------------------------------------------------------------------------- workloads

def _decode_tail(nsub, vals_only=False):
    ls = []
    for k in range(nsub):
        ls += ["dd.vals %d" % k] if vals_only else ["dd.list %d" % k, "dd.vals %d" % k]
    return ls

def wl_roundtrip(rng):
    name = rng.choice(["cur", "loc", "syn", "syn", "v13"])
    B, D = P[name]
    ls, meta = datasets.build_lines(rng, name, B, D)
    ls += ["ds.invalid", "ds.encode 0", "ds.decodelast 1 0 0"] + _decode_tail(meta["nsub"])
    return ls, "roundtrip"

def wl_compressed(rng):
    name = rng.choice(["cur", "loc", "syn", "syn", "v13"])
    B, D = P[name]
    ls, meta = datasets.build_lines(rng, name, B, D, nsub=rng.choice([2, 2, 3, 4, 6]), same_structure=rng.random() < 0.8,
                                    modes=rng.choice([None, [2], [4], [0], [1], [2, 4], [3, 0], [1, 1, 4]]))
    ls += ["ds.invalid", "ds.encode 1", "ds.decodelast 1 0 0"] + _decode_tail(meta["nsub"])
    ls += ["ds.encode 0", "ds.decodelast 1 0 0"] + _decode_tail(meta["nsub"], True)
    return ls, "compressed"

def wl_reencode(rng):
    name = rng.choice(["cur", "loc", "syn"])
    B, D = P[name]
    comp = rng.choice([0, 1, 1])
    nsub = rng.choice([1, 2, 3])
    ls, meta = datasets.build_lines(rng, name, B, D, nsub=nsub, same_structure=(comp == 1 and rng.random() < 0.85))
    ls += ["ds.invalid", "ds.encode %d" % comp] + c07._tail(nsub, comp)
    return ls, "reencode"

def wl_dump(rng):
    """build, dump, load the text back (the loader talks a lot in debug mode); `ds.dump s T` carries the trimming
    setting itself: T is filled in per configuration"""
    name = rng.choice(["cur", "loc", "syn", "syn"])
    B, D = P[name]
    ls, meta = datasets.build_lines(rng, name, B, D)
    ls += ["ds.invalid", "ds.hdr s " + c13.rand_hdr(rng, meta["ed"]), "ds.hstr s none", "ds.msg s 0", "ds.dump s T",
           "ds.loadtext s 0 @", "ld.nsub 0", "ld.msg 0"]
    for k in range(meta["nsub"]):
        ls += ["ld.vals 0 %d" % k]
    return ls, "dump"

LONGS = [b"A" * 255, b"x" * 254 + b" ", b"\"" * 255, b"%s%n%d" * 40, b"long text ", b"", b"\xe9" * 200, b" " * 255, b"}{)(" * 60]

def wl_strings(rng):
    """character fields of 255 octets through 2 08 255 and 2 05 255, and 3000 octets from a local table"""
    fam = rng.choice(["208", "208", "205", "wide", "mix"])
    cc = rng.choice([1015, 1019, 1011, 1063])
    if fam == "208":
        t, name, idx = [208255, cc, 208000, 12101], "cur", [1]
    elif fam == "205":
        t, name, idx = [205255, 12101, 205000 + rng.choice([1, 64])], "cur", [0, 2]
    elif fam == "wide":
        t, name, idx = [WIDE_CC, 12101], "wide", [0]
    else:
        t, name, idx = [208255, cc, cc, 208000, 205255, WIDE_CC], "wide", [1, 2, 4, 5]
    nsub = rng.choice([1, 2, 3])
    comp = rng.choice([0, 1])
    ls = ["T.use " + name, "tm.new 4 " + " ".join("%06d" % d for d in t)]
    same = rng.random() < 0.4
    for k in range(nsub):
        ls += ["ss.new", "ss.fill %d %d %d" % (k, 11 if same else rng.randrange(1, 10 ** 6), rng.choice([1, 1, 0, 4]))]
        for i in idx:
            r = rng.random()
            if r < 0.6:
                w = rng.choice(LONGS)
                if fam in ("wide", "mix") and i == idx[-1] and rng.random() < 0.7:
                    w = bytes(rng.choice([65, 66, 32, 34, 37, 115]) for _ in range(rng.choice([300, 2040, 2047, 2048, 2100, 2999, 3000])))
                ls.append("ss.setstr %d %d %s" % (k, i, w.hex() or "-"))
    for k in range(nsub):
        ls += ["ss.list %d" % k, "ss.vals %d" % k]
    ls += ["ds.invalid", "ds.encode %d" % comp, "ds.decodelast 1 0 0"] + _decode_tail(nsub)
    return ls, "strings-" + fam

def dbits(x):
    return "%016x" % struct.unpack(">Q", struct.pack(">d", x))[0]

HUGE = [1e308, -1e308, 1.7976931348623157e308, 8.98e307, 1e300, -1e250, 1e240, 1e200, 1e100, 1e40, 4.9e-324, 2.2250738585072014e-308,
        -1e-320, 1e-300, 0.0, 123456789.123, -0.000001, 1e19, 2.0 ** 63, 2.0 ** 64]
HUGE_BITS = [dbits(x) for x in HUGE] + ["7ff0000000000000", "fff0000000000000", "7ff8000000000000", "7fefffffffffffff"]

def wl_doubles(rng):
    """scaled numerics holding doubles set past the range check of the descriptor setters, wide (> 32 bit) elements"""
    pool = [12101, 5001, 6001, 10004, 7004, 11002, 13003]
    t = []
    for _ in range(rng.choice([1, 2, 3])):
        r = rng.random()
        e = rng.choice(pool)
        if r < 0.35:
            t += [201000 + rng.choice([140, 148, 150]), e, 201000]
        elif r < 0.5:
            t += [202000 + rng.choice([130, 126]), e, 202000]
        else:
            t.append(e)
    nsub = rng.choice([1, 2, 2, 3])
    comp = rng.choice([0, 1, 1])
    ls = ["T.use cur", "tm.new 4 " + " ".join("%06d" % d for d in t)]
    elems = [i for i, d in enumerate(t) if regs.F(d) == 0]
    for k in range(nsub):
        ls += ["ss.new", "ss.fill %d %d %d" % (k, rng.randrange(1, 10 ** 6), rng.choice([1, 1, 4, 0]))]
        for i in elems:
            if rng.random() < 0.6:
                ls.append("ss.setd %d %d %s" % (k, i, rng.choice(HUGE_BITS)))
    for k in range(nsub):
        ls += ["ss.list %d" % k, "ss.vals %d" % k]
    ls += ["ds.invalid", "ds.encode %d" % comp, "ds.decodelast 1 0 0"] + _decode_tail(nsub)
    return ls, "doubles"

def wl_many(rng):
    """many subsets: a lot of diagnostic text"""
    name = rng.choice(["cur", "syn"])
    B, D = P[name]
    while True:
        t = templates.gen_template(rng, B, D, depth=rng.choice([0, 1]), ops=rng.random() < 0.5, n=rng.choice([1, 2, 3]))
        if not any(d // 1000 == 203 for d in t):
            break           # new reference values need the settle-and-refill protocol of gen/datasets.py
    nsub = rng.choice([30, 40, 60, 80])
    comp = rng.choice([0, 1])
    ls = ["T.use " + name, "tm.new 4 " + " ".join("%06d" % d for d in t)]
    for k in range(nsub):
        ls += ["ss.new", "ss.setfactors %d 1 2" % k, "ss.expand %d" % k, "ss.fill %d %d %d" % (k, rng.randrange(1, 10 ** 6), rng.choice([0, 1, 1]))]
    ls += ["ss.vals 0", "ss.vals %d" % (nsub - 1), "ds.invalid", "ds.encode %d" % comp, "ds.decodelast 1 0 0",
           "dd.vals 0", "dd.vals %d" % (nsub // 2), "dd.vals %d" % (nsub - 1)]
    return ls, "many"

def wl_first64(rng):
    """the first element the process ever handles is 64 bits wide (statics filled on first use must not care)"""
    el = rng.choice([4001, 4002, 4003, 4004, 4005])      # numeric elements: 2 01 does not widen code and flag tables
    B, D = P["cur"]
    add = 64 - B[el][2]
    t = [201000 + 128 + add, el, 201000] + ([rng.choice([12101, 10004])] if rng.random() < 0.5 else [])
    nsub = rng.choice([1, 2])
    ls = ["T.use cur", "tm.new 4 " + " ".join("%06d" % d for d in t)]
    for k in range(nsub):
        ls += ["ss.new", "ss.setraw %d 1 %d" % (k, rng.choice([0, 0, 1, 5, 2 ** 40]))]
    for k in range(nsub):
        ls += ["ss.list %d" % k, "ss.vals %d" % k]
    ls += ["ds.invalid", "ds.encode 0", "ds.decodelast 1 0 0"] + _decode_tail(nsub)
    return ls, "first64"

def wl_samples(rng):
    """the repository's own sample messages (Test/BUFR): data present bit-maps, 2 06/2 07, local tables … — decoded by the
    implementation only (several use operators outside the model): the tie is not made, the settings are compared"""
    files = sample_files()
    if not files:
        return wl_roundtrip(rng)
    return sample_workload(rng, rng.choice(files))

def sample_files():
    import glob
    return sorted(f for f in glob.glob(os.path.join(tables.REPO, "Test/BUFR/*.bufr")) if os.path.getsize(f) <= 9000)

def sample_workload(rng, f):
    hx = open(f, "rb").read().hex()
    ls = ["T.use " + rng.choice(["cur", "cur", "loc"]), "ds.decodemsg " + hx]
    for k in range(rng.choice([1, 2, 3])):
        ls += ["dd.list %d" % k, "dd.vals %d" % k]
    return ls, "samples"

FAMILIES = [(wl_first64, 1), (wl_roundtrip, 5), (wl_compressed, 4), (wl_reencode, 2), (wl_dump, 3), (wl_strings, 3), (wl_doubles, 4), (wl_many, 1)]

def gen_workloads(rng, n):
    fams = [f for f, w in FAMILIES for _ in range(w)]
    out = []
    for i in range(n):
        ls, fam = rng.choice(fams)(rng)
        out.append((ls, fam))
    return out

def usable(lines, outs, crash):
    """a workload of the property: it runs to the end without the library asking to terminate the process"""
    if crash or len(outs) != len(lines):
        return False
    if any(o in ("abort", "exit", "bad-op") for o in outs):
        return False
    if any(l.startswith("ds.encode") and o in ("null", "none") for l, o in zip(lines, outs)):
        return False
    # a dataset the library itself flags invalid when it is built (an operator the edition does not define, …) or
    # a message it reads back as invalid is not a workload of the property (same scope as C01/C02)
    if any(l == "ds.invalid" and o != "0" for l, o in zip(lines, outs)):
        return False
    if any(l.startswith("ds.decodelast") and o.split()[:2] != ["ok", "0"] for l, o in zip(lines, outs)):
        return False
    if any(l.startswith("ds.decodemsg") and o.split()[-3:-1] != ["ok", "0"] for l, o in zip(lines, outs)):
        return False
    return True

# ----------------------------------------------------------------------------- stream A: configurations

SW_NAMES = ["debug", "verbose", "meta", "trimzero"]
ALL_CFGS = list(itertools.product([0, 1], repeat=4))

def cfg_tag(c):
    return "cfg-" + "".join(str(x) for x in c)

def block(rng, lines, c, first):
    sets = ["sw.set %s %d" % (n, v) for n, v in zip(SW_NAMES, c[:4])]
    if not first:
        rng.shuffle(sets)         # the setters are not independent (debug drags verbose along): any order
    sets.append("sw.set ieee %d" % (c[4] if len(c) > 4 else 0))
    body = [l.replace("ds.dump s T", "ds.dump s %d" % c[3]) for l in lines]
    return ["reset", "sw.mark " + cfg_tag(c)] + sets + body + ["sw.diag"]

def config_scenario(rng, i, lines, fam, tier):
    cfgs = list(ALL_CFGS)
    base = (0, 0, 1, 1)           # the library's defaults first: the block the model runs
    cfgs.remove(base)
    rng.shuffle(cfgs)
    cfgs = [base] + cfgs
    if tier != "quick":
        cfgs += [c + (1,) for c in rng.sample(ALL_CFGS, 4)]
    ls = []
    for j, c in enumerate(cfgs):
        ls += block(rng, lines, c, j == 0)
    return Scenario("cfg-%d-%s" % (i, fam), ls, {"kind": "config", "family": fam, "blocklen": len(lines) + 8, "ncfg": len(cfgs),
                                                 "nomodel": False})

# ----------------------------------------------------------------------------- stream B: histories

def junk_ops(rng):
    """unrelated operations on the same tables: lookups (cache, last hit), another template, another dataset,
    an encoding and a decoding"""
    r = rng.random()
    name = rng.choice(["cur", "loc", "syn", "v13", "wide"])
    B, D = P[name]
    if r < 0.4:
        ks = sorted(B)
        ls = ["T.use " + name]
        for _ in range(rng.choice([1, 3, 8])):
            d = rng.choice([rng.choice(ks), rng.choice(ks), 12101, 1015, 63001, 99999, 301011, rng.choice(sorted(D))])
            ls.append(("sw.fetchD %d" if regs.F(d) == 3 else "sw.fetchB %d") % d)
        return ls
    if r < 0.55:
        return ["sw.set %s %d" % (rng.choice(SW_NAMES), rng.choice([0, 1])), "sw.get"]
    if r < 0.75:
        ls, meta = datasets.build_lines(rng, name if name != "wide" else "cur", *P[name if name != "wide" else "cur"], nsub=1)
        return ls + ["ds.encode %d" % rng.choice([0, 1]), "ds.decodelast 1 0 0", "dd.vals 0"]
    if r < 0.9:
        t = templates.gen_template(rng, B, D, depth=1, ops=True, n=2)
        return ["T.use " + name, "tm.new %d %s" % (rng.choice([3, 4]), " ".join("%06d" % d for d in t)), "tm.gabarit"]
    return ["cvt.missing %d" % rng.choice([1, 8, 31, 32, 63, 64]), "ieee.dec64 %s" % rng.choice(HUGE_BITS)]

def history_scenario(rng, i, batch, alone):
    """batch: [(lines, fam)], alone: outputs of each in a fresh process"""
    k = len(batch)
    order = list(range(k)) + [rng.randrange(k) for _ in range(rng.choice([1, 2, 4]))]
    rng.shuffle(order)
    ls, inst = [], 0
    for w in order:
        # `ds.loadtext … @` reads every dump the harness has recorded since the last reset: a dump workload
        # starts from a reset so that "@" means its own dump
        if rng.random() < 0.5 or batch[w][1] == "dump":
            ls.append("reset")
        if rng.random() < 0.6:
            ls.append("sw.mark junk")
            for _ in range(rng.choice([1, 2])):
                ls += junk_ops(rng)
            # leave the switches as a fresh process has them
            ls += ["sw.set debug 0", "sw.set verbose 0", "sw.set meta 1", "sw.set trimzero 1", "sw.set ieee 0"]
        ls.append("sw.mark w%d-%d" % (w, inst)); inst += 1
        ls += [l.replace("ds.dump s T", "ds.dump s 1") for l in batch[w][0]]
    return Scenario("hist-%d" % i, ls, {"kind": "history", "workloads": [[l.replace("ds.dump s T", "ds.dump s 1") for l in b[0]] for b in batch],
                                        "alone": alone, "families": [b[1] for b in batch]})

def run_alone(runner, lines):
    """one workload in a process of its own (tables loaded, nothing else done before)"""
    pre = runner.preamble["impl"]
    ls = [l.replace("ds.dump s T", "ds.dump s 1") for l in lines]
    rc, out, err = runner.run_impl(list(pre) + ["reset"] + ls, timeout=120)
    if rc != 0 or len(out) != len(pre) + 1 + len(ls):
        return None
    return out[len(pre) + 1:]

# ----------------------------------------------------------------------------- stream C: snprintf against the model

CONVS = ["d", "d", "i", "u", "x", "o", "c", "s", "s", "f", "f", "e", "E", "g", "p", "%", "ld", "lld", "llu", "llx", "lu"]

def rand_directive(rng):
    cv = rng.choice(CONVS)
    if cv == "%":
        return "%%", None
    flags = "".join(f for f in "-+ #0" if rng.random() < 0.12)
    if cv in ("o", "e", "E", "g", "p") or cv.endswith("o"):
        flags = flags.replace("#", "")
    if cv == "p":
        flags = flags.replace("+", "").replace(" ", "").replace("0", "")
    width = rng.choice(["", "", "", "1", "3", "10", "40"])
    prec = rng.choice(["", "", "", ".0", ".1", ".3", ".6", ".14", ".17", ".40"]) if cv != "p" and cv != "c" else ""
    c = cv[-1]
    if c in "di":
        a = ("l:%d" if cv.startswith("l") else "i:%d") % rng.choice([0, 1, -1, 7, -42, 2 ** 31 - 1, -2 ** 31] + ([2 ** 63 - 1, -2 ** 63] if cv.startswith("l") else []))
    elif c in "uxo":
        a = ("ul:%d" if cv.startswith("l") else "u:%d") % rng.choice([0, 1, 8, 255, 4095, 2 ** 32 - 1] + ([2 ** 64 - 1, 2 ** 40] if cv.startswith("l") else []))
    elif c == "c":
        a = "i:%d" % rng.choice([65, 97, 48, 126, 33])
    elif c == "s":
        a = "s:" + (bytes(rng.choice([65, 98, 32, 37, 34]) for _ in range(rng.choice([0, 1, 5, 30, 300]))).hex() or "-")
    elif c in "feEg":
        if rng.random() < 0.2:
            a = "f:%08x" % struct.unpack(">I", struct.pack(">f", rng.choice([0.0, 1.5, -2.25, 3.4028234663852886e38, 1e-45, 1e10, 0.1])))[0]
        else:
            a = "d:" + rng.choice(HUGE_BITS + [dbits(x) for x in (1.0, -1.0, 0.5, 0.1, 9.999999, 99999.95, 999999.5, 0.00001, 0.000099999, 123456.789, 1e15, 1e16, 1e21, 1e22)])
    else:
        a = "p:%d" % rng.choice([0, 1, 4096, 2 ** 47 - 1, 2 ** 64 - 1])
    return "%" + flags + width + prec + cv, a

def fmt_scenario(rng, i):
    ls = []
    for _ in range(20):
        parts, args = [], []
        for _ in range(rng.choice([1, 1, 2, 3, 5])):
            if rng.random() < 0.5:
                parts.append(rng.choice(["x", " --> ", "IVAL=", "[", "]\n", "(", " bits) ", ": "]))
            d, a = rand_directive(rng)
            parts.append(d)
            if a is not None:
                args.append(a)
        ls.append("sp.fmt %s %s" % ("".join(parts).encode().hex(), " ".join(args)))
    return Scenario("fmt-%d" % i, [l.rstrip() for l in ls], {"kind": "fmt"})

# ----------------------------------------------------------------------------- stream D: text of any length

def hexs(s):
    return (s if isinstance(s, bytes) else s.encode()).hex() or "-"

def long_path(base, n, exists=True):
    """a path of exactly n characters naming `base` (an existing file) or nothing at all"""
    d, f = os.path.split(base)
    if not exists:
        d, f = "/nonexistent-dir", "no-such-file"
    pad = n - len(d) - len(f) - 1
    if pad < 0:
        return base
    return d + "/" + "./" * (pad // 2) + ("/" if pad % 2 else "") + f

def length_scenarios(rng, tier):
    out = []
    reps = 1 if tier == "quick" else 8
    cfg = lambda: ["sw.set debug %d" % rng.choice([0, 1, 1]), "sw.set verbose %d" % rng.choice([0, 1, 1])]
    k = 0
    for _ in range(reps):
        # table loaders: long names of files that exist and of files that do not
        for n in (200, 900, 985, 1000, 1023, 1024, 1100, 2000, 4000, 4070, 4090):
            for op, f in (("tbl.load_m_b", X["tableb"]), ("tbl.load_l_b", X["tableb"]), ("tbl.load_m_d", X["tabled"]), ("tbl.load_l_d", X["tabled"]),
                          ("tbl.load_csv_b", X["tableb"]), ("tbl.load_csv_d", X["tabled"])):
                ex = rng.random() < 0.5 and n < 4000
                p = long_path(f, n + rng.choice([0, 0, 1, -1, 7]), ex)
                ls = cfg() + ["tbl.new", "%s %s" % (op, p), "tbl.fetchB 12101", "tbl.fetchD 301011", "sw.diag"]
                # merging into a loaded table prints too
                if ex and rng.random() < 0.5:
                    ls.insert(3, "%s %s" % (op, p))
                out.append(Scenario("len-path-%d" % k, ls, {"kind": "length", "family": op, "n": n, "model": not op.startswith("tbl.load_csv")})); k += 1
        # the file readers that only report: template, data, dump
        for n in (100, 215, 230, 256, 300, 990, 1024, 3000):
            p = hexs(long_path("x", n, False))
            ls = cfg() + ["T.use cur", "tm.new 4 012101", "ss.new", "sw.loadtmpl " + p, "sw.loaddata " + p, "sw.genmsgs %s %s" % (p, p), "sw.diag"]
            out.append(Scenario("len-file-%d" % k, ls, {"kind": "length", "family": "files", "n": n, "model": True})); k += 1
        # environment
        for var in ("BUFR_TABLES", "AFSISIO", "WMO_BUFR_TABLES"):
            for n in (100, 480, 500, 511, 512, 600, 1030, 3000):
                v = "/" + "t" * (n - 1)
                if var == "WMO_BUFR_TABLES" and rng.random() < 0.5:
                    v = "/w/BUFR1-" + "7" * (n - 9)       # a version number as long as the name
                ls = cfg() + ["sw.cmc %s %s" % (var, hexs(v)), "sw.diag"]
                out.append(Scenario("len-env-%d" % k, ls, {"kind": "length", "family": "env-" + var, "n": n, "model": True})); k += 1
        # messages through the printf-like entry points
        for n in (0, 1, 100, 4000, 4093, 4094, 4095, 4096, 5000, 70000):
            ls = cfg() + ["sw.vprint debug %d" % n, "sw.vprint output %d" % n, "sw.diag"]
            out.append(Scenario("len-vprint-%d" % k, ls, {"kind": "length", "family": "vprint", "n": n, "model": True})); k += 1
        # value setters: refused values are quoted in a warning
        for bits in HUGE_BITS:
            for enc in ("12101 2 0 16", "5001 5 -9000000 25", "7004 -1 0 14", "10004 -128 0 14"):
                ls = cfg() + ["cvt.setd %s %s" % (enc, bits), "sw.diag"]
                out.append(Scenario("len-setd-%d" % k, ls, {"kind": "length", "family": "setd", "model": True})); k += 1
        for n in (10, 240, 250, 253, 254, 255, 256, 300, 5000):
            s = bytes(rng.choice([65, 37, 115, 32]) for _ in range(n))
            ls = cfg() + ["T.use cur", "tm.new 4 012101 001015 020003", "ss.new", "ss.setstr 0 0 " + s.hex(), "ss.setstr 0 1 " + s.hex(),
                          "ss.setstr 0 2 " + s.hex(), "ss.vals 0", "sw.diag"]
            out.append(Scenario("len-setstr-%d" % k, ls, {"kind": "length", "family": "setstr", "n": n, "model": True})); k += 1
        # the dump loader: long tokens, long lines, with its debug and verbose messages on
        head = b"BUFR_EDITION=4\nDATASUBSET 1 : 3 codes\n"
        for n in (100, 1900, 1990, 2020, 2030, 2039, 2040, 2046):
            for body in (b"012101 " + b"9" * n + b"\n", b"012101 (" + b"f" * n + b":8bits)1\n", b"012101 {" + b"m" * (n - 10) + b"} 27315\n",
                         b"012101 " + b"1" * min(n, 300) + b"." + b"5" * max(0, n - 301) + b"\n", b"001015 \"" + b"A" * n + b"\"\n",
                         b"012101 1e308\n", b"001015 " + b" " * n + b"\"x\"\n"):
                txt = head + body + b"001015 \"abc\"\n020003 1\n"
                ls = cfg() + ["T.use cur", "tm.new 4 012101 001015 020003", "ss.new", "ds.loadtext s 0 " + txt.hex(), "ld.nsub 0", "sw.diag"]
                out.append(Scenario("len-load-%d" % k, ls, {"kind": "length", "family": "loader", "n": n, "model": False})); k += 1
            txt = b"BUFR_EDITION=4\nDATASUBSET 1 : " + b"3" * n + b" codes\n012101 27315\n001015 \"abc\"\n020003 1\n"
            ls = cfg() + ["T.use cur", "tm.new 4 012101 001015 020003", "ss.new", "ds.loadtext s 0 " + txt.hex(), "ld.nsub 0", "sw.diag"]
            out.append(Scenario("len-load-%d" % k, ls, {"kind": "length", "family": "loader-subset-line", "n": n, "model": False})); k += 1
    return out

# ----------------------------------------------------------------------------- stream E: the switches themselves

def switch_scenario(rng, i):
    ls = ["sw.get"]
    for _ in range(rng.choice([3, 8, 20])):
        ls.append("sw.set %s %d" % (rng.choice(SW_NAMES), rng.choice([0, 1, 1, 2, -1])))
        ls.append("sw.get")
    return Scenario("sw-%d" % i, ls, {"kind": "switch"})

# ----------------------------------------------------------------------------- scenarios

COUNTS = {}

def scenarios(rng, tier, runner):
    nA = 300 if tier == "quick" else 5000
    nB = 90 if tier == "quick" else 1500
    nC = 60 if tier == "quick" else 2000
    nE = 30 if tier == "quick" else 1000
    # stage 1: the workloads, filtered under the default settings
    wl = gen_workloads(rng, int((nA + 3 * nB) * 1.15))
    wl += [sample_workload(rng, f) for f in sample_files()]      # every sample message of the repository once
    s1 = [Scenario("w-%d" % i, [l.replace("ds.dump s T", "ds.dump s 1") for l in ls]) for i, (ls, fam) in enumerate(wl)]
    r1 = run_all(runner, s1, "impl")
    good = [w for w, s, (o, crash) in zip(wl, s1, r1) if usable(s.lines, o, crash)]
    COUNTS["generated"], COUNTS["usable"] = len(wl), len(good)
    out = []
    samples = [w for w in good if w[1] == "samples"]
    good = [w for w in good if w[1] != "samples"]
    for i, (ls, fam) in enumerate(good[:nA] + samples):
        out.append(config_scenario(rng, i, ls, fam, tier))
    # histories
    rest = good[nA:]
    batches = []
    while len(rest) >= 3 and len(batches) < nB:
        k = rng.choice([3, 3, 4, 5])
        batches.append(rest[:k]); rest = rest[k:]
    flat = [w for b in batches for w in b]
    with ThreadPoolExecutor(max_workers=16) as ex:
        alone = list(ex.map(lambda w: run_alone(runner, w[0]), flat))
    pos = 0
    for i, b in enumerate(batches):
        a = alone[pos:pos + len(b)]; pos += len(b)
        if any(x is None for x in a):
            continue
        out.append(history_scenario(rng, i, b, a))
    for i in range(nC):
        out.append(fmt_scenario(rng, i))
    out += length_scenarios(rng, tier)
    for i in range(nE):
        out.append(switch_scenario(rng, i))
    return out

# ----------------------------------------------------------------------------- model side, comparison

UNTIED = ("ds.dump", "ds.loadtext", "ld.", "sw.diag")     # dump text needs C13's meta hand-over; sw.diag is coverage

def untied(line):
    return line.startswith(UNTIED)

def split_blocks(lines):
    """[(tag, start, end)] for the `sw.mark` blocks: start = index of the first line after the mark"""
    marks = [(i, l.split()[1]) for i, l in enumerate(lines) if l.startswith("sw.mark ") and len(l.split()) == 2]
    res = []
    for j, (i, tag) in enumerate(marks):
        end = marks[j + 1][0] if j + 1 < len(marks) else len(lines)
        res.append((tag, i + 1, end))
    return res

def two_pass(scn, c_out):
    """the model runs the first block of a configuration scenario (one block is enough: its functions take no
    switch); everything else runs whole.  `ds.decodelast` is given the bytes the implementation produced."""
    lines = list(scn.lines)
    if scn.meta.get("nomodel"):
        return ["reset"]
    if scn.meta.get("kind") == "config":
        bl = scn.meta["blocklen"]
        return c01.two_pass(Scenario(scn.name, lines[:bl]), c_out[:bl])
    return c01.two_pass(scn, c_out)

def canon(line, out, side):
    if line.startswith("sw.diag"):
        return "ok"
    if line.startswith("sp.fmt"):
        return out.split(" ")[0]
    return out

def compare(scn, lscn, cr, lr):
    kind = scn.meta.get("kind") or ("fmt" if infer_kind(scn) == "fmt" else None)
    c_out, c_crash = cr
    l_out, l_crash = lr
    if c_crash:
        k = len(c_out)
        return ("impl-crash", k, None, None, c_crash)
    if kind == "length" and not scn.meta.get("model"):
        return None
    if scn.meta.get("nomodel"):
        return None          # sample messages outside the model: the oracle compares the settings
    if l_crash:
        return ("model-crash", -1, None, None, l_crash)
    if kind == "config":
        bl, n = scn.meta["blocklen"], scn.meta["ncfg"]
        if len(l_out) != bl:
            return ("differ", 0, None, None, "model block has %d lines, expected %d" % (len(l_out), bl))
        for b in range(n):
            for j in range(bl):
                i = b * bl + j
                line = scn.lines[i]
                if untied(line) or line.startswith("sw.set") or i >= len(c_out):
                    continue
                if b > 0 and scn.lines[j].split()[0] != line.split()[0]:
                    continue
                if c_out[i] != l_out[j]:
                    return ("differ", i, c_out[i], l_out[j], "block %d (%s)" % (b, scn.lines[b * bl + 1]))
        return None
    if kind == "fmt":
        for i, (a, b) in enumerate(zip(c_out, l_out)):
            if b.startswith("unmodelled"):
                continue
            if a != b.split(" ")[0]:
                return ("differ", i, a, b, "")
        return None
    masked_c = ["-" if untied(l) else canon(l, o, "impl") for l, o in zip(scn.lines, c_out)]
    masked_l = ["-" if untied(l) else canon(l, o, "model") for l, o in zip(scn.lines, l_out)]
    # as in C01: after a decode the library flags invalid (short read) the values are not compared
    bad = False
    for i, l in enumerate(scn.lines[:min(len(masked_c), len(masked_l))]):
        if l.startswith("ds.decode"):
            f = c_out[i].split()
            bad = len(f) >= 2 and f[0] == "ok" and f[1] == "1"
        elif bad and l.startswith("dd.vals"):
            masked_c[i] = masked_l[i] = "-"
    return cmp0(scn, (masked_c, None), (masked_l, None), None)

# ----------------------------------------------------------------------------- oracle

def norm(line):
    return re.sub(r"^ds\.dump (\S+) \d+$", r"ds.dump \1 *", line)

_alone_cache = {}

def infer_kind(scn):
    """a replay file carries no meta data: the blocks say what the scenario is"""
    k = scn.meta.get("kind")
    if k:
        return k
    if any(l.startswith("sw.mark cfg-") for l in scn.lines):
        return "config"
    if any(re.match(r"^sw\.mark w\d+-\d+$", l) for l in scn.lines):
        return "history"
    if any(l.startswith("sp.fmt") for l in scn.lines):
        return "fmt"
    if any(l.startswith("sw.vprint") for l in scn.lines):
        return "length"
    return None

def history_meta(scn):
    """workloads and their outputs alone in a fresh process; for a replay they are rebuilt from the marked blocks"""
    if "workloads" in scn.meta:
        return scn.meta["workloads"], scn.meta["alone"]
    wls, alone = {}, {}
    for t, s, e in split_blocks(scn.lines):
        m = re.match(r"^w(\d+)-\d+$", t)
        if not m:
            continue
        seg = scn.lines[s:e]
        if "reset" in seg:
            seg = seg[:seg.index("reset")]
        w = int(m.group(1))
        if w in wls:
            continue
        key = tuple(seg)
        if key not in _alone_cache:
            _alone_cache[key] = run_alone(X["runner"], seg) if X.get("runner") else None
        if _alone_cache[key] is not None:
            wls[w], alone[w] = seg, _alone_cache[key]
    return wls, alone

def oracle(scn, outs):
    kind = infer_kind(scn)
    for l, o in zip(scn.lines, outs):
        if o in ("exit", "abort") and kind in ("config", "history"):
            return None          # shrunk into something that is not a workload any more
    if kind == "config":
        blocks = [(t, s, e) for t, s, e in split_blocks(scn.lines) if t.startswith("cfg-")]
        if len(blocks) < 2:
            return None
        def content(b):
            t, s, e = b
            return [(norm(l), o) for l, o in zip(scn.lines[s:e], outs[s:e]) if not l.startswith(("sw.", "reset"))]
        ref = content(blocks[0])
        rc = blocks[0][0][4:]
        for b in blocks[1:]:
            cur = content(b)
            if [x[0] for x in cur] != [x[0] for x in ref] or len(outs) < b[2]:
                continue         # shrunk apart: not comparable
            c = b[0][4:]
            for (l, o0), (_, o1) in zip(ref, cur):
                if l.startswith("ds.dump") and c[2:4] != rc[2:4]:
                    continue     # meta data and trimming are part of the text by design
                if o0 != o1:
                    return "%s answers differently under (debug, verbose, meta, trimzero%s) = %s than under %s" % (
                        l.split()[0], ", ieee" if len(c) > 4 else "", ",".join(c), ",".join(rc))
        return None
    if kind == "history":
        wls, alone = history_meta(scn)
        if isinstance(wls, list):
            wls, alone = dict(enumerate(wls)), dict(enumerate(alone))
        for t, s, e in split_blocks(scn.lines):
            m = re.match(r"^w(\d+)-\d+$", t)
            if not m or e > len(outs):
                continue
            w = int(m.group(1))
            if w not in wls:
                continue
            seg = scn.lines[s:e]
            # the block may be followed by a reset / junk mark: cut at the workload's own length
            n = len(wls[w])
            if seg[:n] != wls[w]:
                continue
            for l, o0, o1 in zip(seg[:n], alone[w], outs[s:s + n]):
                if l.startswith("sw.diag"):
                    continue
                if o0 != o1:
                    return "%s of workload %d answers differently after other operations than alone in a fresh process" % (l.split()[0], w)
        return None
    if kind == "length":
        fam = scn.meta.get("family", "")
        for l, o in zip(scn.lines, outs):
            if l.startswith("sw.vprint"):
                n = int(l.split()[2])
                if o != "ok %d 1" % (n + 2):
                    return "a message of %d characters came out of %s wrong: %s" % (n + 2, l.split()[1], o)
        return None
    return None

def oracle2(scn, impl_out, lean_out):
    """sp.fmt: the text the C library produced is never longer than the model's bound for the argument types"""
    if infer_kind(scn) != "fmt":
        return None
    for l, a, b in zip(scn.lines, impl_out, lean_out):
        f = b.split(" ")
        if len(f) == 2 and f[1] != "-" and a != "-" and len(a) // 2 > int(f[1]):
            return "snprintf produced %d characters, maxLen says at most %s: %s" % (len(a) // 2, f[1], l[:80])
        if len(f) == 2 and f[1] != "-" and a == "-" and 0 > int(f[1]):
            return "negative bound"
    return None

# ----------------------------------------------------------------------------- coverage

DIAG = {"bytes": 0, "max": 0}

def signature(scn, outs):
    kind = scn.meta.get("kind")
    sig = set()
    for l, o in zip(scn.lines, outs):
        if l.startswith("sw.diag"):
            f = o.split()
            if len(f) == 4:
                DIAG["bytes"] += int(f[1]); DIAG["max"] = max(DIAG["max"], int(f[3]))
    if kind in ("config", "history"):
        fams = [scn.meta.get("family")] if kind == "config" else scn.meta.get("families", [])
        for l, o in zip(scn.lines, outs):
            if l.startswith(("ss.list", "dd.list")) and o not in ("none", "-"):
                try:
                    for n in parse_nodes(o):
                        if n["flags"] & 4: continue
                        sig.add((kind, n["type"], min(n["nbits"], 80) // 8, n["af"] > 0))
                except Exception:
                    pass
        for f in fams:
            sig.add((kind, f))
    elif kind == "fmt":
        for l in scn.lines:
            for m in re.finditer(rb"%[-+ #0]*\d*(?:\.\d+)?(?:ll|l)?[a-zA-Z%]", bytes.fromhex(l.split()[1])):
                sig.add(("fmt", m.group(0)[-1:], len(m.group(0)) > 2))
    elif kind == "length":
        sig.add(("length", scn.meta.get("family"), scn.meta.get("n"), tuple(outs[-2:-1])))
    else:
        sig.add((kind, tuple(outs[-1:])))
    return sig

def classify(scn, outs):
    c = ["kind=%s" % scn.meta.get("kind")]
    if scn.meta.get("family"):
        c.append("family=%s" % scn.meta.get("family"))
    return c

def coverage_extra():
    return {"diagnostic_text_bytes": DIAG["bytes"], "longest_diagnostic_message": DIAG["max"],
            "workloads_generated": COUNTS.get("generated"), "workloads_usable": COUNTS.get("usable"),
            "outside_model": {"workloads that end in abort/exit under the default settings (not run)": (COUNTS.get("generated", 0) - COUNTS.get("usable", 0))}}
