"""C06 — framing and read-back on every I/O path.  Streams: msg.* ops (exact tie).

The oracle is written against FM 94 framing, not against the model: it has its own frame
parser (`ref_parse`), stream splitter (`ref_split`) and header escaping (`esc`/`unesc`).
"""
import json, os
from vlib.engine import Scenario, run_all, VERIF

ID = "C06"
THEOREMS = ["Bufr.C06.C06_length", "Bufr.C06.C06_maxlen_refused", "Bufr.C06.C06_even", "Bufr.C06.C06_end",
            "Bufr.C06.C06_readback_partial", "Bufr.C06.C06_readback_fails_eot", "Bufr.C06.C06_stream",
            "Bufr.C06.C06_stream_header_partial", "Bufr.C06.C06_paths", "Bufr.C06.C06_pad_is_putbits",
            "Bufr.C06.C06_copy_sect1"]
RULE = ("editions 2/3/4 x boundary and random Section 1 values x Section 2 absent/0..n x header strings "
        "(none, plain, control characters, backslashes, high bytes, endings B/BU/BUF) x Section 4 lengths of both parities "
        "with 0..7 extra bits x 4 writers x 4 readers (+ short-read callbacks); streams of 1..k messages with "
        "marker-free separators and trailing bytes; memory buffers exactly as long as the message and shorter; "
        "Section 1 through bufr_copy_sect1; truncations, length mismatches in both directions and Section 4 lengths "
        "below 4 for model fidelity; distinct = distinct (edition, s2 class, header class, "
        "s4 parity, bitno, path, outcome)")
ASSUMPTIONS = [
    "a header byte \\004 that does not directly follow B, BU or BUF is dropped by bufr_seek_msg_start (open finding C06-header-eot: "
    "possibly deliberate EOT handling); header strings in the generated streams avoid it while the finding is open",
    "a read callback returns exactly min(len, remaining) bytes and keeps returning short once it has (contract `Src.Faithful`); "
    "callbacks that return short reads themselves make bufr_callback_read_message fail (exercised as cbN, outside the oracle)",
    "master table != 0 is written as 0 (deliberate in bufr_wr_section1); edition<=3 year is the year of century; "
    "fields without an octet in the edition (sub-centre in 2, international sub-category and seconds in <=3) read back as 0",
    "Section 1 of the default length (18/22) carries no extra data: octet 18 of an edition 2/3 message is padding",
    "header_string is a C string in the escaped form (\\ooo, \\\\, \\n); the oracle expects the reader to return the canonical escaping",
]
CRASH_IS_VIOLATION = True

# ----------------------------------------------------------------------------- reference framing

def esc(raw):
    out = bytearray()
    for b in raw:
        if b == 92:
            out += b"\\\\"
        elif b <= 32 or b == 127:
            out += b"\\%03o" % b
        else:
            out.append(b)
    return bytes(out)

def unesc(stored):
    """reference un-escaping; None when the stored string is not well formed"""
    out = bytearray()
    i = 0
    while i < len(stored):
        c = stored[i]
        if c != 92:
            out.append(c); i += 1; continue
        if i + 1 >= len(stored):
            return None
        d = stored[i + 1]
        if d == 92:
            out.append(92); i += 2
        elif d == 110:
            out.append(10); i += 2
        else:
            o = stored[i + 1:i + 4]
            if len(o) != 3 or any(x < 48 or x > 55 for x in o):
                return None
            out.append(int(o, 8) & 255); i += 4
    return bytes(out)

def i3(b): return (b[0] << 16) | (b[1] << 8) | b[2]
def i2(b): return (b[0] << 8) | b[1]

def ref_parse(body, strict=True):
    """FM 94 framing of one message starting at 'BUFR'.  Returns dict or a string saying why not."""
    if len(body) < 8 or body[:4] != b"BUFR":
        return "no start marker"
    L, ed = i3(body[4:7]), body[7]
    if ed not in (2, 3, 4):
        return "edition %d" % ed
    if len(body) < L:
        return "truncated"
    p = 8
    if p + 3 > L: return "short"
    s1len = i3(body[p:p + 3])
    fixed = 22 if ed >= 4 else 17
    if s1len < (22 if ed >= 4 else 18) or p + s1len > L:
        return "section 1 length %d" % s1len
    s1 = body[p:p + s1len]
    f = {"ed": ed, "len": L, "s1len": s1len, "mt": s1[3]}
    if ed == 2:
        f["centre"], f["sub"], q = i2(s1[4:6]), 0, 6
    elif ed == 3:
        f["sub"], f["centre"], q = s1[4], s1[5], 6
    else:
        f["centre"], f["sub"], q = i2(s1[4:6]), i2(s1[6:8]), 8
    f["upd"], f["flag"], f["type"] = s1[q], s1[q + 1], s1[q + 2]; q += 3
    if ed >= 4:
        f["isub"] = s1[q]; q += 1
    else:
        f["isub"] = 0
    f["lsub"], f["mver"], f["lver"] = s1[q], s1[q + 1], s1[q + 2]; q += 3
    if ed >= 4:
        f["year"] = i2(s1[q:q + 2]); q += 2
    else:
        f["year"] = s1[q]; q += 1
    f["month"], f["day"], f["hour"], f["minute"] = s1[q], s1[q + 1], s1[q + 2], s1[q + 3]; q += 4
    if ed >= 4:
        f["second"] = s1[q]; q += 1
    else:
        f["second"] = 0
    assert q == fixed
    f["s1d"] = bytes(s1[fixed:]) if s1len > (22 if ed >= 4 else 18) else b""
    p += s1len
    if f["flag"] & 129:       # BUFR_FLAG_HAS_SECT2 is (128+1) in this library
        if p + 4 > L: return "short"
        s2len = i3(body[p:p + 3])
        if s2len < 4 or p + s2len > L: return "section 2 length"
        f["s2len"], f["s2"] = s2len, bytes(body[p + 4:p + s2len])
        p += s2len
    else:
        f["s2len"], f["s2"] = 0, b""
    if p + 7 > L: return "short"
    s3len = i3(body[p:p + 3])
    if s3len < 7 or p + s3len > L: return "section 3 length"
    f["s3len"], f["nsub"], f["s3flag"] = s3len, i2(body[p + 4:p + 6]), body[p + 6]
    dd = body[p + 7:p + s3len]
    f["descs"] = []
    for k in range((s3len - 7) // 2):
        c = i2(dd[2 * k:2 * k + 2])
        f["descs"].append((c >> 14) * 100000 + ((c >> 8) & 63) * 1000 + (c & 255))
    f["s3d"] = bytes(dd)
    p += s3len
    if p + 4 > L: return "short"
    s4len = i3(body[p:p + 3])
    if strict:
        if s4len < 4 or p + s4len + 4 != L: return "lengths do not add up"
    else:
        s4len = L - 4 - p
        if s4len < 4: return "lengths do not add up"
    f["s4len"], f["s4"] = s4len, bytes(body[p + 4:p + s4len])
    p += s4len
    if body[p:p + 4] != b"7777": return "no 7777"
    f["sections"] = [8, s1len, f["s2len"], s3len, s4len, 4]
    return f

def ref_split(stream):
    """[(pre, body)] for every complete well-formed message, in order; then (rest, problem|None)"""
    out, pos = [], 0
    while True:
        i = stream.find(b"BUFR", pos)
        if i < 0:
            return out, stream[pos:], None
        if i + 8 > len(stream):
            return out, stream[pos:], "truncated"
        L = i3(stream[i + 4:i + 7])
        r = ref_parse(stream[i:i + L]) if i + L <= len(stream) else "truncated"
        if isinstance(r, str):
            # a message whose Section 4 length disagrees with the total is outside the property
            # (the library re-derives it from the total); it still counts as "a message is there"
            r2 = ref_parse(stream[i:i + L], strict=False) if i + L <= len(stream) else r
            if isinstance(r2, str):
                return out, stream[pos:], r
            return out, stream[pos:], "lenient"
        out.append((stream[pos:i], stream[i:i + L], r))
        pos = i + L

# ----------------------------------------------------------------------------- protocol parsing

def unhex(s): return b"" if s == "-" else bytes.fromhex(s)

def parse_show(txt):
    """the canonical field list printed by msg.show / msg.read"""
    d = {}
    for tok in txt.split():
        k, _, v = tok.partition("=")
        d[k] = v
    s1 = [int(x) for x in d["s1"].split(",")]
    names = ["s1len", "s1hlen", "mt", "centre", "sub", "upd", "flag", "type", "isub", "lsub", "mver", "lver",
             "year", "month", "day", "hour", "minute", "second"]
    f = dict(zip(names, s1))
    f["ed"], f["len"] = int(d["ed"]), int(d["len"])
    f["s1d"] = unhex(d["s1d"])
    a, b = d["s2"].split(",")
    f["s2len"], f["s2"] = int(a), unhex(b)
    a, b, c = d["s3"].split(",")
    f["s3len"], f["nsub"], f["s3flag"] = int(a), int(b), int(c)
    f["descs"] = [] if d["d"] == "-" else [int(x) for x in d["d"].split(",")]
    f["s3d"] = unhex(d["s3d"])
    a, b, c, e = d["s4"].split(",")
    f["s4len"], f["s4"] = int(a), unhex(e)
    f["h"] = None if d["h"] == "none" else unhex(d["h"])
    return f

CMP = ["ed", "len", "s1len", "mt", "centre", "sub", "upd", "flag", "type", "isub", "lsub", "mver", "lver", "year",
       "month", "day", "hour", "minute", "second", "s1d", "s2len", "s2", "s3len", "nsub", "s3flag", "descs", "s4len", "s4"]

def diff_fields(got, want, keys=CMP):
    for k in keys:
        if got.get(k) != want.get(k):
            return "%s: read %r, message has %r" % (k, got.get(k), want.get(k))
    return None

class Intent:
    """what the msg.* build ops ask for (independent bookkeeping)"""
    def __init__(self, ed):
        self.ed = ed if 2 <= ed <= 5 else 4
        self.s1 = dict(mt=0, centre=54, sub=0, upd=0, flag=0, type=0, isub=0, lsub=0, mver=17, lver=0, year=0,
                       month=0, day=0, hour=0, minute=0, second=0)
        self.s1len = 22 if self.ed >= 4 else 18
        self.s1d = b""
        self.s2 = b""
        self.nsub, self.s3flag, self.descs = 0, 0, []
        self.bits = ""
        self.header = None
        self.adopted = False
        self.ended = False

    def in_range(self):
        s, ed = self.s1, self.ed
        if ed not in (2, 3, 4): return False
        if s["centre"] > (255 if ed == 3 else 65535): return False
        if s["sub"] > (255 if ed == 3 else 32767): return False
        if s["year"] > 32767: return False
        for k in ("mt", "upd", "flag", "type", "isub", "lsub", "mver", "lver", "month", "day", "hour", "minute", "second"):
            if s[k] > 255: return False
        if self.nsub > 65535: return False
        for d in self.descs:
            if d // 100000 > 3 or d // 1000 % 100 > 63 or d % 1000 > 255: return False
        fixed = 22 if ed >= 4 else 17
        dflt = 22 if ed >= 4 else 18
        if self.s1len < dflt or self.s1len > 60000: return False
        if self.s1d and (self.s1len == dflt or fixed + len(self.s1d) > self.s1len): return False
        if ed <= 3 and self.s1len % 2: return False
        return True

    def expected(self):
        """the fields a reader must report for this message (before lengths are known)"""
        s, ed = dict(self.s1), self.ed
        f = dict(s)
        f["ed"] = ed
        f["mt"] = 0
        if ed == 2: f["sub"] = 0
        if ed <= 3:
            f["isub"], f["second"] = 0, 0
            f["year"] = 0 if s["year"] == 0 else (s["year"] - 1) % 100 + 1
        fixed = 22 if ed >= 4 else 17
        f["s1len"] = self.s1len
        f["s1d"] = (self.s1d + bytes(self.s1len - fixed - len(self.s1d))) if self.s1len > (22 if ed >= 4 else 18) else b""
        has2 = bool(s["flag"] & 129)
        f["s2"] = self.s2 if has2 else b""
        f["s2len"] = 4 + len(self.s2) if has2 else 0
        f["nsub"], f["s3flag"], f["descs"] = self.nsub, self.s3flag, list(self.descs)
        bits = self.bits + "0" * (-len(self.bits) % 8)
        f["s4min"] = bytes(int(bits[i:i + 8], 2) for i in range(0, len(bits), 8))
        return f

def walk(scn, outs):
    """yield (index, line tokens, output, intent-at-that-point, written-bytes-so-far list)"""
    it = None
    for i, (line, o) in enumerate(zip(scn.lines, outs)):
        t = line.split()
        op = t[0]
        ok = (o == "ok")
        if op == "msg.new" and ok:
            it = Intent(int(t[1]))
        elif it is None:
            pass
        elif op == "msg.s1" and ok:
            for kv in t[1:]:
                k, _, v = kv.partition("=")
                if k == "data": it.s1d = unhex(v)
                elif k == "len": it.s1len = int(v)
                else: it.s1[k] = int(v)
        elif op == "msg.s2" and ok:
            d = unhex(t[1])
            if it.ed <= 3 and len(d) % 2: d += b"\0"
            it.s2 = d
            it.s1["flag"] |= 128
            it.ended = True
        elif op == "msg.end" and it is not None and o not in ("bad-op",):
            it.ended = True
        elif op == "msg.s3" and ok:
            it.nsub, it.s3flag, it.descs = int(t[1]), int(t[2]), [int(x) for x in t[3:]]
        elif op == "msg.s4" and ok:
            it.bits += "".join(format(b, "08b") for b in unhex(t[1]))
            if len(t) == 3: it.bits += "1" * int(t[2])
        elif op == "msg.header" and ok:
            it.header = None if t[1] == "none" else unhex(t[1])
        elif op == "msg.adopt" and ok:
            it = Intent(4); it.adopted = True
        yield i, t, o, it

# ----------------------------------------------------------------------------- the oracle

def check_written(it, rc_txt, data, path, buflen):
    """clauses 1-3 on one msg.write output, plus: the bytes carry the intended values"""
    if it is None or it.adopted:
        return None, None
    if it.header is not None:
        raw = unesc(it.header)
        if raw is None:
            return None, None          # stored string not well formed: no expectation
    else:
        raw = b""
    if not it.in_range():
        return None, None
    if b"BUFR" in raw:
        return None, None
    i = data.find(b"BUFR")
    if i != len(raw) or data[:i] != raw:
        return "header string: %r was sent for stored %r (raw %r)" % (data[:max(i, 0)], it.header, raw), None
    body = data[i:]
    L = i3(body[4:7]) if len(body) >= 8 else -1
    if L != len(body):
        return "Section 0 length %d, bytes written after the header %d" % (L, len(body)), None
    f = ref_parse(body)
    if isinstance(f, str):
        return "written message is not framed: %s" % f, None
    if sum(f["sections"]) != L:
        return "section lengths %r do not add up to %d" % (f["sections"], L), None
    if f["ed"] <= 3 and any(x % 2 for x in f["sections"]):
        return "edition %d section lengths %r are not all even" % (f["ed"], f["sections"]), None
    if body[-4:] != b"7777":
        return "does not end with 7777", None
    want_rc = len(data) if path == "mem" else 0
    if int(rc_txt) != want_rc:
        return "%s writer returned %s, expected %d" % (path, rc_txt, want_rc), None
    e = it.expected()
    d = diff_fields(f, e, [k for k in CMP if k in e and k not in ("len",)])
    if d:
        return "written bytes do not carry the message: " + d, None
    s4min = e["s4min"]
    if f["s4"][:len(s4min)] != s4min or len(f["s4"]) - len(s4min) > (1 if f["ed"] <= 3 else 0) or any(f["s4"][len(s4min):]):
        return "Section 4 data %s is not the data written %s plus even padding" % (f["s4"].hex(), s4min.hex()), None
    return None, (raw, body, f)

def check_read(fields_txt, consumed, pre, body_fields, total):
    got = parse_show(fields_txt)
    if consumed != total:
        return "consumed %d bytes, message with header is %d" % (consumed, total)
    d = diff_fields(got, body_fields)
    if d:
        return d
    want_h = esc(pre) if pre else None
    if got["h"] != want_h:
        return "header string: read %r, expected %r for the bytes %r" % (got["h"], want_h, pre)
    return None

def oracle(scn, outs):
    written = []     # byte strings produced by msg.write on in-range messages
    last_written = None
    for i, t, o, it in walk(scn, outs):
        op = t[0]
        if op in ("msg.new", "msg.s1", "msg.s2", "msg.s3", "msg.s4", "msg.header", "msg.end", "msg.adopt"):
            last_written = None            # the message changed: writers are compared per state
            continue
        if o in ("bad-op", "stale", "fault", "abort", "exit", "io-error"):
            continue
        if op == "msg.write":
            rc, _, hx = o.partition(" ")
            if rc == "-1":
                if it is not None and not it.adopted and it.ended and it.in_range():
                    return "line %d: writer refused an in-range message (%s)" % (i, o)
                continue
            data = unhex(hx)
            buflen = int(t[2]) if len(t) == 3 else None
            if buflen is not None and t[1] == "mem" and last_written is not None and buflen < len(last_written):
                # a buffer that is too short: exactly the first buflen bytes, and the count says so
                if data != last_written[:buflen] or int(rc) != buflen:
                    return "line %d: memory buffer of %d bytes holds rc=%s %s, not the first %d bytes of the message" % (
                        i, buflen, rc, data.hex(), buflen)
                continue
            why, info = check_written(it, rc, data, t[1], buflen)
            if why:
                return "line %d (%s): %s" % (i, " ".join(t[:2]), why)
            if info:
                if last_written is not None and written and written[-1][0] == id(it) and last_written != data:
                    return "line %d: writer %s produced different bytes than the previous writer" % (i, t[1])
                written.append((id(it), data))
                last_written = data
        elif op == "msg.s1copy":
            if it is None or it.adopted or o.startswith("bad"):
                continue
            got = parse_show(o)
            want = dict(it.s1); want["flag"] = 0
            want["s1len"], want["s1d"] = it.s1len, it.s1d
            d = diff_fields(got, want, list(it.s1.keys()) + ["s1len", "s1d"])
            if d:
                return "line %d: bufr_copy_sect1 lost %s" % (i, d)
        elif op in ("msg.read", "msg.readall"):
            if t[1].startswith("cb") and t[1] != "cb":
                continue                  # short-read callbacks are outside the callback contract
            stream = unhex(t[2])
            msgs, rest, problem = ref_split(stream)
            if op == "msg.read":
                if not msgs:
                    if o.startswith("1 ") and problem != "lenient":
                        return "line %d: a message was reported where there is none (%s)" % (i, problem or "no marker")
                    continue
                if not o.startswith("1 "):
                    return "line %d: %s reader failed (%s) on a well-formed message" % (i, t[1], o)
                _, cons, fields = o.split(" ", 2)
                pre, body, f = msgs[0]
                why = check_read(fields, int(cons), pre, f, len(pre) + len(body))
                if why:
                    return "line %d (%s): %s" % (i, " ".join(t[:2]), why)
            else:
                parts = o.split(" | ")
                tail = parts[-1]
                items = parts[:-1]
                if len(items) != len(msgs):
                    if problem is None or len(items) > len(msgs):
                        return "line %d (%s): %d messages found, the stream has %d%s" % (
                            i, " ".join(t[:2]), len(items), len(msgs), (" then " + problem) if problem else "")
                    continue
                for k, (itx, (pre, body, f)) in enumerate(zip(items, msgs)):
                    cons, fields = itx.split(" ", 1)
                    why = check_read(fields, int(cons), pre, f, len(pre) + len(body))
                    if why:
                        return "line %d (%s) message %d: %s" % (i, " ".join(t[:2]), k, why)
    return None

# ----------------------------------------------------------------------------- scenarios

OCT = [0, 1, 99, 100, 101, 127, 128, 254, 255]
YEARS = [0, 1, 99, 100, 101, 200, 1999, 2000, 2001, 2024, 2100, 32767]

def rnd_s1(rng, ed, boundary):
    pick = (lambda xs, hi: rng.choice(xs)) if boundary else (lambda xs, hi: rng.randrange(hi + 1))
    cmax = 255 if ed == 3 else 65535
    smax = 255 if ed == 3 else 32767
    d = {
        "mt": rng.choice([0, 0, 0, 10, rng.randrange(256)]),
        "centre": pick([0, 1, 54, 255] + ([256, 65535, 32768] if cmax > 255 else []), cmax),
        "sub": pick([0, 1, 255] + ([256, 32767] if smax > 255 else []), smax),
        "year": pick(YEARS, 32767),
    }
    for k in ("upd", "type", "isub", "lsub", "mver", "lver", "month", "day", "hour", "minute", "second"):
        d[k] = pick(OCT, 255)
    return d

def s1_line(d):
    return "msg.s1 " + " ".join("%s=%d" % kv for kv in d.items())

def rnd_descs(rng):
    n = rng.choice([1, 1, 2, 3, 4, 7, 8])
    out = []
    for _ in range(n):
        f = rng.randrange(4)
        out.append(f * 100000 + rng.choice([0, 1, 31, 63, rng.randrange(64)]) * 1000 + rng.choice([0, 1, 255, rng.randrange(256)]))
    return out

def has_marker(b): return b"BUFR" in b

def excluded_bytes():
    """header bytes kept out of the generated streams while the finding about them is open"""
    o = known_open()
    return ((4,) if "C06-header-eot" in o else ()) + ((92,) if "C06-header-backslash" in o else ())

def rnd_header(rng, cls):
    """raw header bytes by class; never the marker, and none of the bytes of an open finding"""
    excl = excluded_bytes()
    def byte(lo=0, hi=255):
        while True:
            c = rng.randrange(lo, hi + 1)
            if c not in excl:
                return c
    if cls == "none": return None
    if cls == "plain": r = bytes(rng.choice(b"ABCDEFGHIJKLMNOPQRSTUVWXYZ0123456789") for _ in range(rng.randrange(1, 20)))
    elif cls == "ctl": r = bytes(rng.choice([0, 1, 9, 10, 13, 27, 31, 32, 127, byte(33, 126)]) for _ in range(rng.randrange(1, 16)))
    elif cls == "high": r = bytes(byte(128, 255) if rng.random() < .7 else byte() for _ in range(rng.randrange(1, 16)))
    elif cls == "overlap": r = bytes(byte(33, 126) for _ in range(rng.randrange(0, 6))) + rng.choice([b"B", b"BU", b"BUF", b"BBUF", b"BUBUF", b"BUFBUF", b"BUFB"])
    elif cls == "long": r = bytes(byte() for _ in range(rng.choice([60, 63, 64, 65, 67, 68, 127, 128, 129, 200])))
    elif cls == "wmo": r = b"\x01\r\r\n123\r\r\nIUSA40 KWBC 121200\r\r\n"
    elif cls == "bs":
        if 92 in excl: r = b"path"
        else: r = rng.choice([b"\\", b"A\\", b"\\\\", b"C:\\101", b"\\n", b"a\\1", b"a\\12", b"\\8\\9", b"C:\\dir\\file ", b"\\\\\\"]) + \
            bytes(rng.choice([92, 92, 110, 49, 48, byte(33, 126)]) for _ in range(rng.randrange(0, 6)))
    elif cls == "eot":
        r = b"tail" if 4 in excl else rng.choice([b"A\x04B", b"\x04", b"\x04\x04X", b"IUSA\x04", b"B\x04", b"BU\x04\x04"])
    else: r = bytes(byte() for _ in range(rng.randrange(1, 24)))
    while has_marker(r):
        r = r.replace(b"BUFR", b"BUFX")
    return r

HCLASSES = ["none", "plain", "ctl", "high", "overlap", "long", "wmo", "any", "bs", "eot"]

def build_lines(rng, ed, boundary=False, s2=None, header=None, ndata=None, kbits=None, s1extra=None, order=None):
    ls = ["msg.new %d" % ed, s1_line(rnd_s1(rng, ed, boundary))]
    if s1extra:
        ls.append("msg.s1 len=%d data=%s" % s1extra)
    ls.append("msg.s3 %d %d %s" % (rng.choice([0, 1, 2, 255, 256, 65535]), rng.choice([0, 64, 128, 192, rng.randrange(256)]),
                                   " ".join(str(d) for d in rnd_descs(rng))))
    if ndata is None: ndata = rng.randrange(0, 12)
    if kbits is None: kbits = rng.choice([0, 0, 1, 3, 7])
    data = bytes(rng.randrange(256) for _ in range(ndata))
    ls[-1] = ls[-1].rstrip()
    if ndata or kbits:
        ls.append(("msg.s4 %s %d" % (data.hex() or "-", kbits)) if kbits else "msg.s4 " + (data.hex() or "-"))
    if header is not None:
        ls.append("msg.header " + (esc(header).hex() or "-"))
    if order is None: order = rng.randrange(3)
    if s2 is not None:
        if order == 0: ls += ["msg.s2 " + (s2.hex() or "-")]                    # set_data ends the message itself
        elif order == 1: ls += ["msg.s2 " + (s2.hex() or "-"), "msg.end"]
        else: ls += ["msg.end", "msg.s2 " + (s2.hex() or "-")]
    else:
        ls.append("msg.end")
    return ls

def null_payload(build):
    """Section 2 selected by the flag octet but never given data, or edition >= 4 without descriptors"""
    flag, ed, nd, s2 = 0, 4, 0, False
    for l in build:
        t = l.split()
        if t[0] == "msg.new":
            ed = int(t[1]); ed = ed if 2 <= ed <= 5 else 4
        elif t[0] == "msg.s1":
            for kv in t[1:]:
                if kv.startswith("flag="): flag = int(kv[5:])
        elif t[0] == "msg.s2": s2 = True
        elif t[0] == "msg.s3": nd = len(t) - 3
    return ((flag & 129) and not s2) or (ed >= 4 and nd == 0)

def get_written(runner, builds):
    """phase 1: run the build lines + one write on the implementation to learn the bytes"""
    scs = [Scenario("p", b + ["msg.write cb"]) for b in builds]
    res = run_all(runner, scs, "impl")
    out = []
    for (o, crash) in res:
        if crash or not o or " " not in o[-1] or o[-1].startswith("-1"):
            out.append(None)
        else:
            try:
                out.append(unhex(o[-1].split(" ", 1)[1]))
            except ValueError:
                out.append(None)
    return out

READERS = ["file", "fd", "mem", "cb"]
WRITERS = ["cb", "mem", "file", "fd"]

def known_open():
    p = os.path.join(VERIF, "known_findings.json")
    try:
        return {k["id"] for k in json.load(open(p)) if k.get("property") == ID and k.get("status") == "known"}
    except Exception:
        return set()

def scenarios(rng, tier, runner):
    quick = (tier == "quick")
    builds, kinds = [], []
    # 1. structured sweep: edition x s2 class x header class x data length parity x extra bits
    s2s = [None, b"", b"\x01", b"\x01\x02", b"BUFR7", bytes(range(10, 25))]
    for ed in (2, 3, 4):
        for s2 in s2s:
            for hc in HCLASSES:
                for nd in ((0, 1, 2, 3, 4, 7) if quick else range(0, 12)):
                    for kb in ((0, 1, 3, 7) if quick else range(0, 8)):
                        builds.append(build_lines(rng, ed, boundary=rng.random() < .5, s2=s2,
                                                  header=rnd_header(rng, hc), ndata=nd, kbits=kb))
                        kinds.append("sweep")
    # 2. Section 1 boundaries, one field at a time at its extremes, every edition
    for ed in (2, 3, 4):
        for _ in range(150 if quick else 1500):
            builds.append(build_lines(rng, ed, boundary=True, s2=rng.choice([None, b"\xaa"]), header=None))
            kinds.append("s1b")
        for y in YEARS + ([] if quick else list(range(0, 400, 7))):
            b = build_lines(rng, ed, boundary=True)
            b.insert(2, "msg.s1 year=%d" % y)
            builds.append(b); kinds.append("year")
        if not quick:
            for f in ("upd", "type", "isub", "lsub", "mver", "lver", "month", "day", "hour", "minute", "second", "flag", "mt"):
                for v in range(256):
                    b = build_lines(rng, ed)
                    b.insert(2, "msg.s1 %s=%d" % (f, v))
                    builds.append(b); kinds.append("oct")
            for c in list(range(0, 65536, 257)) + [65535]:
                b = build_lines(rng, ed)
                b.insert(2, "msg.s1 centre=%d" % (c % 256 if ed == 3 else c))
                builds.append(b); kinds.append("centre")
        # flag values that select Section 2 without bufr_sect2_set_data (bit 0 counts as well)
        for fl in (1, 128, 129, 2, 127, 254, 255):
            b = build_lines(rng, ed)
            b.insert(2, "msg.s1 flag=%d" % fl)
            builds.append(b); kinds.append("flag")
        # Section 1 extra data (even total for editions 2/3)
        fixed, dflt = (22, 22) if ed >= 4 else (17, 18)
        for ln, nd in ((dflt + 2, 0), (dflt + 2, 1), (dflt + 2, dflt + 2 - fixed), (dflt + 6, 3), (dflt + 1 if ed >= 4 else dflt + 4, 1)):
            d = bytes(rng.randrange(1, 256) for _ in range(nd))
            builds.append(build_lines(rng, ed, s1extra=(ln, d.hex() or "-"))); kinds.append("s1x")
    # 3. random
    for _ in range(1200 if quick else 12000):
        ed = rng.choice([2, 3, 4])
        s2 = rng.choice([None, None, bytes(rng.randrange(256) for _ in range(rng.randrange(0, 40)))])
        builds.append(build_lines(rng, ed, boundary=rng.random() < .3, s2=s2,
                                  header=rnd_header(rng, rng.choice(HCLASSES)), ndata=rng.choice([None, rng.randrange(0, 300)])))
        kinds.append("rand")
    # stored header strings that are not the reader's escaping: stray backslashes, \\n, short and non-octal escapes
    # (correspondence only: the oracle has no expectation for strings its reference un-escaping rejects)
    if 92 not in excluded_bytes():
        for _ in range(40 if quick else 400):
            st = bytes(rng.choice([92, 92, 92, 110, 48, 49, 55, 56, 57, 65, 66, 32, 9, 200]) for _ in range(rng.randrange(1, 12)))
            b = build_lines(rng, rng.choice([2, 3, 4]))
            b.insert(-1, "msg.header " + st.hex())
            builds.append(b); kinds.append("stored")
    # a larger message crossing the Section 4 growth boundary and BUFSIZ
    for ed in (3, 4):
        b = build_lines(rng, ed, ndata=0, kbits=0)
        b.insert(-1, "msg.s4 " + bytes(rng.randrange(256) for _ in range(9000 + ed)).hex())
        builds.append(b); kinds.append("big")

    written = get_written(runner, builds)
    out = []
    opened = known_open()
    for n, (b, kind, w) in enumerate(zip(builds, kinds, written)):
        writers = WRITERS
        if "C06-memwrite-null-zero-length" in opened and null_payload(b):
            writers = [p for p in WRITERS if p != "mem"]     # a section without a payload buffer (known finding)
        ls = list(b) + ["msg.show"] + (["msg.s1copy"] if kind in ("s1x", "s1b", "year", "rand") else []) + \
             ["msg.write " + p for p in writers] + ["msg.show"]
        if w is not None:
            hx = w.hex()
            ls += ["msg.read %s %s" % (p, hx) for p in READERS]
            if n % 7 == 0:
                ls += ["msg.read cb1 " + hx, "msg.read cb5 " + hx, "msg.read cb64 " + hx]
            if n % 5 == 0 and "mem" in writers:
                ls += ["msg.write mem %d" % len(w), "msg.write mem %d" % (len(w) + 1), "msg.write mem %d" % (len(w) - 1),
                       "msg.write mem %d" % rng.randrange(0, len(w)), "msg.write mem 0"]
            if n % 3 == 0:
                # read, adopt, write again: byte-identical
                ls += ["msg.read mem " + hx, "msg.adopt", "msg.show", "msg.write file"] + (["msg.write mem"] if "mem" in writers else [])
        out.append(Scenario("%s-%d" % (kind, n), ls))

    # 4. streams: k messages, separators without the marker, trailing bytes
    pool = [w for w in written if w is not None and len(w) < 400]
    def sep(rng):
        c = rng.random()
        if c < .2: return b""
        r = rnd_header(rng, rng.choice(HCLASSES[1:]))
        return r
    for n in range(300 if quick else 3000):
        k = rng.choice([1, 2, 2, 3, 4, 6, 9])
        parts = []
        for _ in range(k):
            w = rng.choice(pool)
            s = sep(rng)
            # the separator and the message's own header string together must stay free of the marker
            i = w.find(b"BUFR")
            if has_marker(s + w[:i + 3]):
                s = b""
            parts.append(s + w)
        tail = rng.choice([b"", b"", b"\r\r\n\x03", b"7777", b"BUF", b"BUFR", b"BUFR\x00\x00", sep(rng)])
        st = b"".join(parts) + tail
        ls = ["msg.readall %s %s" % (p, st.hex()) for p in READERS]
        if n % 10 == 0:
            ls.append("msg.readall cb3 " + st.hex())
        out.append(Scenario("stream-%d" % n, ls))

    # 5. model fidelity on foreign bytes: truncations, length mismatches (len_msg larger than the sections),
    #    unknown editions, garbage.  The oracle only insists that no message is reported where none is complete.
    some = [w for w in pool if len(w) < 120][: (30 if quick else 200)]
    for n, w in enumerate(some):
        ls = []
        i = w.find(b"BUFR")
        for cut in sorted(set(list(range(0, min(len(w), 40))) + list(range(max(0, len(w) - 12), len(w))))):
            ls.append("msg.read %s %s" % (READERS[cut % 4], w[:cut].hex() or "-"))
        out.append(Scenario("trunc-%d" % n, ls))
        ls = []
        L = i3(w[i + 4:i + 7])
        for extra in (1, 2, 5):
            w2 = bytearray(w)
            w2[i + 4:i + 7] = bytes([(L + extra) >> 16, ((L + extra) >> 8) & 255, (L + extra) & 255])
            w2 = bytes(w2[:-4]) + bytes(extra) + b"7777"
            for p in READERS:
                ls.append("msg.read %s %s" % (p, w2.hex()))
        for less in (1, 3, 4, 5, 7, 8, 12):      # len_msg smaller than the sections: refused, never a crash
            if L - less < 0: continue
            w2 = bytearray(w)
            w2[i + 4:i + 7] = bytes([(L - less) >> 16, ((L - less) >> 8) & 255, (L - less) & 255])
            ls.append("msg.read %s %s" % (READERS[less % 4], bytes(w2).hex() + "00112233445566778899aabbccddeeff" * 2))
        f4 = ref_parse(w[i:])
        if not isinstance(f4, str):
            p4 = i + 8 + f4["s1len"] + f4["s2len"] + f4["s3len"]
            for tiny in (0, 1, 2, 3):                # Section 4 shorter than its header, total consistent
                w2 = bytearray(w[:p4]) + bytes([0, 0, tiny, 0]) + b"7777" + bytes(range(32))
                L2 = 8 + f4["s1len"] + f4["s2len"] + f4["s3len"] + tiny + 4
                w2[i + 4:i + 7] = bytes([L2 >> 16, (L2 >> 8) & 255, L2 & 255])
                for pth in READERS:
                    ls.append("msg.read %s %s" % (pth, bytes(w2).hex()))
        for edn in (0, 1, 5, 6, 255):
            w2 = bytearray(w); w2[i + 7] = edn
            ls.append("msg.read mem " + bytes(w2).hex())
        w2 = bytearray(w); w2[-1] = 0x38
        ls.append("msg.read file " + bytes(w2).hex())
        out.append(Scenario("slack-%d" % n, ls))
    for n in range(60 if quick else 600):
        g = bytes(rng.choice(b"BUFR7\x00\x04\x5c\xff") for _ in range(rng.randrange(0, 60)))
        out.append(Scenario("garbage-%d" % n, ["msg.read %s %s" % (p, g.hex() or "-") for p in READERS]))
    out.append(Scenario("nomsg", ["msg.new 4", "msg.write cb", "msg.end", "msg.write cb", "msg.s4 aa", "msg.write cb",
                                  "msg.new 7", "msg.end", "msg.show", "msg.new 5", "msg.s3 0 0 1001", "msg.end", "msg.write mem", "msg.new 0", "msg.end", "msg.show"]))

    # 6. known-defect classes.  While a finding is registered as open in known_findings.json its corpus witness
    #    stands for it; once it is fixed (or unregistered) the class is generated and judged by the full oracle.
    dbuilds = []
    if "C06-header-eot" not in opened:
        for ed in (2, 3, 4):
            for r in (b"A\x04B", b"\x04", b"\x04\x04X", b"IUSA\x04"):
                dbuilds.append(build_lines(rng, ed, header=r))
    if "C06-header-backslash" not in opened:
        for ed in (2, 3, 4):
            for r in (b"A\\B", b"A\\101B", b"\\\\", b"C:\\dir\\file "):
                dbuilds.append(build_lines(rng, ed, header=r))
    dw = get_written(runner, dbuilds) if dbuilds else []
    for n, (b, w) in enumerate(zip(dbuilds, dw)):
        ls = list(b) + ["msg.write " + p for p in WRITERS]
        if w is not None:
            ls += ["msg.read %s %s" % (p, w.hex()) for p in READERS]
            ls += ["msg.read mem " + w.hex(), "msg.adopt", "msg.write cb"]
        out.append(Scenario("defect-%d" % n, ls))
    return out

# ----------------------------------------------------------------------------- reporting helpers

def _hclass(h):
    if h is None: return "none"
    if any(c <= 32 or c == 127 for c in h): return "ctl"
    if any(c >= 128 for c in h): return "high"
    return "plain"

def signature(scn, outs):
    sig = set()
    for i, t, o, it in walk(scn, outs):
        if t[0] == "msg.write" and it is not None:
            rc = o.split(" ", 1)[0]
            sig.add(("w", t[1], it.ed, bool(it.s1["flag"] & 129), len(it.s2) % 2, _hclass(it.header),
                     len(it.bits) // 8 % 2, len(it.bits) % 8, rc if rc in ("-1", "stale", "fault") else "ok", len(t)))
        elif t[0] in ("msg.read", "msg.readall"):
            b = unhex(t[2])
            j = b.find(b"BUFR")
            ed = b[j + 7] if 0 <= j and j + 7 < len(b) else -1
            sig.add((t[0], t[1], ed, _hclass(b[:j]) if j > 0 else "none", o.split(" ", 1)[0] if t[0] == "msg.read" else o.rsplit("n=", 1)[-1].split()[0],
                     len(b) % 2))
    return sig

def classify(scn, outs):
    return [scn.name.split("-")[0].split(":")[0]]

def neighbourhood(scn, rng, tier):
    """the same ops in the other editions and through the other paths"""
    for ed in (2, 3, 4):
        ls = []
        for l in scn.lines:
            t = l.split()
            if t[0] == "msg.new": t[1] = str(ed)
            ls.append(" ".join(t))
        yield Scenario("nb", ls)
    for p in READERS:
        ls = []
        for l in scn.lines:
            t = l.split()
            if t[0] in ("msg.read", "msg.readall"): t[1] = p
            ls.append(" ".join(t))
        yield Scenario("nb", ls)
