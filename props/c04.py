"""C04 — the decoder accepts every well-formed FM 94 message and returns the encoded values.
Inputs come from the *reference encoder* (BufrSpec/RefEncode.lean) exercising the freedoms FM 94
leaves to an encoder; every generated data section is first checked against the reference decoder."""
import os
from vlib.engine import Scenario
from vlib import tables
from gen import regs, datasets
from props.c10 import parse_nodes
from props import c01, c09

ID = "C04"
THEOREMS = ["Bufr.C04.C04_const_column", "Bufr.C04.C04_listed_column", "Bufr.C04.C04_listed_column_spec", "Bufr.C04.C04_element", "Bufr.C04.C04_minNbinc_pos", "Bufr.C04.C04_character_column_listed", "Bufr.C04.C04_character_column_const", "Bufr.C04.C04_af_column_listed",
            "Bufr.C04.C04_marker_refers", "Bufr.C04.C04_bitmap_evaluated",
            "Bufr.C04.C04_bitmap_index", "Bufr.C04.C04_bitmap_bits"]
RULE = ("datasets of the C01/C02 space, re-encoded by the reference encoder with non-minimal increment widths "
        "(minimal..element width), local reference values anywhere below the minimum, explicit increments for constant "
        "columns, arbitrary R0 for listed strings, foreign compression of uncompressed data and vice versa, trailing "
        "pad bits; the implementation must decode them to the values that were encoded, not flagged invalid; "
        "distinct = distinct (kind, width class, compressed?, variant)")
ASSUMPTIONS = c01.ASSUMPTIONS + ["message-level freedoms (Section 2, header bytes, odd section lengths) are exercised through C06's readers"]
P = c01.P
prepare = c01.prepare

def scenarios(rng, tier, runner):
    """stage 1: build with the implementation and encode; stage 2: reference re-encoding in the
    driver; stage 3 (returned): decode the variants with implementation and model"""
    n = 500 if tier == "quick" else 6000
    stage1 = []
    for i in range(n):
        name = rng.choice(["cur", "loc", "syn", "syn", "v13"])
        B, D = P[name]
        comp = rng.choice([0, 1, 1])
        ls, meta = datasets.build_lines(rng, name, B, D, nsub=rng.choice([1, 2, 3, 4, 5]),
                                        same_structure=rng.random() < 0.85, edition=rng.choice([3, 4, 4]))
        ls += ["ds.invalid", "ds.encode %d" % comp]
        meta["comp"] = comp
        stage1.append(Scenario("b-%d" % i, ls, meta))
    from vlib.engine import run_all
    c1 = run_all(runner, stage1, "impl")
    stage2, keep = [], []
    for s, (out, crash) in zip(stage1, c1):
        if crash or len(out) != len(s.lines):
            continue
        if out[-2] != "0":
            continue
        enc = out[-1].split()
        if len(enc) != 3:
            continue
        lists = datasets.subset_views(s, out, "ss.list")
        ed = s.meta["ed"]
        B = P[s.meta["tables"]][0]
        skip = False
        for k in lists:
            if lists[k] in ("none", "-"):
                skip = True; break
            its = [nd["desc"] for nd in c09.items_of(parse_nodes(lists[k]))]
            if c09.in_scope(ed, its) or any(regs.F(d) == 0 and d not in B for d in its):
                skip = True
        if skip:
            continue
        tm = next(l for l in s.lines if l.startswith("tm.new")).split()
        vs = [rng.randrange(1, 2 ** 31) for _ in range(2 if tier == "quick" else 3)]
        stage2.append(Scenario(s.name, ["T.use " + s.meta["tables"]] +
                               ["spec.reencode %s %s %s %s %s %d" % (tm[1], enc[0], enc[1], ",".join(tm[2:]), enc[2], v) for v in vs]))
        keep.append((s, out, tm, enc, vs))
    l2 = run_all(runner, stage2, "lean")
    out = []
    for (s, o1, tm, enc, vs), (o2, crash) in zip(keep, l2):
        if crash:
            continue
        for v, r in zip(vs, o2[1:]):
            f = r.split()
            if len(f) != 2:
                out.append(Scenario("specfail-" + s.name, ["T.use " + s.meta["tables"]], {"specfail": r, "orig": s.lines, "re": "spec.reencode %s %s %s %s %s %d" % (tm[1], enc[0], enc[1], ",".join(tm[2:]), enc[2], v)}))
                continue
            nsub = int(enc[1])
            if rng.random() < 0.3:
                # message-level freedoms: optional Section 2 (any length, odd in edition 4), a leading bulletin
                # header (also one ending in a prefix of the start marker), a message longer than 65535 octets
                from gen import frame
                s2 = None
                r = rng.random()
                if r < 0.5:
                    s2 = bytes(rng.randrange(256) for _ in range(rng.choice([0, 1, 2, 5, 8, 31])))
                elif r < 0.53:
                    s2 = bytes(66000)
                hdr = rng.choice([b"", b"", b"\r\r\nIUSC01 CWAO 121200\r\r\n", b"TYPE=BU", b"xxB", b"FORMAT:BUF", b"001\r\r\nISMN20 LOWM 290000 RRB"])
                msg = frame.frame(int(tm[1]), int(f[0]), nsub, [int(d) for d in tm[2:]], bytes.fromhex(f[1]) if f[1] != "-" else b"", s2=s2, header=hdr)
                ls = ["T.use " + s.meta["tables"], "ds.decodemsg " + msg.hex()]
                meta_len = len(msg) - len(hdr)
            else:
                ls = ["T.use " + s.meta["tables"],
                      "ds.decode %s 1 %s %s 0 0 %s %s" % (tm[1], f[0], enc[1], ",".join(tm[2:]), f[1])]
                meta_len = None
            for k in range(nsub):
                ls += ["dd.list %d" % k, "dd.vals %d" % k]
            meta = dict(s.meta)
            meta["built_l"] = datasets.subset_views(s, o1, "ss.list")
            meta["built_v"] = datasets.subset_views(s, o1, "ss.vals")
            meta["variant"] = (int(f[0]) & 64, v % 7, "msg" if meta_len else "s4")
            meta["msglen"] = meta_len
            out.append(Scenario("dec-%s-%d" % (s.name, v % 1000), ls, meta))
    return out + bitmap_scenarios(rng, tier)

def bitmap_scenarios(rng, tier):
    """data present bit-maps with marker operators: messages written from FM 94 by gen/bitmap.py, judged by the
    values computed there (`expect` lines) and tied to the model (BufrModel/Bitmap.lean)"""
    from gen import bitmap
    out = []
    B, D = P["cur"]
    for i in range(60 if tier == "quick" else 1500):
        msg, t, expect, info = bitmap.build(rng, B)
        ls = ["T.use cur", "ds.decodemsg " + msg.hex()]
        for k, ex in enumerate(expect):
            ls += ["dd.vals %d" % k, bitmap.expect_line(ex)]
        out.append(Scenario("bitmap-%d" % i, ls, {"family": "bitmap", "lastbit": info["bitmap"][-1], "tables": "cur"}))
    # bit-maps over elements that include character inserts (2 05 YYY), operators, associated fields, replications:
    # tied only (FM 94 leaves open whether 2 05 YYY counts as a data entity; the library counts it, and so does the model)
    for i in range(60 if tier == "quick" else 1500):
        if i % 3 == 1:
            msg, t, nsub = bitmap.build_insert(rng, B, compressed=(i % 2 == 0))
        else:
            msg, t, nsub = bitmap.build_wild(rng, B, D, compressed=(i % 3 == 0))
        ls = ["T.use cur", "ds.decodemsg " + msg.hex()]
        for k in range(nsub):
            ls += ["dd.list %d" % k, "dd.vals %d" % k]
        out.append(Scenario("bitmapw-%d" % i, ls, {"family": "bitmap-wild", "tables": "cur"}))
    return out

def check_expect(scn, outs):
    """`expect` lines (an op neither side knows: both answer bad-op) carry what the `dd.vals` line before them must
    show: `-` no value, `m` missing, `p/q` the exact rational the raw pattern stands for"""
    from fractions import Fraction
    for i, l in enumerate(scn.lines):
        if not l.startswith("expect ") or i == 0 or i >= len(outs):
            continue
        want = l.split()[1:]
        got = outs[i - 1].split()
        dec = next((outs[j] for j in range(i - 1, -1, -1) if scn.lines[j].startswith("ds.decode")), "")
        f = dec.split()
        if not f:
            return None          # a shrunk scenario without its decode
        if f[:1] == ["read"]: f = f[2:]
        if f[:1] != ["ok"]:
            return "refused: a well-formed message with a data present bit-map: %s" % dec
        if f[1] != "0":
            return "invalid: a well-formed message with a data present bit-map was decoded as invalid"
        if len(got) != len(want):
            return "%s: %d values decoded where the message holds %d" % (scn.lines[i - 1], len(got), len(want))
        for j, (w, g) in enumerate(zip(want, got)):
            pv, _ = c01.parse_val(g)
            if w == "-":
                ok = pv == ("none",)
            elif w == "m":
                ok = pv == ("miss",)
            else:
                p, q = w.split("/"); e = Fraction(int(p), int(q))
                ok = pv[0] == "num" and (pv[1] == e or pv[1] == Fraction(float(e)))
            if not ok:
                return "%s: node %d decoded as %s where the message holds %s" % (scn.lines[i - 1], j, g, w)
    return None

def compare(scn, lscn, cr, lr):
    if scn.meta.get("nomodel") or any(l.startswith("expect ") for l in scn.lines):
        # judged by the values written next to it (`expect`), not by the model: bit-map operators are outside it
        from vlib.engine import compare as cmp0
        return cmp0(scn, cr, (list(cr[0]), None), None)
    return c01.compare(scn, lscn, cr, lr)

def oracle(scn, outs):
    if any(l.startswith("expect ") for l in scn.lines):
        return check_expect(scn, outs)
    if "specfail" in scn.meta:
        return "reference encoder/decoder disagree with each other (%s): specification bug" % scn.meta["specfail"]
    built_l, built_v = scn.meta.get("built_l"), scn.meta.get("built_v")
    if not built_l:
        return None
    dec = next((o for l, o in zip(scn.lines, outs) if l.startswith("ds.decode")), None)
    if dec is None:
        return None
    f = dec.split()
    if f[0] == "read":
        f = f[2:]
    if not f or f[0] != "ok":
        return "a well-formed message was refused: %s" % dec
    if f[1] != "0":
        return "a well-formed message decodes as invalid"
    if int(f[2]) != len(built_l):
        return "decoded %s subsets, %d were encoded" % (f[2], len(built_l))
    dec_l = datasets.subset_views(scn, outs, "dd.list")
    dec_v = datasets.subset_views(scn, outs, "dd.vals")
    for k in sorted(built_l):
        a, b = parse_nodes(built_l[k]), parse_nodes(dec_l.get(k, "-"))
        if [(n["desc"], bool(n["flags"] & 4)) for n in a] != [(n["desc"], bool(n["flags"] & 4)) for n in b]:
            return "subset %d: decoded descriptor sequence differs from the encoded one" % k
        va, vb = built_v.get(k, "").split(), dec_v.get(k, "").split()
        for i, (x, y, n) in enumerate(zip(va, vb, a)):
            if n["flags"] & 4:
                continue
            if n["type"] == 4 and n["nbits"] > 32 and (n["scale"] != 0 or n["ref"] != 0):
                continue
            if n["type"] == 8 and c01.parse_val(x)[0][0] in ("miss", "none"):
                continue
            if not c01.same_value(x, y, n["scale"], n["af"], n["ref"]):
                return "subset %d item %d (%06d, %d bits): encoded %s, decoded %s" % (k, i, n["desc"], n["nbits"], x, y)
    return None

def signature(scn, outs):
    sig = set()
    for o in (scn.meta.get("built_l") or {}).values():
        if o in ("none", "-"): continue
        for n in parse_nodes(o):
            if n["flags"] & 4: continue
            sig.add((n["type"], min(n["nbits"], 40) // 4, n["af"] > 0, scn.meta.get("variant")))
    return sig

def classify(scn, outs):
    v = scn.meta.get("variant", ("?", "?"))
    return ["compressed=%s" % v[0], "orig_comp=%s" % scn.meta.get("comp")]
