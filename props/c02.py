"""C02 — compression never changes content; incompressible datasets fall back safely."""
import os
from vlib.engine import Scenario
from vlib import tables
from gen import templates, regs, datasets
from props.c10 import parse_nodes
from props import c01

ID = "C02"
THEOREMS = ["Bufr.C02.C02_single_subset_not_compressed", "Bufr.C02.C02_numeric_column", "Bufr.C02.C02_plan_sound", "Bufr.C02.C02_fallback", "Bufr.C02.C02_flag", "Bufr.C02.C02_same_value_function", "Bufr.C02.C02_af_column", "Bufr.C02.C02_character_column", "Bufr.C02.C02_equal_strings_same_octets", "Bufr.C02.C02_static_compressed", "Bufr.C02.C02_position", "Bufr.C02.C02_ieee_column"]
RULE = ("multi-subset datasets: columns all equal / all missing / partly missing / full-width spans, character columns "
        "equal/different/missing, associated fields equal/different, delayed replication with equal counts, different "
        "counts, and different counts of equal total length; encode with compression requested, decode, compare with "
        "the uncompressed encoding of the same dataset; distinct = distinct (column class, type, flag outcome)")
ASSUMPTIONS = c01.ASSUMPTIONS
P = c01.P

def prepare(runner, work):
    c01.prepare(runner, work)

def string_family(rng, count, tail):
    """datasets whose character columns are prefixes / extensions of one another, blank, or missing"""
    out = []
    words = [b"", b"A", b"AB", b"AB ", b"ABC", b"LINZ", b"LINZ HOERSCHING", b"LINZ HOERSCHINH", b"  ", b" LINZ", b"linz", b"LINZ\xff", None]
    for i in range(count):
        cc = rng.choice([1015, 1019, 1011, 1063])
        t = [cc, 12101] if rng.random() < 0.7 else [208000 + rng.choice([3, 5, 16]), cc, 208000, 12101]
        ix = t.index(cc)
        nsub = rng.choice([2, 3, 4])
        ls = ["T.use cur", "tm.new 4 " + " ".join("%06d" % d for d in t)]
        for k in range(nsub):
            ls += ["ss.new", "ss.fill %d %d 1" % (k, 5 + k)]
            w = rng.choice(words)
            if w is not None:
                ls.append("ss.setstr %d %d %s" % (k, ix, w.hex() or "-"))
        for k in range(nsub):
            ls += ["ss.list %d" % k, "ss.vals %d" % k]
        ls += tail(nsub)
        out.append(Scenario("strs-%d" % i, ls, {"tables": "cur", "ed": 4, "template": t, "nsub": nsub, "comp": 1,
                                                 "seeds": [(5 + k, 1) for k in range(nsub)]}))
    return out

def scenarios(rng, tier, runner):
    out = []
    n = 700 if tier == "quick" else 10000
    for i in range(n):
        name = rng.choice(["cur", "loc", "syn", "syn", "v13"])
        B, D = P[name]
        same = rng.random() < 0.75
        modes = rng.choice([None, [2], [4], [0], [1], [2, 4], [3, 0], [1, 1, 4]])
        ls, meta = datasets.build_lines(rng, name, B, D, nsub=rng.choice([2, 2, 3, 4, 6]), same_structure=same, modes=modes)
        if rng.random() < 0.25:
            # identical subsets: every column equal
            s0 = meta["seeds"][0]
            ls = [("ss.fill %s %d %d" % (l.split()[1], s0[0], s0[1]) if l.startswith("ss.fill") else l) for l in ls]
        ls += ["ds.invalid", "ds.encode 1", "ds.decodelast 1 0 0"]
        for k in range(meta["nsub"]):
            ls += ["dd.list %d" % k, "dd.vals %d" % k]
        ls += ["ds.encode 0", "ds.decodelast 1 0 0"]
        for k in range(meta["nsub"]):
            ls += ["dd.vals %d" % k]
        out.append(Scenario("cmp-%d" % i, ls, meta))
    # a dataset that carries the COMPRESSED flag (decoded from a compressed message) and is then changed so that
    # it is no longer compressible: the encoder must still fall back
    for i in range(60 if tier == "quick" else 800):
        name = rng.choice(["cur", "loc", "syn"])
        B, D = P[name]
        nsub = rng.choice([2, 3])
        while True:
            ls, meta = datasets.build_lines(rng, name, B, D, nsub=nsub, same_structure=True, depth=rng.choice([1, 2, 2, 3]))
            if not any(d // 1000 == 203 for d in meta["template"]) and regs.operators_defined(meta["ed"], meta["template"], D):
                break       # new reference values need the settle-and-refill protocol of the generator; operators the
                            # edition does not define are applied by the (warning) decoder and not by the (strict) builder
        ls += ["ds.invalid", "ds.encode 1", "ds.decodelast 1 0 0", "dd.tocur", "ss.new",
               "ss.setfactors %d %s" % (nsub, rng.choice(datasets.FACTOR_SETS)), "ss.expand %d" % nsub,
               "ss.setfactors %d %s" % (nsub, rng.choice(datasets.FACTOR_SETS)), "ss.expand %d" % nsub,
               "ss.fill %d %d %d" % (nsub, rng.randrange(1, 2 ** 31), rng.choice([0, 1, 1, 4]))]
        for k in range(nsub + 1):
            ls += ["ss.list %d" % k, "ss.vals %d" % k]
        ls += ["ds.invalid", "ds.encode %d" % rng.choice([1, 1, -1]), "ds.decodelast 1 0 0"]
        for k in range(nsub + 1):
            ls += ["dd.list %d" % k, "dd.vals %d" % k]
        meta = dict(meta); meta["nsub"] = nsub + 1; meta["family"] = "flagged"
        out.append(Scenario("flagged-%d" % i, ls, meta))
    out += string_family(rng, 40 if tier == "quick" else 600,
                         lambda nsub: ["ds.invalid", "ds.encode 1", "ds.decodelast 1 0 0"] +
                                      [x for k in range(nsub) for x in ("dd.list %d" % k, "dd.vals %d" % k)])
    # equal total length, different structure: two delayed groups with counts (1,2) and (2,1)
    for i in range(20 if tier == "quick" else 200):
        B, D = P["cur"]
        e1, e2 = 12101, 10004
        t = [101000, 31001, e1, 101000, 31001, e2]
        ls = ["T.use cur", "tm.new 4 " + " ".join("%06d" % d for d in t)]
        for k, fs in enumerate(["1 2", "2 1", rng.choice(["1 2", "2 1", "3 0"])]):
            ls += ["ss.new", "ss.setfactors %d %s" % (k, fs), "ss.expand %d" % k, "ss.fill %d %d 1" % (k, rng.randrange(1, 10 ** 6))]
        for k in range(3):
            ls += ["ss.list %d" % k, "ss.vals %d" % k]
        ls += ["ds.invalid", "ds.encode 1", "ds.decodelast 1 0 0"] + [x for k in range(3) for x in ("dd.list %d" % k, "dd.vals %d" % k)]
        out.append(Scenario("eqlen-%d" % i, ls, {"tables": "cur", "ed": 4, "template": t, "nsub": 3}))
    # replication factors holding all ones (0 31 000 = 1, 0 31 001 / 0 31 011 = 255): a count, never a missing value
    for i in range(12 if tier == "quick" else 150):
        B, D = P["cur"]
        fac = rng.choice([31001, 31001, 31011, 31000])
        body = [templates.pick_element(rng, B) for _ in range(rng.choice([1, 2]))]
        if fac == 31011:
            body = body[:1]
        t = [templates.pick_element(rng, B) for _ in range(rng.choice([0, 1]))] + [100000 + 1000 * len(body), fac] + body + \
            [templates.pick_element(rng, B)]
        nsub = rng.choice([2, 3])
        ls = ["T.use cur", "tm.new %d %s" % (rng.choice([3, 4]), " ".join("%06d" % d for d in t))]
        same = rng.random() < 0.5
        for k in range(nsub):
            ls += ["ss.new", "ss.setfactors %d 255" % k, "ss.expand %d" % k,
                   "ss.fill %d %d %d" % (k, 9 if same else rng.randrange(1, 10 ** 6), rng.choice([1, 1, 0]))]
        for k in range(nsub):
            ls += ["ss.list %d" % k, "ss.vals %d" % k]
        ls += ["ds.invalid", "ds.encode 1", "ds.decodelast 1 0 0"] + [x for k in range(nsub) for x in ("dd.list %d" % k, "dd.vals %d" % k)]
        out.append(Scenario("allones-%d" % i, ls, {"tables": "cur", "ed": 4, "template": t, "nsub": nsub}))
    # wide character columns that differ (NBINC field is 6 bits: at most 63 octets)
    for w in (60, 63, 64, 100, 255):
        t = [208000 + w, 1015, 208000, 12101]
        ls = ["T.use cur", "tm.new 4 " + " ".join("%06d" % d for d in t)]
        for k in range(3):
            ls += ["ss.new", "ss.fill %d %d 1" % (k, 77 + k)]
        for k in range(3):
            ls += ["ss.list %d" % k, "ss.vals %d" % k]
        ls += ["ds.invalid", "ds.encode 1", "ds.decodelast 1 0 0"] + [x for k in range(3) for x in ("dd.list %d" % k, "dd.vals %d" % k)]
        out.append(Scenario("wide-%d" % w, ls, {"tables": "cur", "ed": 4, "template": t, "nsub": 3}))
    # wide associated fields: columns of 32..64-bit fields whose values sit at the ends of the range
    # (the increments of a 64-bit column spanning the whole range do not fit NBINC's 6 bits)
    for i in range(30 if tier == "quick" else 400):
        aw = rng.choice([64, 64, 64, 63, 33, 32])
        t = [204000 + aw, 31021, rng.choice([12101, 10004, 20003]), 1015, 204000, 12101]
        nsub = rng.choice([2, 3, 4])
        top = (1 << aw) - 1
        pool = [0, 1, top, top - 1, 1 << (aw - 1), (1 << (aw - 1)) - 1, (1 << (aw - 1)) + 1, rng.randrange(0, top + 1), rng.randrange(0, top + 1)]
        same = rng.random() < 0.2
        ls = ["T.use cur", "tm.new %d %s" % (rng.choice([3, 4]), " ".join("%06d" % d for d in t))]
        for k in range(nsub):
            ls += ["ss.new", "ss.fill %d %d 1" % (k, rng.randrange(1, 10 ** 6))]
        v0 = rng.choice(pool)
        for k in range(nsub):
            ls.append("ss.setraw %d 2 %d %d" % (k, rng.choice([0, 5, 1000]), v0 if same else rng.choice(pool)))
        for k in range(nsub):
            ls += ["ss.list %d" % k, "ss.vals %d" % k]
        ls += ["ds.invalid", "ds.encode 1", "ds.decodelast 1 0 0"] + [x for k in range(nsub) for x in ("dd.list %d" % k, "dd.vals %d" % k)]
        out.append(Scenario("afwide-%d" % i, ls, {"tables": "cur", "ed": 4, "template": t, "nsub": nsub}))
    return out

two_pass = c01.two_pass
compare = c01.compare

def oracle(scn, outs):
    for l, o in zip(scn.lines, outs):
        if o == "exit" or o.endswith(" exit"):
            return "the library terminated the process (exit) at %s" % l.split()[0]
        if o == "abort":
            if l.startswith("ds.encode") or l.startswith("ds.decode"):
                return "the encoder/decoder terminated the process (abort)"
            # refused while the dataset was being built (e.g. more than 64 bits of associated field:
            # "current implementation does not support"): there is no dataset for the property to speak of
            return None
    inv = "0"
    pending = set()
    # walk the scenario: the dataset as listed before each ds.encode is what that message must decode to
    live_l, live_v = {}, {}
    built_l, built_v = None, None
    cur_enc, cur_dec = None, None
    for l, o in zip(scn.lines, outs):
        t = l.split()
        if t[0] == "ss.list" and len(t) == 2: live_l[int(t[1])] = o
        elif t[0] == "ss.vals" and len(t) == 2: live_v[int(t[1])] = o
        elif t[0] in ("ss.fill", "ss.setraw", "ss.setstr", "ss.expand") and len(t) > 1 and t[1].isdigit():
            live_l.pop(int(t[1]), None); live_v.pop(int(t[1]), None)      # listing out of date
            if t[0] == "ss.expand": pending.discard(t[1])
        elif t[0] == "ss.setfactors": pending.add(t[1])
        elif t[0] in ("dd.tocur", "tm.new"):
            live_l, live_v = {}, {}
        elif l == "ds.invalid":
            inv = o
        elif t[0] == "ds.encode":
            cur_enc = (int(t[1]), o.split())
            built_l, built_v = dict(live_l), dict(live_v)
            usable = (inv == "0" and not pending and len(cur_enc[1]) == 3 and built_l and
                      set(built_l) == set(range(int(cur_enc[1][1]))) and set(built_v) == set(built_l) and
                      not any(v in ("none", "-") for v in built_l.values()))
            if usable and any(n["type"] in (4, 5, 6, 7, 8, 9) and n["nbits"] <= 0 and not (n["flags"] & 4)
                              for v in built_l.values() for n in parse_nodes(v)):
                usable = False    # an operator reduced an element's width to zero or less: not a width FM 94 knows (cf. C09)
            if not usable:
                built_l = None
        elif t[0] == "ds.decodelast":
            cur_dec = o.split()
            if built_l is None or cur_enc is None:
                cur_dec = None
                continue
            if cur_dec[0] != "ok":
                return "decoding the library's own message (compress=%d) failed: %s" % (cur_enc[0], o)
            if cur_dec[1] != "0":
                return "message encoded with compress=%d decodes as invalid" % cur_enc[0]
            if int(cur_dec[2]) != len(built_l):
                return "compress=%d: decoded %s subsets, encoded %d" % (cur_enc[0], cur_dec[2], len(built_l))
            same_structure = len(set(len(parse_nodes(v)) for v in built_l.values())) == 1
            flag_c = bool(int(cur_enc[1][0]) & 64)
            if flag_c and not same_structure:
                return "subsets of different structure were written in compressed form"
        elif t[0] == "dd.list" and cur_dec and cur_dec[0] == "ok" and built_l:
            k = int(t[1])
            a, b = parse_nodes(built_l.get(k, "-")), parse_nodes(o)
            if [(n["desc"], bool(n["flags"] & 4)) for n in a] != [(n["desc"], bool(n["flags"] & 4)) for n in b]:
                return "compress=%d subset %d: decoded descriptor sequence differs from the encoded one" % (cur_enc[0], k)
        elif t[0] == "dd.vals" and cur_dec and cur_dec[0] == "ok" and built_l:
            k = int(t[1])
            a = parse_nodes(built_l.get(k, "-"))
            va, vb = built_v.get(k, "").split(), o.split()
            for i, (x, y, n) in enumerate(zip(va, vb, a)):
                if n["flags"] & 4:
                    continue
                if n["type"] == 4 and n["nbits"] > 32 and (n["scale"] != 0 or n["ref"] != 0):
                    continue
                if not c01.same_value(x, y, n["scale"], n["af"], n["ref"]):
                    return "compress=%d subset %d item %d (%06d, %d bits): value %s decoded as %s" % (
                        cur_enc[0], k, i, n["desc"], n["nbits"], x, y)
    return None

def signature(scn, outs):
    sig = set()
    enc = [o.split()[0] for l, o in zip(scn.lines, outs) if l.startswith("ds.encode 1")]
    views = datasets.subset_views(scn, outs, "ss.vals")
    lists = datasets.subset_views(scn, outs, "ss.list")
    if not lists or any(v in ("none", "-") for v in lists.values()):
        return sig
    cols = list(zip(*[v.split() for v in views.values()])) if views else []
    nodes0 = parse_nodes(lists[min(lists)])
    for n, col in zip(nodes0, cols):
        if n["flags"] & 4: continue
        kinds = set(c01.parse_val(x)[0][0] for x in col)
        sig.add((n["type"], min(n["nbits"], 40) // 8, len(set(col)) == 1, "miss" in kinds, n["af"] > 0, tuple(enc)))
    return sig

def classify(scn, outs):
    c = [scn.name.split("-")[0]]
    enc = next((o.split()[0] for l, o in zip(scn.lines, outs) if l.startswith("ds.encode 1")), "?")
    c.append("flag=" + enc)
    return c
