"""C20 — local table update messages round-trip the tables they carry.

Streams (exact tie, ops lt.* of harness/ops_local.c and lean/Driver/OpsLocal.lean):
  rt     a table set of local B/D entries -> bufr_store_tables -> read -> decode -> bufr_extract_tables
         -> merge; then datasets over the local descriptors are encoded once and decoded under the
         original and under the extracted table set
  size   0..300 B x 0..50 D entries, count boundaries 255/256/257
  field  every printed field at its boundaries, one entry at a time
  foreign table update messages written by the oracle's own encoder (compressed and not, several
         subsets, zero counts) and mutated messages (model fidelity, no crash)

The oracle is written from the property and from the layout of the WMO class 00 elements
(3 00 004 / 3 00 010), not from the model: it has its own merge, trimming, type inference and
message writer.
"""
import os, random
from vlib.engine import Scenario
from vlib import tables
from gen import datasets, templates, regs

ID = "C20"
THEOREMS = ["Bufr.C20.C20_fields_number", "Bufr.C20.C20_fields_signed", "Bufr.C20.C20_fields_text",
            "Bufr.C20.C20_fields_fxy", "Bufr.C20.C20_extract_items", "Bufr.C20.C20_section3", "Bufr.C20.C20_section4",
            "Bufr.C20.C20_refdecode", "Bufr.C20.C20_roundtrip_partial", "Bufr.C20.C20_decodes_alike",
            "Bufr.C20.C20_decode_congr"]
RULE = ("table sets of 0..300 B and 0..50 D entries (count boundaries 254..257), names of 0..100 characters incl. exactly "
        "32/33/64/65, blanks at the line split, trailing white space, lower case, punctuation, high bytes; units of the "
        "four type keywords in every accepted spelling and arbitrary text up to 30 characters; scale -999..999 and beyond, "
        "references over the whole int range incl. -2^31 and the 9/10 digit boundary, widths 0..999 and beyond; D sequences "
        "with fixed and delayed replication and nested local sequences, 1..255 members and beyond; editions 2, 3, 4; "
        "foreign messages compressed and not; distinct = distinct (stream, edition, count class, field classes, outcome)")
ASSUMPTIONS = [
    "a table update message carries at most 64 characters of a name and 24 of a unit, |scale| <= 999, width <= 999, "
    "at most 255 members per sequence (WMO 3 00 004 / 3 00 010): beyond that the oracle expects the documented truncation "
    "of the text fields and makes no demand on the numeric ones",
    "the data type of an entry is what bufr_unit_to_datatype makes of its unit (every loader sets it so)",
    "the tables in force when the message is decoded define the class 00 elements as WMO does (shipped master tables)",
    "bufr_extract_tables returns the entries in message order; the property compares the merged tables",
    "uninitialised automatic storage is made reproducible by the harness (stack poisoning before bufr_extract_tables)",
]
CRASH_IS_VIOLATION = True
P = {}

def prepare(runner, work):
    sets = {"cur": tables.shipped("cur") + ("-", "-"), "v13": tables.shipped("v13") + ("-", "-")}
    P.clear()
    P.update(tables.setup_tables(runner, sets))

# ----------------------------------------------------------------------------- reference semantics

SPACE = b" \t\n\v\f\r"

def H(b):
    return b.hex() if b else "-"
def unH(s):
    return b"" if s == "-" else bytes.fromhex(s)

def unit_type(u):
    """the documented rule of bufr_unit_to_datatype: prefix of the upper-cased unit"""
    s = u.upper()          # bytes.upper: ASCII only, as toupper in the C locale
    if s.startswith(b"NUMERI"): return 4
    for k in (b"FLAG TABLE", b"TABLE FLAG", b"TABLEFLAG", b"MARQUEURS", b"FLAGTABLE"):
        if s.startswith(k): return 7
    for k in (b"TABLE CODE", b"TABLECODE", b"CODE TABLE", b"CODETABLE"):
        if s.startswith(k): return 6
    for k in (b"CCITT IA5", b"CCITTIA5"):
        if s.startswith(k): return 5
    return 4

def rstrip_c(b):
    return b.rstrip(SPACE)

class EB:
    __slots__ = ("desc", "name", "unit", "scale", "ref", "width")
    def __init__(self, desc, name, unit, scale, ref, width):
        self.desc, self.name, self.unit, self.scale, self.ref, self.width = desc, name, unit, scale, ref, width
    def tok(self):
        return "B:%d:%s:%s:%d:%d:%d" % (self.desc, H(self.name), H(self.unit), self.scale, self.ref, self.width)
    def listing(self):
        return "B:%d:%s:%s:%d:%d:%d:%d" % (self.desc, H(self.name), H(self.unit), self.scale, self.ref, self.width, unit_type(self.unit))
    def carried(self):
        """what the message can carry of this entry: the text fields cut to their element widths, then trimmed"""
        return EB(self.desc, rstrip_c(self.name[:64]), rstrip_c(self.unit[:24]), self.scale, self.ref, self.width)
    def numbers_in_range(self):
        return abs(self.scale) <= 999 and -2 ** 31 <= self.ref < 2 ** 31 and 0 <= self.width <= 999 and self.desc < 10 ** 6

class ED:
    __slots__ = ("desc", "members")
    def __init__(self, desc, members):
        self.desc, self.members = desc, list(members)
    def tok(self):
        return "D:%d:%s" % (self.desc, ",".join(str(m) for m in self.members))
    listing = tok
    def in_range(self):
        return len(self.members) <= 255 and all(m < 10 ** 6 for m in self.members) and self.desc < 10 ** 6

def merged(entries):
    """bufr_merge_tables into empty local arrays: sorted by descriptor, the last entry of a descriptor wins"""
    b, d = {}, {}
    for e in entries:
        (b if isinstance(e, EB) else d)[e.desc] = e
    return [b[k] for k in sorted(b)], [d[k] for k in sorted(d)]

def norm_cat_desc(s):
    s = bytes(32 if c in SPACE else c for c in s[:64])
    return s + b" " * (64 - len(s))

# ----------------------------------------------------------------------------- reference writer (foreign messages)

class Bits:
    def __init__(self):
        self.v, self.n = 0, 0
    def put(self, val, w):
        self.v = (self.v << w) | (val & ((1 << w) - 1)); self.n += w
    def puts(self, b):
        for c in b: self.put(c, 8)
    def bytes(self):
        pad = (-self.n) % 8
        return ((self.v << pad).to_bytes((self.n + pad) // 8, "big")) if self.n else b""

def pad(b, n):
    return b[:n] + b" " * (n - len(b[:n]))

def frame(ed, descs, s4, nsub=1, flag=0, mtype=11):
    if ed >= 4:
        s1 = bytes([0, 0, 22, 0, 0, 54, 0, 0, 0, 0, mtype, 0, 0, 17, 0, 0, 0, 0, 0, 0, 0, 0])
    else:
        s1 = bytes([0, 0, 18, 0]) + (bytes([0, 54]) if ed == 2 else bytes([0, 54])) + bytes([0, 0, mtype, 0, 17, 0, 0, 0, 0, 0, 0, 0])
    d = b"".join(((regs.F(x) << 14) | (regs.X(x) << 8) | regs.Y(x)).to_bytes(2, "big") for x in descs)
    l3 = 7 + len(d)
    if ed <= 3 and l3 % 2: d += b"\0"; l3 += 1
    s3 = l3.to_bytes(3, "big") + b"\0" + nsub.to_bytes(2, "big") + bytes([flag]) + d
    if ed <= 3 and (len(s4) + 4) % 2: s4 += b"\0"
    s4s = (len(s4) + 4).to_bytes(3, "big") + b"\0" + s4
    total = 8 + len(s1) + len(s3) + len(s4s) + 4
    return b"BUFR" + total.to_bytes(3, "big") + bytes([ed]) + s1 + s3 + s4s + b"7777"

def sign_field(v, w):
    return (b"+" if v >= 0 else b"-"), (b"%*d" % (w, abs(v)))[:w]

def foreign_message(ed, cat, catdesc, bs, ds, compressed=False, nsub=1, delayed_d=None):
    """a table update message as another encoder might write it (FM 94, class 00 elements)"""
    w = Bits()
    def elem(val, width):            # numeric element, compressed: R0 + NBINC = 0
        w.put(val, width)
        if compressed: w.put(0, 6)
    def text(b, n):
        w.puts(pad(b, n))
        if compressed: w.put(0, 6)
    descs = []
    for _ in range(1):
        if bs is not None:
            descs += [103000, 31001, 1, 2, 3, 101000, 31001 if len(bs) < 256 else 31002, 300004]
        if ds is not None:
            if delayed_d or (delayed_d is None and len(ds) >= 256) or not ds:
                descs += [101000, 31002, 300010]
            else:
                descs += [101000 + len(ds), 300010]
    for s in range(1 if compressed else nsub):
        if bs is not None:
            elem(1, 8); text(b"%03d" % cat, 3); text(catdesc[:32], 32); text(catdesc[32:64], 32)
            elem(len(bs), 8 if len(bs) < 256 else 16)
            for e in bs:
                text(b"%d" % (e.desc // 100000), 1); text(b"%02d" % (e.desc // 1000 % 100), 2); text(b"%03d" % (e.desc % 1000), 3)
                text(e.name[:32], 32); text(e.name[32:64], 32); text(e.unit, 24)
                sg, mag = sign_field(e.scale, 3); text(sg, 1); text(mag, 3)
                sg, mag = sign_field(e.ref, 10); text(sg, 1); text(mag, 10)
                text(b"%3d" % e.width, 3)
        if ds is not None:
            if 31002 in descs[-3:]:
                elem(len(ds), 16)
            for e in ds:
                text(b"%d" % (e.desc // 100000), 1); text(b"%02d" % (e.desc // 1000 % 100), 2); text(b"%03d" % (e.desc % 1000), 3)
                elem(len(e.members), 8)
                for m in e.members: text(b"%06d" % m, 6)
    return frame(ed, descs, w.bytes(), nsub=nsub, flag=64 if compressed else 0)

# ----------------------------------------------------------------------------- generators

PUNCT = b"!\"#$%&'()*+,-./:;<=>?@[\\]^_`{|}~"
UPPER = b"ABCDEFGHIJKLMNOPQRSTUVWXYZ"
LOWER = b"abcdefghijklmnopqrstuvwxyz"
DIGITS = b"0123456789"

def rnd_text(rng, n, alphabet):
    return bytes(rng.choice(alphabet) for _ in range(n))

def rnd_name(rng, cls=None):
    cls = cls or rng.choice(["plain", "plain", "plain", "len", "blanks", "lower", "punct", "trail", "high", "empty", "split", "ws"])
    if cls == "plain":
        n = rng.randrange(1, 45)
        return bytes(rng.choice(UPPER + b"   " + DIGITS) for _ in range(n)), cls
    if cls == "len":
        n = rng.choice([1, 31, 32, 33, 63, 64, 65, 66, 100])
        return rnd_text(rng, n, UPPER + DIGITS), "len%d" % n
    if cls == "blanks":
        n = rng.randrange(1, 65)
        return bytes(rng.choice(UPPER + b"      ") for _ in range(n)), cls
    if cls == "lower":
        return rnd_text(rng, rng.randrange(1, 64), LOWER + UPPER + b" "), cls
    if cls == "punct":
        return rnd_text(rng, rng.randrange(1, 64), PUNCT + UPPER + b" "), cls
    if cls == "trail":
        return rnd_text(rng, rng.randrange(0, 40), UPPER) + b" " * rng.randrange(1, 30) + rng.choice([b"", b"\t", b"\n", b" \r "]), cls
    if cls == "high":
        return bytes(rng.choice([0xe9, 0xff, 0x80, 0xa0, 65, 66, 32]) for _ in range(rng.randrange(1, 64))), cls
    if cls == "empty":
        return b"", cls
    if cls == "split":
        # blanks on either side of the 32-character line split
        a = rng.choice([30, 31, 32])
        return rnd_text(rng, a, UPPER) + b" " * rng.choice([1, 2, 3, 34]) + rnd_text(rng, rng.randrange(0, 20), UPPER), cls
    if cls == "ws":
        return rnd_text(rng, rng.randrange(1, 20), UPPER) + rng.choice([b"\t", b"\n", b"\v", b"\f", b"\r"]) + rnd_text(rng, rng.randrange(0, 10), UPPER + b" "), cls
    raise ValueError(cls)

KEYWORDS = [b"NUMERIC", b"NUMERIQUE", b"Numeric", b"numeri", b"CCITT IA5", b"CCITTIA5", b"ccitt ia5", b"CODE TABLE", b"CODETABLE",
            b"TABLE CODE", b"TABLECODE", b"Code table", b"FLAG TABLE", b"FLAGTABLE", b"TABLE FLAG", b"TABLEFLAG", b"MARQUEURS",
            b"Flag Table"]
NEAR = [b"CODE  TABLE", b" CODE TABLE", b"CODE\tTABLE", b"FLAG", b"CCITT", b"CCITT IA", b"NUMER", b"TABLE", b"CODE TABLE (SEE NOTE 12)",
        b"FLAG TABLE, 31 BITS LONG AND MORE", b"CCITT IA5 CHARACTER STRING XX", b"NUMERIC" + b" " * 17 + b"X"]
UNITS = [b"M", b"K", b"M S-1", b"DEGREE TRUE", b"PA", b"KG M-2", b"%", b"W M-2 SR-1 CM", b"LOG (1/M2)", b"DEGREE2", b"1/S", b"a", b"m/s"]

def rnd_unit(rng, typ=None):
    """returns (unit bytes, class)"""
    if typ is not None:
        ks = [k for k in KEYWORDS if unit_type(k) == typ and (typ != 4 or k.upper().startswith(b"NUMERI"))]
        u = rng.choice(ks) if (typ != 4 or rng.random() < 0.5) else rng.choice(UNITS)
        if rng.random() < 0.2: u += b" " * rng.randrange(1, 4)
        return u, "kw%d" % typ
    r = rng.random()
    if r < 0.35: return rng.choice(KEYWORDS) + (b" " * rng.randrange(0, 3) if rng.random() < 0.3 else b""), "kw"
    if r < 0.55: return rng.choice(NEAR), "near"
    if r < 0.8: return rng.choice(UNITS), "plain"
    if r < 0.9: return rnd_text(rng, rng.choice([0, 1, 23, 24, 25, 30]), UPPER + b" -/0123456789"), "len"
    return rnd_text(rng, rng.randrange(1, 24), LOWER + PUNCT + b" "), "text"

SCALES = [-999, -998, -100, -99, -10, -9, -1, 0, 1, 9, 10, 99, 100, 998, 999]
REFS = [0, 1, -1, 9, 10, 999999999, 1000000000, -999999999, -1000000000, 2147483647, 2147483646, -2147483647, -2147483648,
        1234567890, -1234567890, 100000, -100000]
WIDTHS = [0, 1, 2, 7, 8, 9, 10, 31, 32, 33, 64, 99, 100, 101, 256, 998, 999]

def local_desc_pool():
    """local Table B descriptors: X 48..63 any Y, X 1..47 with Y 192..255"""
    out = [x * 1000 + y for x in range(48, 64) for y in range(0, 256)]
    out += [x * 1000 + y for x in range(1, 48) if x != 31 for y in range(192, 256)]
    return out
LOCAL_B = local_desc_pool()
LOCAL_D = [300000 + x * 1000 + y for x in range(48, 64) for y in range(0, 256)] + \
          [300000 + x * 1000 + y for x in range(1, 48) for y in range(192, 256)]

def usable_entry(rng, desc):
    """an element datasets can be built over: moderate scale/reference, width within its value type"""
    typ = rng.choice([4, 4, 4, 5, 6, 7])
    if typ == 4:
        scale = rng.choice([-2, -1, 0, 0, 1, 2, 3])
        nbits = rng.choice([1, 4, 7, 8, 10, 12, 16, 17, 20, 24, 28, 31])
        ref = rng.choice([0, 0, 1, -1, 1000, -1000, -32768, 255, 2 ** 20, -(2 ** 20), 380000])
        if nbits > 24 and ref > 0: ref = rng.choice([0, 1, 255])
    elif typ == 5:
        scale, ref, nbits = 0, 0, 8 * rng.choice([1, 2, 4, 8, 20, 32, 62])
    else:
        scale, ref, nbits = 0, 0, rng.choice([1, 2, 4, 8, 9, 16, 24, 31])
    unit, _ = rnd_unit(rng, typ)
    name, _ = rnd_name(rng)
    return EB(desc, name, unit, scale, ref, nbits)

def wild_entry(rng, desc, inrange=True):
    name, _ = rnd_name(rng)
    unit, _ = rnd_unit(rng)
    e = EB(desc, name, unit, rng.choice(SCALES), rng.choice(REFS), rng.choice(WIDTHS))
    if not inrange and rng.random() < 0.5:
        k = rng.choice(["scale", "width", "scale-min"])
        if k == "scale": e.scale = rng.choice([1000, -1000, 12345, -99999, 2147483647])
        elif k == "width": e.width = rng.choice([1000, 1001, 99999, 2147483647])
        else: e.scale = -2147483648
    if inrange:
        e.name = e.name[:64]; e.unit = e.unit[:24]
    return e

def rnd_sequence(rng, usable, prior_d, master_elems, maxlen=8):
    """a well-formed Table D member list over usable elements, earlier local sequences and master elements"""
    def elem():
        r = rng.random()
        if usable and r < 0.7: return rng.choice(usable).desc
        return rng.choice(master_elems)
    out = []
    n = rng.randrange(1, maxlen + 1)
    while len(out) < n:
        r = rng.random()
        if prior_d and r < 0.2:
            out.append(rng.choice(prior_d))
        elif r < 0.35:
            k = rng.choice([1, 1, 2, 3])
            out += [100000 + k * 1000 + rng.choice([1, 2, 3, 5])] + [elem() for _ in range(k)]
        elif r < 0.5:
            k = rng.choice([1, 1, 2])
            out += [100000 + k * 1000, rng.choice([31001, 31001, 31002, 31000])] + [elem() for _ in range(k)]
        else:
            out.append(elem())
    return out

MASTER_ELEMS = [1001, 1002, 2001, 4001, 4002, 4003, 5001, 6001, 7001, 8001, 10004, 11001, 12001, 20003, 1015, 20011]

def gen_table_set(rng, nb, nd, usable_share=0.5, inrange=True, dups=False):
    """returns (entries in the order given to lt.def, usable B list, good D list)"""
    bdescs = rng.sample(LOCAL_B, nb)
    entries, usable = [], []
    for d in bdescs:
        if rng.random() < usable_share:
            e = usable_entry(rng, d); usable.append(e)
        else:
            e = wild_entry(rng, d, inrange)
        entries.append(e)
    ddescs = rng.sample(LOCAL_D, nd)
    good_d = []
    for d in ddescs:
        if rng.random() < 0.75 or not inrange:
            ms = rnd_sequence(rng, usable, good_d, MASTER_ELEMS)
            good_d.append(d)
            entries.append(ED(d, ms))
        else:
            # members that are just numbers: not usable in a template
            entries.append(ED(d, [rng.choice([rng.randrange(0, 400000), 999999, 0, 100000, 263255]) for _ in range(rng.randrange(1, 12))]))
    if dups and entries:
        for _ in range(rng.randrange(1, 4)):
            e = rng.choice(entries)
            if isinstance(e, EB):
                # an element datasets are built over stays one, whichever of the two entries wins
                if any(u.desc == e.desc for u in usable):
                    e2 = usable_entry(rng, e.desc); usable.append(e2)
                else:
                    e2 = wild_entry(rng, e.desc, inrange)
            else:
                e2 = ED(e.desc, [rng.choice(MASTER_ELEMS) for _ in range(rng.randrange(1, 4))])
            entries.append(e2)
    rng.shuffle(entries)
    return entries, usable, good_d

def dataset_lines(rng, entries, usable, good_d, Bm, Dm, ed):
    """a dataset over the local descriptors, encoded once under table set `a`, decoded under `a` and `b`"""
    mb, md = merged(entries)
    B = {e.desc: (e.scale, e.ref, e.width, unit_type(e.unit)) for e in mb if e.desc in {u.desc for u in usable}}
    for d in MASTER_ELEMS + [31000, 31001, 31002]:
        if d in Bm: B[d] = Bm[d]
    D = {e.desc: e.members for e in md if e.desc in set(good_d)}
    if not any(regs.X(d) != 31 for d in B):
        return None, None
    if not D and 301001 in Dm:
        D[301001] = Dm[301001]
    templates._pools.clear(); templates._size_cache.clear()
    ls, meta = datasets.build_lines(rng, "a", B, D, ops=False, edition=ed, depth=rng.choice([0, 1, 2]),
                                    nsub=rng.choice([1, 1, 2, 3]), same_structure=True)
    ls[0] = "lt.use a"
    comp = rng.choice([0, 0, 1])
    ls += ["ds.encode %d" % comp]
    block = ["ds.decodelast 1 0 0"]
    for k in range(meta["nsub"]):
        block += ["dd.list %d" % k, "dd.vals %d" % k]
    meta["block_a"] = len(ls)
    # (the driver forgets the encoded section after a decode: encode again before switching tables)
    ls += block + ["ds.encode %d" % comp, "lt.use b"]
    meta["block_b"] = len(ls)
    ls += block
    meta["block_len"] = len(block)
    return ls, meta

def rt_scenario(rng, name, nb, nd, ed, base="cur", inrange=True, dups=False, ndatasets=2, usable_share=0.5, cat=None, catdesc=None):
    entries, usable, good_d = gen_table_set(rng, nb, nd, usable_share, inrange, dups)
    cat = rng.choice([0, 1, 11, 12, 254, 255, 256, -1, 300]) if cat is None else cat
    catdesc = rnd_name(rng)[0] if catdesc is None else catdesc
    catdesc = bytes(c for c in catdesc if c != 0)
    ls = ["lt.def a %s %d %s %s" % (base, cat, H(catdesc), " ".join(e.tok() for e in entries)), "lt.dump a",
          "lt.store a %d" % ed, "lt.extract %s b last" % base, "lt.dump b"]
    meta = {"kind": "rt", "entries": entries, "cat": cat, "catdesc": catdesc, "ed": ed, "base": base, "inrange": inrange,
            "datasets": []}
    Bm, Dm = P[base]
    if inrange:
        for _ in range(ndatasets):
            dl, dm = dataset_lines(rng, entries, usable, good_d, Bm, Dm, rng.choice([2, 3, 4]))
            if dl:
                meta["datasets"].append((len(ls) + dm["block_a"], len(ls) + dm["block_b"], dm["block_len"]))
                ls += dl
    return Scenario(name, ls, meta)

def field_scenarios(rng, tier):
    """one or two entries, every printed field at its boundaries"""
    out = []
    k = 0
    def one(e, ed=4, inrange=True, extra=()):
        nonlocal k
        es = [e] + list(extra)
        ls = ["lt.def a cur 11 %s %s" % (H(b"FIELD TESTS"), " ".join(x.tok() for x in es)), "lt.dump a", "lt.store a %d" % ed,
              "lt.extract cur b last", "lt.dump b"]
        out.append(Scenario("field-%d" % k, ls, {"kind": "rt", "entries": es, "cat": 11, "catdesc": b"FIELD TESTS", "ed": ed,
                                                 "base": "cur", "inrange": inrange, "datasets": []}))
        k += 1
    for sc in SCALES + [rng.randrange(-999, 1000) for _ in range(10)]:
        one(EB(63001, b"SCALE", b"M", sc, 0, 12), rng.choice([2, 3, 4]))
    for rf in REFS + [rng.randrange(-2 ** 31, 2 ** 31) for _ in range(20)]:
        one(EB(63002, b"REFERENCE", b"K", rng.choice([0, -1, 3]), rf, 16), rng.choice([2, 3, 4]))
    for wd in WIDTHS + [rng.randrange(0, 1000) for _ in range(10)]:
        one(EB(63003, b"WIDTH", b"CODE TABLE", 0, 0, wd), rng.choice([2, 3, 4]))
    for cls in ["len", "len", "len", "len", "len", "blanks", "lower", "punct", "trail", "trail", "high", "empty", "split", "split", "ws"]:
        for _ in range(2 if tier == "quick" else 8):
            nm, _ = rnd_name(rng, cls)
            one(EB(63004, nm, b"NUMERIC", 0, 0, 8), rng.choice([2, 3, 4]), inrange=len(nm) <= 64)
    for n in (1, 31, 32, 33, 63, 64, 65, 66, 100):
        one(EB(63004, b"N" * n, b"NUMERIC", 0, 0, 8), 4, inrange=n <= 64)
        one(EB(63004, b"N" * (n - 1) + b" ", b"NUMERIC", 0, 0, 8), 4, inrange=n <= 64)
    for u in KEYWORDS + NEAR + UNITS:
        one(EB(63005, b"UNIT", u, 0, 0, 8), rng.choice([2, 3, 4]), inrange=len(u) <= 24)
        one(EB(63005, b"UNIT", u + b"  ", 0, 0, 8), rng.choice([2, 3, 4]), inrange=len(u) + 2 <= 24)
    for n in (0, 1, 23, 24, 25, 26, 40):
        one(EB(63005, b"UNIT LENGTH", b"U" * n, 0, 0, 8), 4, inrange=n <= 24)
    for d in (0, 1, 255, 63255, 48000, 99999, 100000, 399999, 999999):
        one(EB(d, b"DESCRIPTOR", b"M", 0, 0, 8))
    for n in (1, 2, 100, 254, 255):
        one(ED(363001, [rng.choice(MASTER_ELEMS) for _ in range(n)]), rng.choice([2, 3, 4]))
    for n in (256, 257, 300, 511, 512):
        one(ED(363001, [1001] * n), 4, inrange=False, extra=[ED(363002, [1002, 1003])])
    one(ED(363001, [0, 1, 999999, 100000, 399999, 263255, 31001]))
    one(ED(363001, [1000000, 1234567, 2147483647]), inrange=False)
    one(ED(363001, []), extra=[ED(363002, [1002])])
    for d in (300000, 363255, 348000, 399999, 999999, 63001, 0):
        one(ED(d, [1001, 1002]))
    return out

def size_scenarios(rng, tier):
    out = []
    sizes = [(0, 0), (0, 1), (1, 0), (254, 0), (255, 0), (256, 0), (257, 0), (300, 50), (0, 50), (0, 254), (0, 255), (0, 256),
             (0, 257), (0, 300), (255, 255), (256, 256), (300, 0)]
    if tier != "quick":
        sizes += [(rng.randrange(0, 301), rng.randrange(0, 51)) for _ in range(150)] + [(1000, 0), (0, 1000), (600, 600), (2000, 300)]
    else:
        sizes += [(rng.randrange(0, 301), rng.randrange(0, 51)) for _ in range(6)]
    for i, (nb, nd) in enumerate(sizes):
        out.append(rt_scenario(rng, "size-%d-%d-%d" % (nb, nd, i), nb, nd, rng.choice([2, 3, 4]), ndatasets=1 if nb + nd < 400 else 0,
                               usable_share=0.3))
    return out

def foreign_scenarios(rng, tier):
    out = []
    n = 150 if tier == "quick" else 3000
    for i in range(n):
        nb, nd = rng.choice([(0, 0), (1, 0), (0, 1), (3, 2), (5, 5), (2, 0), (0, 3), (20, 4)])
        entries, _, _ = gen_table_set(rng, nb, nd, 0.3, True, False)
        mb, md = merged(entries)
        ed = rng.choice([2, 3, 4])
        comp = rng.random() < 0.4
        nsub = 1 if comp or rng.random() < 0.7 else rng.choice([2, 3])
        cat = rng.choice([0, 11, 255])
        cd = norm_cat_desc(rnd_name(rng)[0])
        kind = rng.choice(["both", "both", "bonly", "donly", "delayed"])
        bs = mb if kind != "donly" else None
        ds = md if kind != "bonly" else None
        msg = foreign_message(ed, cat, cd, bs, ds, compressed=comp, nsub=nsub, delayed_d=(kind == "delayed"))
        ls = ["lt.extract cur b %s" % H(msg), "lt.dump b"]
        out.append(Scenario("foreign-%d" % i, ls, {"kind": "foreign", "b": bs, "d": ds, "cat": cat, "catdesc": cd, "nsub": 1 if comp else nsub,
                                                   "comp": comp, "ed": ed}))
    return out

def mutate(rng, msg):
    b = bytearray(msg)
    k = rng.choice(["flip", "flip", "trunc", "byte", "count", "type", "len", "s3", "ff", "digits"])
    if k == "flip" and len(b) > 40:
        for _ in range(rng.choice([1, 1, 2, 5])):
            i = rng.randrange(30, len(b) - 4); b[i] ^= 1 << rng.randrange(8)
    elif k == "trunc" and len(b) > 40:
        cut = rng.randrange(1, min(len(b) - 30, 200))
        b = b[:len(b) - cut - 4] + b"7777"
    elif k == "byte" and len(b) > 60:
        i = rng.randrange(50, len(b) - 4); b[i] = rng.choice([0, 255, 32, 45, 48, 57, 65])
    elif k == "count" and len(b) > 60:
        # the octets right after Section 4's header are the first replication factor
        i = bytes(b).find(b"\x00", 40)
        j = rng.randrange(40, min(len(b) - 4, 140)); b[j] = rng.choice([0, 1, 2, 255, 254, 128])
    elif k == "type":
        b[18 if b[7] >= 4 else 16] = rng.choice([0, 10, 12, 255])
    elif k == "len":
        b[6] = (b[6] + rng.choice([1, 2, 255, 254])) % 256
    elif k == "s3" and len(b) > 60:
        j = 8 + (22 if b[7] >= 4 else 18) + 7 + 2 * rng.randrange(0, 8)
        if j + 1 < len(b): b[j + 1] = (b[j + 1] + rng.choice([1, 255, 3])) % 256
    elif k == "ff" and len(b) > 80:
        i = rng.randrange(45, len(b) - 20)
        for j in range(i, min(i + rng.choice([1, 3, 6, 32, 64]), len(b) - 4)): b[j] = 0xff
    elif k == "digits" and len(b) > 80:
        i = rng.randrange(45, len(b) - 10)
        for j in range(i, i + rng.choice([1, 2, 3])): b[j] = rng.choice(b"0123456789 +-x")
    return bytes(b)

def mutated_scenarios(rng, tier):
    out = []
    n = 400 if tier == "quick" else 15000
    for i in range(n):
        nb, nd = rng.choice([(1, 0), (0, 1), (2, 1), (3, 3), (1, 2)])
        entries, _, _ = gen_table_set(rng, nb, nd, 0.3, True, False)
        mb, md = merged(entries)
        ed = rng.choice([2, 3, 4])
        msg = foreign_message(ed, 11, norm_cat_desc(b"MUTANT"), mb if mb else None, md if md else None,
                              compressed=rng.random() < 0.2)
        m2 = mutate(rng, msg)
        ls = ["lt.extract cur b %s" % H(m2)]
        out.append(Scenario("mutant-%d" % i, ls, {"kind": "mutant"}))
    return out

def scenarios(rng, tier, runner):
    out = []
    out += field_scenarios(rng, tier)
    out += size_scenarios(rng, tier)
    n = 400 if tier == "quick" else 12000
    for i in range(n):
        nb = rng.choice([0, 1, 1, 2, 3, 5, 8, 13, 21, 34, 55])
        nd = rng.choice([0, 0, 1, 2, 3, 5, 8])
        inr = rng.random() < 0.8
        out.append(rt_scenario(rng, "rt-%d" % i, nb, nd, rng.choice([2, 3, 4]), base=rng.choice(["cur", "cur", "v13"]), inrange=inr,
                               dups=rng.random() < 0.2))
    out += foreign_scenarios(rng, tier)
    out += mutated_scenarios(rng, tier)
    return out

# ----------------------------------------------------------------------------- oracle

def parse_listing(toks):
    """-> (B list of tuples, D list of tuples) from `B:…`/`D:…` tokens"""
    bs, ds = [], []
    for t in toks:
        if t == "-": continue
        f = t.split(":")
        if f[0] == "B":
            bs.append((int(f[1]), f[2], f[3], int(f[4]), int(f[5]), int(f[6]), int(f[7])))
        elif f[0] == "D":
            ds.append((int(f[1]), tuple(int(m) for m in f[2].split(",") if m)))
    return bs, ds

def b_tuple(e):
    return (e.desc, H(e.name), H(e.unit), e.scale, e.ref, e.width, unit_type(e.unit))
def d_tuple(e):
    return (e.desc, tuple(e.members))

def expected_cat(cat, catdesc, old_cat=0):
    c = cat if 0 <= cat < 256 else old_cat
    return c, norm_cat_desc(catdesc)

def check_extracted(meta, mb, md, got_b, got_d, where):
    """the property on the extracted listing: every entry, in array order, with what the message can carry"""
    structural = len(mb) < 65536 and len(md) < 65536 and all(len(e.members) <= 255 for e in md)
    if not structural:
        return None        # the counts do not fit the message (3 00 010 has an 8-bit count): outside the property
    if len(got_b) != len(mb):
        return "%s: %d Table B entries extracted, %d written" % (where, len(got_b), len(mb))
    if len(got_d) != len(md):
        return "%s: %d Table D entries extracted, %d written" % (where, len(got_d), len(md))
    for e, g in zip(mb, got_b):
        want = b_tuple(e.carried())
        if e.desc >= 10 ** 6:
            continue
        names = ("descriptor", "name", "unit", "scale", "reference", "width", "type")
        for i, (w, x) in enumerate(zip(want, g)):
            if i == 3 and abs(e.scale) > 999: continue
            if i == 5 and not (0 <= e.width <= 999): continue
            if w != x:
                return "%s: Table B %06d %s: extracted %r, written %r" % (where, e.desc, names[i], x, w)
    for e, g in zip(md, got_d):
        if not e.in_range():
            continue
        if d_tuple(e) != g:
            return "%s: Table D %06d: extracted %r, written %r" % (where, e.desc, g[1][:12], tuple(e.members)[:12])
    return None

def parse_entry(tok):
    f = tok.split(":")
    if f[0] == "B":
        return EB(int(f[1]), unH(f[2]), unH(f[3]), int(f[4]), int(f[5]), int(f[6]))
    return ED(int(f[1]), [int(x) for x in f[2].split(",") if x])

def derive_rt(lines):
    """the round-trip scenario as its lines say it (robust to shrinking: None when the pattern is broken)"""
    if len(lines) < 5: return None
    t = lines[0].split()
    if t[0] != "lt.def" or t[1] != "a" or len(t) < 5: return None
    base = t[2]
    if lines[1] != "lt.dump a" or not lines[2].startswith("lt.store a ") or lines[3] != "lt.extract %s b last" % base or lines[4] != "lt.dump b":
        return None
    m = {"kind": "rt", "entries": [parse_entry(x) for x in t[5:]], "cat": int(t[3]), "catdesc": unH(t[4]), "base": base,
         "ed": int(lines[2].split()[2]), "datasets": []}
    for i, l in enumerate(lines):
        if l == "lt.use b" and i + 1 < len(lines) and lines[i + 1].startswith("ds.decodelast"):
            n = 1
            while i + 1 + n < len(lines) and lines[i + 1 + n].startswith("dd."): n += 1
            pa = max((j for j in range(i) if lines[j] == lines[i + 1]), default=None)
            if pa is not None and lines[pa:pa + n] == lines[i + 1:i + 1 + n]:
                m["datasets"].append((pa, i + 1, n))
    return m

def oracle(scn, outs):
    m = scn.meta
    kind = m.get("kind")
    if kind in (None, "rt"):
        m = derive_rt(scn.lines)
        if m is None:
            return None
        if len(outs) < 5:
            return "missing outputs"
        entries = m["entries"]
        mb, md = merged(entries)
        t = outs[0].split()
        if t[:1] != ["ok"] or int(t[1]) != len(mb) or int(t[2]) != len(md):
            return "lt.def: %s, expected ok %d %d" % (outs[0][:60], len(mb), len(md))
        d = outs[1].split()
        cat, cd = expected_cat(m["cat"], m["catdesc"])
        if int(d[0]) != cat or unH(d[1]) != cd:
            return "category: held %s %s, expected %d %r" % (d[0], d[1][:40], cat, cd)
        hb, hd = parse_listing(d[2:])
        if hb != [b_tuple(e) for e in mb] or hd != [d_tuple(e) for e in md]:
            return "table set as held differs from the entries given"
        st = outs[2].split()
        if not mb and not md:
            if st != ["0", "-"]: return "empty table set: store printed %s" % outs[2][:60]
            return None
        if st[0] != "0" or st[1] == "-":
            return "store: rc %s, %s" % (st[0], "nothing written" if st[1] == "-" else "")
        structural = len(mb) < 65536 and len(md) < 65536 and all(len(e.members) <= 255 for e in md)
        x = outs[3].split()
        if x[0] != "ok":
            return None if not structural else "the message written cannot be read back: lt.extract says %s" % outs[3][:40]
        if x[1] != "0":
            return "the message written decodes with the invalid flag" if structural else None
        if mb and structural:
            if int(x[2]) != cat or unH(x[3]) != cd:
                return "category: extracted %s %r, written %d %r" % (x[2], unH(x[3]), cat, cd)
        gb, gd = parse_listing(x[4:])
        why = check_extracted(m, mb, md, gb, gd, "extract")
        if why: return why
        # merged into the tables the message was decoded with: array order = sorted, as the original
        db = outs[4].split()
        gb2, gd2 = parse_listing(db[2:])
        why = check_extracted(m, mb, md, gb2, gd2, "merged")
        if why: return why
        # decoding under the original and under the extracted table set
        for (pa, pb, n) in m["datasets"]:
            if len(outs) < pb + n: return "missing outputs"
            tail_a, tail_b = outs[pa:pa + n], outs[pb:pb + n]
            if tail_a != tail_b:
                for a, b in zip(tail_a, tail_b):
                    if a != b:
                        k = next((j for j in range(min(len(a), len(b))) if a[j] != b[j]), 0)
                        return "decoding differs under the extracted tables: original …%s… extracted …%s…" % (a[max(0, k - 30):k + 40], b[max(0, k - 30):k + 40])
        return None
    if kind == "foreign":
        if not outs or not scn.lines or not scn.lines[0].startswith("lt.extract"): return None
        x = outs[0].split()
        bs, ds = m["b"], m["d"]
        if x[0] != "ok":
            return "a well-formed table update message is refused: %s" % outs[0][:40]
        if x[1] != "0":
            return "a well-formed table update message decodes with the invalid flag"
        gb, gd = parse_listing(x[4:])
        wb = [b_tuple(e.carried()) for e in (bs or [])] * m["nsub"]
        wd = [d_tuple(e) for e in (ds or [])] * m["nsub"]
        if bs is not None and m["nsub"] == 1 and (int(x[2]) != m["cat"] or unH(x[3]) != m["catdesc"]):
            return "foreign: category %s %r, written %d %r" % (x[2], unH(x[3]), m["cat"], m["catdesc"])
        if m["nsub"] > 1:
            # every subset repeats the tables: compare as sequences subset by subset
            nb, nd = len(bs or []), len(ds or [])
            if gb != wb: return "foreign: Table B entries of %d subsets differ" % m["nsub"]
            if gd != wd: return "foreign: Table D entries of %d subsets differ" % m["nsub"]
            return None
        if gb != wb:
            for a, b in zip(gb, wb):
                if a != b: return "foreign: Table B extracted %r, written %r" % (a, b)
            return "foreign: %d Table B entries extracted, %d written" % (len(gb), len(wb))
        if gd != wd:
            return "foreign: Table D extracted %r, written %r" % (gd[:3], wd[:3])
        return None
    return None

# ----------------------------------------------------------------------------- coverage

def _cls_count(n):
    return "0" if n == 0 else "1" if n == 1 else "<255" if n < 255 else "255" if n == 255 else "256" if n == 256 else ">256"

def signature(scn, outs):
    m = scn.meta
    kind = m.get("kind", "corpus")
    if kind == "rt":
        mb, md = merged(m["entries"])
        sig = [(kind, m["ed"], _cls_count(len(mb)), _cls_count(len(md)), m["inrange"], outs[3].split()[0] if len(outs) > 3 else "")]
        for e in mb[:40]:
            sig.append(("B", min(len(e.name), 66), len(e.name.rstrip(b" ")) != len(e.name), unit_type(e.unit), min(len(e.unit), 26),
                        (e.scale > 0) - (e.scale < 0), len(str(abs(e.scale))), (e.ref > 0) - (e.ref < 0), len(str(abs(e.ref))),
                        len(str(e.width))))
        for e in md[:20]:
            sig.append(("D", min(len(e.members), 260), any(regs.F(x) == 1 for x in e.members), any(regs.F(x) == 3 for x in e.members)))
        for (pa, pb, n) in m["datasets"]:
            sig.append(("ds", n, outs[pa][:8] if len(outs) > pa else ""))
        return sig
    if kind == "foreign":
        return [(kind, m["ed"], m["comp"], m["nsub"], m["b"] is None, m["d"] is None, outs[0].split()[0])]
    return [(kind, outs[0].split()[0] if outs else "")]

def classify(scn, outs):
    m = scn.meta
    kind = m.get("kind", "corpus")
    ks = [kind]
    if kind == "rt":
        ks.append("ed%d" % m["ed"])
        ks.append("inrange" if m["inrange"] else "beyond")
        ks.append("datasets:%d" % len(m["datasets"]))
    if kind in ("mutant", "foreign") and outs:
        ks.append(kind + ":" + outs[0].split()[0])
    return ks
