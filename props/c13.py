"""C13 — a dataset written as text and loaded back encodes to the identical message."""
import glob, os, re
from vlib.engine import Scenario, run_all
from vlib.engine import compare as cmp0
from vlib import tables, build
from gen import regs, datasets
from props.c10 import parse_nodes
from props import c01

ID = "C13"
THEOREMS = [
    "Bufr.C13.C13_value_text",
    "Bufr.C13.C13_value_roundtrip",
    "Bufr.C13.C13_value_node",
    "Bufr.C13.C13_missing_roundtrip",
    "Bufr.C13.C13_int_roundtrip",
    "Bufr.C13.C13_flag_roundtrip",
    "Bufr.C13.C13_string_roundtrip",
    "Bufr.C13.C13_string_node",
    "Bufr.C13.C13_af_roundtrip",
    "Bufr.C13.C13_line_roundtrip",
    "Bufr.C13.C13_header_roundtrip",
    "Bufr.C13.C13_header_same",
    "Bufr.C13.C13_text_roundtrip",
    "Bufr.C13.C13_concat",
    "Bufr.C13.C13_roundtrip_partial",
    "Bufr.C13.C13_concat_partial",
    "Bufr.C13.C13_sect1_local_octets_fails",
]
RULE = ("datasets of the C01/C02 space (all element kinds, Table D, fixed/delayed replication to depth 3 with zero counts, "
        "in-scope Table C operators, associated fields, 1..4 subsets) constructed and decoded (uncompressed and compressed), "
        "plus targeted values (range ends at negative scale, scale > 6, 32-bit raws near the top, flag tables to 64 bits, "
        "strings with leading/embedded/trailing blanks, quotes, braces, parentheses, 'MSNG'), random Section 1 fields, data "
        "flags and header strings, both zero-trimming settings, 1..4 dumps concatenated in one text; a malformed stream "
        "(truncation, line swaps/deletions, garbage values, over-long lines, NUL bytes) for memory safety only; "
        "distinct = distinct (element type, width class, value class, trim, concatenation length, origin)")
ASSUMPTIONS = c01.ASSUMPTIONS + [
    "the run-time meta data text ({R=..}{tlc} and {FXXYYY}) between descriptor and value is taken from the implementation's "
    "dump and handed to the model's printer; the theorems hold for every such text",
    "printf %.*f / %E render the exact binary value correctly rounded; strtod/strtof are correctly rounded (glibc)",
    "the process runs in the \"C\" locale: the library never calls setlocale and the harness pins LC_ALL=C at every reset",
]
TRUSTED_EXTRA = ["glibc printf(\"%.*f\"), strtod, strtof, atoi, atol, sscanf(%llx) as modelled in BufrModel/Printf.lean"]
CRASH_IS_VIOLATION = True
P = c01.P
prepare = c01.prepare

HDR_KEYS = ["mt", "centre", "sub", "upd", "type", "isub", "lsub", "mver", "lver", "year", "month", "day", "hour", "minute", "second", "flag"]

def rand_hdr(rng, ed):
    h = {"mt": rng.choice([0, 0, 0, 10]), "centre": rng.choice([54, 7, 98, 255, 65535 if ed != 3 else 200]),
         "sub": rng.choice([0, 0, 3, 255]) if ed >= 3 else 0, "upd": rng.choice([0, 1, 200]), "type": rng.choice([0, 2, 12, 255]),
         "isub": rng.choice([0, 5, 255]) if ed >= 4 else 0, "lsub": rng.choice([0, 9, 255]), "mver": rng.choice([13, 17, 35, 255]),
         "lver": rng.choice([0, 1, 255]),
         "year": rng.choice([2024, 1999, 2000, 0, 9999]) if ed >= 4 else rng.choice([2024, 1999, 2000, 2100]),
         "month": rng.randrange(0, 13), "day": rng.randrange(0, 32), "hour": rng.randrange(0, 24), "minute": rng.randrange(0, 60),
         "second": rng.randrange(0, 60) if ed >= 4 else 0,
         "flag": rng.choice([0, 0, 128, 64, 192])}
    return " ".join("%s=%d" % (k, h[k]) for k in HDR_KEYS)

HS_CHARS = [c for c in range(33, 127)]
def rand_hstr(rng):
    r = rng.random()
    if r < 0.6:
        return None
    n = rng.choice([1, 3, 10, 40])
    s = bytes(rng.choice(HS_CHARS + [32, 34, 92]) for _ in range(n))
    return s

SPECIAL_STRS = [b"MSNG", b" lead", b"trail  ", b"a  b", b"\"q\"", b"say \"hi\" }", b"}{", b"{R=1}", b"(0x1:8bits)", b"a)b(c", b"  ", b"\"",
                b"x=1,y", b"#hash", b"*star", b"'", b"\\n", b"\xe9t\xe9", b"BUFR_EDITION=4", b"DATASUBSET 9", b"MSNG ", b" MSNG"]

def targeted_lines(rng, k, nodes):
    """explicit values for subset k chosen from the node list the implementation reported"""
    ls = []
    for i, n in enumerate(nodes):
        if n["flags"] & 4 or not n["hasval"] or (n["flags"] & 1) or regs.X(n["desc"]) == 31:
            continue
        t, nb = n["type"], n["nbits"]
        r = rng.random()
        if t == 5 and nb >= 8 and r < 0.6:
            s = rng.choice(SPECIAL_STRS)
            if rng.random() < 0.3:
                s = bytes(rng.choice([32, 32, 34, 125, 123, 40, 41, 65, 66, 48, 255]) for _ in range(rng.randrange(1, nb // 8 + 1)))
            ls.append("ss.setstr %d %d %s" % (k, i, s.hex()))
        elif t in (4, 6, 7) and 1 <= nb <= 64 and r < 0.5:
            allones = (1 << nb) - 1
            raw = rng.choice([0, 1, allones - 1, allones - 1, allones - 2 if allones >= 2 else 0, allones, allones // 2, allones // 2 + 1,
                              rng.randrange(0, allones + 1)])
            if nb == 64 and raw != allones:
                raw &= (1 << 62) - 1
            if n["af"] > 0:
                ls.append("ss.setraw %d %d %d %d" % (k, i, raw, rng.choice([0, 1, (1 << n["af"]) - 1, (1 << n["af"]) - 2, 1 << (n["af"] - 1), (1 << (n["af"] - 1)) + 5, rng.randrange(0, 1 << n["af"])])))
            else:
                ls.append("ss.setraw %d %d %d" % (k, i, raw))
    return ls

def dump_block(rng, w, ed):
    """header, messages before the dump, the dump"""
    ls = ["ds.hdr %s %s" % (w, rand_hdr(rng, ed))]
    hs = rand_hstr(rng)
    ls.append("ds.hstr %s %s" % (w, hs.hex() if hs is not None else "none"))
    ls += ["ds.msg %s 0" % w, "ds.msg %s 1" % w, "ds.dump %s %d" % (w, rng.choice([0, 1]))]
    return ls

def load_block(w, ndumps, nsubs):
    ls = ["ds.loadtext %s 0 @" % w]
    for d in range(ndumps):
        ls += ["ld.nsub %d" % d, "ld.hdr %d" % d, "ld.msg %d" % d]
        for k in range(nsubs[d]):
            ls += ["ld.list %d %d" % (d, k), "ld.vals %d %d" % (d, k)]
    ls.append("ds.loadtext %s 1 @" % w)
    for d in range(ndumps):
        ls.append("ld.msg %d" % d)
    return ls

def gen_built(rng, i, stage1_nodes=None):
    """a scenario skeleton: 1..4 constructed datasets of one template, each dumped"""
    name = rng.choice(["cur", "loc", "syn", "syn", "syn", "v13"])
    B, D = P[name]
    ndumps = rng.choice([1, 1, 1, 2, 2, 3, 4])
    if rng.random() < 0.06:
        # wide associated fields: 32, 33, 63 and 64 bits, whose top bits the text form must carry
        nums = [d for d, e in B.items() if e[3] in (regs.NUMERIC, regs.CODE) and regs.X(d) != 31 and 1 <= e[2] <= 32]
        strs = [d for d, e in B.items() if e[3] == regs.CCITT and 8 <= e[2] <= 160] or nums
        tw = [rng.choice([204064, 204064, 204063, 204033, 204032]), 31021, rng.choice(nums), rng.choice(strs), rng.choice(nums), 204000, rng.choice(nums)]
        ls, meta = datasets.build_lines(rng, name, B, D, template=tw, edition=rng.choice([3, 4]))
    else:
        ls, meta = datasets.build_lines(rng, name, B, D)
    parts = [(ls, meta)]
    for _ in range(ndumps - 1):
        l2, m2 = datasets.build_lines(rng, name, B, D, template=meta["template"], edition=meta["ed"])
        parts.append((l2[2:], m2))       # without T.use / tm.new
    return name, parts

def assemble_built(rng, parts, nodes_by_part):
    """full scenario lines for constructed datasets; nodes_by_part[p][k] = parsed ss.list (or None)"""
    lines, nsubs = [], []
    ed = parts[0][1]["ed"]
    for p, (ls, meta) in enumerate(parts):
        if p > 0:
            lines.append("ds.clear s")
        body = [l for l in ls if not (l.startswith("ss.list") or l.startswith("ss.vals"))]
        lines += body
        if nodes_by_part is not None:
            for k in range(meta["nsub"]):
                nd = nodes_by_part[p].get(k)
                if nd and rng.random() < 0.7:
                    lines += targeted_lines(rng, k, nd)
        for k in range(meta["nsub"]):
            lines += ["ss.list %d" % k, "ss.vals %d" % k]
        lines.append("ds.invalid")
        lines += dump_block(rng, "s", ed)
        nsubs.append(meta["nsub"])
    lines += load_block("s", len(parts), nsubs)
    return lines, nsubs

def gen_decoded_lines(rng, ls, meta, comp):
    """build, encode, decode, then dump the decoded dataset"""
    body = [l for l in ls]
    body += ["ds.invalid", "ds.encode %d" % comp, "ds.decodelast 2 0 0"]
    for k in range(meta["nsub"]):
        body += ["dd.list %d" % k, "dd.vals %d" % k]
    body += dump_block(rng, "d", meta["ed"])
    body += load_block("d", 1, [meta["nsub"]])
    return body

# ----------------------------------------------------------------------------- malformed text

GARBAGE = [b"xyz", b"1e999", b"-1e999", b"-", b"(", b"\"", b"{", b"{R=", b"(0x", b"(0x:", b"99999999999999999999999999", b"b1010", b"i12",
           b"x1f", b"o17", b"0x1p3", b"nan", b"inf", b"1.5e-400", b"MSNG", b"\"MSNG\"", b"()", b"(zz:1bits)7", b"         (1:)", b"{}{}{}",
           b"{x} {y} (0xff:8bits)\"a\"", b"\"abc", b"abc\"", b"1 2 3", b"=,=", b"\x00", b"1\x002"]

def mutate_text(rng, txt):
    """returns (bytes, kind)"""
    lines = txt.split(b"\n")
    k = rng.choice(["trunc", "trunc", "swap", "del", "dup", "garbage", "garbage", "long", "nul", "hdrcut", "crlf", "descr", "edition", "nosub", "bigfactor"])
    data = [i for i, l in enumerate(lines) if re.match(rb"^\d{6} ", l)]
    if k == "trunc":
        return txt[:rng.randrange(0, len(txt) + 1)], k
    if k == "swap" and len(data) >= 2:
        a, b = rng.sample(data, 2)
        lines[a], lines[b] = lines[b], lines[a]
    elif k == "del" and data:
        del lines[rng.choice(data)]
    elif k == "dup" and data:
        a = rng.choice(data)
        lines.insert(a, lines[a])
    elif k == "garbage" and data:
        for a in rng.sample(data, min(len(data), rng.choice([1, 2, 5]))):
            lines[a] = lines[a][:7] + rng.choice(GARBAGE)
    elif k == "long":
        a = rng.choice(data) if data else 0
        n = rng.choice([2040, 2046, 2047, 2048, 2049, 4095, 4096, 5000, 9000])
        lines[a] = lines[a][:7] + rng.choice([b"\"" + b"A" * n + b"\"", b"9" * n, b"{" + b"m" * n + b"} 1", b"(0x" + b"f" * n + b":8bits)1", b" " * n + b"1",
                                              b" " * n + b"(1:)"])
    elif k == "nul":
        p = rng.randrange(0, len(txt))
        return txt[:p] + b"\x00" + txt[p:], k
    elif k == "hdrcut":
        hd = [i for i, l in enumerate(lines) if re.match(rb"^[A-Z_]+=", l)]
        if hd:
            del lines[rng.choice(hd)]
    elif k == "crlf":
        return txt.replace(b"\n", b"\r\n"), k
    elif k == "descr" and data:
        a = rng.choice(data)
        lines[a] = rng.choice([b"999999", b"000000", b"-00001", b"31001x", b"0310011", b"12", b"  001001"]) + lines[a][6:]
    elif k == "edition" and data:
        lines.insert(rng.choice(data), b"BUFR_EDITION=3")
    elif k == "nosub":
        lines = [l for l in lines if not l.startswith(b"DATASUBSET")]
    elif k == "bigfactor":
        f = [i for i in data if lines[i].startswith(b"0310")]
        if f:
            a = rng.choice(f)
            lines[a] = re.sub(rb"\d+$", rng.choice([b"255", b"65535", b"70000", b"-3", b"4294967296"]), lines[a])
    return b"\n".join(lines), k

# ----------------------------------------------------------------------------- sample corpus (thorough tier)

def read_bufr_file(path):
    """-> list of (edition, hdr dict, s3flag, nsub, descs, s4 bytes) for the messages in the file (python reading of FM 94 framing)"""
    data = open(path, "rb").read()
    out, pos = [], 0
    while True:
        p = data.find(b"BUFR", pos)
        if p < 0 or p + 8 > len(data):
            break
        total = int.from_bytes(data[p + 4:p + 7], "big")
        ed = data[p + 7]
        m = data[p:p + total]
        pos = p + 4
        if ed not in (2, 3, 4) or len(m) != total or m[-4:] != b"7777":
            continue
        pos = p + total
        q = 8
        l1 = int.from_bytes(m[q:q + 3], "big")
        s1 = m[q:q + l1]
        h = {}
        if ed == 4:
            if l1 != 22: continue          # additional Section 1 octets are not part of the dump format
            h = dict(mt=s1[3], centre=int.from_bytes(s1[4:6], "big"), sub=int.from_bytes(s1[6:8], "big"), upd=s1[8], type=s1[10], isub=s1[11],
                     lsub=s1[12], mver=s1[13], lver=s1[14], year=int.from_bytes(s1[15:17], "big"), month=s1[17], day=s1[18], hour=s1[19],
                     minute=s1[20], second=s1[21])
            has2 = s1[9] & 128
        else:
            if l1 != 18: continue
            if ed == 3:
                h = dict(mt=s1[3], sub=s1[4], centre=s1[5])
            else:
                h = dict(mt=s1[3], sub=0, centre=int.from_bytes(s1[4:6], "big"))
            h.update(upd=s1[6], type=s1[8], isub=0, lsub=s1[9], mver=s1[10], lver=s1[11], year=s1[12], month=s1[13], day=s1[14], hour=s1[15],
                     minute=s1[16], second=0)
            has2 = s1[7] & 128
        q += l1
        if has2:
            q += int.from_bytes(m[q:q + 3], "big")
        l3 = int.from_bytes(m[q:q + 3], "big")
        s3 = m[q:q + l3]
        nsub = int.from_bytes(s3[4:6], "big")
        flag = s3[6]
        nd = (l3 - 7) // 2
        descs = []
        for j in range(nd):
            c = int.from_bytes(s3[7 + 2 * j:9 + 2 * j], "big")
            descs.append((c >> 14) * 100000 + ((c >> 8) & 63) * 1000 + (c & 255))
        q += l3
        l4 = int.from_bytes(m[q:q + 3], "big")
        s4 = m[q + 4:q + l4]
        out.append((ed, h, flag, nsub, descs, s4))
    return out

def corpus_scenarios(rng, limit):
    out = []
    files = sorted(glob.glob(os.path.join(build.REPO, "Test/BUFR/*.bufr")) + glob.glob(os.path.join(build.REPO, "Test/BUFR/*.BUFR")))
    for path in files:
        try:
            msgs = read_bufr_file(path)
        except Exception:
            continue
        for j, (ed, h, flag, nsub, descs, s4) in enumerate(msgs[:2]):
            if nsub == 0 or nsub > 40 or len(s4) > 20000 or not descs:
                continue
            h["flag"] = flag & 192
            ls = ["T.use loc", "ds.decode %d 2 %d %d 0 0 %s %s" % (ed, flag, nsub, ",".join("%06d" % d for d in descs), s4.hex() or "-")]
            for k in range(nsub):
                ls += ["dd.list %d" % k, "dd.vals %d" % k]
            ls += ["ds.hdr d " + " ".join("%s=%d" % (k, h[k]) for k in HDR_KEYS), "ds.hstr d none",
                   "ds.msg d 0", "ds.msg d 1", "ds.dump d %d" % rng.choice([0, 1])]
            ls += ["ds.loadtext d 0 @", "ld.msg 0", "ds.loadtext d 1 @", "ld.msg 0"]
            out.append(Scenario("corpus-%s-%d" % (os.path.basename(path), j), ls, {"kind": "sample", "ndumps": 1, "w": "d", "ed": ed, "nsub": nsub}))
            if len(out) >= limit:
                return out
    return out

# ----------------------------------------------------------------------------- scenarios

def scenarios(rng, tier, runner):
    nb = 700 if tier == "quick" else 5000
    nd = 400 if tier == "quick" else 3000
    nm = 500 if tier == "quick" else 4000
    # stage 1: the node lists of the constructed datasets, from the implementation
    skel, stage1 = [], []
    for i in range(nb):
        name, parts = gen_built(rng, i)
        skel.append((name, parts))
        ls = []
        for p, (pl, meta) in enumerate(parts):
            if p > 0:
                ls.append("ds.clear s")
            ls += pl
        stage1.append(Scenario("s1-%d" % i, ls))
    r1 = run_all(runner, stage1, "impl")
    out = []
    texts = []
    for i, ((name, parts), s1, (o1, crash)) in enumerate(zip(skel, stage1, r1)):
        nodes_by_part = None
        if not crash and len(o1) == len(s1.lines):
            nodes_by_part, p, cur = [], 0, {}
            for l, o in zip(s1.lines, o1):
                if l == "ds.clear s":
                    nodes_by_part.append(cur); cur = {}
                t = l.split()
                if t[0] == "ss.list" and o not in ("none", "-"):
                    try:
                        cur[int(t[1])] = parse_nodes(o)
                    except Exception:
                        pass
            nodes_by_part.append(cur)
        lines, nsubs = assemble_built(rng, parts, nodes_by_part)
        meta = dict(parts[0][1])
        meta.update(kind="built", ndumps=len(parts), w="s", nsubs=nsubs)
        out.append(Scenario("built-%d" % i, lines, meta))
    # decoded datasets
    for i in range(nd):
        name = rng.choice(["cur", "loc", "syn", "syn", "v13"])
        B, D = P[name]
        comp = rng.choice([0, 0, 1])
        ls, meta = datasets.build_lines(rng, name, B, D, same_structure=(comp == 1))
        meta.update(kind="decoded", ndumps=1, w="d", comp=comp, nsubs=[meta["nsub"]])
        out.append(Scenario("dec-%d" % i, gen_decoded_lines(rng, ls, meta, comp), meta))
    if tier != "quick":
        out += corpus_scenarios(rng, 400)
    # malformed text: mutate dumps the implementation wrote
    base = [s for s in out if s.meta.get("kind") == "built"][:max(20, nm // 4)]
    pre = []
    for s in base:
        cut = next((j for j, l in enumerate(s.lines) if l.startswith("ds.dump")), None)
        if cut is not None:
            pre.append(Scenario(s.name, s.lines[:cut + 1], s.meta))
    rp = run_all(runner, pre, "impl")
    good = []
    for s, (o, crash) in zip(pre, rp):
        if crash or len(o) != len(s.lines):
            continue
        f = o[-1].split()
        if len(f) == 2 and f[1] != "-":
            good.append((s, bytes.fromhex(f[1])))
    for i in range(nm if good else 0):
        s, txt = rng.choice(good)
        mt, kind = mutate_text(rng, txt)
        head = [l for l in s.lines if l.split()[0] in ("T.use", "tm.new")]
        ls = head + ["ds.loadtext s %d %s" % (rng.choice([0, 1]), mt.hex() or "-"), "ld.nsub 0", "ld.hdr 0", "ld.msg 0"]
        out.append(Scenario("mal-%d-%s" % (i, kind), ls, {"kind": "malformed", "mut": kind, "tables": s.meta.get("tables")}))
    return out

# ----------------------------------------------------------------------------- model side

META_RE = re.compile(rb"^((?:\{[^{}]*\})+ )*")

def metas_of_text(txt):
    """the meta text of every node line of a dump, as the `ds.dump` argument of the model"""
    subs, cur = [], None
    for l in txt.split(b"\n"):
        if l.startswith(b"DATASUBSET"):
            cur = []
            subs.append(cur)
            continue
        if cur is None or not l:
            continue
        if l.startswith(b"#") or not re.match(rb"^-?\d{6,} ", l):
            cur.append(b"")
            continue
        rest = l[l.index(b" ") + 1:]
        cur.append(META_RE.match(rest).group(0))
    return ";".join(",".join(m.hex() if m else "-" for m in s) for s in subs)

def two_pass(scn, c_out):
    """the model's printer is given the meta text the implementation wrote (relational tie for
    the part of the dump the model does not mirror)"""
    lines = list(scn.lines)
    if scn.meta.get("kind") == "malformed":
        return lines
    for i, l in enumerate(lines):
        t = l.split()
        if t[0] == "ds.dump" and len(t) == 3 and i < len(c_out):
            f = c_out[i].split()
            if len(f) == 2 and f[1] != "-":
                try:
                    m = metas_of_text(bytes.fromhex(f[1]))
                except Exception:
                    continue
                if m:
                    lines[i] = l + " " + m
    return lines

def compare(scn, lscn, cr, lr):
    """exact tie on well-formed scenarios; on the malformed stream only memory safety counts
    (a crash of the implementation), the model is not required to mirror garbage"""
    if scn.meta.get("kind") == "malformed":
        if cr[1]:
            return ("impl-crash", len(cr[0]), None, None, cr[1])
        return None
    return cmp0(scn, cr, lr, None)

# ----------------------------------------------------------------------------- oracle

def oracle(scn, outs):
    """the property on the implementation's own outputs: each dataset's message before the dump equals
    the message of the dataset loaded from the text, in order, compressed and not; as many datasets
    are loaded as were dumped"""
    if scn.meta.get("kind") == "malformed":
        return None
    pre0, pre1, ndump, inval = [], [], 0, False
    w = None
    cur0 = cur1 = None
    loaded = {}     # compress -> {d: msg}
    status = {}
    mode = None
    lists = {}
    seen = set()
    for l, o in zip(scn.lines, outs):
        t = l.split()
        if t[0] == "ds.clear":
            seen.clear(); lists.clear()
        if t[0] in ("ss.list", "dd.list", "ss.vals", "dd.vals"):
            seen.add(t[0][3:])
        if t[0] == "ds.dump" and seen != {"list", "vals"}:
            return None      # the dataset was not listed: its scope (value classes, associated fields) cannot be judged
        if t[0] == "ds.invalid" and o != "0":
            inval = True
        if t[0] == "ss.expand" and o == "-1":
            return None      # a failed expansion empties the subset: not a dataset of the property
        if t[0] in ("ss.list", "dd.list"):
            if o in ("none", "-"):
                return None
            lists[t[1]] = parse_nodes(o)
        if t[0] in ("ss.vals", "dd.vals") and t[1] in lists:
            # the library's -1 sentinel: an integer-typed value under a (redefined) negative reference cannot
            # tell the number -1 from "missing" (the encoder takes it as the number, every printer as missing)
            for n, v in zip(lists[t[1]], o.split()):
                if n["type"] == 4 and n["ref"] < 0 and not (n["flags"] & 4) and v.split("@")[0] in ("i:-1", "l:-1"):
                    return None
                # a value whose associated field is not of the width its encoding declares (values made before a
                # later expansion brought an uncancelled 2 04 YYY into force): the dataset's own message is not
                # self-consistent, its decoder would not read it back; not a dataset of the property
                if "@" in v and not (n["flags"] & 4) and n["af"] > 0 and int(v.split("@")[1].split(":")[0]) != n["af"]:
                    return None
        if t[0] in ("ds.decodelast", "ds.decode"):
            f = o.split()
            if f[0] != "ok" or f[1] != "0":
                inval = True
        if t[0] == "ds.msg":
            if t[2] == "0": cur0 = o
            else: cur1 = o
        if t[0] == "ds.dump":
            f = o.split()
            if len(f) != 2:
                return None
            txt = bytes.fromhex(f[1]) if f[1] != "-" else b""
            # outside the text format: a line feed, carriage return or NUL inside a value or header string; a line the reader cannot hold
            for ln in txt.split(b"\n"):
                if len(ln) > 2045:
                    return None
                if b"\r" in ln:
                    return None
            pre0.append(cur0); pre1.append(cur1); ndump += 1
        if t[0] == "ds.loadtext":
            mode = t[2]
            status[mode] = o
            loaded[mode] = {}
        if t[0] == "ld.msg" and mode is not None:
            loaded[mode][int(t[1])] = o
    if inval or ndump == 0 or not status:
        return None
    if any(m in (None, "null", "werr", "none", "toolong") for m in pre0 + pre1):
        return None
    for mode, pre in (("0", pre0), ("1", pre1)):
        if mode not in status:
            continue
        f = status[mode].split()
        if len(f) != 2:
            return "load: unexpected answer %r" % status[mode]
        if int(f[0]) != ndump:
            return "dumped %d datasets, loaded %s (status %s)" % (ndump, f[0], f[1])
        for d in range(ndump):
            got = loaded[mode].get(d)
            if got is None:
                continue
            if got != pre[d]:
                return "dataset %d of %d (compress=%s): the message after dump and load differs from the message before" % (d + 1, ndump, mode)
    return None

def signature(scn, outs):
    sig = set()
    kind = scn.meta.get("kind")
    if kind == "malformed":
        st = next((o for l, o in zip(scn.lines, outs) if l.startswith("ds.loadtext")), "?")
        sig.add(("mal", scn.meta.get("mut"), st))
        return sig
    tz = [l.split()[2] for l in scn.lines if l.startswith("ds.dump")]
    for l, o in zip(scn.lines, outs):
        t = l.split()
        if t[0] in ("ss.list", "dd.list") and o not in ("none", "-"):
            try:
                nodes = parse_nodes(o)
            except Exception:
                continue
            for n in nodes:
                if n["flags"] & 4: continue
                sig.add((kind, n["type"], min(n["nbits"], 72) // 4, n["scale"] < 0, n["scale"] > 6, n["ref"] < 0, n["af"] > 0,
                         scn.meta.get("ndumps"), tuple(sorted(set(tz)))))
    return sig

def classify(scn, outs):
    c = ["kind=%s" % scn.meta.get("kind")]
    if scn.meta.get("kind") == "malformed":
        c.append("mut=%s" % scn.meta.get("mut"))
        st = next((o for l, o in zip(scn.lines, outs) if l.startswith("ds.loadtext")), "?")
        c.append("load=%s" % st)
        return c
    c.append("dumps=%s" % scn.meta.get("ndumps"))
    c.append("ed%s" % scn.meta.get("ed"))
    t = scn.meta.get("template") or []
    if any(regs.F(d) == 1 and regs.Y(d) == 0 for d in t): c.append("delayed")
    if any(regs.F(d) == 2 for d in t): c.append("operators")
    if any(d // 1000 == 204 for d in t): c.append("assoc-field")
    st = [o for l, o in zip(scn.lines, outs) if l.startswith("ds.loadtext")]
    c.append("load=" + (st[0] if st else "?"))
    return c
