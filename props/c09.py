"""C09 — Table C operators change width, scale, reference and fields exactly as regulated."""
import os
from vlib.engine import Scenario
from vlib import tables
from gen import regs, templates
from props.c10 import parse_nodes, items_of

ID = "C09"
THEOREMS = ["Bufr.C09.C09_layout", "Bufr.C09.C09_class31_untouched", "Bufr.C09.C09_edition_gate", "Bufr.C09.C09_skipped_operator_inert"]
RULE = ("operand sweeps 2 01/2 02/2 07/2 08/2 04/2 06/2 05/2 03 x element classes (numeric +/- scale, negative "
        "reference, code, flag, character, class 31) x {single, nested, cancelled, re-applied} x editions 2,3,4, plus "
        "generated templates with operator groups inside replications and Table D; distinct = distinct "
        "(operator, operand class, element type, edition, outcome)")
ASSUMPTIONS = ["2 22-2 37 (bitmap/quality) operators are outside the model and are not generated here",
               "2 07 is not mixed with 2 01/2 02 in one scope (FM 94 forbids the nesting)"]
P = {}

def prepare(runner, work):
    global P
    sets = {"cur": tables.shipped("cur") + ("-", "-"),
            "loc": tables.shipped("cur") + (os.path.join(tables.REPO, "Test/local_table_b"), os.path.join(tables.REPO, "Test/local_table_d"))}
    P = tables.setup_tables(runner, sets)

def tline(ed, t):
    return "tm.new %d %s" % (ed, " ".join("%06d" % d for d in t))

def scenarios(rng, tier, runner):
    out = []
    B, D = P["loc"]
    pool = templates.pool_of(B)
    def pick(k):
        return rng.choice(pool[k]) if pool[k] else rng.choice(pool["num"])
    classes = ["num", "numneg", "negscale", "code", "flag", "ccitt"]
    ys = sorted(set([1, 2, 3, 100, 120, 126, 127, 128, 129, 130, 131, 136, 150, 200, 254, 255] +
                    ([rng.randrange(1, 256) for _ in range(4)] if tier == "quick" else list(range(1, 256)))))
    k = 0
    for ed in (2, 3, 4):
        for y in ys:
            for op in (201, 202, 207, 208):
                els = [pick(c) for c in classes] + [31001]
                t = [op * 1000 + y] + els + [op * 1000] + els
                out.append(Scenario("sweep-%d-%d-%d" % (op, y, ed), ["T.use loc", tline(ed, t), "ss.new", "ss.list 0", "ss.speclayout 0", "ds.invalid"],
                                    {"tables": "loc", "ed": ed, "template": t}))
        for y in [1, 2, 7, 8, 16, 31, 32, 33, 63, 64, 100, 255]:
            els = [pick(c) for c in classes]
            t = [204000 + y, 31021] + els + [31001, 204000] + els
            out.append(Scenario("af-%d-%d" % (y, ed), ["T.use loc", tline(ed, t), "ss.new", "ss.list 0", "ss.speclayout 0", "ds.invalid"],
                                {"tables": "loc", "ed": ed, "template": t}))
            t = [204000 + y, 31021, 204004, 31021] + els + [204000, pick("num"), 204000, pick("num")]
            out.append(Scenario("af2-%d-%d" % (y, ed), ["T.use loc", tline(ed, t), "ss.new", "ss.list 0", "ss.speclayout 0", "ds.invalid"],
                                {"tables": "loc", "ed": ed, "template": t}))
            t = [206000 + y, 63000 + rng.choice([1, 200, 255]), pick("num"), 206000 + y, 12192, pick("num")]
            out.append(Scenario("loc-%d-%d" % (y, ed), ["T.use loc", tline(ed, t), "ss.new", "ss.list 0", "ss.speclayout 0", "ds.invalid"],
                                {"tables": "loc", "ed": ed, "template": t}))
            t = [205000 + y, pick("num"), 203000 + y, pick("num"), pick("numneg"), 203255, pick("num")]
            out.append(Scenario("c5c3-%d-%d" % (y, ed), ["T.use loc", tline(ed, t), "ss.new", "ss.list 0", "ss.speclayout 0", "ds.invalid"],
                                {"tables": "loc", "ed": ed, "template": t}))
    # operators left un-cancelled inside a delayed replication, with factor 0 and > 0
    for ed in (3, 4):
        for opd in ([201130], [202129], [204007, 31021], [208002], [207002], [206010], [203010]):
            if ed < 4 and opd[0] // 1000 in (207, 208):
                continue
            for fac in (31000, 31001, 31002):
                body = opd + [pick("num"), pick("ccitt")]
                t = [100000 + len(body) * 1000, fac] + body + [pick("num"), pick("ccitt"), pick("numneg")]
                for fv in ("0", "1", "2"):
                    out.append(Scenario("zbody-%d-%d-%s" % (opd[0], ed, fv),
                                        ["T.use loc", tline(ed, t), "ss.new", "ss.list 0", "ss.setfactors 0 " + fv, "ss.expand 0", "ss.list 0", "ss.speclayout 0", "ds.invalid"],
                                        {"tables": "loc", "ed": ed, "template": t}))
    # 2 03 YYY: several elements redefined in one block, in ascending, descending and mixed descriptor order;
    # the new references are data: set them, let the encoder settle, then look at the layout
    nums = [d for d in pool["num"] if B[d][2] <= 24]
    for i in range(40 if tier == "quick" else 400):
        y = rng.choice([8, 12, 16, 20, 26, 30, 32])
        k_ = rng.choice([2, 2, 3, 4])
        els = rng.sample(nums, k_)
        order = rng.choice(["asc", "desc", "mixed"])
        els = sorted(els) if order == "asc" else sorted(els, reverse=True) if order == "desc" else els
        tail = els[:] if rng.random() < 0.5 else list(reversed(els))
        t = [203000 + y] + els + [203255] + tail + [203000] + tail
        # the most negative magnitude is the all-ones pattern, which 94.1.5 reads as "missing": left out (ambiguous in FM 94)
        # and -1, which the library's integer sentinel cannot tell from "missing" (known finding C09-newref-minus-one)
        vals = [rng.choice([0, 1, -1 * rng.randrange(2, 2 ** (y - 1) - 1), rng.randrange(1, 2 ** (y - 1)),
                            rng.choice([1, -1]) * (2 ** (y - 2) + 1)]) for _ in els]
        ls = ["T.use loc", tline(4, t), "ss.new"]
        for j, v in enumerate(vals):
            raw = v if v >= 0 else (1 << (y - 1)) | (-v)
            ls.append("ss.setraw 0 %d %d" % (1 + j, raw))
        ls += ["ds.encode 0", "ss.list 0", "ds.invalid"]
        out.append(Scenario("newref-%s-%d" % (order, i), ls, {"tables": "loc", "ed": 4, "template": t, "newrefs": vals}))
    # associated fields on elements whose value comes with the template (BufrDescValue values): the value exists
    # before Table C is applied, and must still get its associated field — the data section must have the length the
    # regulated layout gives (added after a seeded change: the encoder silently left the prefix out)
    from props import c18
    for i in range(60 if tier == "quick" else 900):
        ed = rng.choice([2, 3, 4, 4])
        y = rng.choice([1, 3, 6, 8, 8, 12, 16])
        els = [pick(c) for c in rng.sample(["num", "numneg", "code", "flag", "ccitt", "num"], rng.choice([1, 2, 3]))]
        if i % 3 == 0:
            t = [204000 + y, 31021, 204004, 31021] + els + [204000, pick("num"), 204000, pick("num")]
        else:
            t = [204000 + y, 31021] + els + [204000] + [pick("num")]
        items = []
        for d in t:
            v = c18.in_range_value(rng, B, d) if (regs.F(d) == 0 and regs.X(d) != 31 and rng.random() < 0.8) else None
            items.append("%06d" % d + ("=" + v if v else ""))
        ls = ["T.use loc", "tm.newv 0 %d %s" % (ed, " ".join(items)), "tm.use 0", "ss.new", "ss.list 0", "ss.vals 0",
              "ds.invalid", "ds.encode 0", "ds.decodelast 1 0 0", "dd.list 0", "dd.vals 0"]
        out.append(Scenario("afdef-%d" % i, ls, {"tables": "loc", "ed": ed, "template": t, "afdef": True}))
    n = 1200 if tier == "quick" else 12000
    for i in range(n):
        name = rng.choice(["cur", "loc"])
        Bn, Dn = P[name]
        t = templates.gen_template(rng, Bn, Dn, depth=rng.choice([0, 1, 2, 3]), ops=True)
        ed = rng.choice([2, 3, 4, 4, 4])
        ls = ["T.use " + name, tline(ed, t), "ss.new", "ss.list 0"]
        for _ in range(rng.choice([0, 1, 2])):
            ls += ["ss.setfactors 0 " + rng.choice(["1", "2 0 1", "0", "3"]), "ss.expand 0", "ss.list 0"]
        ls += ["ss.speclayout 0", "ds.invalid"]
        out.append(Scenario("gen-%d" % i, ls, {"tables": name, "ed": ed, "template": t}))
    return out

KIND = {4: 'num', 5: 'ccitt', 6: 'code', 7: 'flag', 8: 'newref', 9: 'ieee', 2: 'op', 0: 'none', 1: 'repl', 3: 'seq'}

def in_scope(ed, items):
    """operators the regulation transcription covers, defined in this edition, 2 07 not mixed with 2 01/2 02"""
    dw = ds = s7 = 0
    af = []
    c8 = 0
    for d in items:
        if regs.F(d) != 2:
            continue
        x, y = regs.X(d), regs.Y(d)
        df = regs.defined_in(ed, x)
        if df is None:
            return "outside"
        if not df:
            return "undefined-in-edition"
        if x == 1: dw = y
        if x == 2: ds = y
        if x == 4:
            if y: af.append(y)
            elif af: af.pop()
        if x == 8: c8 = y
        if x == 5 and (af or c8):
            # FM 94 does not say whether inserted characters (2 05) take an associated field or the
            # 2 08 width; the library gives them both.  Interpretation left open, not checked.
            return "205-under-204/208"
        if x == 7:
            if y and (dw or ds): return "mixed"
            s7 = y
        if x in (1, 2) and y and s7:
            return "mixed"
    return None

def check_layout(B, ed, nodes, newrefs=None):
    its = items_of(nodes)
    descs = [n["desc"] for n in its]
    why = in_scope(ed, descs)
    if why:
        return None, why
    if newrefs is not None:
        seq = iter(newrefs)
        memo = {}
        def nv(desc, idx):
            if idx not in memo:
                memo[idx] = next(seq, None)
            return memo[idx]
        want = regs.layout(B, ed, descs, newref_value=nv)
    else:
        want = regs.layout(B, ed, descs)
    for n, w in zip(its, want):
        d, kind, width, scale, ref, af = w
        got_kind = KIND.get(n["type"], '?')
        if kind == 'op':
            if got_kind != 'op':
                return "operator %06d has type %s" % (d, got_kind), None
            continue
        if kind == 'none':
            continue
        if abs(ref) >= 2 ** 31:
            continue   # reference no longer fits an int: refused by the library (checked through ds.invalid)
        got = (got_kind, n["nbits"], n["scale"], n["ref"], n["af"])
        exp = (kind, width, scale, ref, af % 256)
        if kind in ('ccitt', 'code', 'flag', 'ieee', 'newref') or d not in B:
            # (a local descriptor described by 2 06 YYY is YYY opaque bits: FM 94 gives it no scale or reference,
            #  whatever 2 02 / 2 07 is in force; only kind, width and associated field are regulated)
            got = (got[0], got[1], got[4]); exp = (exp[0], exp[1], exp[4])
        if got != exp:
            return "%06d: layout (type,width,scale,ref,af) is %s, FM 94 Table C gives %s" % (d, got, exp), None
    return None, None

def derive_newrefs(scn, subset):
    """the new reference values a hand-written (corpus) scenario sets through `ss.setraw`, for a flat template:
    -> list in template order, or None when the scenario is not of that simple shape"""
    tm = next((l.split() for l in scn.lines if l.startswith("tm.new")), None)
    if tm is None:
        return None
    t = [int(d) for d in tm[2:]]
    if any(regs.F(d) in (1, 3) for d in t) or not any(d // 1000 == 203 for d in t):
        return None
    raws = {}
    for l in scn.lines:
        f = l.split()
        if f[0] == "ss.setraw" and len(f) == 4 and f[1] == str(subset):
            raws[int(f[2])] = int(f[3])
    out, y = [], 0
    for i, d in enumerate(t):
        if d // 1000 == 203:
            y = 0 if d % 1000 in (0, 255) else d % 1000
        elif y and regs.F(d) == 0:
            r = raws.get(i)
            if r is None or r == (1 << y) - 1:
                out.append(None)
            else:
                out.append(r if r < (1 << (y - 1)) else -(r - (1 << (y - 1))))
    return out

def afdef_oracle(scn, outs):
    """the uncompressed data section of one subset has the length the layout of `ss.list` (itself checked against the
    regulation) gives: sum of width + associated-field width over the nodes that are not passed over"""
    lay = next((o for l, o in zip(scn.lines, outs) if l.startswith("ss.list")), None)
    enc = next((o for l, o in zip(scn.lines, outs) if l.startswith("ds.encode")), None)
    if not lay or not enc or lay in ("none", "-") or len(enc.split()) != 3:
        return None
    total = sum(max(n["nbits"], 0) + n["af"] for n in parse_nodes(lay) if not (n["flags"] & 4))
    hexs = enc.split()[2]
    got = 0 if hexs == "-" else len(hexs) // 2
    want = (total + 7) // 8
    if got not in (want, want + 1):
        return ("the data section of one subset takes %d octets, the regulated layout (%d bits: every element with its "
                "associated field) takes %d" % (got, total, want))
    return None

def oracle(scn, outs):
    name, ed = scn.meta.get("tables"), scn.meta.get("ed")
    B = None
    accepted = False
    if scn.meta.get("afdef"):
        r = afdef_oracle(scn, outs)
        if r:
            return r
    for line, o in zip(scn.lines, outs):
        t = line.split()
        if t[0] == "T.use" and t[1] in P:
            B = P[t[1]][0]
        elif t[0] == "tm.newv":
            ed = int(t[2]); accepted = True
        elif t[0] == "tm.new":
            ed = int(t[1]); accepted = o.startswith("ok")
        elif t[0] == "ss.list" and accepted and B is not None and o not in ("none", "-"):
            nr = scn.meta.get("newrefs")
            if nr is None and scn.meta.get("corpus") and "ds.encode 0" in scn.lines:
                nr = derive_newrefs(scn, t[1])
            elif nr is not None and not (sum(1 for l in scn.lines if l.startswith("ss.setraw")) == len(nr) and "ds.encode 0" in scn.lines):
                continue      # a shrunk scenario that no longer installs every new reference
            r, skip = check_layout(B, ed, parse_nodes(o), nr)
            if r:
                return r
            r = check_206(parse_nodes(o))
            if r:
                return r
    return None

def check_206(nodes):
    """2 06 YYY: "YYY bits of data are described by the immediately following local descriptor" — whatever the
    tables of the receiver know about that descriptor (numeric, code or flag table, characters)"""
    prev = None
    for nd in nodes:
        d = nd["desc"]
        if prev is not None and regs.F(d) == 0 and regs.X(d) != 31 and (regs.X(d) > 47 or 192 <= regs.Y(d) <= 255) \
                and not (nd["flags"] & 4) and nd["type"] in (5, 6, 7) and nd["nbits"] != prev:
            return "206: local descriptor %06d behind 2 06 %03d is given %d bits" % (d, prev, nd["nbits"])
        prev = regs.Y(d) if (regs.F(d) == 2 and regs.X(d) == 6 and not (nd["flags"] & 4)) else None
    return None

def canon(line, out, side):
    # the spec side answers "outside" for sequences the FM 94 transcription does not cover
    return out

def compare(scn, lscn, cr, lr):
    """exact tie, except that `ss.speclayout` is compared only where the Lean spec is in scope
    and the dataset is not flagged invalid (empty L lines compare equal)"""
    from vlib.engine import compare as cmp0
    c_out, l_out = list(cr[0]), list(lr[0])
    for i, l in enumerate(scn.lines):
        if l.startswith("ss.speclayout") and i < len(c_out) and i < len(l_out):
            if l_out[i] == "outside" or l_out[i].rstrip() == "L":
                c_out[i] = l_out[i]
            else:
                c_out[i] = c_out[i].replace("L ", "L ", 1)
    return cmp0(scn, (c_out, cr[1]), (l_out, lr[1]), None)

def signature(scn, outs):
    sig = set()
    ed = scn.meta.get("ed")
    for line, o in zip(scn.lines, outs):
        if line.startswith("ss.list") and o not in ("none", "-"):
            cur = None
            for n in items_of(parse_nodes(o)):
                if regs.F(n["desc"]) == 2:
                    cur = (regs.X(n["desc"]), min(regs.Y(n["desc"]), 255) // 8)
                else:
                    sig.add((ed, cur, n["type"], n["nbits"] > 32, n["af"] > 0, n["ref"] < 0, n["scale"] < 0))
    return sig

def classify(scn, outs):
    c = [scn.name.split("-")[0], "ed%s" % scn.meta.get("ed")]
    inv = next((o for l, o in zip(scn.lines, outs) if l == "ds.invalid"), "?")
    c.append("invalid=" + inv)
    return c
