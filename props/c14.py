"""C14 — subset ranges: partial decode equals a slice; merged subsets stay equal."""
from vlib.engine import Scenario
from gen import templates, regs, datasets
from props.c10 import parse_nodes
from props import c01

ID = "C14"
THEOREMS = ["Bufr.C14.C14_compressed_column", "Bufr.C14.C14_slice_length", "Bufr.C14.C14_fixed_subsets",
            "Bufr.C14.C14_merge_refuses", "Bufr.C14.C14_merge_places", "Bufr.C14.C14_merge_clamps", "Bufr.C14.C14_ieee_column_const", "Bufr.C14.C14_ieee_column_listed"]
RULE = ("datasets of the C01/C02 space with n = 1..8 subsets, encoded compressed and uncompressed; every (a, b) with "
        "1 <= a <= b <= n for small n (sampled for larger), plus out-of-range and inverted requests; merges of decoded "
        "subsets into built datasets of the same and of a different template at every destination position incl. beyond "
        "the end; distinct = distinct (compressed?, delayed?, n, a, b) and (merge kind, positions)")
ASSUMPTIONS = c01.ASSUMPTIONS
P = c01.P
prepare = c01.prepare
two_pass = c01.two_pass

def scenarios(rng, tier, runner):
    out = []
    n = 350 if tier == "quick" else 5000
    for i in range(n):
        name = rng.choice(["cur", "loc", "syn", "v13"])
        B, D = P[name]
        nsub = rng.choice([1, 2, 3, 3, 4, 5, 6, 8])
        comp = rng.choice([0, 1, 1])
        ls, meta = datasets.build_lines(rng, name, B, D, nsub=nsub, same_structure=(comp == 1 or rng.random() < 0.5))
        ls += ["ds.invalid", "ds.encode %d" % comp, "ds.decodelast 1 0 0"]
        for k in range(nsub):
            ls += ["dd.list %d" % k, "dd.vals %d" % k]
        pairs = [(a, b) for a in range(1, nsub + 1) for b in range(a, nsub + 1)]
        if len(pairs) > 8:
            pairs = rng.sample(pairs, 8)
        if rng.random() < 0.3:
            pairs += [rng.choice([(nsub, nsub + 2), (2, 1), (nsub + 1, nsub + 1), (-1, 2), (1, 0)])]
        meta["ranges"] = pairs
        meta["comp"] = comp
        for a, b in pairs:
            ls.append("ds.decodelast 1 %d %d" % (a, b))
            for k in range(max(0, min(b, nsub) - a + 1) + 1):
                ls += ["dd.list %d" % k, "dd.vals %d" % k]
        out.append(Scenario("rg-%d" % i, ls, meta))
    # IEEE fields (2 09 YYY) in compressed and uncompressed data, constant columns (NBINC = 0) included
    F32 = ["40490fdb", "00000000", "7f800000", "ff800000", "3f800000", "00000001", "c2f6e979"]
    F64 = ["400921fb54442d18", "0000000000000000", "7ff0000000000000", "3ff0000000000000", "0000000000000001", "c05edd2f1a9fbe77"]
    for i in range(40 if tier == "quick" else 600):
        B, D = P["cur"]
        w = rng.choice([32, 64])
        nums = [rng.choice(templates.pool_of(B)["num"]) for _ in range(rng.choice([1, 2]))]
        lead = [templates.pick_element(rng, B) for _ in range(rng.choice([0, 1]))]
        t = lead + [209000 + w] + nums + [209000, templates.pick_element(rng, B)]
        nsub = rng.choice([2, 3, 4, 5])
        comp = rng.choice([0, 1, 1, 1])
        ls = ["T.use cur", "tm.new 5 " + " ".join("%06d" % d for d in t)]
        for k in range(nsub):
            ls += ["ss.new", "ss.fill %d %d %d" % (k, rng.randrange(1, 2 ** 31), rng.choice([0, 1, 1]))]
        for j in range(len(nums)):
            const = rng.random() < 0.5
            v0 = rng.choice(F32 if w == 32 else F64)
            for k in range(nsub):
                v = v0 if const else rng.choice(F32 if w == 32 else F64)
                ls.append("%s %d %d %s" % ("ss.setf" if w == 32 else "ss.setd", k, len(lead) + 1 + j, v))
        for k in range(nsub):
            ls += ["ss.list %d" % k, "ss.vals %d" % k]
        ls += ["ds.invalid", "ds.encode %d" % comp, "ds.decodelast 1 0 0"]
        for k in range(nsub):
            ls += ["dd.list %d" % k, "dd.vals %d" % k]
        pairs = [(a, b) for a in range(1, nsub + 1) for b in range(a, nsub + 1)]
        if len(pairs) > 6:
            pairs = rng.sample(pairs, 6)
        meta = {"tables": "cur", "ed": 5, "template": t, "nsub": nsub, "ranges": pairs, "comp": comp}
        for a, b in pairs:
            ls.append("ds.decodelast 1 %d %d" % (a, b))
            for k in range(max(0, min(b, nsub) - a + 1) + 1):
                ls += ["dd.list %d" % k, "dd.vals %d" % k]
        out.append(Scenario("ieee-%d" % i, ls, meta))
    # merges
    m = 250 if tier == "quick" else 3000
    for i in range(m):
        name = rng.choice(["cur", "loc", "syn"])
        B, D = P[name]
        nsub = rng.choice([1, 2, 3, 4])
        ls, meta = datasets.build_lines(rng, name, B, D, nsub=nsub, same_structure=True)
        # a copy of the dataset by encode+decode, then refill the built one so that source and destination differ
        ls += ["ds.invalid", "ds.encode 0", "ds.decodelast 1 0 0"]
        for k in range(nsub):
            ls += ["dd.list %d" % k, "dd.vals %d" % k]
        for k in range(nsub):
            ls.append("ss.fill %d %d %d" % (k, rng.randrange(1, 2 ** 31), rng.choice([0, 1, 1, 4])))
        kind = rng.choice(["same", "same", "same", "beyond", "other", "over"])
        meta["merge"] = kind
        if kind == "other":
            # destination of a different template: rebuild current with another template
            t2 = [rng.choice([d for d in sorted(B) if regs.X(d) not in (0, 31) and B[d][2] > 0][:200])]
            ls += ["tm.new 4 " + " ".join("%06d" % d for d in t2), "ss.new", "ss.expand 0"]
            dp, sp, nb = 0, 0, 1
        elif kind == "beyond":
            dp, sp, nb = nsub + rng.choice([0, 1, 3]), rng.randrange(nsub), 1
        elif kind == "over":
            sp = rng.randrange(nsub); dp = rng.randrange(nsub + 1); nb = nsub - sp + rng.choice([0, 1, 2])
        else:
            sp = rng.randrange(nsub); nb = rng.randrange(1, nsub - sp + 1); dp = rng.randrange(nsub + 1)
        meta["mergeargs"] = (dp, sp, nb)
        for k in range(nsub):
            ls += ["ss.list %d" % k, "ss.vals %d" % k]
        meta["pre"] = len(ls)
        ls.append("dd.merge %d %d %d" % (dp, sp, nb))
        for k in range(max(nsub, dp + nb) + 1):
            ls += ["ss.list %d" % k, "ss.vals %d" % k]
        out.append(Scenario("mg-%d" % i, ls, meta))
    return out

compare = c01.compare

def _views(scn, outs, lo, hi):
    """{(kind, k): output} for dd./ss. list/vals lines in [lo, hi)"""
    r = {}
    for i in range(lo, min(hi, len(outs))):
        t = scn.lines[i].split()
        if t[0] in ("dd.list", "dd.vals", "ss.list", "ss.vals"):
            r[(t[0], int(t[1]))] = outs[i]
    return r

def oracle(scn, outs):
    if len(outs) != len(scn.lines):
        return None
    lines = scn.lines
    if "ranges" in scn.meta:
        n = scn.meta["nsub"]
        idx = [i for i, l in enumerate(lines) if l.startswith("ds.decodelast")]
        if not idx or lines[idx[0]].split()[2:] != ["0", "0"] or not any(l.startswith("ds.encode") for l in lines):
            return None
        full = _views(scn, outs, idx[0] + 1, idx[1] if len(idx) > 1 else len(lines))
        if any(("dd.list", k) not in full or ("dd.vals", k) not in full for k in range(n)):
            return None
        f = outs[idx[0]].split()
        if f[:2] != ["ok", "0"] or int(f[2]) != n:
            return None       # C01's business
        delayed = any(parse_nodes(full[("dd.list", k)]) and
                      any(regs.F(nd["desc"]) == 1 and regs.Y(nd["desc"]) == 0 for nd in parse_nodes(full[("dd.list", k)]))
                      for k in range(n) if full.get(("dd.list", k), "none") not in ("none", "-"))
        enc = next(o for l, o in zip(lines, outs) if l.startswith("ds.encode")).split()
        compressed = len(enc) == 3 and int(enc[0]) & 64
        for j in range(1, len(idx)):
            lo = idx[j]; hi = idx[j + 1] if j + 1 < len(idx) else len(lines)
            t = lines[lo].split()
            a, b = int(t[2]), int(t[3])
            r = outs[lo].split()
            if not (1 <= a <= b <= n):
                continue          # outside the property's quantifier: only the model tie applies
            if r[0] != "ok":
                return "range %d..%d of %d: refused (%s)" % (a, b, n, outs[lo])
            got = _views(scn, outs, lo + 1, hi)
            cnt = int(r[2])
            want = list(range(a - 1, b))
            def eq(rows):
                if cnt != len(rows): return False
                return all(got.get(("dd.list", k)) == full.get(("dd.list", s)) and
                           got.get(("dd.vals", k)) == full.get(("dd.vals", s)) for k, s in enumerate(rows))
            if eq(want):
                continue
            if not compressed and delayed and eq(list(range(n))):
                continue          # skipping impossible: the whole set is an allowed answer
            if r[1] != "0":
                return "range %d..%d of %d (%s): flagged invalid" % (a, b, n, "compressed" if compressed else "uncompressed")
            return "range %d..%d of %d (%s%s): %d subsets returned, contents differ from the slice of the full decode" % (
                a, b, n, "compressed" if compressed else "uncompressed", ", delayed" if delayed else "", cnt)
        return None
    if "merge" in scn.meta:
        pre = scn.meta["pre"]
        dp, sp, nb = scn.meta["mergeargs"]
        n = scn.meta["nsub"]
        idx = [i for i, l in enumerate(lines) if l.startswith("ds.decodelast")]
        if not idx or pre >= len(lines) or not lines[pre].startswith("dd.merge"):
            return None
        src = _views(scn, outs, idx[0] + 1, pre)
        f = outs[idx[0]].split()
        if f[:2] != ["ok", "0"] or int(f[2]) != n:
            return None
        before = {k: v for k, v in _views(scn, outs, idx[0] + 1, pre).items() if k[0].startswith("ss.")}
        after = _views(scn, outs, pre + 1, len(lines))
        r = outs[pre].split()
        if scn.meta["merge"] == "other":
            if r[0] != "-1":
                return "merge from a dataset of a different template was not refused (returned %s)" % r[0]
            return None
        if scn.meta["merge"] == "over":
            # asks for more subsets than the source holds after src_pos: only what is there can be placed
            nb = min(nb, n - sp)
        if int(r[0]) != nb:
            return "merge of %d subsets returned %s" % (nb, r[0])
        for i in range(nb):
            if after.get(("ss.list", dp + i)) != src.get(("dd.list", sp + i)) or after.get(("ss.vals", dp + i)) != src.get(("dd.vals", sp + i)):
                return "merge: destination subset %d differs from source subset %d" % (dp + i, sp + i)
        for k in range(n):
            if not (dp <= k < dp + nb):
                if after.get(("ss.list", k)) != before.get(("ss.list", k)) or after.get(("ss.vals", k)) != before.get(("ss.vals", k)):
                    return "merge: destination subset %d outside the requested positions changed" % k
        return None
    return None

def signature(scn, outs):
    if "ranges" in scn.meta:
        return {("r", scn.meta.get("comp"), scn.meta["nsub"], a, b) for a, b in scn.meta["ranges"]}
    return {("m", scn.meta.get("merge"), scn.meta.get("mergeargs"))}

def classify(scn, outs):
    return ["ranges" if "ranges" in scn.meta else "merge:" + scn.meta.get("merge", "?")]
