/* C16 probe: bufr_duplicate_af() allocates a BufrAF and at once overwrites the pointer with the one bufr_create_af()
 * returns: 24 bytes leak per call in a build that does not optimise the dead malloc away (-O0).
 * build: gcc -O0 -g -fsanitize=address -DHAVE_CONFIG_H -I<inc> -I/repo/API/Headers -I/repo/API/Sources p.c /repo/API/Sources/*.c -lm */
#include <stdio.h>
#include "bufr_api.h"
#include "bufr_af.h"
int main(void){
  int lens[2]={2,5};
  BufrAF *a=bufr_create_af(lens,2);
  BufrAF *b=bufr_duplicate_af(a);
  bufr_free_af(a); bufr_free_af(b);
  return 0;
}
