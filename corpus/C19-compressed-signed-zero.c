/* witness: a compressed IEEE column holding +0.0 and -0.0 must keep both signs
   build: W=/repo; gcc -I$W/API/Headers -I$W -o /tmp/sz /tmp/sz.c $W/API/Sources/.libs/libecbufr.a -lm && BUFR_TABLES=$W/Tables /tmp/sz */
#include <stdio.h>
#include <stdlib.h>
#include <string.h>
#include <math.h>
#include "bufr_api.h"
int main(void)
   {
   BUFR_Tables *t; BUFR_Template *tm; BUFR_Dataset *d, *d2; BUFR_Message *m; BufrDescValue dv[3]; int i, bad = 0;
   double in[3] = { 0.0, -0.0, 0.0 };
   bufr_begin_api(); 
   t = bufr_create_tables();
   bufr_load_cmc_tables(t);
   dv[0].descriptor = 209064; dv[0].values = NULL; dv[0].nbval = 0;
   dv[1].descriptor = 12101;  dv[1].values = NULL; dv[1].nbval = 0;
   dv[2].descriptor = 209000; dv[2].values = NULL; dv[2].nbval = 0;
   tm = bufr_create_template(dv, 3, t, 5);
   d = bufr_create_dataset(tm);
   for (i = 0; i < 3; i++)
      {
      int p = bufr_create_datasubset(d);
      DataSubset *s = bufr_get_datasubset(d, p);
      BufrDescriptor *b = bufr_datasubset_get_descriptor(s, 1);
      bufr_descriptor_set_dvalue(b, in[i]);
      }
   m = bufr_encode_message(d, 1);
   { int q; printf("s4:"); for (q = 0; q < m->s4.filled + 1 && q < 40; q++) printf(" %02x", m->s4.data[q]); printf("\n"); }
   m->s4.current = m->s4.data; m->s4.bitno = 0;   /* rewind, as after reading the message */
   d2 = bufr_decode_message(m, t);
   for (i = 0; i < 3; i++)
      {
      DataSubset *s = bufr_get_datasubset(d2, i);
      BufrDescriptor *b = bufr_datasubset_get_descriptor(s, 1);
      double v = bufr_descriptor_get_dvalue(b);
      printf("subset %d: wrote %s0.0 read %s0.0\n", i, signbit(in[i]) ? "-" : "+", signbit(v) ? "-" : "+");
      if (!!signbit(v) != !!signbit(in[i])) bad = 1;
      }
   printf(bad ? "VIOLATION\n" : "ok\n");
   return bad;
   }
