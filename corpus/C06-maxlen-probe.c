#include <stdio.h>
#include <stdlib.h>
#include <string.h>
#include "bufr_api.h"
#include "bufr_io.h"
#include "bufr_message.h"
int main(void)
   {
   unsigned n = 16777216u - 47u;
   BUFR_Message *m = bufr_create_message(4), *r = NULL;
   int d = 1001;
   char *blk = calloc(1, n), *buf;
   ssize_t rc;
   bufr_alloc_sect4(m, n);
   bufr_begin_message(m);
   arr_add(m->s3.desc_list, (char *)&d);
   bufr_putstring(m, blk, n);
   bufr_end_message(m);
   buf = malloc(m->len_msg + 16);
   rc = bufr_memwrite_message(buf, m->len_msg + 16, m);
   printf("len_msg=%u rc=%ld section0 length octets=%02x %02x %02x last4=%.4s\n", m->len_msg, (long)rc,
          (unsigned char)buf[4], (unsigned char)buf[5], (unsigned char)buf[6], buf + rc - 4);
   rc = bufr_memread_message(buf, rc, &r);
   printf("read back rc=%ld\n", (long)rc);
   return 0;
   }
