"""Tables "as loaded by C" for the other property units (DESIGN §4.1): run the real loaders in
bvp_c, dump what they produced, and turn the dump into `tbl.ingestB/ingestD` lines that both
executables accept.  A defect in a table *parser* therefore trips C12 only.

    from gen.tables_preamble import as_loaded
    pre = as_loaded(runner, ["tbl.load_m_b /repo/Tables/table_b_bufr", "tbl.load_m_d /repo/Tables/table_d_bufr",
                             "tbl.load_l_b /repo/Test/local_table_b"])
    scenario_lines = pre + [...]
"""
from vlib.engine import Scenario

def as_loaded(runner, load_lines, slot=0):
    lines = ["tbl.new %d" % slot] + list(load_lines) + ["tbl.dumpB m", "tbl.dumpB l", "tbl.dumpD m", "tbl.dumpD l"]
    outs, crash = runner.run_batch([Scenario("preamble", lines)], "impl")[0]
    if crash or len(outs) != len(lines):
        raise RuntimeError("tables preamble: the implementation failed to load: %s" % (crash or outs))
    pre = ["tbl.new %d" % slot]
    for which, kind, o in (("m", "B", outs[-4]), ("l", "B", outs[-3]), ("m", "D", outs[-2]), ("l", "D", outs[-1])):
        if o in ("null", "0"):
            continue
        for e in o.split(" ", 1)[1].split(";"):
            pre.append("tbl.ingest%s %s %s" % (kind, which, e))
    return pre
