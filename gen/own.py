"""C16 workloads: random *valid* interleavings of the object-level API (tables, templates, datasets, subsets,
messages) over slots, with several objects alive at once and frees in any order the ownership discipline allows.
The generator keeps its own books (which handle is live, which root points into which) independently of the
Lean model; `own.counts`, `own.audit` and `own.refs` lines are sprinkled at quiescent points."""
import os
from . import templates, regs

NS = 8
TABLES_DIR = [None]     # directory of the shipped tables, set by props/c16.prepare
TABLE_FILES = {}        # name -> (mb, md, lb|None, ld|None), filled by props/c16.prepare
TEMPLATE_FILES = {}     # name -> (path, tables name, ok?)
BAD_TABLES = {}         # name -> (which, path)

class Book:
    """python-side books of one scenario"""
    def __init__(self, rng, P):
        self.rng, self.P = rng, P
        self.lines = []
        self.stamp = 0
        self.T, self.M, self.D, self.G, self.B, self.L = {}, {}, {}, {}, {}, {}
        self.sincecheck = 0

    # ---- helpers
    def emit(self, l):
        self.lines.append(l)
        self.sincecheck += 1
    def tick(self):
        self.stamp += 1
        return self.stamp
    def free_slot(self, d):
        c = [i for i in range(NS) if i not in d]
        return self.rng.choice(c) if c else None
    def roots(self):
        r = {}
        for k, d in (("T", self.T), ("M", self.M), ("D", self.D), ("G", self.G), ("L", self.L)):
            for i, o in d.items():
                r["%s%d" % (k, i)] = o
        return r
    def referenced(self, name):
        """is some *other* live root pointing into `name`?"""
        return any(name in o["refs"] for n, o in self.roots().items() if n != name)
    def check(self, force=False):
        if force or self.sincecheck >= self.rng.choice([1, 2, 3, 5]):
            self.lines += ["own.counts", "own.audit"]
            if self.rng.random() < 0.4:
                self.lines.append("own.refs")
            self.sincecheck = 0

    # ---- tables
    def tload(self, t, w, path):
        """load a file into a tables handle: a master table loaded here belongs to the handle from now on"""
        self.emit("own.tload %d %s %s" % (t, w, path))
        o = self.T[t]; me = "T%d" % t
        if w in ("mb", "cb"):
            o["mB"] = me
        elif w in ("md", "cd"):
            o["mD"] = me
        o["refs"] = {x for x in (o["mB"], o["mD"]) if x and x != "@" and x != me}

    def tables_recipe(self):
        rng = self.rng
        t = self.free_slot(self.T)
        if t is None:
            return False
        kind = rng.choice(["load", "load", "merge@", "mergeT", "loadbad", "mergeL"])
        if kind == "mergeL" and not self.L:
            kind = "merge@"
        name = rng.choice(["cur", "loc", "syn", "v13"])
        mb, md, lb, ld = TABLE_FILES[name]
        me = "T%d" % t
        if kind == "mergeT" and not self.T:
            kind = "merge@"
        self.emit("own.tnew %d" % t)
        o = {"stamp": self.tick(), "refs": set(), "name": None, "mB": None, "mD": None}
        self.T[t] = o
        if kind in ("load", "loadbad"):
            if kind == "loadbad":
                w, p = rng.choice(sorted(BAD_TABLES.values()))
                self.tload(t, w, p)
            order = [("mb", mb), ("md", md)] + ([("lb", lb), ("ld", ld)] if lb else [])
            if rng.random() < 0.3:
                rng.shuffle(order)
            for w, p in order:
                self.tload(t, w, p)
                if rng.random() < 0.1:
                    self.tload(t, w, p)        # loading twice merges into the loaded table
            o["name"], o["mB"], o["mD"] = name, me, me
        elif kind == "mergeL":
            l = rng.choice(sorted(self.L)); ol = self.L[l]
            v = rng.choice(sorted(ol["versions"]) or [13])
            self.emit("own.tmerge %d L%d:%d" % (t, l, v))
            o["name"] = "v13" if (v == 13 and 13 in ol["versions"] and not ol["local"]) else None
            o["mB"], o["mD"] = "L%d" % l, "L%d" % l
            o["refs"] = {"L%d" % l}
        elif kind == "merge@":
            self.emit("own.tmerge %d @%s" % (t, name))
            o["name"], o["mB"], o["mD"] = name, "@", "@"
            if name == "cur" and rng.random() < 0.4:
                n2 = rng.choice(["loc", "syn"])
                self.tload(t, "lb", TABLE_FILES[n2][2])
                self.tload(t, "ld", TABLE_FILES[n2][3])
                o["name"] = n2
        else:
            s = rng.choice(sorted(k for k, v in self.T.items() if k != t and v["name"]))if [k for k, v in self.T.items() if k != t and v["name"]] else None
            if s is None:
                self.emit("own.tmerge %d @%s" % (t, name))
                o["name"], o["mB"], o["mD"] = name, "@", "@"
            else:
                so = self.T[s]
                self.emit("own.tmerge %d %d" % (t, s))
                o["name"], o["mB"], o["mD"] = so["name"], so["mB"], so["mD"]
                o["refs"] = {x for x in (so["mB"], so["mD"]) if x and x != "@" and x != me}
        return True

    def tables_extra(self):
        """merge into / load on top of an existing tables object that nobody points into"""
        rng = self.rng
        c = [t for t, o in self.T.items() if o["name"] and not self.referenced("T%d" % t)]
        if not c:
            return False
        t = rng.choice(c); o = self.T[t]; me = "T%d" % t
        if rng.random() < 0.5 and o["name"] == "cur":
            n2 = rng.choice(["loc", "syn"])
            self.tload(t, "lb", TABLE_FILES[n2][2])
            self.tload(t, "ld", TABLE_FILES[n2][3])
            o["name"] = n2
            return True
        # merge from an *older* source of the same master tables (references must point to older roots)
        src = [s for s, so in self.T.items() if s != t and so["name"] and so["stamp"] < o["stamp"]
               and so["name"] in (o["name"], "cur") and all(x in ("@", "T%d" % s) or self.roots()[x]["stamp"] < o["stamp"] for x in (so["mB"], so["mD"]) if x)]
        if src and rng.random() < 0.7:
            s = rng.choice(src); so = self.T[s]
            self.emit("own.tmerge %d %d" % (t, s))
            o["mB"], o["mD"] = so["mB"], so["mD"]
            o["refs"] = {x for x in (so["mB"], so["mD"]) if x and x != "@" and x != me}
            return True
        self.emit("own.tmerge %d @%s" % (t, o["name"] if o["name"] != "syn" else "cur"))
        o["mB"], o["mD"] = "@", "@"; o["refs"] = set()
        return True

    def tables_list(self):
        """bufr_load_tables_list over the shipped directory: duplicates and absent versions are skipped by the library"""
        rng = self.rng
        l = self.free_slot(self.L)
        if l is None:
            return False
        vs = [rng.choice([13, 13, 31, 32, 35, 99]) for _ in range(rng.choice([1, 2, 3, 4]))]
        self.emit("own.lnew %d %s %s" % (l, TABLES_DIR[0], " ".join(map(str, vs))))
        o = {"stamp": self.tick(), "refs": set(), "versions": set(vs) - {99}, "local": False}
        self.L[l] = o
        if rng.random() < 0.3:
            lb, ld = TABLE_FILES["loc"][2:]
            self.emit("own.llocal %d %s %s" % (l, lb, rng.choice([ld, "-"])))
            o["local"] = True
        return True

    def pick_tables(self):
        """(argument text, books of the tables, tables name) of a usable tables handle, slots or immortal sets"""
        rng = self.rng
        cl = [l for l, o in self.L.items() if 13 in o["versions"] and not o["local"]]
        if cl and rng.random() < 0.25:
            l = rng.choice(cl)
            return "L%d:13" % l, {"L%d" % l}, "v13"
        c = [t for t, o in self.T.items() if o["name"]]
        if c and rng.random() < 0.7:
            t = rng.choice(c); o = self.T[t]
            return "%d" % t, {x for x in (o["mB"], o["mD"]) if x and x != "@"}, o["name"]
        name = rng.choice(["cur", "loc", "syn", "v13"])
        return "@" + name, set(), name

    # ---- templates
    def template_new(self, bad=False):
        rng = self.rng
        m = self.free_slot(self.M)
        if m is None:
            return False
        targ, refs, name = self.pick_tables()
        B, D = self.P[name]
        ed = rng.choice([2, 3, 4, 4])
        t = templates.gen_template(rng, B, D, depth=rng.choice([0, 1, 2]), ops=rng.random() < 0.4, n=rng.choice([1, 2, 3, 4]))
        if bad:
            t = templates.mutate_illformed(rng, t, B, D)
        self.emit("own.mnew %d %s %d %s" % (m, targ, ed, " ".join("%06d" % d for d in t)))
        # whether it was accepted is only known to the implementation: a second op on the slot tells
        self.M[m] = {"stamp": self.tick(), "refs": set(refs), "name": name, "descs": t, "ed": ed, "maybe": bad}
        return True

    def template_extend(self):
        """`bufr_template_add_DescValue` on a template that is already finalized, then finalized again"""
        rng = self.rng
        c = [m for m, o in self.M.items() if not o.get("maybe") and o.get("descs") and o.get("name") in self.P and not o.get("fromfile")]
        if not c:
            return False
        m = rng.choice(c); o = self.M[m]
        B, D = self.P[o["name"]]
        add = templates.gen_template(rng, B, D, depth=rng.choice([0, 0, 1]), ops=False, n=rng.choice([1, 2]))
        self.emit("own.madd %d %s" % (m, " ".join("%06d" % d for d in add)))
        o["descs"] = list(o["descs"]) + add
        o["stamp_ext"] = self.tick()
        return True

    def template_copy(self):
        rng = self.rng
        src = [m for m, o in self.M.items() if not o.get("maybe")]
        m2 = self.free_slot(self.M)
        if not src or m2 is None:
            return False
        m1 = rng.choice(src); o = self.M[m1]
        self.emit("own.mcopy %d %d" % (m2, m1))
        self.M[m2] = dict(o, stamp=self.tick(), refs=set(o["refs"]) | ({"M%d" % m1} if o.get("selfmaster") else set()), selfmaster=False)
        return True

    def template_load(self):
        rng = self.rng
        m = self.free_slot(self.M)
        if m is None or not TEMPLATE_FILES:
            return False
        key = rng.choice(sorted(TEMPLATE_FILES))
        path, name, ok, descs, ed = TEMPLATE_FILES[key]
        c = [t for t, o in self.T.items() if o["name"] == name]
        if c and rng.random() < 0.6:
            t = rng.choice(c); o = self.T[t]
            targ, refs = "%d" % t, {x for x in (o["mB"], o["mD"]) if x and x != "@"}
        else:
            targ, refs = "@" + name, set()
        self.emit("own.mload %d %s %s" % (m, targ, path))
        # a template file that names its master tables makes the template the owner of them: what is made from the
        # template then points into the template (and not into the tables passed to the loader)
        own_master = key.startswith("master")
        self.M[m] = {"stamp": self.tick(), "refs": set(refs), "name": name, "descs": descs, "ed": ed,
                     "maybe": not ok, "selfmaster": own_master}
        return True

    # ---- datasets
    def dataset_new(self):
        rng = self.rng
        src = [m for m, o in self.M.items() if not o.get("maybe")]
        d = self.free_slot(self.D)
        if not src or d is None:
            return False
        m = rng.choice(src); o = self.M[m]
        self.emit("own.dnew %d %d" % (d, m))
        self.D[d] = {"stamp": self.tick(), "refs": set(o["refs"]) | ({"M%d" % m} if o.get("selfmaster") else set()), "name": o["name"], "descs": o["descs"], "ed": o["ed"], "nsub": 0,
                     "structs": [], "ok": True}
        return True

    def subset_new(self, d=None, fs=None, mode=None):
        rng = self.rng
        c = [k for k, o in self.D.items() if o["ok"]]
        if d is None:
            if not c:
                return False
            d = rng.choice(c)
        o = self.D[d]
        k = o["nsub"]
        self.emit("own.dsub %d" % d)
        fs = fs or rng.choice(["2 1 0 3", "0", "1", "3 0 2", "1 2", "2"])
        for _ in range(rng.choice([1, 2, 2])):
            self.emit("own.dfactors %d %d %s" % (d, k, fs))
            self.emit("own.dexpand %d %d" % (d, k))
        self.emit("own.dfill %d %d %d %d" % (d, k, rng.randrange(1, 2 ** 31), mode if mode is not None else rng.choice([0, 1, 1, 2, 3])))
        o["nsub"] += 1
        if o["structs"] is not None: o["structs"].append(fs)
        return True

    def subset_touch(self):
        rng = self.rng
        c = [k for k, o in self.D.items() if o["ok"] and o["nsub"] > 0]
        if not c:
            return False
        d = rng.choice(c); o = self.D[d]; k = rng.randrange(o["nsub"])
        r = rng.random()
        if r < 0.6:
            self.emit("own.dfill %d %d %d %d" % (d, k, rng.randrange(1, 2 ** 31), rng.choice([0, 1, 2, 3])))
        else:
            self.emit("own.dexpand %d %d" % (d, k))
        return True

    def dataset_merge(self):
        rng = self.rng
        pairs = [(a, b) for a, oa in self.D.items() for b, ob in self.D.items()
                 if a != b and oa["ok"] and ob["ok"] and ob["nsub"] > 0 and oa["descs"] == ob["descs"]]
        if not pairs:
            return False
        a, b = rng.choice(pairs); oa, ob = self.D[a], self.D[b]
        sp = rng.randrange(ob["nsub"]); nb = rng.randrange(1, ob["nsub"] - sp + 1)
        dp = rng.choice([rng.randrange(oa["nsub"] + 1), oa["nsub"], oa["nsub"] + rng.choice([1, 2])])
        self.emit("own.dmerge %d %d %d %d %d" % (a, dp, b, sp, nb))
        oa["nsub"] = max(oa["nsub"], dp + nb)
        oa["structs"] = None
        # a duplicated subset is self-contained: the destination does not point into the source
        return True

    def dataset_mismatch_merge(self):
        rng = self.rng
        pairs = [(a, b) for a, oa in self.D.items() for b, ob in self.D.items()
                 if a != b and oa["ok"] and ob["ok"] and ob["nsub"] > 0 and oa["descs"] != ob["descs"]]
        if not pairs:
            return False
        a, b = rng.choice(pairs)
        self.emit("own.dmerge %d 0 %d 0 1" % (a, b))
        return True

    def encode(self, d=None, comp=None):
        rng = self.rng
        c = [k for k, o in self.D.items() if o["ok"] and o["nsub"] > 0]
        g = self.free_slot(self.G)
        if g is None or (d is None and not c):
            return False
        if d is None:
            d = rng.choice(c)
        o = self.D[d]
        if comp is None:
            comp = rng.choice([0, 1, 1])
        if rng.random() < 0.2:
            self.emit("own.dhdr %d %s" % (d, bytes(rng.choice(range(33, 127)) for _ in range(rng.choice([1, 4, 30]))).hex()))
        self.emit("own.enc %d %d %d" % (g, d, comp))
        self.G[g] = {"stamp": self.tick(), "refs": set(), "name": o["name"], "descs": o["descs"], "ed": o["ed"], "nsub": o["nsub"], "good": True}
        return True

    def write_read(self, damage=False):
        rng = self.rng
        if not self.G:
            return False
        g = rng.choice(sorted(self.G)); og = self.G[g]
        b = rng.randrange(NS)
        self.emit("own.gwrite %d %d" % (b, g))
        self.B[b] = True
        good = og["good"]
        if damage:
            k = rng.choice(["cut", "flip", "flip"])
            if k == "cut":
                self.emit("own.bcut %d %d" % (b, rng.choice([0, 3, 7, 20, 30, 40, 60])))
            else:
                self.emit("own.bflip %d %d %d" % (b, rng.choice([4, 5, 6, 7, 9, 17, 22, 23, 24, 25, 26, 27, 28, 29, 30, 33, 40, 48]), rng.choice([1, 2, 128, 255])))
            good = False
        g2 = self.free_slot(self.G)
        if g2 is None:
            return True
        self.emit("own.gread %d %d" % (g2, b))
        self.G[g2] = dict(og, stamp=self.tick(), refs=set(), good=good, maybe=not good)
        return True

    def decode(self):
        rng = self.rng
        c = [g for g, o in self.G.items() if not o.get("maybe")]
        d = self.free_slot(self.D)
        if not c or d is None:
            return False
        g = rng.choice(c); og = self.G[g]
        # decode with tables of the same content (slot or immortal)
        cT = [t for t, o in self.T.items() if o["name"] == og["name"]]
        if cT and rng.random() < 0.6:
            t = rng.choice(cT); ot = self.T[t]
            targ, refs = "%d" % t, {x for x in (ot["mB"], ot["mD"]) if x and x != "@"}
        else:
            targ, refs = "@" + og["name"], set()
        rng_sub = ""
        if og["good"] and rng.random() < 0.3 and og["nsub"] > 0:
            a = rng.randrange(1, og["nsub"] + 1); bb = rng.randrange(a, og["nsub"] + 1)
            rng_sub = " %d %d" % (a, bb)
        self.emit("own.dec %d %d %s%s" % (d, g, targ, rng_sub))
        self.D[d] = {"stamp": self.tick(), "refs": set(refs), "name": og["name"], "descs": og["descs"], "ed": og["ed"],
                     "nsub": og["nsub"] if not rng_sub else 0, "structs": None, "ok": og["good"] and not rng_sub, "maybe": not og["good"]}
        return True

    def dataset_from_sequence(self):
        """`bufr_create_dataset_from_sequence`: a free-form list of elements with values becomes a dataset of one subset"""
        rng = self.rng
        d = self.free_slot(self.D)
        if d is None:
            return False
        name = rng.choice(["cur", "loc", "syn"])
        # the application's own descriptors (`bufr_create_descriptor(tables, ...)`) point into the tables they were
        # made from, local entries included, and the dataset keeps copies of them: the tables must outlive it.
        # The workload uses the immortal table sets of the process, so that no order of frees can break that rule.
        targ, refs = "@" + name, set()
        B, D = self.P[name]
        descs = [templates.pick_element(rng, B) for _ in range(rng.choice([1, 2, 3, 5]))]
        ed = rng.choice([3, 4])
        self.emit("own.dseq %d %s %d %s" % (d, targ, ed, " ".join("%06d" % x for x in descs)))
        self.D[d] = {"stamp": self.tick(), "refs": set(refs), "name": name, "descs": descs, "ed": ed, "nsub": 0,
                     "structs": None, "ok": False, "maybe": True}
        return True

    def decode_damaged(self):
        """a message whose bytes were damaged after writing: read may fail, decode may return NULL or a flagged dataset"""
        rng = self.rng
        c = [g for g, o in self.G.items() if o.get("maybe")]
        d = self.free_slot(self.D)
        if not c or d is None:
            return False
        g = rng.choice(c); og = self.G[g]
        self.emit("own.dec %d %d @%s" % (d, g, og["name"]))
        self.D[d] = {"stamp": self.tick(), "refs": set(), "name": og["name"], "descs": og["descs"], "ed": og["ed"], "nsub": 0,
                     "structs": None, "ok": False, "maybe": True}
        return True

    def store_extract(self):
        """the local tables of a dataset travel in a message (bufr_store_tables) and come back as a tables object"""
        rng = self.rng
        c = [k for k, o in self.D.items() if o["ok"] and o["name"] in ("loc", "syn")]
        g = self.free_slot(self.G); d2 = self.free_slot(self.D); t = self.free_slot(self.T)
        if not c or g is None or d2 is None or t is None:
            return False
        d = rng.choice(c); o = self.D[d]
        b = rng.randrange(NS)
        self.emit("own.store %d %d" % (b, d)); self.B[b] = True
        self.emit("own.gread %d %d" % (g, b))
        self.G[g] = {"stamp": self.tick(), "refs": set(), "name": "cur", "descs": None, "ed": 4, "nsub": 1, "good": True, "maybe": True}
        self.emit("own.dec %d %d @cur" % (d2, g))
        self.D[d2] = {"stamp": self.tick(), "refs": set(), "name": "cur", "descs": None, "ed": 4, "nsub": 1, "structs": None, "ok": False}
        self.emit("own.extract %d %d" % (t, d2))
        self.T[t] = {"stamp": self.tick(), "refs": set(), "name": None, "mB": None, "mD": None, "extracted": o["name"]}
        if rng.random() < 0.6:
            t2 = self.free_slot(self.T)
            if t2 is not None:
                self.emit("own.tnew %d" % t2)
                self.emit("own.tmerge %d @cur" % t2)
                self.emit("own.tmerge %d %d" % (t2, t))
                self.T[t2] = {"stamp": self.tick(), "refs": set(), "name": o["name"], "mB": "@", "mD": "@"}
        return True

    def extract_nothing(self):
        """bufr_extract_tables on a dataset that carries no tables: NULL"""
        c = [k for k, o in self.D.items() if o["ok"]]
        t = self.free_slot(self.T)
        if not c or t is None:
            return False
        self.emit("own.extract %d %d" % (t, self.rng.choice(c)))
        # NULL unless the dataset happens to be a table message: the handle may or may not be held
        self.T[t] = {"stamp": self.tick(), "refs": set(), "name": None, "mB": None, "mD": None, "maybe": True}
        return True

    def dumpload(self):
        rng = self.rng
        c = [k for k, o in self.D.items() if o["ok"] and o["nsub"] > 0]
        src = [m for m, o in self.M.items() if not o.get("maybe")]
        d2 = self.free_slot(self.D)
        if not c or d2 is None:
            return False
        d = rng.choice(c); o = self.D[d]
        same = [m for m in src if self.M[m]["descs"] == o["descs"] and self.M[m]["name"] == o["name"]]
        if same and rng.random() < 0.8:
            m = rng.choice(same)
        elif src:
            m = rng.choice(src)        # another template: the load refuses the text
        else:
            return False
        om = self.M[m]
        self.emit("own.dnew %d %d" % (d2, m))
        self.emit("own.dumpload %d %d" % (d, d2))
        self.D[d2] = {"stamp": self.tick(), "refs": set(om["refs"]) | ({"M%d" % m} if om.get("selfmaster") else set()), "name": om["name"], "descs": om["descs"], "ed": om["ed"], "nsub": 0,
                      "structs": None, "ok": False}
        return True

    # ---- frees, in any order the discipline allows
    def free_one(self, kinds="TMDGL"):
        rng = self.rng
        c = []
        for k, d, op in (("T", self.T, "own.tfree"), ("M", self.M, "own.mfree"), ("D", self.D, "own.dfree"), ("G", self.G, "own.gfree"), ("L", self.L, "own.lfree")):
            if k not in kinds:
                continue
            for i, o in d.items():
                if not self.referenced("%s%d" % (k, i)):
                    c.append((k, i, d, op))
        if not c:
            return False
        k, i, d, op = rng.choice(c)
        self.emit("%s %d" % (op, i))
        del d[i]
        return True

    def free_everything(self):
        rng = self.rng
        if rng.random() < 0.35:
            self.emit("own.freeall")
            self.T, self.M, self.D, self.G, self.L = {}, {}, {}, {}, {}
            return
        guard = 0
        while (self.T or self.M or self.D or self.G or self.L) and guard < 100:
            guard += 1
            if not self.free_one():
                break
        if self.T or self.M or self.D or self.G or self.L:
            self.emit("own.freeall")

def finish(bk):
    bk.free_everything()
    bk.lines += ["own.counts", "own.audit", "own.reset", "own.lsan"]
    return bk.lines

def random_workload(rng, P, nops=None):
    bk = Book(rng, P)
    nops = nops or rng.choice([6, 10, 16, 24])
    acts = [(bk.tables_recipe, 3), (bk.tables_extra, 1), (bk.template_new, 4), (bk.template_copy, 1), (bk.template_extend, 2), (bk.template_load, 1),
            (bk.dataset_new, 4), (bk.subset_new, 6), (bk.subset_touch, 2), (bk.dataset_merge, 3), (bk.dataset_mismatch_merge, 1),
            (bk.encode, 4), (bk.write_read, 3), (bk.decode, 4), (bk.dataset_from_sequence, 2), (bk.dumpload, 1), (bk.free_one, 5),
            (bk.tables_list, 1), (bk.store_extract, 1), (bk.extract_nothing, 1)]
    bag = [a for a, w in acts for _ in range(w)]
    # a spine so that the deep ops are reachable
    bk.template_new(); bk.dataset_new(); bk.subset_new()
    done = 0
    guard = 0
    while done < nops and guard < 10 * nops:
        guard += 1
        if rng.choice(bag)():
            done += 1
            bk.check()
    bk.check(force=True)
    return finish(bk), {"family": "random", "nops": done}

def error_workload(rng, P):
    """valid API use whose outcome is a refusal: leaks hide on these paths"""
    bk = Book(rng, P)
    kinds = rng.sample(["badtmpl", "badtmpl", "damaged", "damaged", "badtable", "mismatch", "badtfile", "dumpother", "range"], 3)
    bk.template_new(); bk.dataset_new(); bk.subset_new(); bk.check(force=True)
    for k in kinds:
        if k == "badtmpl":
            bk.template_new(bad=True)
            bk.check(force=True)
            m = max(bk.M, key=lambda i: bk.M[i]["stamp"])
            if bk.M[m].get("maybe"):
                # books: the slot may or may not hold a template; `own.mfree` on an empty slot is "bad-op" on both sides
                bk.emit("own.mfree %d" % m); del bk.M[m]
        elif k == "badtable":
            bk.tables_recipe()
            t = max(bk.T, key=lambda i: bk.T[i]["stamp"])
            w, p = rng.choice(sorted(BAD_TABLES.values()))
            if not bk.referenced("T%d" % t):
                bk.tload(t, w, p)
        elif k == "damaged":
            bk.encode(); bk.write_read(damage=True); bk.check(force=True); bk.decode_damaged()
        elif k == "mismatch":
            bk.template_new(); bk.dataset_new(); bk.subset_new(); bk.dataset_mismatch_merge()
        elif k == "badtfile":
            bk.template_load()
            m = max(bk.M, key=lambda i: bk.M[i]["stamp"]) if bk.M else None
            if m is not None and bk.M[m].get("maybe"):
                bk.emit("own.mfree %d" % m); del bk.M[m]
        elif k == "dumpother":
            bk.template_new(); bk.dumpload()
        elif k == "range":
            bk.encode()
            if bk.G:
                g = max(bk.G, key=lambda i: bk.G[i]["stamp"]); d = bk.free_slot(bk.D)
                if d is not None:
                    n = bk.G[g]["nsub"]
                    a, b = rng.choice([(n + 1, n + 2), (2, 1), (0, 0), (-1, 2), (n, n + 5)])
                    bk.emit("own.dec %d %d @%s %d %d" % (d, g, bk.G[g]["name"], a, b))
                    bk.D[d] = {"stamp": bk.tick(), "refs": set(), "name": bk.G[g]["name"], "descs": bk.G[g]["descs"], "ed": bk.G[g]["ed"],
                               "nsub": 0, "structs": None, "ok": False, "maybe": True}
        bk.check(force=True)
    return finish(bk), {"family": "error", "kinds": kinds}

def growth_workload(rng, P):
    """compressed data larger than the encoder's first estimate (the uncompressed size): many subsets of wide,
    incompressible character and numeric elements"""
    bk = Book(rng, P)
    B, D = P["syn"]
    wide = [d for d, (sc, ref, nb, typ) in sorted(B.items()) if typ == regs.CCITT and nb >= 160 and nb != 504 and nb <= 800]
    nums = [d for d, (sc, ref, nb, typ) in sorted(B.items()) if typ == regs.NUMERIC and 16 <= nb <= 32 and regs.X(d) in (62, 63)]
    t = [rng.choice(wide) for _ in range(rng.choice([1, 2, 4]))] + [rng.choice(nums) for _ in range(rng.choice([0, 2, 6]))]
    rng.shuffle(t)
    mode = 2
    if rng.random() < 0.5:
        # fields of 57 to 64 bits that differ between subsets, behind a few narrow ones that move the bit offset:
        # the widest single store `bufr_putbits` makes, beginning anywhere up to the last octet of the data capacity
        w64 = [d for d, (sc, ref, nb, typ) in sorted(B.items()) if typ in (regs.NUMERIC, regs.CODE, regs.FLAG) and nb >= 57]
        narrow = [d for d, (sc, ref, nb, typ) in sorted(B.items()) if typ == regs.NUMERIC and nb <= 12 and regs.X(d) == 63]
        t = [rng.choice(narrow) for _ in range(rng.choice([0, 1, 2, 3]))] + [rng.choice(w64) for _ in range(rng.choice([1, 1, 2, 3, 5]))]
        rng.shuffle(t)
        mode = 0
    m = 0
    bk.emit("own.mnew %d @syn 4 %s" % (m, " ".join("%06d" % d for d in t)))
    bk.M[m] = {"stamp": bk.tick(), "refs": set(), "name": "syn", "descs": t, "ed": 4, "maybe": False}
    bk.dataset_new()
    d = next(iter(bk.D))
    n = rng.choice([1, 1, 2, 3, 8, 20]) if mode == 2 else rng.choice([2, 2, 3, 4, 5, 6, 7, 9, 12, 17])
    for _ in range(n):
        bk.subset_new(d=d, fs="1", mode=mode)
    bk.check(force=True)
    bk.encode(d=d, comp=1)
    bk.check(force=True)
    bk.write_read(); bk.decode()
    bk.check(force=True)
    return finish(bk), {"family": "growth", "nsub": n, "template": t}
