"""Independent Python transcription of WMO FM 94 (regulation 94.5 expansion, Table C operators
2 01-2 09) used only by *oracles*: it never calls the model and shares no code with it.

Tables are python dicts: B[desc] = (scale, ref, nbits, type) with type 4 numeric, 5 ccitt,
6 code table, 7 flag table;  D[desc] = [members]."""

NUMERIC, CCITT, CODE, FLAG = 4, 5, 6, 7
FACTORS = (31000, 31001, 31002, 31011, 31012)

def F(d): return d // 100000
def X(d): return d // 1000 % 100
def Y(d): return d % 1000

class Malformed(Exception):
    pass

def factor_count(desc, v):
    if desc == 31000:
        return 1 if v else 0
    if desc in (31001, 31002):
        return v
    return 1  # 0 31 011 / 012: repetition, the data are present once

def expand(D, descs, next_factor, depth=0):
    """regulation 94.5 expansion.  next_factor(desc, position_in_output) -> value of the class 31
    factor about to be emitted.  Returns the list of element/operator descriptors (F = 0 or 2),
    delayed factors included, in data order."""
    out = []
    def run(ds, depth):
        if depth > 50:
            raise Malformed("Table D nesting too deep (circular?)")
        i = 0
        while i < len(ds):
            d = ds[i]
            if F(d) == 3:
                if d not in D:
                    raise Malformed("unknown Table D %06d" % d)
                run(D[d], depth + 1)
                i += 1
            elif F(d) == 1:
                x, y = X(d), Y(d)
                if y > 0:
                    body = ds[i + 1:i + 1 + x]
                    if len(body) < x:
                        raise Malformed("replication %06d runs past the end" % d)
                    for _ in range(y):
                        run(body, depth)
                    i += 1 + x
                else:
                    if i + 1 >= len(ds) or ds[i + 1] not in FACTORS:
                        raise Malformed("delayed replication %06d without class 31 factor" % d)
                    c = ds[i + 1]
                    body = ds[i + 2:i + 2 + x]
                    if len(body) < x:
                        raise Malformed("replication %06d runs past the end" % d)
                    v = next_factor(c, len(out))
                    out.append(c)
                    for _ in range(factor_count(c, v)):
                        run(body, depth)
                    i += 2 + x
            else:
                out.append(d)
                i += 1
    run(list(descs), depth)
    return out

def well_formed(B, D, descs, depth=0, prev=None):
    """regulation-level well-formedness of a descriptor sequence (replication spans closed,
    delayed replication followed by a factor, known descriptors, 2 04 followed by 0 31 021)"""
    try:
        _wf(B, D, list(descs), 0)
        return True
    except Malformed:
        return False

def well_formed_deferred(B, D, descs):
    try:
        _wf(B, D, list(descs), 0, defer=True)
        return True
    except Malformed:
        return False

def _wf(B, D, ds, depth, defer=False, in_delayed=False):
    """defer=True: Table D sequences inside a delayed replication body are only required to exist
    (the library expands them when the factor is known, and reports the error then)"""
    if depth > 50:
        raise Malformed("circular")
    i = 0
    while i < len(ds):
        d = ds[i]
        if F(d) > 3 or Y(d) > 255:
            raise Malformed("not a descriptor")
        if F(d) == 0:
            if d not in B and not (i > 0 and ds[i - 1] // 1000 == 206):
                raise Malformed("unknown element %06d" % d)
            i += 1
        elif F(d) == 3:
            if d not in D:
                raise Malformed("unknown sequence")
            if not (defer and in_delayed):
                _wf(B, D, D[d], depth + 1, defer, in_delayed)
            i += 1
        elif F(d) == 2:
            if X(d) == 4 and Y(d) != 0:
                if i + 1 >= len(ds) or ds[i + 1] != 31021:
                    raise Malformed("2 04 YYY not followed by 0 31 021")
            i += 1
        else:
            x, y = X(d), Y(d)
            off = 1
            if y == 0:
                if i + 1 >= len(ds) or ds[i + 1] not in FACTORS:
                    raise Malformed("no factor")
                off = 2
            body = ds[i + off:i + off + x]
            if len(body) < x:
                raise Malformed("span past end")
            _wf(B, D, body, depth, defer, in_delayed or y == 0)   # spans inside the body must be closed within it
            i += off + x

class OpState:
    def __init__(self):
        self.dw = 0          # 2 01
        self.ds = 0          # 2 02
        self.newref_bits = 0 # 2 03 (definition in progress)
        self.newrefs = {}    # desc -> reference
        self.af = []         # 2 04 stack of widths
        self.local_w = 0     # 2 06
        self.s7 = 0          # 2 07 Y
        self.ccitt = 0       # 2 08
        self.ieee = 0        # 2 09

def defined_in(edition, x):
    if x in (1, 2, 3, 4, 5, 6):
        return edition >= 2
    if x in (7, 8):
        return edition >= 4
    if x == 9:
        return edition >= 5
    return None  # outside this transcription

def layout(B, edition, items, newref_value=None):
    """regulation layout of an expanded list of F=0 / F=2 descriptors: list of
    (desc, kind, width, scale, ref, af_total) per descriptor, kind in
    'num','code','flag','ccitt','ieee','newref','op','none'.
    newref_value(desc, index) gives the value carried by a 2 03 definition element."""
    st = OpState()
    out = []
    for idx, d in enumerate(items):
        f, x, y = F(d), X(d), Y(d)
        if f == 2:
            kind, width = 'op', 0
            if x == 1: st.dw = 0 if y == 0 else y - 128
            elif x == 2: st.ds = 0 if y == 0 else y - 128
            elif x == 3:
                if y == 255: st.newref_bits = 0
                elif y == 0: st.newref_bits = 0; st.newrefs = {}
                else: st.newref_bits = y
            elif x == 4:
                if y > 0: st.af.append(y)
                elif st.af: st.af.pop()
            elif x == 5:
                kind, width = 'ccitt', 8 * y
            elif x == 6: st.local_w = y
            elif x == 7:
                st.s7 = y
                if y == 0: st.dw = 0; st.ds = 0
            elif x == 8: st.ccitt = y
            elif x == 9: st.ieee = y if y in (32, 64) else (0 if y == 0 else st.ieee)
            out.append((d, kind, width, 0, 0, 0))
            continue
        ent = B.get(d)
        if ent is None:
            # local descriptor described by 2 06 YYY
            if st.local_w:
                out.append((d, 'num', st.local_w, 0, 0, sum(st.af)))
                st.local_w = 0
            else:
                out.append((d, 'none', 0, 0, 0, 0))
            continue
        scale, ref, nbits, typ = ent
        if x == 31:
            kind = {NUMERIC: 'num', CCITT: 'ccitt', CODE: 'code', FLAG: 'flag'}[typ]
            out.append((d, kind, nbits, scale, ref, 0))
            continue
        af = sum(st.af)
        if typ == CCITT:
            out.append((d, 'ccitt', 8 * st.ccitt if st.ccitt else nbits, scale, ref, af))
        elif typ in (CODE, FLAG):
            out.append((d, 'code' if typ == CODE else 'flag', nbits, scale, ref, af))
        else:
            if st.ieee:
                out.append((d, 'ieee', st.ieee, scale, ref, af))
            elif st.newref_bits:
                out.append((d, 'newref', st.newref_bits, 0, 0, 0))
                if newref_value is not None:
                    v = newref_value(d, idx)
                    if v is not None:
                        st.newrefs[d] = v
            else:
                ref = st.newrefs.get(d, ref)
                w = nbits
                if st.local_w:
                    if x > 47 or 192 <= y <= 255:
                        w = st.local_w
                    st.local_w = 0
                elif st.s7:
                    w = nbits + (10 * st.s7 + 2) // 3
                else:
                    w = nbits + st.dw
                sc = scale + (st.s7 if st.s7 else st.ds)
                if st.s7:
                    ref = ref * 10 ** st.s7
                out.append((d, 'num', w, sc, ref, af))
    return out


def operators_defined(edition, descs, D, depth=0):
    """every Table C operator of the template (Table D sequences included) exists in this edition"""
    for d in descs:
        if F(d) == 3 and d in D and depth < 12:
            if not operators_defined(edition, D[d], D, depth + 1):
                return False
        elif F(d) == 2 and defined_in(edition, X(d)) is False:
            return False
    return True
