"""Template generators (structured, mostly valid) and ill-formed mutations.
Everything is drawn from the `random.Random` passed in."""
from . import regs

FACTORS = regs.FACTORS
_size_cache = {}

def static_size(D, d, depth=0):
    """number of elements of a Table D entry with every delayed count = 1 (bounded)"""
    key = (id(D), d)
    if key in _size_cache:
        return _size_cache[key]
    if depth > 20 or d not in D:
        return 10 ** 6
    def size(ds, depth):
        n, i = 0, 0
        while i < len(ds):
            c = ds[i]
            if regs.F(c) == 3:
                n += static_size(D, c, depth + 1); i += 1
            elif regs.F(c) == 1:
                x, y = regs.X(c), regs.Y(c)
                off = 1 if y else 2
                n += (y if y else 1) * size(ds[i + off:i + off + x], depth) + (0 if y else 1)
                i += off + x
            else:
                n += 1; i += 1
            if n > 10 ** 6:
                return n
        return n
    s = size(D[d], depth)
    _size_cache[key] = s
    return s

def element_pool(B):
    pool = {"num": [], "numneg": [], "negscale": [], "code": [], "flag": [], "ccitt": [], "wide": []}
    for d, (sc, ref, nb, typ) in B.items():
        if regs.X(d) == 31 or regs.X(d) == 0 or nb <= 0:
            continue      # zero-width entries (0 08 201 in the shipped table) are outside every property's quantifier
        if typ == regs.NUMERIC:
            if nb > 32: pool["wide"].append(d); continue
            if nb <= 0: continue
            pool["num"].append(d)
            if ref < 0: pool["numneg"].append(d)
            if sc < 0: pool["negscale"].append(d)
        elif typ == regs.CODE: pool["code"].append(d)
        elif typ == regs.FLAG: pool["flag"].append(d)
        elif typ == regs.CCITT: pool["ccitt"].append(d)
    for k in pool:
        pool[k].sort()
    return pool

_pools = {}
def pool_of(B):
    if id(B) not in _pools:
        _pools[id(B)] = element_pool(B)
    return _pools[id(B)]

def pick_element(rng, B):
    p = pool_of(B)
    kinds = [k for k in ("num", "num", "numneg", "negscale", "code", "flag", "ccitt") if p[k]]
    return rng.choice(p[rng.choice(kinds)])

def pick_tabled(rng, D, maxsize=40):
    ks = sorted(D)
    for _ in range(20):
        d = rng.choice(ks)
        if static_size(D, d) <= maxsize:
            return d
    return None

def gen_body(rng, B, D, depth, n, ops):
    out = []
    while len(out) < n:
        r = rng.random()
        if depth > 0 and r < 0.18:
            body = gen_body(rng, B, D, depth - 1, rng.choice([1, 1, 2, 3]), ops)
            y = rng.choice([1, 2, 2, 3, 4, rng.randrange(1, 9)])
            out += [100000 + len(body) * 1000 + y] + body
        elif depth > 0 and r < 0.36:
            body = gen_body(rng, B, D, depth - 1, rng.choice([1, 1, 2, 3]), ops)
            out += [100000 + len(body) * 1000, rng.choice(FACTORS)] + body
        elif r < 0.46:
            d = pick_tabled(rng, D)
            if d is not None:
                out.append(d)
        elif ops and r < 0.60:
            out += gen_operator_group(rng, B, D)
        else:
            out.append(pick_element(rng, B))
    return out

OPERATOR_KINDS = ["201", "202", "201+202", "204", "205", "206", "207", "208", "203"]

def gen_operator_group(rng, B, D, kind=None):
    """an operator, the elements it governs, and (usually) its cancellation"""
    p = pool_of(B)
    k = kind or rng.choice(OPERATOR_KINDS)
    els = [pick_element(rng, B) for _ in range(rng.choice([1, 2, 3]))]
    def wide_enough(delta):
        # keep every numeric width in 1..32 (the property's quantifier)
        ok = [d for d in els if not (B[d][3] == regs.NUMERIC and not (1 <= B[d][2] + delta <= 32))]
        return ok or [d for d in p["num"] if 1 <= B[d][2] + delta <= 32][:1]
    if k == "201":
        y = rng.choice([129, 130, 126, 127, 132, 120])
        return [201000 + y] + wide_enough(y - 128) + ([201000] if rng.random() < 0.85 else [])
    if k == "202":
        return [202000 + rng.choice([129, 130, 127, 126])] + els + ([202000] if rng.random() < 0.85 else [])
    if k == "201+202":
        y = rng.choice([129, 131])
        return [201000 + y, 202000 + rng.choice([129, 127])] + wide_enough(y - 128) + [202000, 201000]
    if k == "204":
        return [204000 + rng.choice([1, 2, 4, 7, 8]), 31021] + els + ([204000] if rng.random() < 0.85 else [])
    if k == "205":
        return [205000 + rng.choice([1, 2, 5, 8])]
    if k == "206":
        return [206000 + rng.choice([1, 7, 8, 12, 16, 24]), rng.choice([1192 + 63000 - 1192, 12192 + 50000, 55200, 48255])]
    if k == "207":
        y = rng.choice([1, 2, 3])
        return [207000 + y] + wide_enough((10 * y + 2) // 3) + ([207000] if rng.random() < 0.85 else [])
    if k == "208":
        cc = [rng.choice(p["ccitt"])] if p["ccitt"] else els
        return [208000 + rng.choice([1, 2, 4, 6])] + cc + els + ([208000] if rng.random() < 0.85 else [])
    if k == "203":
        nums = [rng.choice(p["num"]) for _ in range(rng.choice([1, 2]))]
        return [203000 + rng.choice([8, 12, 16, 20])] + nums + [203255] + nums + els + ([203000] if rng.random() < 0.7 else [])
    return els

def gen_template(rng, B, D, depth=2, ops=False, n=None):
    n = n or rng.choice([1, 2, 3, 4, 6])
    return gen_body(rng, B, D, depth, n, ops)

def mutate_illformed(rng, t, B, D):
    """one of: unknown element, unknown sequence, span past the end, overlapping spans, delayed
    replication without factor, bad F/Y, dangling replication at the end"""
    t = list(t)
    k = rng.choice(["unknown0", "unknown3", "pastend", "overlap", "overlap3", "nofactor", "dangling", "badfxy", "y256", "span+1", "dropfactor"])
    if k == "unknown0":
        t.insert(rng.randrange(len(t) + 1), rng.choice([63999 - 63000 + 47190, 47001, 1250]))
    elif k == "unknown3":
        t.insert(rng.randrange(len(t) + 1), rng.choice([363255, 399001, 300000]))
    elif k == "pastend":
        body = rng.choice([1, 2, 3])
        t += [100000 + (body + rng.choice([1, 2, 5])) * 1000 + rng.choice([0, 2])] + ([31001] if rng.random() < 0.5 else []) + \
             [pick_element(rng, B) for _ in range(body)]
    elif k == "overlap":
        a, b, c = (pick_element(rng, B) for _ in range(3))
        t += [102002, 102000 + rng.choice([2, 3]), a, b] + ([c] if rng.random() < 0.5 else [])
    elif k == "overlap3":
        # three levels: the innermost span overruns its direct parent while the outermost stays open
        a, b, c, d = (pick_element(rng, B) for _ in range(4))
        if rng.random() < 0.5:
            t += [105002, 102002, 103001, a, b, c] + ([d] if rng.random() < 0.5 else [])
        else:
            t += [107000, rng.choice(FACTORS), 103000, rng.choice(FACTORS), 103000, rng.choice(FACTORS), a, b, c] + ([d] if rng.random() < 0.5 else [])
    elif k == "nofactor":
        t += [101000, pick_element(rng, B), pick_element(rng, B)]
    elif k == "dangling":
        t += [rng.choice([101001, 101000, 102003])] + ([31001] if rng.random() < 0.3 else [])
    elif k == "badfxy":
        t.insert(rng.randrange(len(t) + 1), rng.choice([400000, 12256, 101300, 999999]))
    elif k == "y256":
        # Y = 256 is the first value that does not fit the 8 bits of a descriptor: otherwise well-formed
        r = rng.random()
        if r < 0.5:
            n = rng.choice([1, 2])
            ins = [100000 + 1000 * n + 256] + [pick_element(rng, B) for _ in range(n)]
        elif r < 0.8:
            ins = [rng.choice([201256, 202256, 208256, 204256, 205256])] + [pick_element(rng, B)]
        else:
            ins = [rng.choice([301256, 1256, 31256])]
        i = rng.randrange(len(t) + 1)
        t[i:i] = ins
    elif k == "span+1":
        idx = [i for i, d in enumerate(t) if regs.F(d) == 1]
        if idx:
            i = rng.choice(idx)
            t[i] += 1000 * rng.choice([1, 2])
        else:
            t += [102001, pick_element(rng, B)]
    elif k == "dropfactor":
        idx = [i for i, d in enumerate(t) if d in FACTORS]
        if idx:
            del t[rng.choice(idx)]
        else:
            t += [101000]
    return t
