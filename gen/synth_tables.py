"""Synthetic local Table B / Table D files covering every element class the properties quantify
over (written in the CMC fixed-column format the library's own test tables use)."""
import os

UNITS = {4: "NUMERIC", 5: "CCITT IA5", 6: "CODE TABLE", 7: "FLAG TABLE"}

def bline(desc, name, typ, scale, ref, nbits):
    # columns as in /repo/Test/local_table_b: 0 desc, 8 name, 52 unit, scale ends 65, ref ends 76, width ends 82
    return "%06d  %-43s %-11s%3d %10d %5d" % (desc, name[:43], UNITS[typ] if typ != 4 else "NUMERIC", scale, ref, nbits)

def entries():
    """(desc, type, scale, ref, nbits) for local descriptors 0 63 YYY / 0 62 YYY / 0 61 YYY"""
    out = []
    y = 1
    def add(x, typ, scale, ref, nbits):
        nonlocal y
        out.append((x * 1000 + y, typ, scale, ref, nbits))
        y += 1
    # numerics: scale x reference x width
    for scale in (-3, -1, 0, 1, 2, 5):
        for ref in (0, 1, 1000, -1000, -(2 ** 20), 2 ** 20):
            for nbits in (1, 7, 8, 12, 16, 24, 25, 28, 31, 32):
                if y > 250: break
                add(63, 4, scale, ref, nbits)
    y = 1
    # integers wider than 32 bits (scale 0, reference 0), and 32-bit-total with positive reference
    for nbits in (33, 40, 48, 63, 64):
        add(62, 4, 0, 0, nbits)
    for ref, nbits in ((1, 28), (1, 30), (1, 31), (255, 24), (2 ** 20, 11), (2 ** 20, 12), (380000, 18), (1, 40)):
        add(62, 4, 0, ref, nbits)
    for nbits in (1, 2, 8, 9, 16, 30, 31, 32, 33, 40, 64):
        add(62, 6, 0, 0, nbits)
        add(62, 7, 0, 0, nbits)
    for octets in (1, 2, 5, 20, 32, 62, 63, 64, 100):
        add(62, 5, 0, 0, 8 * octets)
    return out

def write_tables(dirpath):
    """returns (local_b_path, local_d_path, B dict additions, D dict additions)"""
    os.makedirs(dirpath, exist_ok=True)
    es = entries()
    pb = os.path.join(dirpath, "synth_local_b")
    with open(pb, "w") as f:
        f.write("* synthetic local Table B written by gen/synth_tables.py\n")
        for d, typ, sc, ref, nb in es:
            f.write(bline(d, "SYNTHETIC %06d" % d, typ, sc, ref, nb) + "\n")
    nums = [e[0] for e in es if e[1] == 4 and e[0] // 1000 == 63]
    seqs = {
        363001: [nums[0], nums[5], 101002, nums[9]],
        363002: [363001, 101000, 31001, nums[20]],
        363003: [201130, nums[3], 201000, 102000, 31002, nums[4], 62000 + 14],
        363004: [204008, 31021, nums[7], 62000 + 30, 204000],
        363005: [102000, 31000, 363001, 363004],
    }
    pd = os.path.join(dirpath, "synth_local_d")
    with open(pd, "w") as f:
        f.write("* synthetic local Table D written by gen/synth_tables.py\n")
        for d, ms in seqs.items():
            f.write("%06d %s\n" % (d, " ".join("%06d" % m for m in ms)))
    return pb, pd
