"""Messages with a data present bit-map (2 36 000, 0 31 031, marker operators 2 23 255 / 2 24 255 / 2 32 255),
written from FM 94 with an own bit packer, together with the values a decoder must return.

FM 94 (94.5.5.3, Table C notes): after an operator 2 22/2 23/2 24/2 25/2 32 000 a bit-map is defined (2 36 000) by a
run of 0 31 031 elements, one per data element before the operator, in order; a bit of 0 says "a value follows for
this element".  Each following marker operator (2 2X 255) stands for the next element flagged 0 and is encoded
exactly as that element (width, scale, reference value; 2 25 255 differs and is not generated here).

The bit-map operators are outside the Lean model: these messages run on the implementation alone and are judged by
the values computed here (`expect` lines)."""
from fractions import Fraction
from . import frame

ELEMENTS = [10004, 12101, 12103, 11002, 7004, 1001, 1002, 20003, 13003, 10051]
OPS = [(224000, 224255, [1031, 1032, 8023]), (223000, 223255, [1031, 1032])]
# 2 32 000 / 2 32 255 (replaced / retained values) are written the same way, but the library answers "operator has
# not been implemented" and flags the dataset invalid: known finding C04-operator-232-not-implemented, kept out of
# the generated stream (its witness is in the corpus)
OPS_UNIMPLEMENTED = [(232000, 232255, [1031, 1032])]

class Bits:
    def __init__(self): self.b = []
    def put(self, v, w): self.b.extend((v >> (w - 1 - k)) & 1 for k in range(w))
    def bytes(self):
        b = self.b + [0] * ((8 - len(self.b) % 8) % 8)
        return bytes(sum(bit << (7 - k) for k, bit in enumerate(b[i:i + 8])) for i in range(0, len(b), 8))

def value_token(raw, sc, ref, nb):
    """what the decoder must return for the raw pattern, as an exact rational (or 'miss')"""
    if raw == (1 << nb) - 1:
        return "miss"
    return Fraction(raw + ref, 10 ** sc) if sc >= 0 else Fraction((raw + ref) * 10 ** (-sc))

def build(rng, B, ops=None):
    """-> (message bytes, template, per-subset expectation lists [(desc, 'miss' | Fraction | None)])"""
    n = rng.choice([1, 2, 3, 4, 5])
    els = [rng.choice([d for d in ELEMENTS if d in B]) for _ in range(n)]
    op, marker, info = rng.choice(ops or OPS)
    bitmap = [rng.choice([0, 0, 1]) for _ in range(n)]
    if all(bitmap):
        bitmap[rng.randrange(n)] = 0
    r = rng.random()
    if r < 0.4:
        bitmap[-1] = 0          # the last bit of the bit-map says "present"
    k = bitmap.count(0)
    t = els + [op, 236000, 101000 + n, 31031] + info + [101000 + k, marker]
    nsub = rng.choice([1, 2, 3])
    bits = Bits()
    expect = []
    for s in range(nsub):
        ex = []
        raws = []
        for d in els:
            sc, ref, nb, typ = B[d]
            raw = rng.choice([0, (1 << nb) - 2, rng.randrange(1 << nb), rng.randrange(1 << nb), (1 << nb) - 1])
            bits.put(raw, nb); raws.append(raw)
            ex.append((d, value_token(raw, sc, ref, nb)))
        ex += [(op, None), (236000, None), (101000 + n, None)]
        for b in bitmap:
            bits.put(b, 1)
            ex.append((31031, "miss" if b else Fraction(0)))     # a one-bit flag table: 1 is all ones
        for d in info:
            sc, ref, nb, typ = B[d]
            raw = rng.randrange((1 << nb) - 1)
            bits.put(raw, nb)
            ex.append((d, value_token(raw, sc, ref, nb)))
        ex.append((101000 + k, None))
        for i, b in enumerate(bitmap):
            if b == 0:
                sc, ref, nb, typ = B[els[i]]
                raw = rng.choice([0, (1 << nb) - 2, rng.randrange(1 << nb), (1 << nb) - 1])
                bits.put(raw, nb)
                ex.append((marker, value_token(raw, sc, ref, nb)))
        expect.append(ex)
    msg = frame.frame(4, 128, nsub, t, bits.bytes())
    return msg, t, expect, {"bitmap": bitmap, "op": op, "nsub": nsub}

def expect_line(ex):
    """`expect` line: one token per node: `-` (no value), `m` (missing) or the exact rational p/q"""
    toks = []
    for d, v in ex:
        toks.append("-" if v is None else "m" if v == "miss" else "%d/%d" % (v.numerator, v.denominator))
    return "expect " + " ".join(toks)


# ------------------------------------------------------------------------------------------------------------------
# Tied stream: templates that exercise every branch of the bit-map head of bufr_apply_tables2node, well formed or
# not, over arbitrary Section 4 bits.  No expectation is computed here: implementation and Lean model (BufrModel/
# Bitmap.lean) are compared node by node (`dd.list`: encoding and value type of every marker; `dd.vals`).

CLASS33 = [33007, 33003, 33002]
STARTS = [222000, 223000, 224000, 225000, 232000]
MARKERS = {223000: 223255, 224000: 224255, 225000: 225255, 232000: 232255, 222000: 224255}

def wild_template(rng, B, D=None):
    pool = [d for d in ELEMENTS if d in B]
    n = rng.choice([0, 1, 2, 3, 4, 6])
    head = []
    for _ in range(n):
        r = rng.random()
        if r < 0.12:
            head += [201000 + rng.choice([126, 130, 132]), rng.choice(pool), 201000]
        elif r < 0.2:
            head += [204000 + rng.choice([1, 3, 8]), 31021, rng.choice(pool), 204000]
        elif r < 0.3:
            k = rng.choice([1, 2]); head += [100000 + k * 1000 + rng.choice([1, 2])] + [rng.choice(pool) for _ in range(k)]
        elif r < 0.36:
            head += [101000, 31001, rng.choice(pool)]
        elif r < 0.42 and D:
            cand = [d for d in D if 1 <= len(D[d]) <= 6 and all(m // 100000 == 0 and m in B for m in D[d])]
            head += [rng.choice(cand)] if cand else [rng.choice(pool)]
        elif r < 0.47:
            head += [205000 + rng.choice([2, 4])]
        else:
            head.append(rng.choice(pool))
    nel = rng.choice([n, n, n + 1, max(0, n - 1), rng.randrange(0, 9)])      # announced bit-map length
    start = rng.choice(STARTS + [224000, 224000, 223000, 222000])
    t = list(head)
    r = rng.random()
    if r < 0.08:
        t += [236000]                                                   # a bit-map without a start operator
    elif r < 0.16:
        # the bit-map is announced before its start operator, which sits inside a (delayed) replication
        t += [236000, rng.choice([101000, 102000, 101002]), 31001][:2 + (1 if rng.random() < 0.8 else 0)] + [start]
    elif r < 0.2:
        t += [101000, 31001, start, 236000]
    else:
        t += [start] + ([236000] if rng.random() < 0.9 else [237000])
    if nel > 0:
        if rng.random() < 0.2: t += [101000, 31001, 31031]
        else: t += [101000 + nel, 31031]
    info = rng.sample([1031, 1032, 8023, 1033], rng.choice([0, 1, 2]))
    t += [d for d in info if d in B]
    k = rng.choice([0, 1, 2, 3, nel])
    marker = MARKERS[start]
    r = rng.random()
    if start == 222000 and r < 0.7:
        q = rng.choice(CLASS33)
        if k > 0: t += [101000 + k, q] if rng.random() < 0.8 else [q] * k
    elif r < 0.6:
        if k > 0: t += [101000 + k, marker]
    elif r < 0.75:
        t += [marker] * k                                               # markers outside any replication
    elif r < 0.85:
        t += [101000, 31001, marker]
    else:
        if k > 0: t += [101000 + k, marker, 101000 + k, marker]         # two groups
    r = rng.random()
    if r < 0.15: t += [rng.choice(STARTS), 237000, 101001, marker]
    elif r < 0.25: t += [235000, rng.choice(pool)]
    elif r < 0.35: t += [224000, 236000, 101002, 31031, 101001, 224255]  # a second bit-map
    elif r < 0.5: t += [rng.choice(pool)]
    return t

def build_wild(rng, B, D=None, compressed=False):
    t = wild_template(rng, B, D)
    nsub = rng.choice([1, 1, 2, 3])
    n = rng.choice([0, 3, 10, 40, 80, 160])
    mode = rng.random()
    if mode < 0.3: data = bytes(n)
    elif mode < 0.4: data = bytes([255]) * n
    elif mode < 0.7: data = bytes(rng.choice([0, 0, 0, 1, 2, 64, 128, 255, rng.randrange(256)]) for _ in range(n))
    else: data = bytes(rng.randrange(256) for _ in range(n))
    ed = rng.choice([3, 4, 4])
    return frame.frame(ed, 128 | (64 if compressed else 0), nsub, t, data), t, nsub


def build_insert(rng, B, compressed=False):
    """a bit-map over elements that include a 2 05 YYY character insert, every entry flagged present (zero bits) or
    a random pattern, as many marker replicas as entries: what the markers after the insert take their layout from
    depends on whether the insert counts as a data entity"""
    pool = [d for d in ELEMENTS if d in B]
    k = rng.choice([2, 3, 4])
    els = [rng.choice(pool) for _ in range(k)]
    els.insert(rng.randrange(0, k), 205000 + rng.choice([1, 2, 3]))
    n = len(els)
    start = rng.choice([224000, 223000])
    t = els + [start, 236000, 101000 + n, 31031, 101000 + n, MARKERS[start]]
    nsub = rng.choice([1, 2])
    ln = rng.choice([40, 80])
    data = bytes(ln) if rng.random() < 0.6 else bytes(rng.choice([0, 0, 0, 16, 64, 255]) for _ in range(ln))
    return frame.frame(rng.choice([3, 4, 4]), 128 | (64 if compressed else 0), nsub, t, data), t, nsub
