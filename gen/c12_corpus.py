#!/usr/bin/env python3
"""Writes corpus/C12-*.bvp: the witnesses of the C12 findings (files in-line as hex, so each witness
is self-contained).  Run once; the .bvp files are what the check reads.  All but C12-short-line are
repaired in the library (known_findings.json: status "fixed") and must pass; the comments describe
what happened before the repair."""
import os, sys
VERIF = os.path.dirname(os.path.dirname(os.path.abspath(__file__)))
sys.path.insert(0, VERIF)
from props.c12 import fmt_line, hx, CSVB_HDR, CSVD_HDR

def line(d, name, unit, sc, rf, nb):
    return fmt_line(d, name, unit, sc, rf, nb) + b"\n"

W = {}

# 1. stale lookup cache: a master entry fetched before a local table overrides it keeps being returned
m = b"** master\n" + line(12101, b"TEMPERATURE/DRY-BULB TEMPERATURE", b"K", 2, 0, 16) + line(1001, b"WMO BLOCK NUMBER", b"NUMERIC", 0, 0, 7)
l = b"** local\n" + line(12101, b"LOCAL TEMPERATURE", b"K", 3, 0, 20)
W["stale-cache"] = ("""# DESIGN §10 #15: fetch 0 12 101 (master: scale 2, 16 bits), load a local table overriding it, fetch again:
# still the master entry; a fresh object returns the local one (scale 3, 20 bits)""",
    ["tbl.file m " + hx(m), "tbl.file l " + hx(l), "tbl.new", "tbl.load_m_b @m", "tbl.fetchB 12101", "tbl.load_l_b @l",
     "tbl.fetchB 12101", "tbl.fetchB 1001", "tbl.fetchB 12101", "tbl.new 1", "tbl.load_m_b @m", "tbl.load_l_b @l", "tbl.fetchB 12101"])

# 2. loading into an existing set: bsearch on an array that stopped being sorted at the first append
a = b"** first\n" + b"".join(line(d, b"FIRST", b"K", 1, 0, 10) for d in (10001, 10002, 10003, 10004))
b = b"** second\n" + b"".join(line(d, b"SECOND", b"M", 2, 5, 12) for d in (1001, 1002, 1003, 1004, 10004))
W["merge-unsorted"] = ("""# second local file adds 0 01 001..004 and then overrides 0 10 004: the override is not found by bsearch
# (the array is no longer sorted after the first append) and is appended as a duplicate; the lookup
# keeps returning the first file's entry""",
    ["tbl.file a " + hx(a), "tbl.file b " + hx(b), "tbl.new", "tbl.load_l_b @a", "tbl.load_l_b @b", "tbl.dumpB l", "tbl.fetchB 10004", "tbl.fetchB 1001"])

# 3. bufr_merge_tables frees the destination's master array while the lookup cache points into it
m2 = b"** other master\n" + line(1001, b"WMO BLOCK NUMBER", b"NUMERIC", 0, 0, 7)
W["merge-tables-uaf"] = ("""# fetch from object 0, then bufr_merge_tables(0, 1) with 1 holding a master Table B: object 0's own master
# entries are freed, tableB_cache/last_searched still point at them; the next lookup reads freed memory""",
    ["tbl.file m " + hx(m), "tbl.file m2 " + hx(m2), "tbl.new 0", "tbl.load_m_b @m", "tbl.fetchB 12101", "tbl.new 1", "tbl.load_m_b @m2",
     "tbl.sel 0", "tbl.merge 1", "tbl.fetchB 1001", "tbl.fetchB 12101"])

# 4. Table D line with more than 1024 tokens
d = b"399001" + b" 1" * 1500 + b"\n"
W["tabled-1025-tokens"] = ("# a Table D line of 1501 tokens: descriptors[1024] overflows in bufr_tabled_read (bufr_tables.c:1377)",
    ["tbl.file d " + hx(d), "tbl.new", "tbl.load_l_d @d", "tbl.fetchD 399001"])

# 5. CSV Table B: long line with the wrong number of cells (DESIGN §10 #16)
c = CSVB_HDR + b"\n01,x,001001," + b"A" * 1000 + b"\n"
W["csv-long-line"] = ("# DESIGN §10 #16: a 1013-byte CSV row with the wrong cell count is formatted into errmsg[1024] (bufr_tables.c:2693)",
    ["tbl.file c " + hx(c), "tbl.new", "tbl.load_csv_b @c", "tbl.dumpB m"])

# 6. CSV line starting with a comma: the first cell pointer is tmpstr - 1
c = b",ClassName_en,FXY,ElementName_en,Note_en,BUFR_Unit,BUFR_Scale,BUFR_ReferenceValue,BUFR_DataWidth_Bits\n,x,001001,NAME,,K,1,2,3\n"
W["csv-leading-comma"] = ("# a CSV line starting with ',': str_nstrtok returns ptr-1 = tmpstr-1, read by strcmp in bufr_csv_find_cell",
    ["tbl.file c " + hx(c), "tbl.new", "tbl.load_csv_b @c", "tbl.fetchB 1001"])

# 7. CSV Table D: more than 1023 rows with the same FXY1
c = CSVD_HDR + b"\n" + b"00,cat,300001,T,,001001,e,,,Operational\n" * 1100
W["csvd-1024-members"] = ("# 1100 consecutive CSV rows with the same FXY1: descriptors[1024] overflows in bufr_csv_read_tabled (bufr_tables.c:2911)",
    ["tbl.file c " + hx(c), "tbl.new", "tbl.load_csv_d @c", "tbl.fetchD 300001"])

# 8. reference value INT_MIN
f = b"** extreme\n" + line(1001, b"EXTREME REFERENCE", b"NUMERIC", 0, -2**31, 32)
W["ref-intmin"] = ("# reference -2147483648: the file value is loaded, but the first lookup computes ref_nbits with `-val` on an int (bufr_tables.c:1713)",
    ["tbl.file f " + hx(f), "tbl.new", "tbl.load_m_b @f", "tbl.dumpB m", "tbl.fetchB 1001"])

# 9. complete line shorter than 82 bytes
short = b"001001  WMO BLOCK NUMBER" + b" " * 28 + b"NUMERIC      0          0 7\n"
f = b"** short\n" + short + line(1002, b"WMO STATION NUMBER", b"NUMERIC", 0, 0, 10)
assert len(short) == 80
W["short-line"] = ("# a line with all six fields (width left-aligned at column 78) but only 80 bytes long is dropped without a message",
    ["tbl.file f " + hx(f), "tbl.new", "tbl.load_m_b @f", "tbl.dumpB m", "tbl.fetchB 1001", "tbl.fetchB 1002"])

# 10. missing file: uninitialised version
W["missing-file-version"] = ("# bufr_load_m_tableB on a file that cannot be opened returns -1 and stores an uninitialised int in master.version",
    ["tbl.new", "tbl.load_m_b /nonexistent/table_b", "tbl.version"])

# 11. long physical line split at 255 bytes: the continuation is read as a new line
cont = fmt_line(1005, b"NOT A LINE OF ITS OWN", b"NUMERIC", 0, 0, 9)
f = b"** long\n" + b"*" + b" " * 254 + cont + b"\n" + line(1002, b"WMO STATION NUMBER", b"NUMERIC", 0, 0, 10)
W["long-line-split"] = ("# a comment line longer than 255 bytes: fgets(ligne,256) splits it and the remainder, which happens to start with '0', is loaded as an entry",
    ["tbl.file f " + hx(f), "tbl.new", "tbl.load_m_b @f", "tbl.dumpB m", "tbl.fetchB 1005"])

# 12. CSV header whose last column is a needed one
c = b"FXY,ElementName_en,BUFR_Unit,BUFR_Scale,BUFR_ReferenceValue,BUFR_DataWidth_Bits\n001001,WMO BLOCK NUMBER,Numeric,0,0,7\n"
W["csv-last-column"] = ("# the last header cell keeps its newline ('BUFR_DataWidth_Bits\\n'), the column is not found and nothing is loaded",
    ["tbl.file c " + hx(c), "tbl.new", "tbl.load_csv_b @c", "tbl.dumpB m", "tbl.fetchB 1001"])

# 13. CSV: empty cell right after a quoted cell
c = b"FXY,ElementName_en,BUFR_Unit,BUFR_Scale,BUFR_ReferenceValue,BUFR_DataWidth_Bits,Status\n001001,\"BLOCK, WMO\",,0,0,7,Operational\n"
W["csv-empty-after-quoted"] = ("# an empty cell after a quoted one: str_nstrtok returns ptr-1 which is the comma, not a NUL; the unit reads ',,0'",
    ["tbl.file c " + hx(c), "tbl.new", "tbl.load_csv_b @c", "tbl.fetchB 1001"])

if __name__ == "__main__":
    for name, (comment, lines) in W.items():
        p = os.path.join(VERIF, "corpus", "C12-%s.bvp" % name)
        with open(p, "w") as f:
            f.write(comment + "\n" + "\n".join(lines) + "\n")
        print("wrote", p)
