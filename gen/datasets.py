"""Dataset scenarios: a template, a few subsets with cyclic delayed factors and deterministic
values (`ss.fill`), then encode/decode ops supplied by the caller."""
from . import templates, regs

FACTOR_SETS = ["2 1 0 3", "0", "1", "3 0 2", "1 2", "2", "1 0", "4 1"]
MODES = [0, 0, 0, 1, 1, 2, 3, 4]

def build_lines(rng, name, B, D, *, nsub=None, ops=True, depth=None, same_structure=False, edition=None, template=None,
                modes=None):
    """returns (lines, meta): lines build the dataset; meta records template, edition, subsets"""
    ed = edition or rng.choice([2, 3, 4, 4])
    t = template or templates.gen_template(rng, B, D, depth=depth if depth is not None else rng.choice([0, 1, 2, 2, 3]),
                                           ops=ops, n=rng.choice([1, 2, 3, 4, 5]))
    nsub = nsub or rng.choice([1, 1, 2, 3, 4])
    ls = ["T.use " + name, "tm.new %d %s" % (ed, " ".join("%06d" % d for d in t))]
    rounds = rng.choice([1, 2, 3])
    fsets = [rng.choice(FACTOR_SETS) for _ in range(rounds)]
    seeds = []
    for k in range(nsub):
        ls.append("ss.new")
        for r in range(rounds):
            fs = fsets[r] if same_structure else rng.choice(FACTOR_SETS)
            ls += ["ss.setfactors %d %s" % (k, fs), "ss.expand %d" % k]
        seed = rng.randrange(1, 2 ** 31)
        mode = rng.choice(modes or MODES)
        seeds.append((seed, mode))
        ls.append("ss.fill %d %d %d" % (k, seed, mode))
    if any(d // 1000 == 203 for d in t):
        # new reference values are data: let the encoder settle the encodings once, then give the
        # elements values that are on the grid of their *final* encodings (same seeds: same references)
        ls.append("ds.encode 0")
        for k, (seed, mode) in enumerate(seeds):
            ls.append("ss.fill %d %d %d" % (k, seed, mode))
    for k in range(nsub):
        ls += ["ss.list %d" % k, "ss.vals %d" % k]
    return ls, {"tables": name, "ed": ed, "template": t, "nsub": nsub, "seeds": seeds}

def subset_views(scn, outs, prefix):
    """collect {k: output} for `<prefix> k` lines (last occurrence wins)"""
    res = {}
    for l, o in zip(scn.lines, outs):
        t = l.split()
        if t[0] == prefix and len(t) == 2:
            res[int(t[1])] = o
    return res
