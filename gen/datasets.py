"""Dataset scenarios: a template, a few subsets with cyclic delayed factors and deterministic
values (`ss.fill`), then encode/decode ops supplied by the caller."""
from . import templates, regs

FACTOR_SETS = ["2 1 0 3", "0", "1", "3 0 2", "1 2", "2", "1 0", "4 1"]
MODES = [0, 0, 0, 1, 1, 2, 3, 4]

def build_lines(rng, name, B, D, *, nsub=None, ops=True, depth=None, same_structure=False, edition=None, template=None,
                modes=None, same_fill=False):
    """returns (lines, meta): lines build the dataset; meta records template, edition, subsets"""
    ed = edition or rng.choice([2, 3, 4, 4])
    t = template or templates.gen_template(rng, B, D, depth=depth if depth is not None else rng.choice([0, 1, 2, 2, 3]),
                                           ops=ops, n=rng.choice([1, 2, 3, 4, 5]))
    nsub = nsub or rng.choice([1, 1, 2, 3, 4])
    ls = ["T.use " + name, "tm.new %d %s" % (ed, " ".join("%06d" % d for d in t))]
    rounds = rng.choice([1, 2, 3])
    fsets = [rng.choice(FACTOR_SETS) for _ in range(rounds)]
    seeds = []
    for k in range(nsub):
        ls.append("ss.new")
        for r in range(rounds):
            fs = fsets[r] if same_structure else rng.choice(FACTOR_SETS)
            ls += ["ss.setfactors %d %s" % (k, fs), "ss.expand %d" % k]
        seed = rng.randrange(1, 2 ** 31)
        mode = rng.choice(modes or MODES)
        if same_fill and seeds:
            # identical subsets: the only way two subsets agree on their new reference values (2 03), which
            # compressed form requires
            seed, mode = seeds[0]
        seeds.append((seed, mode))
        ls.append("ss.fill %d %d %d" % (k, seed, mode))
    if any(d // 1000 == 203 for d in t):
        # new reference values are data: let the encoder settle the encodings once, then give the
        # elements values that are on the grid of their *final* encodings (same seeds: same references)
        ls.append("ds.encode 0")
        for k, (seed, mode) in enumerate(seeds):
            ls.append("ss.fill %d %d %d" % (k, seed, mode))
    for k in range(nsub):
        ls += ["ss.list %d" % k, "ss.vals %d" % k]
    return ls, {"tables": name, "ed": ed, "template": t, "nsub": nsub, "seeds": seeds}

def subset_views(scn, outs, prefix):
    """collect {k: output} for `<prefix> k` lines (last occurrence wins)"""
    res = {}
    for l, o in zip(scn.lines, outs):
        t = l.split()
        if t[0] == prefix and len(t) == 2:
            res[int(t[1])] = o
    return res

M64 = (1 << 64) - 1

def mix(seed, idx):
    x = (seed * 6364136223846793005 + idx * 1442695040888963407 + 1013904223) & M64
    y = ((x ^ (x >> 29)) * 2685821657736338717) & M64
    return y ^ (y >> 32)

def pick_raw(mode, seed, idx, nb):
    """the raw pattern `ss.fill` chooses (same formula as the harness and the driver)"""
    if nb <= 0:
        return 0
    x = mix(seed, idx)
    allones = (1 << nb) - 1
    rnd = (x >> 4) % (1 << nb)
    if mode == 2: return 0
    if mode == 3: return allones - 1
    if mode == 4: return allones
    if mode == 1: return 0 if allones == 0 else (x >> 4) % allones
    k = x % 16
    if k < 2: return 0
    if k < 4: return allones - 1
    if k < 6: return allones
    return rnd

def cvt_ivalue(raw, nb):
    if raw == (1 << nb) - 1: return -1
    sb = 1 << (nb - 1)
    return -(raw % sb) if raw & sb else raw

def fill_raw(mode, seed, idx, nb, typ):
    """pick_raw with the adjustments `ss.fill` makes (64-bit top bits, new reference -1)"""
    raw = pick_raw(mode, seed, idx, nb)
    if nb == 64 and raw != M64:
        raw &= (1 << 62) - 1
    if typ == 8 and cvt_ivalue(raw, nb) == -1:
        raw = 0
    return raw
