"""An independent (Python) writer of whole FM 94 messages from Section 3/4 content, with the freedoms the
regulation leaves: optional Section 2, odd section lengths in edition 4, a leading bulletin header."""

def i3(n): return bytes([(n >> 16) & 255, (n >> 8) & 255, n & 255])
def i2(n): return bytes([(n >> 8) & 255, n & 255])

def sect1(ed, has_s2, year=2024, month=2, day=29, hour=12, minute=30, second=0, centre=54, sub=0, extra=b""):
    flag = 128 if has_s2 else 0
    if ed >= 4:
        body = bytes([0]) + i2(centre) + i2(sub) + bytes([0, flag, 0, 0, 0, 35, 0]) + i2(year) + bytes([month, day, hour, minute, second]) + extra
        return i3(3 + len(body)) + body
    body = bytes([0]) + (bytes([sub, centre & 255]) if ed == 3 else i2(centre)) + bytes([0, flag, 0, 0, 13, 0, (year - 1) % 100 + 1, month, day, hour, minute]) + extra
    if (3 + len(body)) % 2:
        body += b"\0"
    return i3(3 + len(body)) + body

def frame(ed, flag, nsub, descs, s4, s2=None, header=b"", pad_even=None, s3_extra=0, s4_extra=0):
    """bytes of a whole message.  pad_even: pad sections to even length (default: editions <= 3)"""
    if pad_even is None:
        pad_even = ed <= 3
    out = []
    s1 = sect1(ed, s2 is not None)
    out.append(s1)
    if s2 is not None:
        b = b"\0" + bytes(s2)
        if pad_even and (3 + len(b)) % 2: b += b"\0"
        out.append(i3(3 + len(b)) + b)
    d = b"".join(bytes([((x // 100000) << 6) | ((x // 1000) % 100), x % 1000 & 255]) for x in descs)
    b3 = b"\0" + i2(nsub) + bytes([flag]) + d + b"\0" * s3_extra
    if pad_even and (3 + len(b3)) % 2: b3 += b"\0"
    out.append(i3(3 + len(b3)) + b3)
    b4 = b"\0" + bytes(s4) + b"\0" * s4_extra
    if pad_even and (3 + len(b4)) % 2: b4 += b"\0"
    out.append(i3(3 + len(b4)) + b4)
    body = b"".join(out) + b"7777"
    return bytes(header) + b"BUFR" + i3(8 + len(body)) + bytes([ed]) + body
