"""An independent (Python) writer of whole FM 94 messages from Section 3/4 content, with the freedoms the
regulation leaves: optional Section 2, odd section lengths in edition 4, a leading bulletin header."""

def i3(n): return bytes([(n >> 16) & 255, (n >> 8) & 255, n & 255])
def i2(n): return bytes([(n >> 8) & 255, n & 255])

def sect1(ed, has_s2, year=2024, month=2, day=29, hour=12, minute=30, second=0, centre=54, sub=0, extra=b""):
    flag = 128 if has_s2 else 0
    if ed >= 4:
        body = bytes([0]) + i2(centre) + i2(sub) + bytes([0, flag, 0, 0, 0, 35, 0]) + i2(year) + bytes([month, day, hour, minute, second]) + extra
        return i3(3 + len(body)) + body
    body = bytes([0]) + (bytes([sub, centre & 255]) if ed == 3 else i2(centre)) + bytes([0, flag, 0, 0, 13, 0, (year - 1) % 100 + 1, month, day, hour, minute]) + extra
    if (3 + len(body)) % 2:
        body += b"\0"
    return i3(3 + len(body)) + body

def frame(ed, flag, nsub, descs, s4, s2=None, header=b"", pad_even=None, s3_extra=0, s4_extra=0):
    """bytes of a whole message.  pad_even: pad sections to even length (default: editions <= 3)"""
    if pad_even is None:
        pad_even = ed <= 3
    out = []
    s1 = sect1(ed, s2 is not None)
    out.append(s1)
    if s2 is not None:
        b = b"\0" + bytes(s2)
        if pad_even and (3 + len(b)) % 2: b += b"\0"
        out.append(i3(3 + len(b)) + b)
    d = b"".join(bytes([((x // 100000) << 6) | ((x // 1000) % 100), x % 1000 & 255]) for x in descs)
    b3 = b"\0" + i2(nsub) + bytes([flag]) + d + b"\0" * s3_extra
    if pad_even and (3 + len(b3)) % 2: b3 += b"\0"
    out.append(i3(3 + len(b3)) + b3)
    b4 = b"\0" + bytes(s4) + b"\0" * s4_extra
    if pad_even and (3 + len(b4)) % 2: b4 += b"\0"
    out.append(i3(3 + len(b4)) + b4)
    body = b"".join(out) + b"7777"
    return bytes(header) + b"BUFR" + i3(8 + len(body)) + bytes([ed]) + body


def parse(msg):
    """an independent reading of a whole message, from the regulation: returns a dict or raises ValueError(reason).
    Checks the total length, the section lengths (an even number of octets up to edition 3, the exact length in
    edition 4), the reserved octets and the end marker."""
    m = bytes(msg)
    if m[:4] != b"BUFR": raise ValueError("no start marker")
    if len(m) < 8: raise ValueError("short")
    total = int.from_bytes(m[4:7], "big"); ed = m[7]
    if total != len(m): raise ValueError("Section 0 announces %d octets, the message has %d" % (total, len(m)))
    pos = 8
    def sect(name, minlen):
        nonlocal pos
        if pos + 3 > len(m): raise ValueError("Section %s cut short" % name)
        n = int.from_bytes(m[pos:pos + 3], "big")
        if n < minlen or pos + n > len(m): raise ValueError("Section %s: length %d does not fit" % (name, n))
        if ed <= 3 and n % 2: raise ValueError("Section %s has an odd number of octets (%d) in edition %d" % (name, n, ed))
        b = m[pos:pos + n]; pos += n
        return b
    s1 = sect("1", 22 if ed >= 4 else 17)
    has2 = bool(s1[9 if ed >= 4 else 7] & 0x80)
    s2 = sect("2", 4) if has2 else None
    s3 = sect("3", 7)
    if s3[3] != 0: raise ValueError("Section 3 octet 4 (reserved) is not zero")
    nsub = int.from_bytes(s3[4:6], "big"); flag = s3[6]
    nd = (len(s3) - 7) // 2
    descs = [((s3[7 + 2 * i] >> 6) * 100000) + ((s3[7 + 2 * i] & 63) * 1000) + s3[8 + 2 * i] for i in range(nd)]
    rest3 = s3[7 + 2 * nd:]
    if ed >= 4 and rest3: raise ValueError("Section 3 of edition 4 carries %d octet(s) behind its descriptors" % len(rest3))
    if any(rest3): raise ValueError("Section 3 fill octet is not zero")
    s4 = sect("4", 4)
    if s4[3] != 0: raise ValueError("Section 4 octet 4 (reserved) is not zero")
    if m[pos:pos + 4] != b"7777" or pos + 4 != len(m): raise ValueError("end marker 7777 not where Section 4 ends")
    return {"edition": ed, "s1": s1, "s2": s2, "nsub": nsub, "flag": flag, "descs": descs, "s4": s4[4:]}
