#define _GNU_SOURCE
#include "bvp.h"
#include "bufr_template.h"
#include "bufr_dataset.h"
#include "bufr_desc.h"
#include "bufr_value.h"
#include "bufr_af.h"
#include "bufr_afd.h"
#include "bufr_meta.h"
#include "bufr_ddo.h"
#include "bufr_local.h"
#include "bufr_linklist.h"
#include <unistd.h>
#include <dirent.h>
/* C16: ownership workloads on the real API objects, held in slots, with the live-object counters of the
 * LIBECBUFR_VERIF hook (bufr_verif_counts) compared against what is reachable from the handles.
 *
 *   own.counts   live counters minus the baseline, one number per kind (order of KIND_NAMES)
 *   own.audit    walks every handle: "ok" when the counters equal what the handles own and every non-owning
 *                pointer (Table B entry of a descriptor, qualifier, referenced table array) targets live memory
 */

#define NK 18
static const char *KIND_NAMES[NK] = { "tables", "entryB", "entryD", "template", "dataset", "subset", "descriptor",
   "value", "af", "afd", "message", "sequence", "list", "listnode", "array", "rtmd", "ddop", "dpbm" };
enum { K_TABLES, K_ENTRYB, K_ENTRYD, K_TEMPLATE, K_DATASET, K_SUBSET, K_DESC, K_VALUE, K_AF, K_AFD, K_MESSAGE,
       K_SEQUENCE, K_LIST, K_LISTNODE, K_ARRAY, K_RTMD, K_DDOP, K_DPBM };

/* the hook of the library (weak: a checkout without the hook commit still links; counts are then unavailable) */
extern void bufr_verif_counts(long *out, int n) __attribute__((weak));

#define NS 8
static BUFR_Tables   *T[NS];
static BUFR_Template *M[NS];
static BUFR_Dataset  *D[NS];
static BUFR_Message  *G[NS];
static struct { unsigned char *p; size_t n; } B[NS];
static LinkedList    *L[NS];      /* lists of tables (bufr_load_tables_list) */

extern BUFR_Tables   *cur_tables;
extern BUFR_Template *cur_tmpl;
extern BUFR_Dataset  *cur_dts;
BUFR_Dataset *bvp_dec_dts(void);
int bvp_nsets(void);
BUFR_Tables *bvp_set_at(int i);
const char *bvp_set_name(int i);
BUFR_Tables *bvp_find_set(const char *name);

/* creation order of the roots: own.freeall releases the newest first */
static unsigned long stamp_ctr = 0;
static unsigned long stT[NS], stM[NS], stD[NS], stG[NS], stL[NS];
static long base[NK];
static int have_base = 0;
int own_leak_seen = 0;
/* the library called the abort handler earlier in this process and `reset` dropped the objects it was working on
 * without freeing them (bvp_poisoned): those blocks stay allocated on purpose, so LeakSanitizer's verdict means
 * nothing any more in this process; the counters are re-based and go on being checked */
extern int bvp_poisoned;
static int own_poison_seen = 0, own_rebase_pending = 0;

static int bad(void) { fputs("bad-op", bvp_out); return 0; }

/* file arguments are location independent: "@R/x" is x in the checkout under test ($BVP_REPO), "@F/x" is x in the
 * directory of files the check wrote for this run ($BVP_FILES) */
static const char *xpath(const char *p)
   {
   static char buf[4][1024]; static int k = 0;
   const char *base = NULL;
   if (!strncmp(p, "@R/", 3)) base = getenv("BVP_REPO");
   else if (!strncmp(p, "@F/", 3)) base = getenv("BVP_FILES");
   if (!base) return p;
   k = (k + 1) % 4;
   snprintf(buf[k], sizeof(buf[k]), "%s/%s", base, p + 3);
   return buf[k];
   }
static int slot(const char *s) { int k; if (!s[0] || s[1]) return -1; k = s[0] - '0'; return (k >= 0 && k < NS) ? k : -1; }

/* open file descriptors of the process (a FILE the library forgets to close is reachable from libc's own list,
 * so LeakSanitizer cannot see it) */
static int count_fds(void)
   {
   DIR *d = opendir("/proc/self/fd"); struct dirent *e; int n = 0;
   if (!d) return -1;
   while ((e = readdir(d)) != NULL) if (e->d_name[0] != '.') n++;
   closedir(d);
   return n - 1;   /* the directory stream itself */
   }
static int base_fds = -1;

static int get_live(long *v)
   {
   int i;
   for (i = 0; i < NK; i++) v[i] = 0;
   if (!bufr_verif_counts) return 0;
   bufr_verif_counts(v, NK);
   return 1;
   }

/* ------------------------------------------------------------------------------------------------ registry
 * every address a non-owning pointer may legitimately target, with the root handle that owns it */
struct reg { const void *p; int root; };
static struct reg *regs = NULL; static size_t nregs = 0, capregs = 0;
#define MAXROOTS 64
static char rootnames[MAXROOTS][24]; static int nroots = 0;

static void reg_add(const void *p, int root)
   {
   if (!p) return;
   if (nregs == capregs) { capregs = capregs ? capregs * 2 : 8192; regs = (struct reg *)realloc(regs, capregs * sizeof(struct reg)); }
   regs[nregs].p = p; regs[nregs].root = root; nregs++;
   }
static int reg_cmp(const void *a, const void *b)
   {
   const struct reg *x = (const struct reg *)a, *y = (const struct reg *)b;
   return (x->p > y->p) - (x->p < y->p);
   }
static int reg_find(const void *p)
   {
   struct reg k, *r;
   k.p = p; k.root = 0;
   r = (struct reg *)bsearch(&k, regs, nregs, sizeof(struct reg), reg_cmp);
   return r ? r->root : -1;
   }
static int new_root(const char *fmt, int i)
   {
   if (nroots >= MAXROOTS) return MAXROOTS - 1;
   snprintf(rootnames[nroots], sizeof(rootnames[0]), fmt, i);
   return nroots++;
   }

/* ------------------------------------------------------------------------------------------------ walkers
 * v: what the object owns, per kind.  When refs != NULL the non-owning pointers are resolved against the
 * registry: refs[root] is set for every root pointed into, *dangling counts pointers to nowhere. */
struct rctx { unsigned char *refs; long dangling; int self; };
static const char *ref_what = "?";

static void ref_ptr(struct rctx *rc, const void *p)
   {
   int r;
   if (!rc || !p) return;
   r = reg_find(p);
   if (r < 0) rc->dangling++;
   else if (r != rc->self) { rc->refs[r] = 1; if (getenv("BVP_REFDEBUG")) fprintf(stderr, "ref %s -> %s via %s\n", rootnames[rc->self], rootnames[r], ref_what); }
   }

static void walk_tset(BufrTablesSet *s, long *v, struct rctx *rc, int root, int reg)
   {
   int i, n;
   if (s->tableB)
      {
      if (s->tableBtype == TYPE_ALLOCATED)
         {
         n = arr_count(s->tableB);
         v[K_ARRAY]++; v[K_ENTRYB] += n;
         if (reg) { reg_add(s->tableB, root); for (i = 0; i < n; i++) reg_add(*(EntryTableB **)arr_get(s->tableB, i), root); }
         }
      else { ref_what = "tableB"; ref_ptr(rc, s->tableB); }
      }
   if (s->tableD)
      {
      if (s->tableDtype == TYPE_ALLOCATED)
         {
         n = arr_count(s->tableD);
         v[K_ARRAY]++; v[K_ENTRYD] += n;
         if (reg) reg_add(s->tableD, root);
         }
      else { ref_what = "tableD"; ref_ptr(rc, s->tableD); }
      }
   }

static void walk_tables(BUFR_Tables *t, long *v, struct rctx *rc, int root, int reg)
   {
   if (!t) return;
   v[K_TABLES]++;
   walk_tset(&t->master, v, rc, root, reg);
   walk_tset(&t->local, v, rc, root, reg);
   if (t->tableB_cache) v[K_ARRAY]++;
   if (rc && t->last_searched) { ref_what = "last_searched"; ref_ptr(rc, t->last_searched); }
   if (rc && t->tableB_cache)
      {
      int i, n = arr_count(t->tableB_cache);
      ref_what = "cache"; for (i = 0; i < n; i++) ref_ptr(rc, *(EntryTableB **)arr_get(t->tableB_cache, i));
      }
   }

static void walk_value(BufrValue *bv, long *v)
   {
   if (!bv) return;
   v[K_VALUE]++;
   if (bv->af) v[K_AF]++;
   }

static void walk_desc(BufrDescriptor *b, long *v, struct rctx *rc, int root, int reg)
   {
   int j;
   if (!b) return;
   v[K_DESC]++;
   if (reg) reg_add(b, root);
   walk_value(b->value, v);
   if (b->afd) v[K_AFD]++;
   if (b->meta)
      {
      v[K_RTMD]++;
      if (rc) { ref_what = "qualifier"; for (j = 0; j < b->meta->nb_qualifiers; j++) ref_ptr(rc, b->meta->qualifiers[j]); }
      }
   if (rc && b->etb) { ref_what = "etb"; ref_ptr(rc, b->etb); }
   }

static void walk_descarr(BufrDescriptorArray a, long *v, struct rctx *rc, int root, int reg)
   {
   int i, n;
   if (!a) return;
   v[K_ARRAY]++;
   n = arr_count(a);
   for (i = 0; i < n; i++) walk_desc(*(BufrDescriptor **)arr_get(a, i), v, rc, root, reg);
   }

static void walk_template(BUFR_Template *m, long *v, struct rctx *rc, int root, int reg)
   {
   int i, j, n;
   if (!m) return;
   v[K_TEMPLATE]++;
   if (m->codets)
      {
      v[K_ARRAY]++;
      n = arr_count(m->codets);
      for (i = 0; i < n; i++)
         {
         BufrDescValue *dv = (BufrDescValue *)arr_get(m->codets, i);
         if (dv->values) for (j = 0; j < dv->nbval; j++) walk_value(dv->values[j], v);
         }
      }
   if (m->ddo_tbe)
      {
      n = arr_count(m->ddo_tbe);
      v[K_ARRAY]++; v[K_ENTRYB] += n;
      if (reg) for (i = 0; i < n; i++) reg_add(*(EntryTableB **)arr_get(m->ddo_tbe, i), root);
      }
   walk_descarr(m->gabarit, v, rc, root, reg);
   walk_tables(m->tables, v, rc, root, reg);
   }

static void walk_subset(DataSubset *s, long *v, struct rctx *rc, int root, int reg)
   {
   if (!s) return;
   v[K_SUBSET]++;
   if (s->dpbm) v[K_DPBM]++;
   walk_descarr(s->data, v, rc, root, reg);
   }

static void walk_dataset(BUFR_Dataset *d, long *v, struct rctx *rc, int root, int reg)
   {
   int i, n;
   if (!d) return;
   v[K_DATASET]++;
   walk_template(d->tmplte, v, rc, root, reg);
   if (d->datasubsets)
      {
      v[K_ARRAY]++;
      n = arr_count(d->datasubsets);
      for (i = 0; i < n; i++) walk_subset(*(DataSubset **)arr_get(d->datasubsets, i), v, rc, root, reg);
      }
   }

static void walk_tlist(LinkedList *l, long *v, struct rctx *rc, int root, int reg)
   {
   ListNode *n;
   if (!l) return;
   v[K_LIST]++;
   for (n = lst_firstnode(l); n; n = lst_nextnode(n))
      {
      v[K_LISTNODE]++;
      walk_tables((BUFR_Tables *)n->data, v, rc, root, reg);
      }
   }

static void walk_message(BUFR_Message *g, long *v)
   {
   if (!g) return;
   v[K_MESSAGE]++;
   if (g->s3.desc_list) v[K_ARRAY]++;
   }

/* pass 0: registry; pass 1: counts and references.  `only` >= 0 restricts pass 1 to one root */
static void walk_all(long *v, unsigned char refs[MAXROOTS][MAXROOTS], long *dangling)
   {
   int pass, i, r;
   long scratch[NK];
   nregs = 0;
   for (pass = 0; pass < 2; pass++)
      {
      nroots = 0;
      for (i = 0; i < bvp_nsets(); i++)
         {
         struct rctx rc; rc.refs = refs[nroots]; rc.dangling = 0;
         r = new_root("S%d", i); rc.self = r;
         /* immortal table sets: part of the baseline, not of the workload */
         memset(scratch, 0, sizeof(scratch));
         walk_tables(bvp_set_at(i), scratch, pass ? &rc : NULL, r, pass == 0);
         if (pass) *dangling += rc.dangling;
         }
#define ROOT(fmt, idx, call) { struct rctx rc; rc.refs = refs[nroots]; rc.dangling = 0; r = new_root(fmt, idx); rc.self = r; \
         { long *vv = pass ? v : scratch; struct rctx *prc = pass ? &rc : NULL; int rg = (pass == 0); call; (void)vv; (void)prc; (void)rg; } \
         if (pass) *dangling += rc.dangling; }
      for (i = 0; i < NS; i++) if (L[i]) ROOT("L%d", i, walk_tlist(L[i], vv, prc, r, rg));
      for (i = 0; i < NS; i++) if (T[i]) ROOT("T%d", i, walk_tables(T[i], vv, prc, r, rg));
      for (i = 0; i < NS; i++) if (M[i]) ROOT("M%d", i, walk_template(M[i], vv, prc, r, rg));
      for (i = 0; i < NS; i++) if (D[i]) ROOT("D%d", i, walk_dataset(D[i], vv, prc, r, rg));
      for (i = 0; i < NS; i++) if (G[i]) ROOT("G%d", i, walk_message(G[i], vv));
      if (cur_tmpl) ROOT("cur.tmpl%d", 0, walk_template(cur_tmpl, vv, prc, r, rg));
      if (cur_dts) ROOT("cur.dts%d", 0, walk_dataset(cur_dts, vv, prc, r, rg));
      if (bvp_dec_dts()) ROOT("dec.dts%d", 0, walk_dataset(bvp_dec_dts(), vv, prc, r, rg));
      if (pass == 0 && nregs > 0) qsort(regs, nregs, sizeof(struct reg), reg_cmp);
      }
   }

/* ------------------------------------------------------------------------------------------------ printing */
static void print_vec(const long *v)
   {
   int i;
   for (i = 0; i < NK; i++) fprintf(bvp_out, "%s%ld", i ? "," : "", v[i]);
   }

static void print_subset_shape(DataSubset *s)
   {
   long v[NK];
   memset(v, 0, sizeof(v));
   walk_subset(s, v, NULL, 0, 0);
   fprintf(bvp_out, "%ld:%ld:%ld:%ld:%ld:%ld:%ld", v[K_DESC], v[K_VALUE], v[K_AF], v[K_AFD], v[K_RTMD], v[K_DPBM], v[K_ARRAY]);
   }

/* what a template owns apart from its tables: descriptors:values:af:afd:rtmd:arrays:ddo entries */
static void print_tmpl_shape(BUFR_Template *m)
   {
   long v[NK], t[NK];
   memset(v, 0, sizeof(v)); memset(t, 0, sizeof(t));
   walk_template(m, v, NULL, 0, 0);
   walk_tables(m->tables, t, NULL, 0, 0);
   fprintf(bvp_out, "%ld:%ld:%ld:%ld:%ld:%ld:%ld", v[K_DESC], v[K_VALUE], v[K_AF], v[K_AFD], v[K_RTMD],
           v[K_ARRAY] - t[K_ARRAY], v[K_ENTRYB] - t[K_ENTRYB]);
   }

static int tset_state(void *arr, BufrStorageType ty) { return !arr ? 0 : (ty == TYPE_ALLOCATED ? 1 : 2); }
/* state of a tables object: for each of mB mD lB lD  <0 none|1 owned|2 referenced>:<entries>, then the cache flag */
static void print_tables_state(BUFR_Tables *t)
   {
   fprintf(bvp_out, "%d:%d %d:%d %d:%d %d:%d c%d",
      tset_state(t->master.tableB, t->master.tableBtype), arr_count(t->master.tableB),
      tset_state(t->master.tableD, t->master.tableDtype), arr_count(t->master.tableD),
      tset_state(t->local.tableB, t->local.tableBtype), arr_count(t->local.tableB),
      tset_state(t->local.tableD, t->local.tableDtype), arr_count(t->local.tableD),
      t->tableB_cache != NULL);
   }

/* ------------------------------------------------------------------------------------------------ ops */
static int own_base(int argc, char **argv)
   {
   int i;
   (void)argv;
   if (argc != 1) return bad();
   /* the lookup cache of a table set is allocated by its first lookup: do it now so that the baseline is stable */
   for (i = 0; i < bvp_nsets(); i++) (void)bufr_fetch_tableB(bvp_set_at(i), 1001);
   have_base = get_live(base);
   base_fds = count_fds();
   fputs(have_base ? "ok" : "nohook", bvp_out);
   return 0;
   }

static int own_counts(int argc, char **argv)
   {
   long v[NK]; int i;
   (void)argv;
   if (argc != 1) return bad();
   if (!get_live(v)) { fputs("nohook", bvp_out); return 0; }
   for (i = 0; i < NK; i++) v[i] -= base[i];
   print_vec(v);
   return 0;
   }

static int own_audit(int argc, char **argv)
   {
   long live[NK], reach[NK], dangling = 0; int i, okc = 1;
   static unsigned char refs[MAXROOTS][MAXROOTS];
   (void)argv;
   if (argc != 1) return bad();
   if (!get_live(live)) { fputs("nohook", bvp_out); return 0; }
   memset(reach, 0, sizeof(reach)); memset(refs, 0, sizeof(refs));
   walk_all(reach, refs, &dangling);
   for (i = 0; i < NK; i++) if (live[i] - base[i] != reach[i]) okc = 0;
   if (base_fds >= 0 && count_fds() != base_fds)
      {
      fprintf(bvp_out, "files=%+d ", count_fds() - base_fds);   /* left open (or closed twice) by the library */
      base_fds = count_fds();
      if (okc && !dangling) { fputs("open", bvp_out); return 0; }
      }
   if (okc && !dangling) { fputs("ok", bvp_out); return 0; }
   if (!okc)
      {
      fputs("unowned", bvp_out);
      for (i = 0; i < NK; i++) if (live[i] - base[i] != reach[i]) fprintf(bvp_out, " %s=%ld", KIND_NAMES[i], live[i] - base[i] - reach[i]);
      }
   if (dangling) fprintf(bvp_out, "%sdangling=%ld", okc ? "" : " ", dangling);
   return 0;
   }

/* own.refs: for every root handle, the other roots whose memory it points into */
static int own_refs(int argc, char **argv)
   {
   long reach[NK], dangling = 0; int i, j, any = 0;
   static unsigned char refs[MAXROOTS][MAXROOTS];
   (void)argv;
   if (argc != 1) return bad();
   memset(reach, 0, sizeof(reach)); memset(refs, 0, sizeof(refs));
   walk_all(reach, refs, &dangling);
   for (i = 0; i < nroots; i++)
      {
      int first = 1;
      if (rootnames[i][0] == 'S') continue;
      for (j = 0; j < nroots; j++)
         if (refs[i][j])
            {
            fprintf(bvp_out, "%s%s%s", first ? (any ? " " : "") : ",", first ? rootnames[i] : "", first ? ">" : "");
            fputs(rootnames[j], bvp_out);
            first = 0; any = 1;
            }
      }
   if (!any) fputs("-", bvp_out);
   if (dangling) fprintf(bvp_out, " dangling=%ld", dangling);
   return 0;
   }

static void print_tcache(BUFR_Tables *t) { fprintf(bvp_out, " c%d", t->tableB_cache != NULL); }

static int own_tnew(int argc, char **argv)
   {
   int t;
   if (argc != 2 || (t = slot(argv[1])) < 0 || T[t]) return bad();
   T[t] = bufr_create_tables(); stT[t] = ++stamp_ctr;
   fputs("ok", bvp_out);
   return 0;
   }

/* own.tload <t> <mb|md|lb|ld|cb|cd> <path>   (cb, cd: the CSV loaders, master tables) */
static int own_tload(int argc, char **argv)
   {
   int t, rc;
   if (argc != 4 || (t = slot(argv[1])) < 0 || !T[t]) return bad();
   if (!strcmp(argv[2], "mb")) rc = bufr_load_m_tableB(T[t], xpath(argv[3]));
   else if (!strcmp(argv[2], "md")) rc = bufr_load_m_tableD(T[t], xpath(argv[3]));
   else if (!strcmp(argv[2], "lb")) rc = bufr_load_l_tableB(T[t], xpath(argv[3]));
   else if (!strcmp(argv[2], "ld")) rc = bufr_load_l_tableD(T[t], xpath(argv[3]));
   else if (!strcmp(argv[2], "cb")) rc = bufr_load_csv_tableB(T[t], xpath(argv[3]));
   else if (!strcmp(argv[2], "cd")) rc = bufr_load_csv_tableD(T[t], xpath(argv[3]));
   else return bad();
   fprintf(bvp_out, "%d ", rc < 0);
   print_tables_state(T[t]);
   return 0;
   }

/* own.tset <t> <name>: a tables object with the contents of the immortal set <name> (master referenced, local copied) */
static BUFR_Tables *tables_arg(const char *s);
static int own_tmerge(int argc, char **argv)
   {
   int t1; BUFR_Tables *src;
   if (argc != 3 || (t1 = slot(argv[1])) < 0 || !T[t1]) return bad();
   src = tables_arg(argv[2]);
   if (!src || src == T[t1]) return bad();
   bufr_merge_tables(T[t1], src);
   fputs("ok ", bvp_out);
   print_tables_state(T[t1]);
   return 0;
   }

static int own_tstate(int argc, char **argv)
   {
   int t;
   if (argc != 2 || (t = slot(argv[1])) < 0 || !T[t]) return bad();
   print_tables_state(T[t]);
   return 0;
   }

static int own_tfree(int argc, char **argv)
   {
   int t;
   if (argc != 2 || (t = slot(argv[1])) < 0 || !T[t]) return bad();
   if (cur_tables == T[t]) cur_tables = NULL;
   bufr_free_tables(T[t]); T[t] = NULL;
   fputs("ok", bvp_out);
   return 0;
   }

static BUFR_Tables *tables_arg(const char *s)
   {
   int t;
   if (s[0] == '@') return bvp_find_set(s + 1);
   if (s[0] == 'L' && s[1] >= '0' && s[1] < '0' + NS && s[2] == ':')
      return L[s[1] - '0'] ? bufr_use_tables_list(L[s[1] - '0'], atoi(s + 3)) : NULL;
   t = slot(s);
   return t < 0 ? NULL : T[t];
   }



/* own.lnew <l> <dir> <v1> ...: bufr_load_tables_list: table_b_bufr-<v>, table_d_bufr-<v> of the directory */
static int own_lnew(int argc, char **argv)
   {
   int l, i, n = argc - 3, tb[16]; ListNode *nd;
   if (argc < 3 || n > 16 || (l = slot(argv[1])) < 0 || L[l]) return bad();
   for (i = 0; i < n; i++) tb[i] = atoi(argv[3 + i]);
   L[l] = bufr_load_tables_list((char *)xpath(argv[2]), tb, n); stL[l] = ++stamp_ctr;
   if (!L[l]) { fputs("null", bvp_out); return 0; }
   fprintf(bvp_out, "ok %d", lst_count(L[l]));
   for (nd = lst_firstnode(L[l]); nd; nd = lst_nextnode(nd))
      {
      fprintf(bvp_out, " v%d ", ((BUFR_Tables *)nd->data)->master.version);
      print_tables_state((BUFR_Tables *)nd->data);
      }
   return 0;
   }

/* own.llocal <l> <lb|-> <ld|->: bufr_tables_list_addlocal */
static int own_llocal(int argc, char **argv)
   {
   int l; ListNode *nd;
   if (argc != 4 || (l = slot(argv[1])) < 0 || !L[l]) return bad();
   bufr_tables_list_addlocal(L[l], strcmp(argv[2], "-") ? (char *)xpath(argv[2]) : NULL, strcmp(argv[3], "-") ? (char *)xpath(argv[3]) : NULL);
   fprintf(bvp_out, "ok %d", lst_count(L[l]));
   for (nd = lst_firstnode(L[l]); nd; nd = lst_nextnode(nd))
      {
      fprintf(bvp_out, " v%d ", ((BUFR_Tables *)nd->data)->master.version);
      print_tables_state((BUFR_Tables *)nd->data);
      }
   return 0;
   }

static int own_lfree(int argc, char **argv)
   {
   int l;
   if (argc != 2 || (l = slot(argv[1])) < 0 || !L[l]) return bad();
   bufr_free_tables_list(L[l]); L[l] = NULL;
   fputs("ok", bvp_out);
   return 0;
   }

/* own.mnew <m> <t|@set|L<l>:<version>> <edition> <d1> ... */
static int own_mnew(int argc, char **argv)
   {
   BufrDescValue *dv; int i, n = argc - 4, m; BUFR_Tables *t;
   if (argc < 4 || (m = slot(argv[1])) < 0 || M[m] || !(t = tables_arg(argv[2]))) return bad();
   dv = (BufrDescValue *)calloc(n + 1, sizeof(BufrDescValue));
   for (i = 0; i < n; i++) { dv[i].descriptor = atoi(argv[i + 4]); dv[i].values = NULL; dv[i].nbval = 0; }
   M[m] = bufr_create_template(dv, n, t, atoi(argv[3])); stM[m] = ++stamp_ctr;
   free(dv);
   if (!M[m]) { fputs("fail", bvp_out); print_tcache(t); return 0; }
   fputs("ok ", bvp_out);
   print_tmpl_shape(M[m]);
   fputc(' ', bvp_out);
   print_tables_state(M[m]->tables);
   print_tcache(t);
   return 0;
   }

/* own.madd <m> <d1> ...: extend a finalized template and finalize it again */
static int own_madd(int argc, char **argv)
   {
   BufrDescValue *dv; int i, n = argc - 2, m, rc;
   if (argc < 3 || (m = slot(argv[1])) < 0 || !M[m]) return bad();
   dv = (BufrDescValue *)calloc(n + 1, sizeof(BufrDescValue));
   for (i = 0; i < n; i++) { dv[i].descriptor = atoi(argv[i + 2]); dv[i].values = NULL; dv[i].nbval = 0; }
   bufr_template_add_DescValue(M[m], dv, n);
   free(dv);
   rc = bufr_finalize_template(M[m]);
   fputs(rc < 0 ? "fail " : "ok ", bvp_out);
   print_tmpl_shape(M[m]);
   fprintf(bvp_out, " c%d", M[m]->tables->tableB_cache != NULL);
   return 0;
   }

/* own.mload <m> <t|@set|-> <path>: bufr_load_template */
static int own_mload(int argc, char **argv)
   {
   int m; BUFR_Tables *t = NULL;
   if (argc != 4 || (m = slot(argv[1])) < 0 || M[m]) return bad();
   if (strcmp(argv[2], "-") && !(t = tables_arg(argv[2]))) return bad();
   M[m] = bufr_load_template(xpath(argv[3]), t); stM[m] = ++stamp_ctr;
   if (!M[m]) { fputs("fail", bvp_out); if (t) print_tcache(t); return 0; }
   fputs("ok ", bvp_out);
   print_tmpl_shape(M[m]);
   fputc(' ', bvp_out);
   print_tables_state(M[m]->tables);
   if (t) print_tcache(t);
   return 0;
   }

static int own_mcopy(int argc, char **argv)
   {
   int m2, m1;
   if (argc != 3 || (m2 = slot(argv[1])) < 0 || (m1 = slot(argv[2])) < 0 || M[m2] || !M[m1]) return bad();
   M[m2] = bufr_copy_template(M[m1]); stM[m2] = ++stamp_ctr;
   if (!M[m2]) { fputs("fail", bvp_out); print_tcache(M[m1]->tables); return 0; }
   fputs("ok ", bvp_out);
   print_tmpl_shape(M[m2]);
   fputc(' ', bvp_out);
   print_tables_state(M[m2]->tables);
   print_tcache(M[m1]->tables);
   return 0;
   }

static int own_mfree(int argc, char **argv)
   {
   int m;
   if (argc != 2 || (m = slot(argv[1])) < 0 || !M[m]) return bad();
   bufr_free_template(M[m]); M[m] = NULL;
   fputs("ok", bvp_out);
   return 0;
   }

static void print_dts_head(BUFR_Dataset *d)
   {
   print_tmpl_shape(d->tmplte);
   fputc(' ', bvp_out);
   print_tables_state(d->tmplte->tables);
   }

static int own_dnew(int argc, char **argv)
   {
   int d, m;
   if (argc != 3 || (d = slot(argv[1])) < 0 || (m = slot(argv[2])) < 0 || D[d] || !M[m]) return bad();
   D[d] = bufr_create_dataset(M[m]); stD[d] = ++stamp_ctr;
   if (!D[d]) { fputs("fail", bvp_out); print_tcache(M[m]->tables); return 0; }
   fputs("ok ", bvp_out);
   print_dts_head(D[d]);
   print_tcache(M[m]->tables);
   return 0;
   }

/* what an operation on a dataset can change in the dataset's own template: operator Table B entries, lookup cache */
static void print_tbe(BUFR_Dataset *d) { fprintf(bvp_out, " e%d c%d", arr_count(d->tmplte->ddo_tbe), d->tmplte->tables->tableB_cache != NULL); }

static int own_dsub(int argc, char **argv)
   {
   int d, pos;
   if (argc != 2 || (d = slot(argv[1])) < 0 || !D[d]) return bad();
   pos = bufr_create_datasubset(D[d]);
   fprintf(bvp_out, "%d", pos);
   if (pos >= 0) { fputc(' ', bvp_out); print_subset_shape(bufr_get_datasubset(D[d], pos)); }
   print_tbe(D[d]);
   return 0;
   }

static int is_factor(int d) { return d == 31000 || d == 31001 || d == 31002 || d == 31011 || d == 31012; }

/* own.dfactors <d> <k> v...: as ss.setfactors */
static int own_dfactors(int argc, char **argv)
   {
   DataSubset *s; int i, n, k = 0, d;
   if (argc < 4 || (d = slot(argv[1])) < 0 || !D[d]) return bad();
   s = bufr_get_datasubset(D[d], atoi(argv[2]));
   if (!s) { fputs("none", bvp_out); return 0; }
   n = bufr_datasubset_count_descriptor(s);
   for (i = 0; i < n; i++)
      {
      BufrDescriptor *b = bufr_datasubset_get_descriptor(s, i);
      if (is_factor(b->descriptor) && (b->flags & FLAG_CLASS31) && !(b->flags & FLAG_EXPANDED) && !(b->flags & FLAG_SKIPPED) && b->value)
         {
         unsigned long v = strtoul(argv[3 + (k % (argc - 3))], NULL, 10);
         if (b->encoding.nbits < 31) v %= (1UL << b->encoding.nbits);
         bufr_descriptor_set_ivalue(b, (int)v);
         k++;
         }
      }
   fprintf(bvp_out, "%d", k);
   return 0;
   }

static int own_dexpand(int argc, char **argv)
   {
   int d, k, n; DataSubset *s;
   if (argc != 3 || (d = slot(argv[1])) < 0 || !D[d]) return bad();
   k = atoi(argv[2]);
   n = bufr_expand_datasubset(D[d], k);
   fprintf(bvp_out, "%d", n);
   s = bufr_get_datasubset(D[d], k);
   if (s) { fputc(' ', bvp_out); print_subset_shape(s); }
   print_tbe(D[d]);
   return 0;
   }

static uint64_t mix(uint64_t seed, uint64_t idx)
   {
   uint64_t x = seed * 6364136223846793005ULL + idx * 1442695040888963407ULL + 1013904223ULL;
   uint64_t y = (x ^ (x >> 29)) * 2685821657736338717ULL;
   return y ^ (y >> 32);
   }

/* own.dfill <d> <k> <seed> <mode>: values for every value-bearing element.  mode 0: mixed incl. missing,
 * 1: random in range, 2: wide random strings (incompressible), 3: constant */
static int own_dfill(int argc, char **argv)
   {
   DataSubset *s; int i, n, mode, d, k; uint64_t seed;
   if (argc != 5 || (d = slot(argv[1])) < 0 || !D[d]) return bad();
   k = atoi(argv[2]);
   s = bufr_get_datasubset(D[d], k);
   if (!s) { fputs("none", bvp_out); return 0; }
   seed = strtoull(argv[3], NULL, 10); mode = atoi(argv[4]);
   n = bufr_datasubset_count_descriptor(s);
   for (i = 0; i < n; i++)
      {
      BufrDescriptor *b = bufr_datasubset_get_descriptor(s, i);
      uint64_t x = mix(seed, i);
      if ((b->flags & FLAG_SKIPPED) || (b->flags & FLAG_CLASS31) || DESC_TO_X(b->descriptor) == 31) continue;
      switch (b->encoding.type)
         {
         case TYPE_CCITT_IA5:
            {
            int len = b->encoding.nbits / 8, j, cnt;
            char *buf = (char *)calloc(1, len + 4);
            cnt = (mode == 3) ? len : (mode == 0 && x % 8 == 0) ? 0 : len - (int)((x >> 3) % (uint64_t)((len < 3 ? len : 3) + 1));
            for (j = 0; j < cnt; j++) buf[j] = (mode == 3) ? 'A' : (char)(33 + mix(seed, (uint64_t)i * 131 + j + 7) % 94);
            buf[cnt] = 0;
            bufr_descriptor_set_svalue(b, buf);
            free(buf);
            }
            break;
         case TYPE_NUMERIC:
            if (b->encoding.nbits > 1 && b->encoding.nbits <= 32)
               {
               uint64_t all = (1ULL << b->encoding.nbits) - 1, raw = (mode == 3) ? 1 : (x >> 4) % all;
               if (mode == 0 && x % 8 == 1) bufr_descriptor_set_dvalue(b, bufr_missing_double());
               else bufr_descriptor_set_dvalue(b, bufr_cvt_i64_to_dval(&b->encoding, raw));
               }
            break;
         case TYPE_CODETABLE: case TYPE_FLAGTABLE:
            if (b->encoding.nbits > 1 && b->encoding.nbits <= 31)
               {
               uint64_t all = (1ULL << b->encoding.nbits) - 1, raw = (mode == 3) ? 1 : (x >> 4) % all;
               bufr_descriptor_set_ivalue(b, (mode == 0 && x % 8 == 1) ? -1 : (int)raw);
               }
            break;
         case TYPE_IEEE_FP:
            bufr_descriptor_set_dvalue(b, (mode == 3) ? 1.5 : (double)((int64_t)(x >> 40)) / 64.0);
            break;
         default: break;
         }
      if (b->value && b->value->af && b->value->af->nbits > 0 && b->value->af->nbits <= 64)
         {
         uint64_t a = (mode == 3) ? 1 : mix(seed, (uint64_t)i + 100003);
         if (b->value->af->nbits < 64) a %= (1ULL << b->value->af->nbits);
         b->value->af->bits = a;
         }
      }
   fprintf(bvp_out, "%d ", n);
   print_subset_shape(s);
   return 0;
   }

/* own.dmerge <dest> <dpos> <src> <spos> <nb> */
static int own_dmerge(int argc, char **argv)
   {
   int dd, ds, before, after, rc, i;
   if (argc != 6 || (dd = slot(argv[1])) < 0 || (ds = slot(argv[3])) < 0 || !D[dd] || !D[ds]) return bad();
   before = bufr_count_datasubset(D[dd]);
   rc = bufr_merge_dataset(D[dd], atoi(argv[2]), D[ds], atoi(argv[4]), atoi(argv[5]));
   after = bufr_count_datasubset(D[dd]);
   fprintf(bvp_out, "%d %d", rc, after);
   /* blank subsets made to reach dest_pos (their shape is data the model cannot know); the one at dest_pos
    * itself was replaced by a duplicate unless nothing was copied */
   if (rc >= 0)
      for (i = before; i < after && i <= atoi(argv[2]); i++)
         if (i < atoi(argv[2]) || rc == 0) { fputc(' ', bvp_out); print_subset_shape(bufr_get_datasubset(D[dd], i)); }
   print_tbe(D[dd]);
   return 0;
   }

static int own_dfree(int argc, char **argv)
   {
   int d;
   if (argc != 2 || (d = slot(argv[1])) < 0 || !D[d]) return bad();
   bufr_free_dataset(D[d]); D[d] = NULL;
   fputs("ok", bvp_out);
   return 0;
   }

/* own.dhdr <d> <hex>: set the header string of the dataset (a raw allocation of the dataset) */
static int own_dhdr(int argc, char **argv)
   {
   int d, n; unsigned char *b;
   if (argc != 3 || (d = slot(argv[1])) < 0 || !D[d] || (n = bvp_parse_hex(argv[2], &b)) < 0) return bad();
   b[n] = 0;
   if (D[d]->header_string) free(D[d]->header_string);
   D[d]->header_string = strdup((char *)b);
   free(b);
   fputs("ok", bvp_out);
   return 0;
   }

/* own.enc <g> <d> <compress>: prints the Section 4 length the library wrote, the size it first allocated,
 * the allocation in octets (s4.max_len) and the data capacity (s4.max_data_len) */
static int own_enc(int argc, char **argv)
   {
   int g, d, i, j; uint64_t nbits = 0, blen = 0;
   if (argc != 4 || (g = slot(argv[1])) < 0 || (d = slot(argv[2])) < 0 || G[g] || !D[d]) return bad();
   G[g] = bufr_encode_message(D[d], atoi(argv[3])); stG[g] = ++stamp_ctr;
   if (!G[g]) { fputs("null", bvp_out); return 0; }
   /* the encoder's initial estimate: the uncompressed size of the data (same loop as bufr_encode_message) */
   for (i = 0; i < bufr_count_datasubset(D[d]); i++)
      {
      DataSubset *s = bufr_get_datasubset(D[d], i);
      for (j = 0; j < bufr_datasubset_count_descriptor(s); j++)
         {
         BufrDescriptor *b = bufr_datasubset_get_descriptor(s, j);
         if (b->flags & FLAG_SKIPPED) continue;
         nbits += b->encoding.nbits + b->encoding.af_nbits;
         }
      blen += nbits / 8; nbits %= 8;
      }
   blen += nbits ? 1 : 0;
   fprintf(bvp_out, "ok %d %u %llu %u %u", (G[g]->s3.flag & BUFR_FLAG_COMPRESSED) ? 1 : 0,
           G[g]->s4.filled + (G[g]->s4.bitno ? 1 : 0), (unsigned long long)blen, G[g]->s4.max_len, G[g]->s4.max_data_len);
   print_tbe(D[d]);
   return 0;
   }

static int own_gwrite(int argc, char **argv)
   {
   int b, g; ssize_t rc; size_t cap;
   if (argc != 3 || (b = slot(argv[1])) < 0 || (g = slot(argv[2])) < 0 || !G[g]) return bad();
   free(B[b].p); B[b].p = NULL; B[b].n = 0;
   cap = (size_t)G[g]->len_msg + 64 + (G[g]->header_string ? 4 * strlen(G[g]->header_string) + 16 : 0);
   B[b].p = (unsigned char *)malloc(cap);
   rc = bufr_memwrite_message((char *)B[b].p, cap, G[g]);
   B[b].n = rc > 0 ? (size_t)rc : 0;
   fprintf(bvp_out, "%ld", (long)rc);
   return 0;
   }

/* own.bset <b> <hex>, own.bcut <b> <n>, own.bflip <b> <pos> <xor>: application-side bytes */
static int own_bset(int argc, char **argv)
   {
   int b, n; unsigned char *p;
   if (argc != 3 || (b = slot(argv[1])) < 0 || (n = bvp_parse_hex(argv[2], &p)) < 0) return bad();
   free(B[b].p); B[b].p = p; B[b].n = (size_t)n;
   fprintf(bvp_out, "%d", n);
   return 0;
   }
static int own_bcut(int argc, char **argv)
   {
   int b; long n;
   if (argc != 3 || (b = slot(argv[1])) < 0 || !B[b].p) return bad();
   n = atol(argv[2]);
   if (n >= 0 && (size_t)n < B[b].n) B[b].n = (size_t)n;
   fprintf(bvp_out, "%lu", (unsigned long)B[b].n);
   return 0;
   }
static int own_bflip(int argc, char **argv)
   {
   int b; long pos;
   if (argc != 4 || (b = slot(argv[1])) < 0 || !B[b].p) return bad();
   pos = atol(argv[2]);
   if (pos >= 0 && (size_t)pos < B[b].n) B[b].p[pos] ^= (unsigned char)atoi(argv[3]);
   fputs("ok", bvp_out);
   return 0;
   }
static int own_bget(int argc, char **argv)
   {
   int b;
   if (argc != 2 || (b = slot(argv[1])) < 0) return bad();
   bvp_print_hex(B[b].p, B[b].n);
   return 0;
   }

static int own_gread(int argc, char **argv)
   {
   int g, b; ssize_t rc; BUFR_Message *m = NULL;
   if (argc != 3 || (g = slot(argv[1])) < 0 || (b = slot(argv[2])) < 0 || G[g] || !B[b].p) return bad();
   rc = bufr_memread_message((const char *)B[b].p, B[b].n, &m);
   if (rc <= 0 || !m) { if (m) bufr_free_message(m); fprintf(bvp_out, "fail"); return 0; }
   G[g] = m; stG[g] = ++stamp_ctr;
   fprintf(bvp_out, "ok %ld", (long)rc);
   return 0;
   }

static int own_gfree(int argc, char **argv)
   {
   int g;
   if (argc != 2 || (g = slot(argv[1])) < 0 || !G[g]) return bad();
   bufr_free_message(G[g]); G[g] = NULL;
   fputs("ok", bvp_out);
   return 0;
   }

/* own.dec <d> <g> <t|@set> [from to]: the read cursor of the message is rewound first so that a message
 * can be decoded more than once */
static int own_dec(int argc, char **argv)
   {
   int d, g, i, n; BUFR_Tables *t;
   if ((argc != 4 && argc != 6) || (d = slot(argv[1])) < 0 || (g = slot(argv[2])) < 0 || D[d] || !G[g] || !(t = tables_arg(argv[3]))) return bad();
   G[g]->s4.current = G[g]->s4.data; G[g]->s4.bitno = 0;
   D[d] = (argc == 6) ? bufr_decode_message_subsets(G[g], t, atoi(argv[4]), atoi(argv[5])) : bufr_decode_message(G[g], t);
   stD[d] = ++stamp_ctr;
   if (!D[d]) { fputs("null", bvp_out); print_tcache(t); return 0; }
   n = bufr_count_datasubset(D[d]);
   fprintf(bvp_out, "ok %d %d ", (D[d]->data_flag & BUFR_FLAG_INVALID) ? 1 : 0, n);
   print_dts_head(D[d]);
   for (i = 0; i < n; i++) { fputc(' ', bvp_out); print_subset_shape(bufr_get_datasubset(D[d], i)); }
   print_tcache(t);
   return 0;
   }

/* own.dseq <d> <t|@set> <edition> <d1> ...: bufr_create_dataset_from_sequence on a free-form sequence of
 * descriptors with values */
static int own_dseq(int argc, char **argv)
   {
   int d, i, n; BUFR_Tables *t; BUFR_Sequence *seq;
   if (argc < 5 || (d = slot(argv[1])) < 0 || D[d] || !(t = tables_arg(argv[2]))) return bad();
   seq = bufr_create_sequence(NULL);
   for (i = 4; i < argc; i++)
      {
      BufrDescriptor *b = bufr_create_descriptor(t, atoi(argv[i]));
      if (!b) continue;
      if (b->encoding.type == TYPE_CCITT_IA5) bufr_descriptor_set_svalue(b, "AB");
      else if (b->encoding.type == TYPE_NUMERIC || b->encoding.type == TYPE_CODETABLE || b->encoding.type == TYPE_FLAGTABLE)
         bufr_descriptor_set_ivalue(b, 1);
      bufr_add_descriptor_to_sequence(seq, b);
      }
   D[d] = bufr_create_dataset_from_sequence(seq, t, atoi(argv[3])); stD[d] = ++stamp_ctr;
   bufr_free_sequence(seq);
   if (!D[d]) { fputs("null", bvp_out); print_tcache(t); return 0; }
   n = bufr_count_datasubset(D[d]);
   fprintf(bvp_out, "ok %d %d ", (D[d]->data_flag & BUFR_FLAG_INVALID) ? 1 : 0, n);
   print_dts_head(D[d]);
   for (i = 0; i < n; i++) { fputc(' ', bvp_out); print_subset_shape(bufr_get_datasubset(D[d], i)); }
   print_tcache(t);
   return 0;
   }

/* own.store <b> <d>: bufr_store_tables: the message that carries the local tables of the dataset's template */
static int own_store(int argc, char **argv)
   {
   int b, d, rc; char *mem = NULL; size_t mlen = 0; FILE *fp;
   if (argc != 3 || (b = slot(argv[1])) < 0 || (d = slot(argv[2])) < 0 || !D[d]) return bad();
   fp = open_memstream(&mem, &mlen);
   rc = bufr_store_tables(fp, D[d]);
   fclose(fp);
   free(B[b].p);
   B[b].p = (unsigned char *)mem; B[b].n = mlen;
   fprintf(bvp_out, "%d %lu", rc, (unsigned long)mlen);
   return 0;
   }

/* own.extract <t> <d>: bufr_extract_tables */
static int own_extract(int argc, char **argv)
   {
   int t, d;
   if (argc != 3 || (t = slot(argv[1])) < 0 || (d = slot(argv[2])) < 0 || T[t] || !D[d]) return bad();
   T[t] = bufr_extract_tables(D[d]); stT[t] = ++stamp_ctr;
   if (!T[t]) { fputs("null", bvp_out); return 0; }
   fputs("ok ", bvp_out);
   print_tables_state(T[t]);
   return 0;
   }

/* own.dumpload <d> <d2>: dump d to a temporary file and read it back into the (fresh) dataset d2 */
static int own_dumpload(int argc, char **argv)
   {
   int d, d2, rc, i, n; FILE *fp;
   if (argc != 3 || (d = slot(argv[1])) < 0 || (d2 = slot(argv[2])) < 0 || !D[d] || !D[d2]) return bad();
   fp = tmpfile();
   if (!fp) { fputs("io-error", bvp_out); return 0; }
   bufr_fdump_dataset(D[d], fp);
   rewind(fp);
   rc = bufr_read_dataset_dump(D[d2], fp);
   fclose(fp);
   n = bufr_count_datasubset(D[d2]);
   fprintf(bvp_out, "%d %d", rc, n);
   for (i = 0; i < n; i++) { fputc(' ', bvp_out); print_subset_shape(bufr_get_datasubset(D[d2], i)); }
   print_tbe(D[d2]);
   return 0;
   }

/* every root the application holds is released, the newest first (an object only points into older ones) */
static void free_slots(void)
   {
   int i;
   for (;;)
      {
      unsigned long best = 0; int bk = -1, bi = -1;
      for (i = 0; i < NS; i++)
         {
         if (T[i] && stT[i] > best) { best = stT[i]; bk = 0; bi = i; }
         if (M[i] && stM[i] > best) { best = stM[i]; bk = 1; bi = i; }
         if (D[i] && stD[i] > best) { best = stD[i]; bk = 2; bi = i; }
         if (G[i] && stG[i] > best) { best = stG[i]; bk = 3; bi = i; }
         if (L[i] && stL[i] > best) { best = stL[i]; bk = 4; bi = i; }
         }
      if (bk < 0) break;
      switch (bk)
         {
         case 0: if (cur_tables == T[bi]) cur_tables = NULL; bufr_free_tables(T[bi]); T[bi] = NULL; break;
         case 1: bufr_free_template(M[bi]); M[bi] = NULL; break;
         case 2: bufr_free_dataset(D[bi]); D[bi] = NULL; break;
         case 3: bufr_free_message(G[bi]); G[bi] = NULL; break;
         default: bufr_free_tables_list(L[bi]); L[bi] = NULL; break;
         }
      }
   for (i = 0; i < NS; i++) { free(B[i].p); B[i].p = NULL; B[i].n = 0; }
   }

static int own_freeall(int argc, char **argv)
   {
   (void)argv;
   if (argc != 1) return bad();
   free_slots();
   fputs("ok", bvp_out);
   return 0;
   }

/* first thing `reset` does */
void own_reset(void)
   {
   int i;
   if (!bvp_poisoned) { free_slots(); return; }
   own_poison_seen = 1; own_rebase_pending = 1;
   for (i = 0; i < NS; i++)
      {
      T[i] = NULL; M[i] = NULL; D[i] = NULL; G[i] = NULL; L[i] = NULL;
      free(B[i].p); B[i].p = NULL; B[i].n = 0;
      }
   }

/* exit status of the process: a leak seen by a `reset` fails it; after a poisoned reset LeakSanitizer's check
 * at exit is skipped */
int own_exit_code(void)
   {
   int rc = own_leak_seen ? 97 : 0;
   if (own_poison_seen) { fflush(NULL); _exit(rc); }
   return rc;
   }

/* own.reset: what `reset` does (every op file releases what it holds), then the counters relative to the baseline */
static int own_resetall(int argc, char **argv)
   {
   long v[NK]; int i, seen = own_leak_seen; long keep[NK];
   (void)argv;
   if (argc != 1) return bad();
   memcpy(keep, base, sizeof(keep));
   bvp_reset_all();
   memcpy(base, keep, sizeof(keep));   /* the check inside reset re-bases after a leak: this op reports instead */
   own_leak_seen = seen;
   if (!get_live(v)) { fputs("nohook", bvp_out); return 0; }
   for (i = 0; i < NK; i++) v[i] -= base[i];
   print_vec(v);
   for (i = 0; i < NK; i++) base[i] += v[i];   /* one leak is reported once */
   return 0;
   }

/* called by `reset` after every op file has released what it holds: the counters must be back at the baseline */
void own_reset_check(void)
   {
   long v[NK]; int i, badk = 0;
   if (!have_base || !get_live(v)) return;
   if (own_rebase_pending)
      {
      for (i = 0; i < NK; i++) base[i] = v[i];
      base_fds = count_fds();
      own_rebase_pending = 0;
      return;
      }
   for (i = 0; i < NK; i++) if (v[i] != base[i]) badk = 1;
   if (!badk) return;
   own_leak_seen = 1;
   fputs("VERIF-LEAK after reset:", stderr);
   for (i = 0; i < NK; i++) if (v[i] != base[i]) fprintf(stderr, " %s=%ld", KIND_NAMES[i], v[i] - base[i]);
   fputc('\n', stderr);
   /* re-base so that one leak is reported once */
   for (i = 0; i < NK; i++) base[i] = v[i];
   }

/* own.lsan: LeakSanitizer's view now: 0 = every live block is still reachable */
int __lsan_do_recoverable_leak_check(void) __attribute__((weak));
static int own_lsan(int argc, char **argv)
   {
   (void)argv;
   if (argc != 1) return bad();
   if (!__lsan_do_recoverable_leak_check || own_poison_seen) { fputs("0", bvp_out); return 0; }
   if (__lsan_do_recoverable_leak_check())
      {
      /* LeakSanitizer would report these blocks again at every later check: the process ends here, without an
       * answer, so that the leak is attributed to the scenario that made it (its report is on stderr) */
      fflush(bvp_out);
      fputs("VERIF-LSAN: heap blocks no pointer reaches any more (leak)\n", stderr);
      _exit(96);
      }
   fputs("0", bvp_out);
   return 0;
   }

struct op_entry ops_own[] = {
   { "own.base", own_base }, { "own.counts", own_counts }, { "own.audit", own_audit }, { "own.refs", own_refs },
   { "own.tnew", own_tnew }, { "own.tload", own_tload }, { "own.tmerge", own_tmerge }, { "own.tstate", own_tstate }, { "own.tfree", own_tfree },
   { "own.lnew", own_lnew }, { "own.llocal", own_llocal }, { "own.lfree", own_lfree },
   { "own.mnew", own_mnew }, { "own.madd", own_madd }, { "own.mload", own_mload }, { "own.mcopy", own_mcopy }, { "own.mfree", own_mfree },
   { "own.dnew", own_dnew }, { "own.dsub", own_dsub }, { "own.dfactors", own_dfactors }, { "own.dexpand", own_dexpand },
   { "own.dfill", own_dfill }, { "own.dmerge", own_dmerge }, { "own.dfree", own_dfree }, { "own.dhdr", own_dhdr },
   { "own.enc", own_enc }, { "own.gwrite", own_gwrite }, { "own.gread", own_gread }, { "own.gfree", own_gfree },
   { "own.bset", own_bset }, { "own.bcut", own_bcut }, { "own.bflip", own_bflip }, { "own.bget", own_bget },
   { "own.dec", own_dec }, { "own.dseq", own_dseq }, { "own.store", own_store }, { "own.extract", own_extract }, { "own.dumpload", own_dumpload },
   { "own.freeall", own_freeall }, { "own.reset", own_resetall }, { "own.lsan", own_lsan },
   { NULL, NULL } };
