#include "bvp.h"
#include "bufr_template.h"
#include "bufr_dataset.h"
#include "bufr_desc.h"
#include "bufr_value.h"
#include "bufr_af.h"
#include <float.h>
/* values, Section 4 encoding and decoding (C01-C04, C07, C14) */

extern BUFR_Tables   *cur_tables;
extern BUFR_Template *cur_tmpl;
extern BUFR_Dataset  *cur_dts;
extern unsigned char *bvp_last_msg; extern int bvp_last_msg_len;
void bvp_fmt_nodes(BufrDescriptor **pb, int count);

static BUFR_Dataset *dec_dts = NULL;
static unsigned char *last_s4 = NULL; static int last_len = 0, last_flag = 0, last_nsub = 0;

void codec_reset(void)
   {
   if (dec_dts && !bvp_poisoned) bufr_free_dataset(dec_dts);
   dec_dts = NULL;
   }
BUFR_Dataset *bvp_dec_dts(void) { return dec_dts; }
void codec_reset_all(void) { codec_reset(); free(last_s4); last_s4 = NULL; last_len = 0; }

static void fmt_val(BufrDescriptor *b)
   {
   BufrValue *v = b->value;
   if (!v) { fputs("-", bvp_out); return; }
   switch (v->type)
      {
      case VALTYPE_INT8: case VALTYPE_INT32: fprintf(bvp_out, "i:%d", bufr_value_get_int32(v)); break;
      case VALTYPE_INT64: fprintf(bvp_out, "l:%lld", (long long)bufr_value_get_int64(v)); break;
      case VALTYPE_FLT32: { float f = bufr_value_get_float(v); uint32_t u; memcpy(&u, &f, 4); if (f != f) u = 0x7fc00000u; /* NaN payloads are not modelled */ fprintf(bvp_out, "f:%08x", u); } break;
      case VALTYPE_FLT64: { double d = bufr_value_get_double(v); uint64_t u; memcpy(&u, &d, 8); if (d != d) u = 0x7ff8000000000000ull; fprintf(bvp_out, "d:%016llx", (unsigned long long)u); } break;
      case VALTYPE_STRING: { int len = 0; const char *s = bufr_value_get_string(v, &len); fputs("s:", bvp_out); bvp_print_hex((const unsigned char *)s, s ? (size_t)len : 0); } break;
      default: fputs("-", bvp_out); return;
      }
   if (v->af) fprintf(bvp_out, "@%u:%llu", (unsigned)v->af->nbits, (unsigned long long)v->af->bits);
   }

static void fmt_vals(DataSubset *s)
   {
   int i, n = bufr_datasubset_count_descriptor(s);
   if (n == 0) { fputs("-", bvp_out); return; }
   for (i = 0; i < n; i++)
      {
      if (i) fputc(' ', bvp_out);
      fmt_val(bufr_datasubset_get_descriptor(s, i));
      }
   }

/* used by ops_dump.c (C13) */
void bvp_fmt_vals(DataSubset *s) { fmt_vals(s); }

static int ss_vals(int argc, char **argv)
   {
   DataSubset *s;
   if (argc != 2) { fputs("bad-op", bvp_out); return 0; }
   s = cur_dts ? bufr_get_datasubset(cur_dts, atoi(argv[1])) : NULL;
   if (!s) { fputs("none", bvp_out); return 0; }
   fmt_vals(s);
   return 0;
   }

static int set_raw_rc(BufrDescriptor *b, uint64_t raw)
   {
   uint64_t miss = bufr_missing_ivalue(b->encoding.nbits);
   int x = DESC_TO_X(b->descriptor), rc = 0;
   switch (b->encoding.type)
      {
      case TYPE_NUMERIC:
         if (b->value->type == VALTYPE_INT32 || b->value->type == VALTYPE_INT8)
            {
            int64_t v = (raw == miss && x != 31) ? -1 : (int64_t)raw + b->encoding.reference;
            rc = bufr_descriptor_set_ivalue(b, (int32_t)v);
            }
         else if (b->value->type == VALTYPE_INT64)
            {
            int64_t v = (raw == miss && x != 31) ? -1 : (int64_t)raw + b->encoding.reference;
            rc = bufr_value_set_int64(b->value, v);
            }
         else if (b->value->type == VALTYPE_FLT32)
            rc = bufr_descriptor_set_fvalue(b, raw == miss ? bufr_missing_float() : bufr_cvt_i32_to_fval(&b->encoding, (uint32_t)raw));
         else if (b->value->type == VALTYPE_FLT64)
            rc = bufr_descriptor_set_dvalue(b, raw == miss ? bufr_missing_double() : bufr_cvt_i64_to_dval(&b->encoding, raw));
         break;
      case TYPE_CODETABLE: case TYPE_FLAGTABLE:
         if (b->value->type == VALTYPE_INT64) rc = bufr_value_set_int64(b->value, raw == miss ? -1 : (int64_t)raw);
         else rc = bufr_descriptor_set_ivalue(b, raw == miss ? -1 : (int32_t)raw);
         break;
      case TYPE_CHNG_REF_VAL_OP:
         rc = bufr_descriptor_set_ivalue(b, (int32_t)bufr_cvt_ivalue(raw, b->encoding.nbits));
         break;
      default: rc = 0; break;
      }
   return rc;
   }
static void set_raw(BufrDescriptor *b, uint64_t raw) { (void)set_raw_rc(b, raw); }

/* give the node the value its raw pattern decodes to, through the setter matching the value type */
static int ss_setraw(int argc, char **argv)
   {
   DataSubset *s; BufrDescriptor *b; uint64_t raw, miss; int rc = 0, x;
   if (argc != 4 && argc != 5) { fputs("bad-op", bvp_out); return 0; }
   s = cur_dts ? bufr_get_datasubset(cur_dts, atoi(argv[1])) : NULL;
   b = s ? bufr_datasubset_get_descriptor(s, atoi(argv[2])) : NULL;
   if (!b) { fputs("none", bvp_out); return 0; }
   if ((b->flags & FLAG_SKIPPED) || !b->value) { fputs("0", bvp_out); return 0; }
   raw = strtoull(argv[3], NULL, 10);
   rc = set_raw_rc(b, raw);
   (void)miss; (void)x;
   if (argc == 5 && b->value && b->value->af)
      {
      uint64_t a = strtoull(argv[4], NULL, 10);
      if (b->value->af->nbits < 64) a &= (1ULL << b->value->af->nbits) - 1;
      b->value->af->bits = a;
      }
   fprintf(bvp_out, "%d", rc);
   return 0;
   }

static uint64_t mix(uint64_t seed, uint64_t idx)
   {
   uint64_t x = seed * 6364136223846793005ULL + idx * 1442695040888963407ULL + 1013904223ULL;
   uint64_t y = (x ^ (x >> 29)) * 2685821657736338717ULL;
   return y ^ (y >> 32);
   }

static uint64_t pick_raw(int mode, uint64_t seed, uint64_t idx, int nb)
   {
   uint64_t x, all, rnd, k;
   if (nb <= 0) return 0;
   x = mix(seed, idx);
   all = (nb >= 64) ? ~0ULL : ((1ULL << nb) - 1);
   rnd = (nb >= 64) ? (x >> 4) : ((x >> 4) & all);
   switch (mode)
      {
      case 2: return 0;
      case 3: return all - 1;
      case 4: return all;
      case 1: return all == 0 ? 0 : (x >> 4) % all;
      default:
         k = x % 16;
         if (k < 2) return 0;
         if (k < 4) return all - 1;
         if (k < 6) return all;
         return rnd;
      }
   }

static void set_raw(BufrDescriptor *b, uint64_t raw);
static int set_raw_rc(BufrDescriptor *b, uint64_t raw);

/* ss.fill <pos> <seed> <mode>: deterministic values for every value-bearing node */
static int ss_fill(int argc, char **argv)
   {
   DataSubset *s; int i, n, mode; uint64_t seed;
   if (argc != 4) { fputs("bad-op", bvp_out); return 0; }
   s = cur_dts ? bufr_get_datasubset(cur_dts, atoi(argv[1])) : NULL;
   if (!s) { fputs("none", bvp_out); return 0; }
   seed = strtoull(argv[2], NULL, 10); mode = atoi(argv[3]);
   n = bufr_datasubset_count_descriptor(s);
   for (i = 0; i < n; i++)
      {
      BufrDescriptor *b = bufr_datasubset_get_descriptor(s, i);
      if ((b->flags & FLAG_SKIPPED) || !b->value || (b->flags & FLAG_CLASS31) || DESC_TO_X(b->descriptor) == 31) continue;
      switch (b->encoding.type)
         {
         case TYPE_CCITT_IA5:
            {
            int len = b->encoding.nbits / 8, j, cnt;
            uint64_t x = mix(seed, i);
            char *buf = (char *)calloc(1, len + 4);
            if (mode == 4) cnt = 0;
            else if (mode == 0 && x % 8 == 0) cnt = 0;
            else { int m = len < 3 ? len : 3; cnt = len - (int)((x >> 3) % (uint64_t)(m + 1)); }
            for (j = 0; j < cnt; j++) buf[j] = (char)(32 + mix(seed, (uint64_t)i * 131 + j + 7) % 95);
            buf[cnt] = 0;
            bufr_descriptor_set_svalue(b, buf);
            free(buf);
            }
            break;
         case TYPE_NUMERIC: case TYPE_CODETABLE: case TYPE_FLAGTABLE: case TYPE_CHNG_REF_VAL_OP:
            if (b->encoding.nbits > 0 && b->encoding.nbits <= 64)
               {
               uint64_t raw = pick_raw(mode, seed, i, b->encoding.nbits);
               /* a 64-bit field with its top bit set does not fit the library's int64 storage (known limitation) */
               if (b->encoding.nbits == 64 && raw != ~0ULL) raw &= 0x3fffffffffffffffULL;
               /* a new reference value of -1 cannot be told from "missing" (known limitation): avoid it */
               if (b->encoding.type == TYPE_CHNG_REF_VAL_OP && bufr_cvt_ivalue(raw, b->encoding.nbits) == -1) raw = 0;
               set_raw(b, raw);
               }
            break;
         default: break;
         }
      if (b->value && b->value->af && b->value->af->nbits > 0 && b->value->af->nbits <= 64)
         {
         uint64_t a = mix(seed, (uint64_t)i + 100003);
         if (b->value->af->nbits < 64) a %= (1ULL << b->value->af->nbits);
         b->value->af->bits = a;
         }
      }
   fprintf(bvp_out, "%d", n);
   return 0;
   }

static int ss_setstr(int argc, char **argv)
   {
   DataSubset *s; BufrDescriptor *b; unsigned char *buf; int n;
   if (argc != 4 || (n = bvp_parse_hex(argv[3], &buf)) < 0) { fputs("bad-op", bvp_out); return 0; }
   s = cur_dts ? bufr_get_datasubset(cur_dts, atoi(argv[1])) : NULL;
   b = s ? bufr_datasubset_get_descriptor(s, atoi(argv[2])) : NULL;
   if (!b) { fputs("none", bvp_out); free(buf); return 0; }
   if (b->flags & FLAG_SKIPPED) { fputs("0", bvp_out); free(buf); return 0; }
   buf[n] = 0;
   fprintf(bvp_out, "%d", bufr_descriptor_set_svalue(b, (char *)buf));
   free(buf);
   return 0;
   }

/* ss.setd <subset> <index> <hex16> / ss.setf <subset> <index> <hex8>: set a double / float given by its bits */
static int ss_setfp(int argc, char **argv)
   {
   DataSubset *s; BufrDescriptor *b; unsigned long long bits;
   if (argc != 4) { fputs("bad-op", bvp_out); return 0; }
   s = cur_dts ? bufr_get_datasubset(cur_dts, atoi(argv[1])) : NULL;
   b = s ? bufr_datasubset_get_descriptor(s, atoi(argv[2])) : NULL;
   if (!b) { fputs("none", bvp_out); return 0; }
   bits = strtoull(argv[3], NULL, 16);
   if (strcmp(argv[0], "ss.setd") == 0)
      {
      double d; uint64_t u = bits; memcpy(&d, &u, 8);
      fprintf(bvp_out, "%d", bufr_descriptor_set_dvalue(b, d));
      }
   else
      {
      float f; uint32_t u = (uint32_t)bits; memcpy(&f, &u, 4);
      fprintf(bvp_out, "%d", bufr_descriptor_set_fvalue(b, f));
      }
   return 0;
   }

static int ds_encode(int argc, char **argv)
   {
   BUFR_Message *m;
   if (argc != 2 || !cur_dts) { fputs("none", bvp_out); return 0; }
   m = bufr_encode_message(cur_dts, atoi(argv[1]));
   if (!m) { fputs("null", bvp_out); return 0; }
   fprintf(bvp_out, "%d %d ", (int)m->s3.flag, m->s3.no_data_subsets);
   bvp_print_hex(m->s4.data, m->s4.filled + (m->s4.bitno ? 1 : 0));
   free(last_s4);
   last_len = m->s4.filled + (m->s4.bitno ? 1 : 0);
   last_s4 = (unsigned char *)malloc(last_len + 16);
   if (last_len) memcpy(last_s4, m->s4.data, last_len);
   last_flag = m->s3.flag; last_nsub = m->s3.no_data_subsets;
   bufr_free_message(m);
   return 0;
   }

static int decode_buf(int edition, int enforce, int flag, int nsub, int from, int to, int *descs, int nd, const unsigned char *buf, int n)
   {
   BUFR_Message *m; int i;
   codec_reset();
   m = bufr_create_message(edition);
   m->edition = edition;
   m->enforce = (BUFR_Enforcement)enforce;
   m->s3.flag = (unsigned char)flag;
   m->s3.no_data_subsets = nsub;
   for (i = 0; i < nd; i++) arr_add(m->s3.desc_list, (char *)&descs[i]);
   bufr_alloc_sect4(m, (unsigned)n);
   if (n) memcpy(m->s4.data, buf, n);
   m->s4.current = m->s4.data;
   m->s4.bitno = 0;
   dec_dts = bufr_decode_message_subsets(m, cur_tables, from, to);
   bufr_free_message(m);
   if (!dec_dts) { fputs("null", bvp_out); return 0; }
   fprintf(bvp_out, "ok %d %d", (dec_dts->data_flag & BUFR_FLAG_INVALID) ? 1 : 0, bufr_count_datasubset(dec_dts));
   return 0;
   }

/* ds.decodelast <enforce> <from> <to>: decode the message ds.encode produced, with the current template */
static int ds_decodelast(int argc, char **argv)
   {
   int nd, i, *descs, r;
   if (argc != 4 || !cur_tmpl || !last_s4) { fputs("none", bvp_out); return 0; }
   nd = arr_count(cur_tmpl->codets);
   descs = (int *)malloc(sizeof(int) * (nd + 1));
   for (i = 0; i < nd; i++) descs[i] = ((BufrDescValue *)arr_get(cur_tmpl->codets, i))->descriptor;
   r = decode_buf(cur_tmpl->edition, atoi(argv[1]), last_flag, last_nsub, atoi(argv[2]), atoi(argv[3]), descs, nd, last_s4, last_len);
   free(descs);
   return r;
   }

/* ds.decode <edition> <enforce> <s3flag> <nsub> <from> <to> <d1,d2,...> <s4hex> */
static int ds_decode(int argc, char **argv)
   {
   BUFR_Message *m; unsigned char *buf; int n; char *p, *tok; int d;
   if (argc != 9 || !cur_tables || (n = bvp_parse_hex(argv[8], &buf)) < 0) { fputs("bad-op", bvp_out); return 0; }
   codec_reset();
   m = bufr_create_message(atoi(argv[1]));
   m->edition = atoi(argv[1]);
   m->enforce = (BUFR_Enforcement)atoi(argv[2]);
   m->s3.flag = (unsigned char)atoi(argv[3]);
   m->s3.no_data_subsets = atoi(argv[4]);
   p = argv[7];
   while ((tok = strsep(&p, ",")) != NULL)
      if (*tok) { d = atoi(tok); arr_add(m->s3.desc_list, (char *)&d); }
   bufr_alloc_sect4(m, (unsigned)n);
   if (n) memcpy(m->s4.data, buf, n);
   m->s4.current = m->s4.data;
   m->s4.bitno = 0;
   free(buf);
   dec_dts = bufr_decode_message_subsets(m, cur_tables, atoi(argv[5]), atoi(argv[6]));
   bufr_free_message(m);
   if (!dec_dts) { fputs("null", bvp_out); return 0; }
   fprintf(bvp_out, "ok %d %d", (dec_dts->data_flag & BUFR_FLAG_INVALID) ? 1 : 0, bufr_count_datasubset(dec_dts));
   return 0;
   }

static int dd_list(int argc, char **argv)
   {
   DataSubset *s;
   if (argc != 2) { fputs("bad-op", bvp_out); return 0; }
   s = dec_dts ? bufr_get_datasubset(dec_dts, atoi(argv[1])) : NULL;
   if (!s || !s->data) { fputs("none", bvp_out); return 0; }
   bvp_fmt_nodes((BufrDescriptor **)arr_get(s->data, 0), bufr_datasubset_count_descriptor(s));
   return 0;
   }

static int dd_vals(int argc, char **argv)
   {
   DataSubset *s;
   if (argc != 2) { fputs("bad-op", bvp_out); return 0; }
   s = dec_dts ? bufr_get_datasubset(dec_dts, atoi(argv[1])) : NULL;
   if (!s || !s->data) { fputs("none", bvp_out); return 0; }
   fmt_vals(s);
   return 0;
   }

/* dd.tocur: the decoded dataset becomes the current dataset (and its template the current template) */
extern BUFR_Template *cur_tmpl;
static int dd_tocur(int argc, char **argv)
   {
   (void)argv;
   if (argc != 1 || !dec_dts) { fputs("none", bvp_out); return 0; }
   if (cur_dts) bufr_free_dataset(cur_dts);
   cur_dts = dec_dts; dec_dts = NULL;
   if (cur_tmpl) bufr_free_template(cur_tmpl);
   cur_tmpl = bufr_copy_template(cur_dts->tmplte);
   fprintf(bvp_out, "ok %d", bufr_count_datasubset(cur_dts));
   return 0;
   }

/* dd.merge <dest_pos> <src_pos> <nb>: bufr_merge_dataset(current, dest_pos, decoded, src_pos, nb) */
static int dd_merge(int argc, char **argv)
   {
   if (argc != 4 || !dec_dts || !cur_dts) { fputs("none", bvp_out); return 0; }
   fprintf(bvp_out, "%d", bufr_merge_dataset(cur_dts, atoi(argv[1]), dec_dts, atoi(argv[2]), atoi(argv[3])));
   fprintf(bvp_out, " %d", bufr_count_datasubset(cur_dts));
   return 0;
   }

/* ds.decodemsg <hex>: the whole pipeline on raw bytes: bufr_memread_message then bufr_decode_message */
static int ds_decodemsg(int argc, char **argv)
   {
   unsigned char *buf; int n; BUFR_Message *m = NULL; int rc;
   if (argc == 2 && strcmp(argv[1], "@") == 0)
      {
      /* the message the last ds.msg wrote */
      if (!cur_tables || bvp_last_msg_len < 0) { fputs("bad-op", bvp_out); return 0; }
      n = bvp_last_msg_len;
      buf = (unsigned char *)malloc((size_t)n + 1);
      if (n) memcpy(buf, bvp_last_msg, (size_t)n);
      }
   else
   if (argc != 2 || !cur_tables || (n = bvp_parse_hex(argv[1], &buf)) < 0) { fputs("bad-op", bvp_out); return 0; }
   codec_reset();
   rc = bufr_memread_message((char *)buf, n, &m);
   if (rc <= 0 || !m) { fprintf(bvp_out, "noread"); if (m) bufr_free_message(m); free(buf); return 0; }
   dec_dts = bufr_decode_message(m, cur_tables);
   fprintf(bvp_out, "read %d ", rc);
   bufr_free_message(m);
   free(buf);
   if (!dec_dts) { fputs("null", bvp_out); return 0; }
   fprintf(bvp_out, "ok %d %d", (dec_dts->data_flag & BUFR_FLAG_INVALID) ? 1 : 0, bufr_count_datasubset(dec_dts));
   return 0;
   }

struct op_entry ops_codec[] = {
   { "ss.vals", ss_vals }, { "ss.setraw", ss_setraw }, { "ss.setstr", ss_setstr },
   { "ss.fill", ss_fill }, { "ds.encode", ds_encode }, { "ds.decode", ds_decode }, { "ds.decodelast", ds_decodelast }, { "dd.list", dd_list }, { "dd.vals", dd_vals },
   { "ss.setd", ss_setfp }, { "ss.setf", ss_setfp }, { "dd.tocur", dd_tocur }, { "dd.merge", dd_merge }, { "ds.decodemsg", ds_decodemsg },
   { NULL, NULL } };
