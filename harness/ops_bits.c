#include "bvp.h"
/* C11: bufr_putbits / bufr_getbits / bufr_skip_bits / strings on a bare message */

static BUFR_Message *wm = NULL;   /* message being written */
static BUFR_Message *rm = NULL;   /* message being read */

void bits_reset(void)
   {
   if (wm) bufr_free_message(wm);
   if (rm) bufr_free_message(rm);
   wm = rm = NULL;
   }

static void fmt_w(void)
   {
   fprintf(bvp_out, "%u %u %u", wm->s4.filled, (unsigned)wm->s4.bitno, wm->s4.max_data_len);
   }
static void fmt_r(void)
   {
   fprintf(bvp_out, "%ld %u", (long)(rm->s4.current - rm->s4.data), (unsigned)rm->s4.bitno);
   }

static int w_new(int argc, char **argv)
   {
   if (argc != 2) { fputs("bad-op", bvp_out); return 0; }
   if (wm) bufr_free_message(wm);
   wm = bufr_create_message(4);
   bufr_alloc_sect4(wm, (unsigned)strtoul(argv[1], NULL, 10));
   bufr_begin_message(wm);
   fputs("ok", bvp_out);
   return 0;
   }
static int w_put(int argc, char **argv)
   {
   uint64_t v; int n;
   if (argc != 3 || !wm) { fputs("bad-op", bvp_out); return 0; }
   v = strtoull(argv[1], NULL, 10); n = atoi(argv[2]);
   bufr_putbits(wm, v, n);
   fmt_w();
   return 0;
   }
static int w_putstr(int argc, char **argv)
   {
   unsigned char *b; int n;
   if (argc != 2 || !wm || (n = bvp_parse_hex(argv[1], &b)) < 0) { fputs("bad-op", bvp_out); return 0; }
   bufr_putstring(wm, (char *)b, n);
   free(b);
   fmt_w();
   return 0;
   }
static int w_padstr(int argc, char **argv)
   {
   unsigned char *b; int n;
   if (argc != 3 || !wm || (n = bvp_parse_hex(argv[1], &b)) < 0) { fputs("bad-op", bvp_out); return 0; }
   bufr_put_padstring(wm, (char *)b, n, atoi(argv[2]));
   free(b);
   fmt_w();
   return 0;
   }
static size_t w_len(void) { return wm->s4.filled + (wm->s4.bitno ? 1 : 0); }
static int w_bytes(int argc, char **argv)
   {
   (void)argv;
   if (argc != 1 || !wm) { fputs("bad-op", bvp_out); return 0; }
   bvp_print_hex(wm->s4.data, w_len());
   return 0;
   }
static void r_load(const unsigned char *b, size_t n)
   {
   if (rm) bufr_free_message(rm);
   rm = bufr_create_message(4);
   bufr_alloc_sect4(rm, (unsigned)n);
   if (n) memcpy(rm->s4.data, b, n);
   rm->s4.current = rm->s4.data;
   rm->s4.bitno = 0;
   }
static int w_toreader(int argc, char **argv)
   {
   (void)argv;
   if (argc != 1 || !wm) { fputs("bad-op", bvp_out); return 0; }
   r_load(wm->s4.data, w_len());
   fprintf(bvp_out, "%zu", w_len());
   return 0;
   }
static int r_new(int argc, char **argv)
   {
   unsigned char *b; int n;
   if (argc != 2 || (n = bvp_parse_hex(argv[1], &b)) < 0) { fputs("bad-op", bvp_out); return 0; }
   r_load(b, n);
   free(b);
   fputs("ok", bvp_out);
   return 0;
   }
static int r_get(int argc, char **argv)
   {
   int err = 0; uint64_t v;
   if (argc != 2 || !rm) { fputs("bad-op", bvp_out); return 0; }
   v = bufr_getbits(rm, atoi(argv[1]), &err);
   fprintf(bvp_out, "%llu %d ", (unsigned long long)v, err);
   fmt_r();
   return 0;
   }
static int r_skip(int argc, char **argv)
   {
   int err = 0;
   if (argc != 2 || !rm) { fputs("bad-op", bvp_out); return 0; }
   bufr_skip_bits(rm, atoi(argv[1]), &err);
   fprintf(bvp_out, "%d ", err);
   fmt_r();
   return 0;
   }
static int r_getstr(int argc, char **argv)
   {
   int n, err, i, nread;
   char *buf;
   if (argc != 2 || !rm) { fputs("bad-op", bvp_out); return 0; }
   n = atoi(argv[1]);
   if (n <= 0) { fputs("bad-op", bvp_out); return 0; }
   buf = (char *)calloc(1, n + 1);
   memset(buf, 0xAA, n);
   err = bufr_getstring(rm, buf, n);
   /* bytes actually stored: up to and including the one whose read failed */
   nread = n;
   if (err < 0) { for (i = 0; i < n; i++) if ((unsigned char)buf[i] == 0xAA) { nread = i; break; } }
   (void)nread;
   if (err < 0) fputs("-", bvp_out); else bvp_print_hex((unsigned char *)buf, n);
   fprintf(bvp_out, " %s ", err < 0 ? "err" : "ok");
   fmt_r();
   free(buf);
   return 0;
   }

struct op_entry ops_bits[] = {
   { "w.new", w_new }, { "w.put", w_put }, { "w.putstr", w_putstr }, { "w.padstr", w_padstr },
   { "w.bytes", w_bytes }, { "w.toreader", w_toreader },
   { "r.new", r_new }, { "r.get", r_get }, { "r.skip", r_skip }, { "r.getstr", r_getstr },
   { NULL, NULL } };
