#include "bvp.h"
#include <math.h>
#include "bufr_tables.h"
#include "bufr_value.h"
#include "bufr_desc.h"
/* C08: bufr_cvt_* / bufr_missing_ivalue / bufr_is_missing_* / bufr_descriptor_get_range /
 * bufr_descriptor_set_dvalue on a bare BufrValueEncoding.  Doubles and floats cross the protocol
 * as IEEE bit patterns (16 / 8 lower-case hex digits). */

void scale_reset(void) { }

static uint64_t d2bits(double d) { uint64_t u; memcpy(&u, &d, 8); return u; }
static double bits2d(uint64_t u) { double d; memcpy(&d, &u, 8); return d; }
static uint32_t f2bits(float f) { uint32_t u; memcpy(&u, &f, 4); return u; }
static float bits2f(uint32_t u) { float f; memcpy(&f, &u, 4); return f; }

/* canonical NaN: any NaN prints as the default quiet NaN */
static void put_d(double d)
   {
   if (d != d) fputs("7ff8000000000000", bvp_out);
   else fprintf(bvp_out, "%016llx", (unsigned long long)d2bits(d));
   }
static void put_f(float f)
   {
   if (f != f) fputs("7fc00000", bvp_out);
   else fprintf(bvp_out, "%08x", (unsigned)f2bits(f));
   }

static int bad(void) { fputs("bad-op", bvp_out); return 0; }

static void mkenc(BufrValueEncoding *be, char **argv)
   {
   memset(be, 0, sizeof *be);
   be->type = TYPE_NUMERIC;
   be->scale = atoi(argv[0]);
   be->reference = atoi(argv[1]);
   be->nbits = atoi(argv[2]);
   }

/* scale.powcheck : the 41 bit patterns of pow(10.0, s), s = -20..20 (libm contract) */
static int s_powcheck(int argc, char **argv)
   {
   int s;
   (void)argv;
   if (argc != 1) return bad();
   for (s = -20; s <= 20; s++)
      {
      volatile double e = (double)s;
      if (s > -20) fputc(' ', bvp_out);
      put_d(pow(10.0, e));
      }
   return 0;
   }

/* cvt.i2d scale ref nbits raw */
static int c_i2d(int argc, char **argv)
   {
   BufrValueEncoding be;
   if (argc != 5) return bad();
   mkenc(&be, argv + 1);
   put_d(bufr_cvt_i64_to_dval(&be, (int64_t)strtoll(argv[4], NULL, 10)));
   return 0;
   }
/* cvt.d2i desc scale ref nbits hex16 */
static int c_d2i(int argc, char **argv)
   {
   BufrValueEncoding be;
   if (argc != 6 || strlen(argv[5]) != 16) return bad();
   mkenc(&be, argv + 2);
   fprintf(bvp_out, "%llu", (unsigned long long)
           bufr_cvt_dval_to_i64(atoi(argv[1]), &be, bits2d(strtoull(argv[5], NULL, 16))));
   return 0;
   }
/* cvt.i2f scale ref nbits raw */
static int c_i2f(int argc, char **argv)
   {
   BufrValueEncoding be;
   if (argc != 5) return bad();
   mkenc(&be, argv + 1);
   put_f(bufr_cvt_i32_to_fval(&be, (uint32_t)strtoul(argv[4], NULL, 10)));
   return 0;
   }
/* cvt.f2i desc scale ref nbits hex8 */
static int c_f2i(int argc, char **argv)
   {
   BufrValueEncoding be;
   if (argc != 6 || strlen(argv[5]) != 8) return bad();
   mkenc(&be, argv + 2);
   fprintf(bvp_out, "%u", (unsigned)
           bufr_cvt_fval_to_i32(atoi(argv[1]), &be, bits2f((uint32_t)strtoul(argv[5], NULL, 16))));
   return 0;
   }
/* cvt.rtd desc scale ref nbits raw -> hex16 of the decoded double, then that double encoded back */
static int c_rtd(int argc, char **argv)
   {
   BufrValueEncoding be;
   double x;
   if (argc != 6) return bad();
   mkenc(&be, argv + 2);
   x = bufr_cvt_i64_to_dval(&be, (int64_t)strtoll(argv[5], NULL, 10));
   put_d(x);
   fprintf(bvp_out, " %llu", (unsigned long long)bufr_cvt_dval_to_i64(atoi(argv[1]), &be, x));
   return 0;
   }
/* cvt.rtf : same through the single-precision pair */
static int c_rtf(int argc, char **argv)
   {
   BufrValueEncoding be;
   float x;
   if (argc != 6) return bad();
   mkenc(&be, argv + 2);
   x = bufr_cvt_i32_to_fval(&be, (uint32_t)strtoul(argv[5], NULL, 10));
   put_f(x);
   fprintf(bvp_out, " %u", (unsigned)bufr_cvt_fval_to_i32(atoi(argv[1]), &be, x));
   return 0;
   }
/* cvt.i32 desc scale ref nbits int : the INT32-with-reference path of bufr_put_desc_value /
 * bufr_value2bits (bufr_dataset.c): bufr_cvt_dval_to_i64(desc, be, (double)i32val) */
static int c_i32(int argc, char **argv)
   {
   BufrValueEncoding be;
   int32_t v;
   if (argc != 6) return bad();
   mkenc(&be, argv + 2);
   v = (int32_t)strtol(argv[5], NULL, 10);
   fprintf(bvp_out, "%llu", (unsigned long long)bufr_cvt_dval_to_i64(atoi(argv[1]), &be, (double)v));
   return 0;
   }
/* cvt.missing nbits */
static int c_missing(int argc, char **argv)
   {
   if (argc != 2) return bad();
   fprintf(bvp_out, "%llu", (unsigned long long)bufr_missing_ivalue(atoi(argv[1])));
   return 0;
   }
/* cvt.ismissd hex16 / cvt.ismissf hex8 */
static int c_ismissd(int argc, char **argv)
   {
   if (argc != 2 || strlen(argv[1]) != 16) return bad();
   fprintf(bvp_out, "%d", bufr_is_missing_double(bits2d(strtoull(argv[1], NULL, 16))) ? 1 : 0);
   return 0;
   }
static int c_ismissf(int argc, char **argv)
   {
   if (argc != 2 || strlen(argv[1]) != 8) return bad();
   fprintf(bvp_out, "%d", bufr_is_missing_float(bits2f((uint32_t)strtoul(argv[1], NULL, 16))) ? 1 : 0);
   return 0;
   }
/* cvt.missd / cvt.missf : the library's missing double / float */
static int c_missd(int argc, char **argv)
   {
   (void)argv;
   if (argc != 1) return bad();
   put_d(bufr_missing_double());
   return 0;
   }
static int c_missf(int argc, char **argv)
   {
   (void)argv;
   if (argc != 1) return bad();
   put_f(bufr_missing_float());
   return 0;
   }

static BufrDescriptor *mkdesc(char **argv)
   {
   BufrDescriptor *cb = bufr_create_descriptor(NULL, atoi(argv[0]));
   mkenc(&cb->encoding, argv + 1);
   return cb;
   }
/* cvt.range desc scale ref nbits -> rc min max */
static int c_range(int argc, char **argv)
   {
   BufrDescriptor *cb;
   double mn = 0, mx = 0;
   int rc;
   if (argc != 5) return bad();
   cb = mkdesc(argv + 1);
   rc = bufr_descriptor_get_range(cb, &mn, &mx);
   fprintf(bvp_out, "%d ", rc);
   put_d(mn); fputc(' ', bvp_out); put_d(mx);
   bufr_free_descriptor(cb);
   return 0;
   }
/* cvt.setd desc scale ref nbits hex16 -> kept | missing  (what bufr_descriptor_set_dvalue stored) */
static int c_setd(int argc, char **argv)
   {
   BufrDescriptor *cb;
   int rc, miss;
   if (argc != 6 || strlen(argv[5]) != 16) return bad();
   cb = mkdesc(argv + 1);
   rc = bufr_descriptor_set_dvalue(cb, bits2d(strtoull(argv[5], NULL, 16)));
   miss = cb->value ? bufr_value_is_missing(cb->value) : -1;
   fprintf(bvp_out, "%s %d", rc > 0 ? "ok" : "err", miss);
   bufr_free_descriptor(cb);
   return 0;
   }

/* cvt.sweepd desc scale ref nbits lo hi step : for raw = lo, lo+step, .. < hi (raw below the
 * all-ones pattern): decode, test not missing, strictly above the previous one, encode back.
 * prints: checked bad first_bad(-1 if none) */
static int c_sweepd(int argc, char **argv)
   {
   BufrValueEncoding be;
   int code;
   uint64_t lo, hi, step, i, checked = 0, nbad = 0, miss;
   long long first = -1;
   double prev = 0; int have = 0;
   if (argc != 8) return bad();
   code = atoi(argv[1]);
   mkenc(&be, argv + 2);
   lo = strtoull(argv[5], NULL, 10); hi = strtoull(argv[6], NULL, 10); step = strtoull(argv[7], NULL, 10);
   if (step == 0) return bad();
   miss = bufr_missing_ivalue(be.nbits);
   for (i = lo; i < hi && i < miss; i += step)
      {
      double x = bufr_cvt_i64_to_dval(&be, (int64_t)i);
      int ok = !bufr_is_missing_double(x);
      if (ok && have && !(x > prev)) ok = 0;
      if (ok && bufr_cvt_dval_to_i64(code, &be, x) != i) ok = 0;
      if (!ok) { nbad++; if (first < 0) first = (long long)i; }
      prev = x; have = 1; checked++;
      }
   fprintf(bvp_out, "%llu %llu %lld", (unsigned long long)checked, (unsigned long long)nbad, first);
   return 0;
   }
/* cvt.sweepf : same through the single-precision pair */
static int c_sweepf(int argc, char **argv)
   {
   BufrValueEncoding be;
   int code;
   uint64_t lo, hi, step, i, checked = 0, nbad = 0, miss;
   long long first = -1;
   float prev = 0; int have = 0;
   if (argc != 8) return bad();
   code = atoi(argv[1]);
   mkenc(&be, argv + 2);
   lo = strtoull(argv[5], NULL, 10); hi = strtoull(argv[6], NULL, 10); step = strtoull(argv[7], NULL, 10);
   if (step == 0) return bad();
   miss = bufr_missing_ivalue(be.nbits);
   for (i = lo; i < hi && i < miss; i += step)
      {
      float x = bufr_cvt_i32_to_fval(&be, (uint32_t)i);
      int ok = !bufr_is_missing_float(x);
      if (ok && have && !(x > prev)) ok = 0;
      if (ok && bufr_cvt_fval_to_i32(code, &be, x) != i) ok = 0;
      if (!ok) { nbad++; if (first < 0) first = (long long)i; }
      prev = x; have = 1; checked++;
      }
   fprintf(bvp_out, "%llu %llu %lld", (unsigned long long)checked, (unsigned long long)nbad, first);
   return 0;
   }

struct op_entry ops_scale[] = {
   { "scale.powcheck", s_powcheck },
   { "cvt.i2d", c_i2d }, { "cvt.d2i", c_d2i }, { "cvt.i2f", c_i2f }, { "cvt.f2i", c_f2i },
   { "cvt.rtd", c_rtd }, { "cvt.rtf", c_rtf }, { "cvt.i32", c_i32 }, { "cvt.missing", c_missing },
   { "cvt.ismissd", c_ismissd }, { "cvt.ismissf", c_ismissf }, { "cvt.missd", c_missd }, { "cvt.missf", c_missf },
   { "cvt.range", c_range }, { "cvt.setd", c_setd },
   { "cvt.sweepd", c_sweepd }, { "cvt.sweepf", c_sweepf },
   { NULL, NULL } };
