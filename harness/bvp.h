/* bvp_c — line-protocol harness calling the real libecbufr in-process */
#ifndef BVP_H
#define BVP_H
#include <stdio.h>
#include <stdlib.h>
#include <string.h>
#include <stdint.h>
#include <setjmp.h>
#include "bufr_api.h"
#include "bufr_io.h"
#include "bufr_util.h"
#include "bufr_message.h"

#define MAXTOK 4096

typedef int (*op_fn)(int argc, char **argv);
struct op_entry { const char *name; op_fn fn; };

extern FILE *bvp_out;
extern jmp_buf bvp_jmp;
extern int bvp_jmp_armed;

/* helpers */
int  bvp_parse_hex(const char *s, unsigned char **out);  /* returns length or -1; "-" is empty */
void bvp_print_hex(const unsigned char *p, size_t n);      /* prints "-" when n==0 */

/* op tables, one per file */
extern struct op_entry ops_bits[];
void bits_reset(void);
extern struct op_entry ops_template[];
void template_reset(void);
extern struct op_entry ops_ieee[];
void ieee_reset(void);
extern struct op_entry ops_codec[];
void codec_reset(void);
void codec_reset_all(void);
extern struct op_entry ops_tables[];
void tables_reset(void);
extern struct op_entry ops_frame[];
void frame_reset(void);
extern struct op_entry ops_scale[];
void scale_reset(void);
extern struct op_entry ops_find[];
void find_reset(void);
extern struct op_entry ops_local[];
void local_reset(void);
extern struct op_entry ops_dump[];
void dump_reset(void);
extern struct op_entry ops_tmpltext[];
void tmpltext_reset(void);
extern struct op_entry ops_switch[];
void switch_reset(void);
extern int bvp_poisoned;
extern struct op_entry ops_own[];
void own_reset(void);
void own_reset_check(void);
void bvp_reset_all(void);
extern int own_leak_seen;
int own_exit_code(void);
#endif
