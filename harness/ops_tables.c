#include "bvp.h"
#include "bufr_tables.h"
#include "bufr_array.h"
#include "bufr_linklist.h"
/* C12: Table B / Table D loading, merging and lookup on real BUFR_Tables objects.
 *
 * tbl.file name hex        register an in-line file; a path argument `@name` designates it
 * tbl.new [k]              fresh object in slot k (default 0), selected
 * tbl.sel k                select slot k
 * tbl.load_m_b|load_l_b|load_m_d|load_l_d|load_csv_b|load_csv_d <path>   -> rc
 * tbl.merge k              bufr_merge_tables(current, slot k); slot k is then `consumed`
 * tbl.fetchB d [tag]       -> desc scale ref nbits type unit-hex descr-hex | none
 * tbl.fetchD d             -> desc m1 m2 ... | none
 * tbl.match d1 d2 ...      -> desc | none
 * tbl.dumpB m|l / tbl.dumpD m|l   -> null | <count> e;e;...   (sorted by descriptor, array order for equal ones)
 * tbl.version              -> master local
 * tbl.checkloop m|l        -> rc of bufr_check_loop_tableD (static: reached by loading /dev/null)
 * tbl.ingestB m|l desc scale ref nbits type unit-hex descr-hex   append + sort, no lookup
 * tbl.ingestD m|l desc m1 m2 ...
 * tbl.list_add <pathB> <pathD> | tbl.list_addv v | tbl.use v     bufr_use_tables_list
 */

#define NOBJ 8
static BUFR_Tables *objs[NOBJ];
static int consumed[NOBJ];
static int cur = 0;
static BUFR_Tables **grave = NULL;
static int ngrave = 0;
static LinkedList *vlist = NULL;

/* in-line files: written under the current directory, removed at reset */
#include <unistd.h>
struct ifile { char *name; char *path; };
static struct ifile *ifiles = NULL;
static int nifiles = 0;
static const char *resolve(const char *p)
   {
   int i;
   if (p[0] != '@') return p;
   for (i = nifiles - 1; i >= 0; i--) if (strcmp(ifiles[i].name, p + 1) == 0) return ifiles[i].path;
   return "/nonexistent/bvp-no-such-file";
   }
static int t_file(int argc, char **argv)
   {
   unsigned char *b = NULL;
   int n;
   char path[256];
   FILE *f;
   if (argc != 3 || (n = bvp_parse_hex(argv[2], &b)) < 0) { fputs("bad-op", bvp_out); return 0; }
   snprintf(path, sizeof path, "bvp-tbl-%d-%d", (int)getpid(), nifiles);
   f = fopen(path, "wb");
   if (!f) { free(b); fputs("bad-op", bvp_out); return 0; }
   fwrite(b, 1, n, f);
   fclose(f);
   free(b);
   ifiles = (struct ifile *)realloc(ifiles, (nifiles + 1) * sizeof(*ifiles));
   ifiles[nifiles].name = strdup(argv[1]);
   ifiles[nifiles].path = strdup(path);
   nifiles++;
   fputs("ok", bvp_out);
   return 0;
   }
static void files_reset(void)
   {
   int i;
   for (i = 0; i < nifiles; i++) { unlink(ifiles[i].path); free(ifiles[i].name); free(ifiles[i].path); }
   free(ifiles); ifiles = NULL; nifiles = 0;
   }

static void bury(BUFR_Tables *t)
   {
   if (!t) return;
   grave = (BUFR_Tables **)realloc(grave, (ngrave + 1) * sizeof(*grave));
   grave[ngrave++] = t;
   }

/* free every object once; arrays shared by reference after bufr_merge_tables (or claimed by two
 * owners after a later load) are released by their first owner only */
static void **seen = NULL; static int nseen = 0;
static int was_seen(void *p)
   {
   int i;
   if (!p) return 0;
   for (i = 0; i < nseen; i++) if (seen[i] == p) return 1;
   seen = (void **)realloc(seen, (nseen + 1) * sizeof(void *));
   seen[nseen++] = p;
   return 0;
   }
static void release(BUFR_Tables *t)
   {
   if (!t) return;
   if (t->master.tableBtype == TYPE_ALLOCATED && was_seen(t->master.tableB)) t->master.tableB = NULL;
   if (t->master.tableDtype == TYPE_ALLOCATED && was_seen(t->master.tableD)) t->master.tableD = NULL;
   if (t->local.tableBtype == TYPE_ALLOCATED && was_seen(t->local.tableB)) t->local.tableB = NULL;
   if (t->local.tableDtype == TYPE_ALLOCATED && was_seen(t->local.tableD)) t->local.tableD = NULL;
   bufr_free_tables(t);
   }

void tables_reset(void)
   {
   int i;
   nseen = 0;
   files_reset();
   if (vlist)
      {
      ListNode *n = lst_firstnode(vlist);
      while (n) { release((BUFR_Tables *)n->data); n = n->next; }
      lst_dellist(vlist);
      vlist = NULL;
      }
   for (i = 0; i < NOBJ; i++) { release(objs[i]); objs[i] = NULL; consumed[i] = 0; }
   for (i = 0; i < ngrave; i++) release(grave[i]);
   free(grave); grave = NULL; ngrave = 0;
   free(seen); seen = NULL; nseen = 0;
   cur = 0;
   }

static BUFR_Tables *T(void)
   {
   if (!objs[cur]) objs[cur] = bufr_create_tables();
   return objs[cur];
   }
#define BAD() do { fputs("bad-op", bvp_out); return 0; } while (0)
#define CHECK_LIVE() do { if (consumed[cur]) { fputs("consumed", bvp_out); return 0; } } while (0)

static int t_new(int argc, char **argv)
   {
   int k = argc > 1 ? atoi(argv[1]) : 0;
   if (k < 0 || k >= NOBJ) BAD();
   bury(objs[k]);
   objs[k] = bufr_create_tables();
   consumed[k] = 0;
   cur = k;
   fputs("ok", bvp_out);
   return 0;
   }
static int t_sel(int argc, char **argv)
   {
   int k;
   if (argc != 2) BAD();
   k = atoi(argv[1]);
   if (k < 0 || k >= NOBJ) BAD();
   cur = k;
   fputs("ok", bvp_out);
   return 0;
   }
static int t_load(int argc, char **argv)
   {
   int rc;
   const char *op = argv[0] + 4;
   if (argc != 2) BAD();
   CHECK_LIVE();
   if (strcmp(op, "load_m_b") == 0) rc = bufr_load_m_tableB(T(), resolve(argv[1]));
   else if (strcmp(op, "load_l_b") == 0) rc = bufr_load_l_tableB(T(), resolve(argv[1]));
   else if (strcmp(op, "load_m_d") == 0) rc = bufr_load_m_tableD(T(), resolve(argv[1]));
   else if (strcmp(op, "load_l_d") == 0) rc = bufr_load_l_tableD(T(), resolve(argv[1]));
   else if (strcmp(op, "load_csv_b") == 0) rc = bufr_load_csv_tableB(T(), resolve(argv[1]));
   else if (strcmp(op, "load_csv_d") == 0) rc = bufr_load_csv_tableD(T(), resolve(argv[1]));
   else BAD();
   fprintf(bvp_out, "%d", rc);
   return 0;
   }
static int t_merge(int argc, char **argv)
   {
   int k;
   if (argc != 2) BAD();
   k = atoi(argv[1]);
   if (k < 0 || k >= NOBJ || k == cur) BAD();
   CHECK_LIVE();
   if (consumed[k]) { fputs("consumed", bvp_out); return 0; }
   if (!objs[k]) objs[k] = bufr_create_tables();
   bufr_merge_tables(T(), objs[k]);
   consumed[k] = 1;
   fputs("ok", bvp_out);
   return 0;
   }

static void hexstr(const char *s)
   {
   if (s == NULL) { fputs("-", bvp_out); return; }
   bvp_print_hex((const unsigned char *)s, strlen(s));
   }
static void fmt_b(FILE *f, EntryTableB *e)
   {
   FILE *save = bvp_out;
   bvp_out = f;
   fprintf(f, "%d %d %d %d %d ", e->descriptor, e->encoding.scale, e->encoding.reference,
           e->encoding.nbits, (int)e->encoding.type);
   hexstr(e->unit);
   fputc(' ', f);
   hexstr(e->description);
   bvp_out = save;
   }
static void fmt_d(FILE *f, EntryTableD *e)
   {
   int i;
   fprintf(f, "%d", e->descriptor);
   for (i = 0; i < e->count; i++) fprintf(f, " %d", e->descriptors[i]);
   }

static int t_fetchB(int argc, char **argv)
   {
   EntryTableB *e;
   if (argc < 2) BAD();
   CHECK_LIVE();
   e = bufr_fetch_tableB(T(), atoi(argv[1]));
   if (!e) fputs("none", bvp_out); else fmt_b(bvp_out, e);
   return 0;
   }
static int t_fetchD(int argc, char **argv)
   {
   EntryTableD *e;
   if (argc < 2) BAD();
   CHECK_LIVE();
   e = bufr_fetch_tableD(T(), atoi(argv[1]));
   if (!e) fputs("none", bvp_out); else fmt_d(bvp_out, e);
   return 0;
   }
static int t_match(int argc, char **argv)
   {
   EntryTableD *e;
   int *d, i;
   if (argc < 2) BAD();
   CHECK_LIVE();
   d = (int *)malloc(argc * sizeof(int));
   for (i = 1; i < argc; i++) d[i-1] = atoi(argv[i]);
   e = bufr_match_tableD_sequence(T(), argc - 1, d);
   free(d);
   if (!e) fputs("none", bvp_out); else fprintf(bvp_out, "%d", e->descriptor);
   return 0;
   }

struct dline { int desc; char *txt; };
/* stable for equal keys: entries with the same descriptor keep their array order */
static void sort_dlines(struct dline *ls, int n)
   {
   int i, j;
   for (i = 1; i < n; i++)
      {
      struct dline x = ls[i];
      for (j = i; j > 0 && ls[j-1].desc > x.desc; j--) ls[j] = ls[j-1];
      ls[j] = x;
      }
   }
static int dump(int isB, char *arr)
   {
   int n, i;
   struct dline *ls;
   if (arr == NULL) { fputs("null", bvp_out); return 0; }
   n = arr_count(arr);
   ls = (struct dline *)calloc(n + 1, sizeof(*ls));
   for (i = 0; i < n; i++)
      {
      size_t sz = 0;
      FILE *m = open_memstream(&ls[i].txt, &sz);
      if (isB)
         {
         EntryTableB *e = *(EntryTableB **)arr_get(arr, i);
         ls[i].desc = e->descriptor; fmt_b(m, e);
         }
      else
         {
         EntryTableD *e = *(EntryTableD **)arr_get(arr, i);
         ls[i].desc = e->descriptor; fmt_d(m, e);
         }
      fclose(m);
      }
   sort_dlines(ls, n);
   fprintf(bvp_out, "%d", n);
   for (i = 0; i < n; i++) { fputs(i ? ";" : " ", bvp_out); fputs(ls[i].txt, bvp_out); free(ls[i].txt); }
   free(ls);
   return 0;
   }
static int t_dumpB(int argc, char **argv)
   {
   if (argc != 2) BAD();
   CHECK_LIVE();
   return dump(1, argv[1][0] == 'l' ? T()->local.tableB : T()->master.tableB);
   }
static int t_dumpD(int argc, char **argv)
   {
   if (argc != 2) BAD();
   CHECK_LIVE();
   return dump(0, argv[1][0] == 'l' ? T()->local.tableD : T()->master.tableD);
   }
static int t_version(int argc, char **argv)
   {
   (void)argc; (void)argv;
   CHECK_LIVE();
   fprintf(bvp_out, "%d %d", T()->master.version, T()->local.version);
   return 0;
   }
static int t_checkloop(int argc, char **argv)
   {
   int rc;
   if (argc != 2) BAD();
   CHECK_LIVE();
   /* bufr_check_loop_tableD is static; loading an empty file merges nothing, sorts, and runs it */
   rc = argv[1][0] == 'l' ? bufr_load_l_tableD(T(), "/dev/null") : bufr_load_m_tableD(T(), "/dev/null");
   fprintf(bvp_out, "%d", rc);
   return 0;
   }

static int cmp_b(const void *p1, const void *p2)
   {
   EntryTableB *r1 = *(EntryTableB **)p1, *r2 = *(EntryTableB **)p2;
   return r1->descriptor < r2->descriptor ? -1 : r1->descriptor > r2->descriptor ? 1 : 0;
   }
static int cmp_d(const void *p1, const void *p2)
   {
   EntryTableD *r1 = *(EntryTableD **)p1, *r2 = *(EntryTableD **)p2;
   return r1->descriptor < r2->descriptor ? -1 : r1->descriptor > r2->descriptor ? 1 : 0;
   }
static int t_ingestB(int argc, char **argv)
   {
   BufrTablesSet *s;
   EntryTableB *e;
   unsigned char *u = NULL, *d = NULL;
   int nu, nd;
   if (argc != 9) BAD();
   CHECK_LIVE();
   if ((nu = bvp_parse_hex(argv[7], &u)) < 0) BAD();
   if ((nd = bvp_parse_hex(argv[8], &d)) < 0) { free(u); BAD(); }
   s = argv[1][0] == 'l' ? &T()->local : &T()->master;
   if (s->tableB == NULL || s->tableBtype != TYPE_ALLOCATED)
      {
      s->tableB = (EntryTableBArray)arr_create(100, sizeof(EntryTableB *), 100);
      s->tableBtype = TYPE_ALLOCATED;
      }
   e = bufr_new_EntryTableB();
   e->descriptor = atoi(argv[2]);
   e->encoding.scale = atoi(argv[3]);
   e->encoding.reference = atoi(argv[4]);
   e->encoding.nbits = atoi(argv[5]);
   e->encoding.type = (BufrDataType)atoi(argv[6]);
   u[nu] = 0; d[nd] = 0;
   e->unit = strdup((char *)u);
   e->description = strdup((char *)d);
   free(u); free(d);
   arr_add(s->tableB, (char *)&e);
   arr_sort(s->tableB, cmp_b);
   fputs("ok", bvp_out);
   return 0;
   }
static int t_ingestD(int argc, char **argv)
   {
   BufrTablesSet *s;
   EntryTableD *e;
   int *m, i;
   if (argc < 4) BAD();
   CHECK_LIVE();
   s = argv[1][0] == 'l' ? &T()->local : &T()->master;
   if (s->tableD == NULL || s->tableDtype != TYPE_ALLOCATED)
      {
      s->tableD = (EntryTableDArray)arr_create(100, sizeof(EntryTableD *), 100);
      s->tableDtype = TYPE_ALLOCATED;
      }
   m = (int *)malloc(argc * sizeof(int));
   for (i = 3; i < argc; i++) m[i-3] = atoi(argv[i]);
   e = bufr_new_EntryTableD(atoi(argv[2]), NULL, 0, m, argc - 3);
   free(m);
   arr_add(s->tableD, (char *)&e);
   arr_sort(s->tableD, cmp_d);
   fputs("ok", bvp_out);
   return 0;
   }

static int t_list_add(int argc, char **argv)
   {
   BUFR_Tables *t;
   int rb, rd;
   if (argc != 3) BAD();
   if (!vlist) vlist = lst_newlist();
   t = bufr_create_tables();
   rb = bufr_load_m_tableB(t, resolve(argv[1]));
   rd = bufr_load_m_tableD(t, resolve(argv[2]));
   lst_addlast(vlist, lst_newnode(t));
   fprintf(bvp_out, "%d %d %d", rb, rd, t->master.version);
   return 0;
   }
static int t_list_addv(int argc, char **argv)
   {
   BUFR_Tables *t;
   if (argc != 2) BAD();
   if (!vlist) vlist = lst_newlist();
   t = bufr_create_tables();
   t->master.version = atoi(argv[1]);
   lst_addlast(vlist, lst_newnode(t));
   fputs("ok", bvp_out);
   return 0;
   }
static int t_use(int argc, char **argv)
   {
   BUFR_Tables *t;
   ListNode *n;
   int i = 0;
   if (argc != 2) BAD();
   if (!vlist) vlist = lst_newlist();
   t = bufr_use_tables_list(vlist, atoi(argv[1]));
   if (!t) { fputs("none", bvp_out); return 0; }
   for (n = lst_firstnode(vlist); n && n->data != (void *)t; n = n->next) i++;
   fprintf(bvp_out, "%d %d", i, t->master.version);
   return 0;
   }

struct op_entry ops_tables[] = {
   { "tbl.file", t_file }, { "tbl.new", t_new }, { "tbl.sel", t_sel },
   { "tbl.load_m_b", t_load }, { "tbl.load_l_b", t_load }, { "tbl.load_m_d", t_load },
   { "tbl.load_l_d", t_load }, { "tbl.load_csv_b", t_load }, { "tbl.load_csv_d", t_load },
   { "tbl.merge", t_merge }, { "tbl.fetchB", t_fetchB }, { "tbl.fetchD", t_fetchD },
   { "tbl.match", t_match }, { "tbl.dumpB", t_dumpB }, { "tbl.dumpD", t_dumpD },
   { "tbl.version", t_version }, { "tbl.checkloop", t_checkloop },
   { "tbl.ingestB", t_ingestB }, { "tbl.ingestD", t_ingestD },
   { "tbl.list_add", t_list_add }, { "tbl.list_addv", t_list_addv }, { "tbl.use", t_use },
   { NULL, NULL } };
