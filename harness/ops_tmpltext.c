#include "bvp.h"
#include "bufr_template.h"
#include "bufr_dataset.h"
#include "bufr_desc.h"
#include "bufr_value.h"
#include <unistd.h>
/* templates with default values, their text form, copies and comparison (C18) */

extern BUFR_Tables   *cur_tables;
extern BUFR_Template *cur_tmpl;
extern BUFR_Dataset  *cur_dts;

#define NSLOT 8
static BUFR_Template *slot[NSLOT];

void tmpltext_reset(void)
   {
   int i;
   for (i = 0; i < NSLOT; i++) { if (slot[i] && !bvp_poisoned) bufr_free_template(slot[i]); slot[i] = NULL; }
   }

static int slot_no(const char *s)
   {
   int k = atoi(s);
   if (s[0] < '0' || s[0] > '9' || s[1] || k >= NSLOT) return -1;
   return k;
   }

static void put_slot(int k, BUFR_Template *t)
   {
   if (slot[k]) bufr_free_template(slot[k]);
   slot[k] = t;
   if (!t) { fputs("fail", bvp_out); return; }
   fprintf(bvp_out, "ok %d %d", arr_count(t->gabarit), (t->flags & HAS_DELAYED_REPLICATION) ? 1 : 0);
   }

/* one value: i:<int> l:<int> f:<8 hex> d:<16 hex> s:<hex|-> */
static BufrValue *parse_value(const char *s)
   {
   BufrValue *v = NULL;
   if (strlen(s) < 3 || s[1] != ':') return NULL;
   switch (s[0])
      {
      case 'i': v = bufr_create_value(VALTYPE_INT32); bufr_value_set_int32(v, (int32_t)strtol(s + 2, NULL, 10)); break;
      case 'l': v = bufr_create_value(VALTYPE_INT64); bufr_value_set_int64(v, (int64_t)strtoll(s + 2, NULL, 10)); break;
      case 'f': { uint32_t u = (uint32_t)strtoul(s + 2, NULL, 16); float f; memcpy(&f, &u, 4);
                  v = bufr_create_value(VALTYPE_FLT32); bufr_value_set_float(v, f); } break;
      case 'd': { uint64_t u = (uint64_t)strtoull(s + 2, NULL, 16); double d; memcpy(&d, &u, 8);
                  v = bufr_create_value(VALTYPE_FLT64); bufr_value_set_double(v, d); } break;
      case 's': { unsigned char *buf; int n = bvp_parse_hex(s + 2, &buf);
                  if (n < 0) return NULL;
                  buf[n] = 0;
                  v = bufr_create_value(VALTYPE_STRING); bufr_value_set_string(v, (char *)buf, n); free(buf); } break;
      default: break;
      }
   return v;
   }

/* tm.newv <slot> <edition> <desc>[=v;v;...] ... : bufr_create_template with default values */
static int tm_newv(int argc, char **argv)
   {
   BufrDescValue *dv;
   int i, k, n = argc - 3, bad = 0;
   if (argc < 3 || !cur_tables || (k = slot_no(argv[1])) < 0) { fputs("bad-op", bvp_out); return 0; }
   dv = (BufrDescValue *)calloc(n + 1, sizeof(BufrDescValue));
   for (i = 0; i < n; i++)
      {
      char *item = argv[i + 3], *eq = strchr(item, '=');
      bufr_init_DescValue(&dv[i]);
      if (eq) *eq = 0;
      dv[i].descriptor = atoi(item);
      if (eq)
         {
         char *p = eq + 1, *tok;
         while ((tok = strsep(&p, ";")) != NULL)
            {
            BufrValue *v = parse_value(tok);
            if (!v) { bad = 1; continue; }
            bufr_vgrow_DescValue(&dv[i], dv[i].nbval + 1);
            dv[i].values[dv[i].nbval - 1] = v;
            }
         }
      }
   if (bad) fputs("bad-op", bvp_out);
   else put_slot(k, bufr_create_template(dv, n, cur_tables, atoi(argv[2])));
   for (i = 0; i < n; i++) bufr_vfree_DescValue(&dv[i]);
   free(dv);
   return 0;
   }

/* tm.save <slot>: the text bufr_save_template writes, as hex */
static int tm_save(int argc, char **argv)
   {
   char path[] = "/tmp/bvp-tmpl-XXXXXX";
   int k, fd, rc;
   FILE *fp; unsigned char *buf; long n;
   if (argc != 2 || (k = slot_no(argv[1])) < 0) { fputs("bad-op", bvp_out); return 0; }
   if (!slot[k]) { fputs("none", bvp_out); return 0; }
   fd = mkstemp(path);
   if (fd < 0) { fputs("io-error", bvp_out); return 0; }
   close(fd);
   rc = bufr_save_template(path, slot[k]);
   fp = fopen(path, "rb");
   if (rc < 0 || !fp) { if (fp) fclose(fp); unlink(path); fputs("fail", bvp_out); return 0; }
   fseek(fp, 0, SEEK_END); n = ftell(fp); fseek(fp, 0, SEEK_SET);
   buf = (unsigned char *)malloc(n + 1);
   if (fread(buf, 1, n, fp) != (size_t)n) n = 0;
   fclose(fp);
   unlink(path);
   bvp_print_hex(buf, (size_t)n);
   free(buf);
   return 0;
   }

/* tm.loadtext <slot> <hex>: bufr_load_template on a file holding exactly these bytes */
static int tm_loadtext(int argc, char **argv)
   {
   char path[] = "/tmp/bvp-tmpl-XXXXXX";
   unsigned char *buf; int k, n, fd;
   FILE *fp;
   if (argc != 3 || !cur_tables || (k = slot_no(argv[1])) < 0 || (n = bvp_parse_hex(argv[2], &buf)) < 0) { fputs("bad-op", bvp_out); return 0; }
   fd = mkstemp(path);
   if (fd < 0) { free(buf); fputs("io-error", bvp_out); return 0; }
   fp = fdopen(fd, "wb");
   if (n) fwrite(buf, 1, n, fp);
   fclose(fp);
   free(buf);
   put_slot(k, bufr_load_template(path, cur_tables));
   unlink(path);
   return 0;
   }

/* tm.reload <dst> <src>: bufr_save_template then bufr_load_template of the file just written */
static int tm_reload(int argc, char **argv)
   {
   char path[] = "/tmp/bvp-tmpl-XXXXXX";
   int a, b, fd;
   if (argc != 3 || !cur_tables || (a = slot_no(argv[1])) < 0 || (b = slot_no(argv[2])) < 0 || a == b) { fputs("bad-op", bvp_out); return 0; }
   if (!slot[b]) { fputs("none", bvp_out); return 0; }
   fd = mkstemp(path);
   if (fd < 0) { fputs("io-error", bvp_out); return 0; }
   close(fd);
   if (bufr_save_template(path, slot[b]) < 0) { unlink(path); fputs("save-fail", bvp_out); return 0; }
   put_slot(a, bufr_load_template(path, cur_tables));
   unlink(path);
   return 0;
   }

static int tm_copy(int argc, char **argv)
   {
   int a, b;
   if (argc != 3 || (a = slot_no(argv[1])) < 0 || (b = slot_no(argv[2])) < 0 || a == b) { fputs("bad-op", bvp_out); return 0; }
   if (!slot[b]) { fputs("none", bvp_out); return 0; }
   put_slot(a, bufr_copy_template(slot[b]));
   return 0;
   }

static int tm_compare(int argc, char **argv)
   {
   int a, b;
   if (argc != 3 || (a = slot_no(argv[1])) < 0 || (b = slot_no(argv[2])) < 0) { fputs("bad-op", bvp_out); return 0; }
   if (!slot[a] || !slot[b]) { fputs("none", bvp_out); return 0; }
   fprintf(bvp_out, "%d", bufr_compare_template(slot[a], slot[b]));
   return 0;
   }

static void fmt_value(BufrValue *v)
   {
   if (!v) { fputs("-", bvp_out); return; }
   switch (v->type)
      {
      case VALTYPE_INT8: case VALTYPE_INT32: fprintf(bvp_out, "i:%d", bufr_value_get_int32(v)); break;
      case VALTYPE_INT64: fprintf(bvp_out, "l:%lld", (long long)bufr_value_get_int64(v)); break;
      case VALTYPE_FLT32: { float f = bufr_value_get_float(v); uint32_t u; memcpy(&u, &f, 4); fprintf(bvp_out, "f:%08x", u); } break;
      case VALTYPE_FLT64: { double d = bufr_value_get_double(v); uint64_t u; memcpy(&u, &d, 8); fprintf(bvp_out, "d:%016llx", (unsigned long long)u); } break;
      case VALTYPE_STRING: { int len = 0; const char *s = bufr_value_get_string(v, &len); fputs("s:", bvp_out); bvp_print_hex((const unsigned char *)s, s ? (size_t)len : 0); } break;
      default: fputs("?", bvp_out); break;
      }
   }

/* tm.descvals <slot>: edition, then every descriptor of the unexpanded list with its default values */
static int tm_descvals(int argc, char **argv)
   {
   int k, i, j, n;
   if (argc != 2 || (k = slot_no(argv[1])) < 0) { fputs("bad-op", bvp_out); return 0; }
   if (!slot[k]) { fputs("none", bvp_out); return 0; }
   n = arr_count(slot[k]->codets);
   fprintf(bvp_out, "%d", slot[k]->edition);
   for (i = 0; i < n; i++)
      {
      BufrDescValue *c = (BufrDescValue *)arr_get(slot[k]->codets, i);
      fprintf(bvp_out, " %d", c->descriptor);
      for (j = 0; j < c->nbval; j++) { fputc(j ? ';' : '=', bvp_out); fmt_value(c->values[j]); }
      }
   return 0;
   }

/* tm.gabvals <slot>: the default value each node of the expanded template carries */
static int tm_gabvals(int argc, char **argv)
   {
   int k, i, n;
   BufrDescriptor **pb;
   if (argc != 2 || (k = slot_no(argv[1])) < 0) { fputs("bad-op", bvp_out); return 0; }
   if (!slot[k]) { fputs("none", bvp_out); return 0; }
   n = arr_count(slot[k]->gabarit);
   pb = (BufrDescriptor **)arr_get(slot[k]->gabarit, 0);
   if (n == 0) fputs("-", bvp_out);
   for (i = 0; i < n; i++)
      {
      fprintf(bvp_out, "%s%d/%d=", i ? " " : "", pb[i]->descriptor, (int)pb[i]->flags);
      fmt_value(pb[i]->value);
      }
   return 0;
   }

/* tm.use <slot>: the template becomes the current one of the ss.* / ds.* ops (ownership moves) */
static int tm_use(int argc, char **argv)
   {
   int k;
   if (argc != 2 || (k = slot_no(argv[1])) < 0) { fputs("bad-op", bvp_out); return 0; }
   if (!slot[k]) { fputs("none", bvp_out); return 0; }
   if (cur_dts) { bufr_free_dataset(cur_dts); cur_dts = NULL; }
   if (cur_tmpl) { bufr_free_template(cur_tmpl); cur_tmpl = NULL; }
   cur_tmpl = slot[k];
   slot[k] = NULL;
   fputs("ok", bvp_out);
   return 0;
   }

struct op_entry ops_tmpltext[] = {
   { "tm.newv", tm_newv }, { "tm.save", tm_save }, { "tm.loadtext", tm_loadtext }, { "tm.copy", tm_copy }, { "tm.reload", tm_reload },
   { "tm.compare", tm_compare }, { "tm.descvals", tm_descvals }, { "tm.gabvals", tm_gabvals }, { "tm.use", tm_use },
   { NULL, NULL } };
