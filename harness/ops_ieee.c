#include "bvp.h"
#include <math.h>
#include "bufr_ieee754.h"
/* C19: bufr_ieee_encode_single/double, bufr_ieee_decode_single/double, bufr_use_C_ieee754.
 * floats/doubles cross the protocol as hex bit patterns (memcpy), NaN results as "nan". */

void ieee_reset(void)
   {
   bufr_use_C_ieee754(0);
   }

static float  u2f(uint32_t u) { float f;  memcpy(&f, &u, 4); return f; }
static double u2d(uint64_t u) { double d; memcpy(&d, &u, 8); return d; }
static uint32_t f2u(float f)  { uint32_t u; memcpy(&u, &f, 4); return u; }
static uint64_t d2u(double d) { uint64_t u; memcpy(&u, &d, 8); return u; }

static int is_nan32(uint32_t b) { return (b & 0x7f800000u) == 0x7f800000u && (b & 0x007fffffu); }
static int is_nan64(uint64_t b) { return (b & 0x7ff0000000000000ULL) == 0x7ff0000000000000ULL && (b & 0x000fffffffffffffULL); }

/* the exponent guess exactly as bufr_single/double_get_significand compute it (the functions are
 * static; the expression is repeated here so that the driver can check the libm contract on it).
 * 0 for zero / inf / nan, for which the library does not compute it. */
static int guess32(uint32_t b)
   {
   float fvalue = u2f(b & 0x7fffffffu);
   int   expon;
   if ((b & 0x7f800000u) == 0x7f800000u || (b & 0x7fffffffu) == 0) return 0;
   expon = logf(fvalue)/logf(2.0);
   return expon;
   }
static int guess64(uint64_t b)
   {
   double fvalue = u2d(b & 0x7fffffffffffffffULL);
   int    expon;
   if ((b & 0x7ff0000000000000ULL) == 0x7ff0000000000000ULL || (b & 0x7fffffffffffffffULL) == 0) return 0;
   expon = log(fvalue)/log(2.0);
   return expon;
   }
/* exact floor(log2 |x|) from the bit pattern, for the contract check in the sweeps */
static int blen(uint64_t v) { int i = 0; while (v) { ++i; v >>= 1; } return i; }
static int exact32(uint32_t b)
   {
   int e = (b >> 23) & 0xff; uint32_t f = b & 0x7fffff;
   return e ? e - 127 : blen(f) - 1 - 149;
   }
static int exact64(uint64_t b)
   {
   int e = (b >> 52) & 0x7ff; uint64_t f = b & 0xfffffffffffffULL;
   return e ? e - 1023 : blen(f) - 1 - 1074;
   }

static int parse_hex64(const char *s, uint64_t *out, int maxdigits)
   {
   char *end;
   if (!*s || (int)strlen(s) > maxdigits) return -1;
   *out = strtoull(s, &end, 16);
   return *end ? -1 : 0;
   }

static int op_native(int argc, char **argv)
   {
   if (argc != 2) { fputs("bad-op", bvp_out); return 0; }
   fprintf(bvp_out, "%d", bufr_use_C_ieee754(atoi(argv[1])));
   return 0;
   }
static int op_enc32(int argc, char **argv)
   {
   uint64_t b;
   if (argc < 2 || argc > 3 || parse_hex64(argv[1], &b, 8) < 0) { fputs("bad-op", bvp_out); return 0; }
   fprintf(bvp_out, "%08x %d", bufr_ieee_encode_single(u2f((uint32_t)b)), guess32((uint32_t)b));
   return 0;
   }
static int op_enc64(int argc, char **argv)
   {
   uint64_t b;
   if (argc < 2 || argc > 3 || parse_hex64(argv[1], &b, 16) < 0) { fputs("bad-op", bvp_out); return 0; }
   fprintf(bvp_out, "%016llx %d", (unsigned long long)bufr_ieee_encode_double(u2d(b)), guess64(b));
   return 0;
   }
static int op_dec32(int argc, char **argv)
   {
   uint64_t b; float f;
   if (argc != 2 || parse_hex64(argv[1], &b, 8) < 0) { fputs("bad-op", bvp_out); return 0; }
   f = bufr_ieee_decode_single((uint32_t)b);
   if (isnan(f)) fputs("nan", bvp_out); else fprintf(bvp_out, "%08x", f2u(f));
   return 0;
   }
static int op_dec64(int argc, char **argv)
   {
   uint64_t b; double d;
   if (argc != 2 || parse_hex64(argv[1], &b, 16) < 0) { fputs("bad-op", bvp_out); return 0; }
   d = bufr_ieee_decode_double(b);
   if (isnan(d)) fputs("nan", bvp_out); else fprintf(bvp_out, "%016llx", (unsigned long long)d2u(d));
   return 0;
   }

/* ieee.sweep32 <start hex> <count> <stride>: patterns start + i*stride (mod 2^32), NaNs skipped */
static int op_sweep32(int argc, char **argv)
   {
   uint64_t start, count, stride, i, nan = 0, encbad = 0, decbad = 0, sum = 0, gbad = 0;
   char encfirst[64] = "-", decfirst[64] = "-";
   if (argc != 4 || parse_hex64(argv[1], &start, 8) < 0) { fputs("bad-op", bvp_out); return 0; }
   count = strtoull(argv[2], NULL, 10); stride = strtoull(argv[3], NULL, 10);
   for (i = 0; i < count; i++)
      {
      uint32_t b = (uint32_t)(start + i * stride), enc;
      float f;
      if (is_nan32(b)) { ++nan; continue; }
      enc = bufr_ieee_encode_single(u2f(b));
      f = bufr_ieee_decode_single(b);
      sum += enc;
      if (enc != b) { if (!encbad) sprintf(encfirst, "%08x:%08x", b, enc); ++encbad; }
      if (isnan(f) || f2u(f) != b)
         {
         if (!decbad) { if (isnan(f)) sprintf(decfirst, "%08x:nan", b); else sprintf(decfirst, "%08x:%08x", b, f2u(f)); }
         ++decbad;
         }
      if ((b & 0x7fffffffu) != 0 && (b & 0x7f800000u) != 0x7f800000u)
         { int d = guess32(b) - exact32(b); if (d < -1 || d > 2 || ((b & 0x7f800000u) == 0 && guess32(b) > -126)) ++gbad; }
      }
   fprintf(bvp_out, "n=%llu nan=%llu encbad=%llu encfirst=%s decbad=%llu decfirst=%s sum=%016llx gbad=%llu",
      (unsigned long long)count, (unsigned long long)nan, (unsigned long long)encbad, encfirst,
      (unsigned long long)decbad, decfirst, (unsigned long long)sum, (unsigned long long)gbad);
   return 0;
   }
static int op_sweep64(int argc, char **argv)
   {
   uint64_t start, count, stride, i, nan = 0, encbad = 0, decbad = 0, sum = 0, gbad = 0;
   char encfirst[64] = "-", decfirst[64] = "-";
   if (argc != 4 || parse_hex64(argv[1], &start, 16) < 0) { fputs("bad-op", bvp_out); return 0; }
   count = strtoull(argv[2], NULL, 10); stride = strtoull(argv[3], NULL, 10);
   for (i = 0; i < count; i++)
      {
      uint64_t b = start + i * stride, enc;
      double d;
      if (is_nan64(b)) { ++nan; continue; }
      enc = bufr_ieee_encode_double(u2d(b));
      d = bufr_ieee_decode_double(b);
      sum += enc;
      if (enc != b) { if (!encbad) sprintf(encfirst, "%016llx:%016llx", (unsigned long long)b, (unsigned long long)enc); ++encbad; }
      if (isnan(d) || d2u(d) != b)
         {
         if (!decbad) { if (isnan(d)) sprintf(decfirst, "%016llx:nan", (unsigned long long)b);
                        else sprintf(decfirst, "%016llx:%016llx", (unsigned long long)b, (unsigned long long)d2u(d)); }
         ++decbad;
         }
      if ((b & 0x7fffffffffffffffULL) != 0 && (b & 0x7ff0000000000000ULL) != 0x7ff0000000000000ULL)
         { int dd = guess64(b) - exact64(b); if (dd < -1 || dd > 2 || ((b & 0x7ff0000000000000ULL) == 0 && guess64(b) > -1022)) ++gbad; }
      }
   fprintf(bvp_out, "n=%llu nan=%llu encbad=%llu encfirst=%s decbad=%llu decfirst=%s sum=%016llx gbad=%llu",
      (unsigned long long)count, (unsigned long long)nan, (unsigned long long)encbad, encfirst,
      (unsigned long long)decbad, decfirst, (unsigned long long)sum, (unsigned long long)gbad);
   return 0;
   }

/* libm contract used by the model: pow(2.0,k), powf(2.0,k) and 1.0/pow(2,i) are exact */
static int op_libm(int argc, char **argv)
   {
   int k, powbad = 0, powfbad = 0, fracbad = 0;
   (void)argv;
   if (argc != 1) { fputs("bad-op", bvp_out); return 0; }
   for (k = -1022; k <= 1023; k++)
      if (d2u(pow(2.0, k)) != ((uint64_t)(k + 1023) << 52)) ++powbad;
   for (k = -126; k <= 127; k++)
      if (f2u(powf(2.0, (float)k)) != ((uint32_t)(k + 127) << 23)) ++powfbad;
   for (k = 0; k < 53; k++)
      if (d2u(1.0 / pow(2, k)) != ((uint64_t)(1023 - k) << 52)) ++fracbad;
   fprintf(bvp_out, "pow=%d powf=%d frac=%d", powbad, powfbad, fracbad);
   return 0;
   }

struct op_entry ops_ieee[] = {
   { "ieee.native", op_native }, { "ieee.enc32", op_enc32 }, { "ieee.enc64", op_enc64 },
   { "ieee.dec32", op_dec32 }, { "ieee.dec64", op_dec64 },
   { "ieee.sweep32", op_sweep32 }, { "ieee.sweep64", op_sweep64 },
   { "ieee.xsweep32", op_sweep32 }, { "ieee.xsweep64", op_sweep64 },   /* answered by the model with "c-only" */
   { "ieee.libm", op_libm },
   { NULL, NULL } };
