#include "bvp.h"

FILE *bvp_out;
jmp_buf bvp_jmp;
int bvp_jmp_armed = 0;

static void quiet(const char *msg) { (void)msg; }

/* set when the library called the abort handler (or exit): the objects it was working on are in an
 * undefined state; nothing more is asked of them, and `reset` drops them without freeing */
int bvp_poisoned = 0;

/* everything every op file holds is released (also used by own.reset, C16) */
void bvp_reset_all(void)
   {
   own_reset();
   bits_reset();
   scale_reset();
   template_reset();
   ieee_reset();
   codec_reset_all();
   tables_reset();
   frame_reset();
   tmpltext_reset();
   dump_reset();
   local_reset();
   find_reset();
   bufr_set_debug(0);
   bufr_set_verbose(0);
   switch_reset();
   bvp_poisoned = 0;
#ifdef LIBECBUFR_VERIF
   own_reset_check();   /* C16: with a baseline taken (own.base), the live-object counters must be back at it */
#endif
   }
static int op_reset(int argc, char **argv)
   {
   (void)argc; (void)argv;
   bvp_reset_all();
   fputs("ok", bvp_out);
   return 0;
   }
static void dbg_stderr(const char *msg) { if (msg) fputs(msg, stderr); }
static int op_dbg(int argc, char **argv)
   {
   int on = argc > 1 ? atoi(argv[1]) : 1;
   bufr_set_debug_handler(on ? dbg_stderr : quiet);
   bufr_set_debug(on);
   fputs("ok", bvp_out);
   return 0;
   }
static struct op_entry ops_core[] = { { "reset", op_reset }, { "dbg", op_dbg }, { NULL, NULL } };

static struct op_entry *tables[] = { ops_core, ops_bits, ops_template, ops_ieee, ops_codec, ops_tables, ops_frame, ops_scale, ops_find, ops_local, ops_dump, ops_tmpltext, ops_switch, ops_own, NULL };

int bvp_parse_hex(const char *s, unsigned char **out)
   {
   size_t n, i;
   unsigned char *b;
   if (strcmp(s, "-") == 0) { *out = (unsigned char *)calloc(1,16); return 0; }
   n = strlen(s);
   if (n % 2) return -1;
   b = (unsigned char *)calloc(1, n/2 + 16);
   for (i = 0; i < n/2; i++)
      {
      unsigned int v;
      if (sscanf(s + 2*i, "%2x", &v) != 1) { free(b); return -1; }
      b[i] = (unsigned char)v;
      }
   *out = b;
   return (int)(n/2);
   }

void bvp_print_hex(const unsigned char *p, size_t n)
   {
   size_t i;
   if (n == 0) { fputs("-", bvp_out); return; }
   for (i = 0; i < n; i++) fprintf(bvp_out, "%02x", p[i]);
   }

/* process termination is an outcome, not an event: `exit` is wrapped at link time */
void __real_exit(int);
void __wrap_exit(int code)
   {
   if (bvp_jmp_armed) longjmp(bvp_jmp, 2);
   __real_exit(code);
   }

static void abort_handler(const char *msg)
   {
   (void)msg;
   if (bvp_jmp_armed) longjmp(bvp_jmp, 1);
   }



int main(int argc, char **argv)
   {
   char *line = NULL;
   size_t cap = 0;
   ssize_t n;
   static char *toks[MAXTOK];
   (void)argc; (void)argv;
   bvp_out = stdout;
   bufr_set_abort(abort_handler);
   bufr_set_debug_handler(quiet);
   bufr_set_output_handler(quiet);
   while ((n = getline(&line, &cap, stdin)) > 0)
      {
      int nt = 0, found = 0, t;
      char *p = line, *tok;
      while (n > 0 && (line[n-1] == '\n' || line[n-1] == '\r' || line[n-1] == ' ')) line[--n] = 0;
      while (*p == ' ') p++;
      if (*p == 0 || *p == '#') continue;
      while ((tok = strsep(&p, " ")) != NULL && nt < MAXTOK)
         if (*tok) toks[nt++] = tok;
      if (bvp_poisoned && !(nt == 1 && strcmp(toks[0], "reset") == 0))
         {
         fputs("poisoned\n", bvp_out);
         fflush(bvp_out);
         continue;
         }
      for (t = 0; tables[t] && !found; t++)
         {
         struct op_entry *e;
         for (e = tables[t]; e->name; e++)
            if (strcmp(e->name, toks[0]) == 0)
               {
               int jr;
               found = 1;
               bvp_jmp_armed = 1;
               jr = setjmp(bvp_jmp);
               if (jr == 0) e->fn(nt, toks);
               else if (jr == 1) { fputs("abort", bvp_out); bvp_poisoned = 1; }
               else { fputs("exit", bvp_out); bvp_poisoned = 1; }
               bvp_jmp_armed = 0;
               fputc('\n', bvp_out);
               break;
               }
         }
      if (!found) fputs("bad-op\n", bvp_out);
      fflush(bvp_out);
      }
   free(line);
   return own_exit_code();   /* C16: a leak seen by a `reset` fails the process */
   }
