#include "bvp.h"
#include "bufr_template.h"
#include "bufr_dataset.h"
#include "bufr_desc.h"
/* tables as loaded, templates, data subsets: descriptor nodes with encodings (C09, C10, codecs) */

#define MAXSETS 16
static struct { char name[32]; BUFR_Tables *t; } sets[MAXSETS];
static int nsets = 0;
BUFR_Tables   *cur_tables = NULL;
BUFR_Template *cur_tmpl = NULL;
BUFR_Dataset  *cur_dts = NULL;

void template_reset(void)
   {
   if (cur_dts && !bvp_poisoned) bufr_free_dataset(cur_dts);
   if (cur_tmpl && !bvp_poisoned) bufr_free_template(cur_tmpl);
   cur_dts = NULL; cur_tmpl = NULL; cur_tables = NULL;
   }

static BUFR_Tables *find_set(const char *name)
   {
   int i;
   for (i = 0; i < nsets; i++) if (strcmp(sets[i].name, name) == 0) return sets[i].t;
   return NULL;
   }

static int t_load(int argc, char **argv)
   {
   BUFR_Tables *t;
   int r1 = 0, r2 = 0, r3 = 0, r4 = 0;
   if (argc != 6 || nsets >= MAXSETS) { fputs("bad-op", bvp_out); return 0; }
   t = bufr_create_tables();
   if (strcmp(argv[2], "-")) r1 = bufr_load_m_tableB(t, argv[2]);
   if (strcmp(argv[3], "-")) r2 = bufr_load_m_tableD(t, argv[3]);
   if (strcmp(argv[4], "-")) r3 = bufr_load_l_tableB(t, argv[4]);
   if (strcmp(argv[5], "-")) r4 = bufr_load_l_tableD(t, argv[5]);
   strncpy(sets[nsets].name, argv[1], 31);
   sets[nsets].t = t;
   nsets++;
   fprintf(bvp_out, "ok %d %d %d %d", r1 < 0, r2 < 0, r3 < 0, r4 < 0);
   return 0;
   }

static int cmp_int(const void *a, const void *b) { int x = *(const int *)a, y = *(const int *)b; return (x > y) - (x < y); }

/* dump "as loaded": for every descriptor present in master or local, what the lookup returns */
static int t_dump(int argc, char **argv)
   {
   BUFR_Tables *t;
   int *keys, n = 0, i, k, pass, last = -1, any = 0;
   if (argc != 2 || !(t = find_set(argv[1]))) { fputs("bad-op", bvp_out); return 0; }
   keys = (int *)malloc(sizeof(int) * (arr_count(t->master.tableB) + arr_count(t->local.tableB) + 1));
   for (pass = 0; pass < 2; pass++)
      {
      EntryTableBArray a = pass ? t->local.tableB : t->master.tableB;
      for (i = 0; i < arr_count(a); i++) { EntryTableB **e = (EntryTableB **)arr_get(a, i); keys[n++] = (*e)->descriptor; }
      }
   qsort(keys, n, sizeof(int), cmp_int);
   for (i = 0; i < n; i++)
      {
      EntryTableB *e;
      if (keys[i] == last) continue;
      last = keys[i];
      e = bufr_fetch_tableB(t, keys[i]);
      if (!e) continue;
      fprintf(bvp_out, "%d,%d,%d,%d,%d;", e->descriptor, e->encoding.scale, e->encoding.reference, e->encoding.nbits, (int)e->encoding.type);
      any = 1;
      }
   if (!any) fputs("-", bvp_out);
   free(keys);
   fputc(' ', bvp_out);
   keys = (int *)malloc(sizeof(int) * (arr_count(t->master.tableD) + arr_count(t->local.tableD) + 1));
   n = 0; last = -1; any = 0;
   for (pass = 0; pass < 2; pass++)
      {
      EntryTableDArray a = pass ? t->local.tableD : t->master.tableD;
      for (i = 0; i < arr_count(a); i++) { EntryTableD **e = (EntryTableD **)arr_get(a, i); keys[n++] = (*e)->descriptor; }
      }
   qsort(keys, n, sizeof(int), cmp_int);
   for (i = 0; i < n; i++)
      {
      EntryTableD *e;
      if (keys[i] == last) continue;
      last = keys[i];
      e = bufr_fetch_tableD(t, keys[i]);
      if (!e) continue;
      fprintf(bvp_out, "%d=", e->descriptor);
      for (k = 0; k < e->count; k++) fprintf(bvp_out, "%s%d", k ? "," : "", e->descriptors[k]);
      fputc(';', bvp_out);
      any = 1;
      }
   if (!any) fputs("-", bvp_out);
   free(keys);
   return 0;
   }

static int t_use(int argc, char **argv)
   {
   BUFR_Tables *t;
   if (argc != 2) { fputs("bad-op", bvp_out); return 0; }
   t = find_set(argv[1]);
   if (t) cur_tables = t;
   fputs(t ? "ok" : "fail", bvp_out);
   return 0;
   }

void bvp_fmt_nodes(BufrDescriptor **pb, int count)
   {
   int i;
   if (count == 0) { fputs("-", bvp_out); return; }
   for (i = 0; i < count; i++)
      {
      BufrDescriptor *b = pb[i];
      fprintf(bvp_out, "%s%d/%d/%d/%d/%d/%d/%d/%d/", i ? " " : "", b->descriptor, (int)b->flags, (int)b->encoding.type,
              b->encoding.nbits, b->encoding.scale, b->encoding.reference, (int)b->encoding.af_nbits, b->value != NULL);
      if (b->value && (b->flags & FLAG_CLASS31)) fprintf(bvp_out, "%d", bufr_value_get_int32(b->value));
      else fputs("-", bvp_out);
      }
   }

static int tm_new(int argc, char **argv)
   {
   BufrDescValue *dv;
   int i, n = argc - 2;
   if (argc < 2 || !cur_tables) { fputs("bad-op", bvp_out); return 0; }
   if (cur_dts) { bufr_free_dataset(cur_dts); cur_dts = NULL; }
   if (cur_tmpl) { bufr_free_template(cur_tmpl); cur_tmpl = NULL; }
   dv = (BufrDescValue *)calloc(n + 1, sizeof(BufrDescValue));
   for (i = 0; i < n; i++) { dv[i].descriptor = atoi(argv[i + 2]); dv[i].values = NULL; dv[i].nbval = 0; }
   cur_tmpl = bufr_create_template(dv, n, cur_tables, atoi(argv[1]));
   free(dv);
   if (!cur_tmpl) { fputs("fail", bvp_out); return 0; }
   fprintf(bvp_out, "ok %d %d", arr_count(cur_tmpl->gabarit), (cur_tmpl->flags & HAS_DELAYED_REPLICATION) ? 1 : 0);
   return 0;
   }

static int tm_gabarit(int argc, char **argv)
   {
   (void)argc; (void)argv;
   if (!cur_tmpl) { fputs("none", bvp_out); return 0; }
   bvp_fmt_nodes((BufrDescriptor **)arr_get(cur_tmpl->gabarit, 0), arr_count(cur_tmpl->gabarit));
   return 0;
   }

static int ss_new(int argc, char **argv)
   {
   (void)argc; (void)argv;
   if (!cur_tmpl) { fputs("-1", bvp_out); return 0; }
   if (!cur_dts)
      {
      cur_dts = bufr_create_dataset(cur_tmpl);
      /* bufr_create_dataset stamps the current time into Section 1: not part of the tie (the model starts from
       * zeros, scenarios that care set every field with ds.hdr); kept deterministic so that a shrunk scenario
       * cannot differ by the clock */
      if (cur_dts)
         {
         BUFR_SET_YEAR(cur_dts, 0); BUFR_SET_MONTH(cur_dts, 0); BUFR_SET_DAY(cur_dts, 0);
         BUFR_SET_HOUR(cur_dts, 0); BUFR_SET_MINUTE(cur_dts, 0); BUFR_SET_SECOND(cur_dts, 0);
         }
      }
   fprintf(bvp_out, "%d", bufr_create_datasubset(cur_dts));
   return 0;
   }

static DataSubset *get_ss(const char *p)
   {
   if (!cur_dts) return NULL;
   return bufr_get_datasubset(cur_dts, atoi(p));
   }

static int ss_list(int argc, char **argv)
   {
   DataSubset *s;
   if (argc != 2) { fputs("bad-op", bvp_out); return 0; }
   s = get_ss(argv[1]);
   if (!s) { fputs("none", bvp_out); return 0; }
   bvp_fmt_nodes((BufrDescriptor **)arr_get(s->data, 0), bufr_datasubset_count_descriptor(s));
   return 0;
   }

static int ss_seti(int argc, char **argv)
   {
   DataSubset *s; BufrDescriptor *b; long v;
   if (argc != 4) { fputs("bad-op", bvp_out); return 0; }
   s = get_ss(argv[1]);
   if (!s) { fputs("none", bvp_out); return 0; }
   b = bufr_datasubset_get_descriptor(s, atoi(argv[2]));
   if (!b) { fputs("none", bvp_out); return 0; }
   v = atol(argv[3]);
   if (!(b->flags & FLAG_CLASS31 && b->flags & FLAG_EXPANDED && b->value && bufr_value_get_int32(b->value) > 0 &&
         (b->descriptor == 31000 || b->descriptor == 31001 || b->descriptor == 31002)) &&
       (!(b->flags & FLAG_CLASS31) || !b->value || v < 0 || b->encoding.nbits > 31 || v >= (1L << b->encoding.nbits)))
      { fputs("unsupported", bvp_out); return 0; }
   fprintf(bvp_out, "%d", bufr_descriptor_set_ivalue(b, (int)v));
   return 0;
   }

static int is_factor(int d) { return d == 31000 || d == 31001 || d == 31002 || d == 31011 || d == 31012; }

/* assign the given values cyclically to the factors that have not been used for an expansion yet */
static int ss_setfactors(int argc, char **argv)
   {
   DataSubset *s; int i, n, k = 0;
   if (argc < 3) { fputs("bad-op", bvp_out); return 0; }
   s = get_ss(argv[1]);
   if (!s) { fputs("none", bvp_out); return 0; }
   n = bufr_datasubset_count_descriptor(s);
   for (i = 0; i < n; i++)
      {
      BufrDescriptor *b = bufr_datasubset_get_descriptor(s, i);
      if (is_factor(b->descriptor) && (b->flags & FLAG_CLASS31) && !(b->flags & FLAG_EXPANDED) && !(b->flags & FLAG_SKIPPED) && b->value)
         {
         unsigned long v = strtoul(argv[2 + (k % (argc - 2))], NULL, 10);
         if (b->encoding.nbits < 31) v %= (1UL << b->encoding.nbits);
         bufr_descriptor_set_ivalue(b, (int)v);
         k++;
         }
      }
   fprintf(bvp_out, "%d", k);
   return 0;
   }

static int ss_expand(int argc, char **argv)
   {
   if (argc != 2 || !cur_dts) { fputs(argc != 2 ? "bad-op" : "-1", bvp_out); return 0; }
   fprintf(bvp_out, "%d", bufr_expand_datasubset(cur_dts, atoi(argv[1])));
   return 0;
   }

/* layout of the data-bearing items as the library computed it, in the format of the spec */
static int ss_speclayout(int argc, char **argv)
   {
   DataSubset *s; int i, n, first = 1;
   if (argc != 2 || !cur_tmpl) { fputs("none", bvp_out); return 0; }
   s = get_ss(argv[1]);
   if (!s) { fputs("none", bvp_out); return 0; }
   n = bufr_datasubset_count_descriptor(s);
   fputs("L", bvp_out);
   for (i = 0; i < n; i++)
      {
      BufrDescriptor *b = bufr_datasubset_get_descriptor(s, i);
      int f = b->descriptor / 100000, t = (int)b->encoding.type;
      if ((b->flags & FLAG_SKIPPED) || (f != 0 && f != 2)) continue;
      (void)first;
      if (t == TYPE_OPERATOR || t == TYPE_UNDEFINED)
         fprintf(bvp_out, " %d:%d", b->descriptor, t == TYPE_OPERATOR ? 2 : 0);
      else if (t == TYPE_NUMERIC)
         fprintf(bvp_out, " %d:4:%d:%d:%d:%d", b->descriptor, b->encoding.nbits, b->encoding.scale, b->encoding.reference, (int)b->encoding.af_nbits);
      else
         fprintf(bvp_out, " %d:%d:%d:%d", b->descriptor, t, b->encoding.nbits, (int)b->encoding.af_nbits);
      }
   return 0;
   }

static int ds_invalid(int argc, char **argv)
   {
   (void)argc; (void)argv;
   fprintf(bvp_out, "%d", (cur_dts && (cur_dts->data_flag & BUFR_FLAG_INVALID)) ? 1 : 0);
   return 0;
   }

struct op_entry ops_template[] = {
   { "T.load", t_load }, { "T.dump", t_dump }, { "T.use", t_use },
   { "tm.new", tm_new }, { "tm.gabarit", tm_gabarit },
   { "ss.new", ss_new }, { "ss.list", ss_list }, { "ss.seti", ss_seti }, { "ss.setfactors", ss_setfactors }, { "ss.expand", ss_expand },
   { "ss.speclayout", ss_speclayout }, { "ds.invalid", ds_invalid },
   { NULL, NULL } };

/* table sets by name, for other op files */
BUFR_Tables *bvp_find_set(const char *name) { return find_set(name); }
/* C16: the table sets of the process, for the reachability walk of harness/ops_own.c */
int bvp_nsets(void) { return nsets; }
BUFR_Tables *bvp_set_at(int i) { return sets[i].t; }
const char *bvp_set_name(int i) { return sets[i].name; }
