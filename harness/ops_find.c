#include "bvp.h"
#include "bufr_template.h"
#include "bufr_dataset.h"
#include "bufr_desc.h"
#include "bufr_value.h"
#include "bufr_meta.h"
/* searching a data subset (C17): bufr_subset_find_descriptor, bufr_subset_find_values with keys built
 * through the bufr_set_key_* constructors, qualifier tracking through bufr_expand_qualifiers */

extern BUFR_Dataset  *cur_dts;
BUFR_Dataset *bvp_dec_dts(void);
int bufr_expand_qualifiers(DataSubset *dss);

#define TLC_BIT  0x80000
#define QUAL_BIT 0x40000
#define CB_BIT   0x20000

void find_reset(void)
   {
   bufr_enable_meta(1);
   }

static DataSubset *get_subset(const char *which, const char *k)
   {
   BUFR_Dataset *d = NULL;
   int p = atoi(k);
   if (strcmp(which, "ss") == 0) d = cur_dts;
   else if (strcmp(which, "dd") == 0) d = bvp_dec_dts();
   if (!d || p < 0 || p >= bufr_count_datasubset(d)) return NULL;
   return bufr_get_datasubset(d, p);
   }

static int is_num(const char *s)
   {
   if (strlen(s) > 11) return 0;
   if (*s == '-') s++;
   if (!*s) return 0;
   for (; *s; s++) if (*s < '0' || *s > '9') return 0;
   return 1;
   }

static int is_hex(const char *s, size_t n)
   {
   return strlen(s) == n && strspn(s, "0123456789abcdefABCDEF") == n;
   }

/* syntax of one key value: i<int> f<8 hex> d<16 hex> l<int> s<hex|-> */
static int valid_token(const char *t)
   {
   switch (t[0])
      {
      case 'i': case 'l': return is_num(t + 1);
      case 'f': return is_hex(t + 1, 8);
      case 'd': return is_hex(t + 1, 16);
      case 's': return strcmp(t + 1, "-") == 0 || (strlen(t + 1) > 0 && strlen(t + 1) % 2 == 0 && strspn(t + 1, "0123456789abcdefABCDEF") == strlen(t + 1));
      default: return 0;
      }
   }

static int find_meta(int argc, char **argv)
   {
   if (argc != 2 || (strcmp(argv[1], "0") && strcmp(argv[1], "1"))) { fputs("bad-op", bvp_out); return 0; }
   bufr_enable_meta(atoi(argv[1]));
   fputs("ok", bvp_out);
   return 0;
   }

/* find.quals <ss|dd> <k> : bufr_expand_qualifiers, then the qualifier list of every descriptor as positions */
static int find_quals(int argc, char **argv)
   {
   DataSubset *s; int i, j, k, n, rc;
   if (argc != 3 || !is_num(argv[2])) { fputs("bad-op", bvp_out); return 0; }
   s = get_subset(argv[1], argv[2]);
   if (!s) { fputs("none", bvp_out); return 0; }
   rc = bufr_expand_qualifiers(s);
   n = bufr_datasubset_count_descriptor(s);
   fprintf(bvp_out, "%d", rc);
   for (i = 0; i < n; i++)
      {
      BufrDescriptor *b = bufr_datasubset_get_descriptor(s, i);
      fputc(' ', bvp_out);
      if (!b->meta || b->meta->nb_qualifiers <= 0) { fputs("-", bvp_out); continue; }
      for (j = 0; j < b->meta->nb_qualifiers; j++)
         {
         int pos = -1;
         for (k = 0; k < n; k++)
            if (bufr_datasubset_get_descriptor(s, k) == b->meta->qualifiers[j]) { pos = k; break; }
         fprintf(bvp_out, "%s%d", j ? "," : "", pos);
         }
      }
   return 0;
   }

static int find_desc(int argc, char **argv)
   {
   DataSubset *s;
   if (argc != 5 || !is_num(argv[2]) || !is_num(argv[3]) || !is_num(argv[4])) { fputs("bad-op", bvp_out); return 0; }
   s = get_subset(argv[1], argv[2]);
   if (!s) { fputs("none", bvp_out); return 0; }
   fprintf(bvp_out, "%d", bufr_subset_find_descriptor(s, (int)strtoll(argv[3], NULL, 10), (int)strtoll(argv[4], NULL, 10)));
   return 0;
   }

/* one (valid) key value as the public constructors make it; FLT64 and INT64 values have no constructor */
static BufrValue *make_value(const char *t)
   {
   BufrDescValue tmp; BufrValue *v = NULL;
   bufr_init_DescValue(&tmp);
   switch (t[0])
      {
      case 'i': { int x = (int)strtoll(t + 1, NULL, 10); bufr_set_key_int32(&tmp, 0, &x, 1); } break;
      case 'f': { uint32_t u = (uint32_t)strtoul(t + 1, NULL, 16); float f; memcpy(&f, &u, 4); bufr_set_key_flt32(&tmp, 0, &f, 1); } break;
      case 'd': { uint64_t u = strtoull(t + 1, NULL, 16); double d; memcpy(&d, &u, 8); v = bufr_create_value(VALTYPE_FLT64); bufr_value_set_double(v, d); return v; }
      case 'l': { v = bufr_create_value(VALTYPE_INT64); bufr_value_set_int64(v, strtoll(t + 1, NULL, 10)); return v; }
      case 's': { unsigned char *b; const char *p; int n = bvp_parse_hex(t + 1, &b); b[n] = 0; p = (const char *)b; bufr_set_key_string(&tmp, 0, &p, 1); free(b); } break;
      }
   if (tmp.nbval == 1) { v = tmp.values[0]; tmp.values[0] = NULL; }
   bufr_vfree_DescValue(&tmp);
   return v;
   }

/* all values of one kind: build the key through the public constructor for that kind */
static int build_homogeneous(BufrDescValue *cv, int desc, char **toks, int nv)
   {
   int j, kind = toks[0][0];
   for (j = 0; j < nv; j++) if (toks[j][0] != kind) return 0;
   if (kind == 'i')
      {
      int xs[64];
      for (j = 0; j < nv; j++) xs[j] = (int)strtoll(toks[j] + 1, NULL, 10);
      bufr_set_key_int32(cv, desc, xs, nv);
      return 1;
      }
   if (kind == 'f')
      {
      float fs[64];
      for (j = 0; j < nv; j++) { uint32_t u = (uint32_t)strtoul(toks[j] + 1, NULL, 16); memcpy(&fs[j], &u, 4); }
      bufr_set_key_flt32(cv, desc, fs, nv);
      return 1;
      }
   if (kind == 's')
      {
      unsigned char *bs[64]; const char *ps[64]; int n;
      for (j = 0; j < nv; j++) { n = bvp_parse_hex(toks[j] + 1, &bs[j]); bs[j][n] = 0; ps[j] = (const char *)bs[j]; }
      bufr_set_key_string(cv, desc, ps, nv);
      for (j = 0; j < nv; j++) free(bs[j]);
      return 1;
      }
   return 0;
   }

/* comparing a string with a number is undefined in bufr_compare_value (null pointer to strncmp): a key
 * whose values are not of the kind of the element it names is refused here */
static int well_typed(DataSubset *s, BufrDescValue *codes, int nk)
   {
   int i, j, k, n = bufr_datasubset_count_descriptor(s);
   for (k = 0; k < nk; k++)
      for (j = 0; j < codes[k].nbval; j++)
         for (i = 0; i < n; i++)
            {
            BufrDescriptor *b = bufr_datasubset_get_descriptor(s, i);
            if (b->descriptor != (codes[k].descriptor & ~(TLC_BIT | QUAL_BIT | CB_BIT)) || !b->value || !codes[k].values[j]) continue;
            if ((b->value->type == VALTYPE_STRING) != (codes[k].values[j]->type == VALTYPE_STRING)) return 0;
            }
   return 1;
   }

/* the callbacks of callback keys (bufr_set_key_callback): `c<descriptor>=i<kind>,i<argument>`
 * kind 0: always a match, 1: never, 2: the element holds the INT32 value <argument>.  0 = match. */
struct cb_data { int kind; int arg; };
static struct cb_data cb_store[64];
static int cb_fn(void *data, BufrDescriptor *bd)
   {
   struct cb_data *c = (struct cb_data *)data;
   switch (c->kind)
      {
      case 0: return 0;
      case 1: return 1;
      case 2: return (bd && bd->value && bd->value->type == VALTYPE_INT32 && bufr_value_get_int32(bd->value) == c->arg) ? 0 : 1;
      default: return 1;
      }
   }

/* find.vals <ss|dd> <k> <start> key...   key = [q]<descriptor>[=v{,v}] | c<descriptor>=i<kind>,i<argument> */
static int find_vals(int argc, char **argv)
   {
   DataSubset *s; BufrDescValue *codes; int nk, i, j, ok = 1, unsupported = 0, rc;
   if (argc < 4 || !is_num(argv[2]) || !is_num(argv[3])) { fputs("bad-op", bvp_out); return 0; }
   nk = argc - 4;
   codes = (BufrDescValue *)calloc(nk + 1, sizeof(BufrDescValue));
   for (i = 0; i < nk; i++) bufr_init_DescValue(&codes[i]);
   for (i = 0; i < nk; i++)
      {
      char *t = argv[4 + i], *eq, *p, *tok, *toks[64]; int isq = 0, desc, nv = 0;
      if (*t == 'c')
         {
         /* callback key */
         char *e2 = strchr(t, '='), *comma;
         long kind, arg;
         t++;
         if (!e2 || i >= 64) { ok = 0; break; }
         *e2 = 0;
         if (!is_num(t) || *t == '-' || strlen(t) > 6) { ok = 0; break; }
         comma = strchr(e2 + 1, ',');
         if (!comma || e2[1] != 'i' || comma[1] != 'i' || strchr(comma + 1, ',')) { ok = 0; break; }
         *comma = 0;
         if (!valid_token(e2 + 1) || !valid_token(comma + 1)) { ok = 0; break; }
         kind = strtol(e2 + 2, NULL, 10); arg = (int)strtoll(comma + 2, NULL, 10);
         desc = atoi(t);
         if (desc >= 0x20000 || kind < 0 || kind > 2) { unsupported = 1; break; }
         cb_store[i].kind = (int)kind; cb_store[i].arg = (int)arg;
         bufr_set_key_callback(&codes[i], desc, cb_fn, &cb_store[i]);
         continue;
         }
      if (*t == 'q') { isq = 1; t++; }
      eq = strchr(t, '=');
      if (eq) *eq = 0;
      if (!is_num(t) || *t == '-' || strlen(t) > 7) { ok = 0; break; }
      desc = atoi(t);
      if (eq)
         {
         p = eq + 1;
         while ((tok = strsep(&p, ",")) != NULL)
            {
            if (nv >= 64 || !valid_token(tok)) { ok = 0; break; }
            toks[nv++] = tok;
            }
         if (!ok) break;
         }
      if ((desc & TLC_BIT) || (isq && ((desc & (QUAL_BIT | CB_BIT)) || nv > 1)) || ((desc & CB_BIT) && nv > 0) ||
          (!isq && (desc & QUAL_BIT) && ((desc & CB_BIT) || nv > 1)))
         { unsupported = 1; break; }
      if (isq)
         {
         if (nv == 1 && toks[0][0] == 'i')
            bufr_set_key_qualifier_int32(&codes[i], desc, (int)strtoll(toks[0] + 1, NULL, 10));
         else if (nv == 1 && toks[0][0] == 'f')
            { uint32_t u = (uint32_t)strtoul(toks[0] + 1, NULL, 16); float f; memcpy(&f, &u, 4); bufr_set_key_qualifier_flt32(&codes[i], desc, f); }
         else
            {
            BufrValue *v = nv ? make_value(toks[0]) : NULL;
            bufr_set_key_qualifier(&codes[i], desc, v);
            if (v) bufr_free_value(v);
            }
         }
      else if (nv == 0) bufr_set_key_int32(&codes[i], desc, NULL, 0);
      else if (!build_homogeneous(&codes[i], desc, toks, nv))
         {
         codes[i].descriptor = desc;
         bufr_valloc_DescValue(&codes[i], nv);
         for (j = 0; j < nv; j++) codes[i].values[j] = make_value(toks[j]);
         }
      }
   s = get_subset(argv[1], argv[2]);
   if (!ok) fputs("bad-op", bvp_out);
   else if (unsupported) fputs("unsupported", bvp_out);
   else if (!s) fputs("none", bvp_out);
   else if (!well_typed(s, codes, nk)) fputs("unsupported", bvp_out);
   else
      {
      rc = bufr_subset_find_values(s, codes, nk, (int)strtoll(argv[3], NULL, 10));
      fprintf(bvp_out, "%d", rc);
      }
   for (i = 0; i < nk; i++) bufr_vfree_DescValue(&codes[i]);
   free(codes);
   return 0;
   }

struct op_entry ops_find[] = {
   { "find.meta", find_meta }, { "find.quals", find_quals }, { "find.desc", find_desc }, { "find.vals", find_vals },
   { NULL, NULL } };
