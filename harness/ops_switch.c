#include "bvp.h"
#include "bufr_template.h"
#include "bufr_dataset.h"
#include "bufr_desc.h"
#include "bufr_value.h"
#include "bufr_ieee754.h"
#include "bufr_tables.h"
/* C15: the library's run-time switches (debug, verbose, run-time meta data, trailing-zero trimming,
   native IEEE path), a sink that swallows and counts the diagnostic text, direct value setters that
   by-pass the range check of the descriptor setters, lookups on the current tables (history) */

extern BUFR_Tables   *cur_tables;
extern BUFR_Dataset  *cur_dts;
extern int bufr_meta_enabled;

extern BUFR_Template *cur_tmpl;
int bufr_load_cmc_tables(BUFR_Tables *tables);

static unsigned long long diag_bytes = 0, diag_msgs = 0, diag_max = 0;
static char *last_msg = NULL;       /* copy of the last message (sw.vprint checks it) */
static int keep_last = 0;

/* every byte of the text is read (strlen): ASan sees an unterminated or freed message */
static void sink(const char *msg)
   {
   size_t n;
   if (!msg) return;
   n = strlen(msg);
   diag_bytes += n; diag_msgs++;
   if (n > diag_max) diag_max = n;
   if (keep_last) { free(last_msg); last_msg = strdup(msg); }
   }

/* back to the library's defaults: debug 0, verbose 0, meta 1, trimzero 1 (the native IEEE path is
   reset by ieee_reset); the sink stays installed for both channels */
void switch_reset(void)
   {
   bufr_set_debug_handler(sink);
   bufr_set_output_handler(sink);
   bufr_set_debug(0);
   bufr_set_verbose(0);
   bufr_enable_meta(1);
   bufr_set_trimzero(1);
   diag_bytes = diag_msgs = diag_max = 0;
   free(last_msg); last_msg = NULL; keep_last = 0;
   }

/* sw.set <debug|verbose|meta|trimzero|ieee> <value> */
static int sw_set(int argc, char **argv)
   {
   int v;
   if (argc != 3) { fputs("bad-op", bvp_out); return 0; }
   v = atoi(argv[2]);
   if      (!strcmp(argv[1], "debug"))    bufr_set_debug(v);
   else if (!strcmp(argv[1], "verbose"))  bufr_set_verbose(v);
   else if (!strcmp(argv[1], "meta"))     bufr_enable_meta(v);
   else if (!strcmp(argv[1], "trimzero")) bufr_set_trimzero(v);
   else if (!strcmp(argv[1], "ieee"))     bufr_use_C_ieee754(v);
   else { fputs("bad-op", bvp_out); return 0; }
   fputs("ok", bvp_out);
   return 0;
   }

/* sw.mark <tag>: no operation; separates the blocks of a scenario for the oracle */
static int sw_mark(int argc, char **argv) { (void)argc; (void)argv; fputs("ok", bvp_out); return 0; }

/* sw.get: what the library's own readers return: debug verbose meta trimzero */
static int sw_get(int argc, char **argv)
   {
   (void)argc; (void)argv;
   fprintf(bvp_out, "%d %d %d %d", bufr_is_debug(), bufr_is_verbose(), bufr_meta_enabled != 0, bufr_is_trimzero());
   return 0;
   }

/* sw.diag: bytes / messages / longest message swallowed by the sink since the last reset
   (the driver answers "ok": the numbers are coverage, not part of the tie) */
static int sw_diag(int argc, char **argv)
   {
   (void)argc; (void)argv;
   fprintf(bvp_out, "ok %llu %llu %llu", diag_bytes, diag_msgs, diag_max);
   return 0;
   }

static double u2d(uint64_t u) { double d; memcpy(&d, &u, 8); return d; }
static float  u2f(uint32_t u) { float f;  memcpy(&f, &u, 4); return f; }

/* ss.setd <pos> <idx> <hex16>: bufr_value_set_double on the node's value when it is a double
   (the value-level setters are public API and do no range check) */
static int ss_setd(int argc, char **argv)
   {
   DataSubset *s; BufrDescriptor *b; uint64_t u;
   if (argc != 4) { fputs("bad-op", bvp_out); return 0; }
   s = cur_dts ? bufr_get_datasubset(cur_dts, atoi(argv[1])) : NULL;
   b = s ? bufr_datasubset_get_descriptor(s, atoi(argv[2])) : NULL;
   if (!b) { fputs("none", bvp_out); return 0; }
   if ((b->flags & FLAG_SKIPPED) || !b->value) { fputs("0", bvp_out); return 0; }
   u = strtoull(argv[3], NULL, 16);
   if (b->value->type == VALTYPE_FLT64) fprintf(bvp_out, "%d", bufr_value_set_double(b->value, u2d(u)));
   else fputs("0", bvp_out);
   return 0;
   }

/* sw.fetchB <desc>: bufr_fetch_tableB on the current tables (moves the lookup cache / last hit) */
static int sw_fetchB(int argc, char **argv)
   {
   EntryTableB *e;
   if (argc != 2 || !cur_tables) { fputs("none", bvp_out); return 0; }
   e = bufr_fetch_tableB(cur_tables, atoi(argv[1]));
   if (!e) { fputs("none", bvp_out); return 0; }
   fprintf(bvp_out, "%d,%d,%d,%d,%d", e->descriptor, e->encoding.scale, e->encoding.reference, e->encoding.nbits, (int)e->encoding.type);
   return 0;
   }

/* sw.fetchD <desc> */
static int sw_fetchD(int argc, char **argv)
   {
   EntryTableD *e; int k;
   if (argc != 2 || !cur_tables) { fputs("none", bvp_out); return 0; }
   e = bufr_fetch_tableD(cur_tables, atoi(argv[1]));
   if (!e) { fputs("none", bvp_out); return 0; }
   fprintf(bvp_out, "%d=", e->descriptor);
   for (k = 0; k < e->count; k++) fprintf(bvp_out, "%s%d", k ? "," : "", e->descriptors[k]);
   return 0;
   }

/* sw.vprint <debug|output> <n>: a message of n+2 characters through bufr_vprint_debug / bufr_vprint_output
   ("%s|%d" with a string of n 'x' and 7); answers "ok <length received> <1 if the text is the expected one>" */
static int sw_vprint(int argc, char **argv)
   {
   long n, i; char *str; int good = 0; size_t got = 0;
   if (argc != 3 || (n = atol(argv[2])) < 0 || n > 10000000) { fputs("bad-op", bvp_out); return 0; }
   str = (char *)malloc((size_t)n + 1);
   for (i = 0; i < n; i++) str[i] = 'x';
   str[n] = 0;
   keep_last = 1; free(last_msg); last_msg = NULL;
   if (!strcmp(argv[1], "debug")) bufr_vprint_debug("%s|%d", str, 7);
   else bufr_vprint_output("%s|%d", str, 7);
   keep_last = 0;
   if (last_msg)
      {
      got = strlen(last_msg);
      good = got == (size_t)n + 2 && strncmp(last_msg, str, (size_t)n) == 0 && strcmp(last_msg + n, "|7") == 0;
      }
   fprintf(bvp_out, "ok %lu %d", (unsigned long)got, good);
   free(str);
   return 0;
   }

static char *hexarg(const char *h)
   {
   unsigned char *b; int n = bvp_parse_hex(h, &b);
   if (n < 0) return NULL;
   b[n] = 0;
   return (char *)b;
   }

/* sw.cmc <BUFR_TABLES|AFSISIO|WMO_BUFR_TABLES> <hex value>: bufr_load_cmc_tables with that one variable set.
   Only memory safety is at stake: the answer is "done" whatever is found */
static int sw_cmc(int argc, char **argv)
   {
   BUFR_Tables *t; char *v;
   if (argc != 3 || !(v = hexarg(argv[2]))) { fputs("bad-op", bvp_out); return 0; }
   unsetenv("BUFR_TABLES"); unsetenv("AFSISIO"); unsetenv("WMO_BUFR_TABLES");
   setenv(argv[1], v, 1);
   t = bufr_create_tables();
   (void)bufr_load_cmc_tables(t);
   bufr_free_tables(t);
   unsetenv(argv[1]);
   free(v);
   fputs("done", bvp_out);
   return 0;
   }

/* sw.loadtmpl <hex path> / sw.loaddata <hex path> / sw.genmsgs <hex in> <hex out>: the file readers that
   quote the file name in their messages (used with paths that do not exist: answer "done") */
static int sw_loadtmpl(int argc, char **argv)
   {
   char *p; BUFR_Template *t;
   if (argc != 2 || !cur_tables || !(p = hexarg(argv[1]))) { fputs("bad-op", bvp_out); return 0; }
   t = bufr_load_template(p, cur_tables);
   if (t) bufr_free_template(t);
   free(p);
   fputs("done", bvp_out);
   return 0;
   }
static int sw_loaddata(int argc, char **argv)
   {
   char *p;
   if (argc != 2 || !cur_dts || !(p = hexarg(argv[1]))) { fputs("bad-op", bvp_out); return 0; }
   (void)bufr_load_dataset(cur_dts, p);
   free(p);
   fputs("done", bvp_out);
   return 0;
   }
static int sw_genmsgs(int argc, char **argv)
   {
   char *p, *q;
   if (argc != 3 || !cur_tmpl || !(p = hexarg(argv[1])) || !(q = hexarg(argv[2]))) { fputs("bad-op", bvp_out); return 0; }
   (void)bufr_genmsgs_from_dump(cur_tmpl, p, q, 0);
   free(p); free(q);
   fputs("done", bvp_out);
   return 0;
   }

/* sp.fmt <hex format> <arg>...: the C library's own snprintf, one directive at a time with an argument of
   exactly the announced type: i:<int> u:<unsigned> l:<long long> ul:<unsigned long long> d:<hex16 double>
   f:<hex8 float> s:<hex string> p:<pointer value>.  Answers the hex of the text (tie of BufrModel/Sprintf.lean) */
static int sp_fmt(int argc, char **argv)
   {
   char *fmt, *q; int ai = 2; size_t cap = 1 << 16, len = 0; char *out;
   if (argc < 2 || !(fmt = hexarg(argv[1]))) { fputs("bad-op", bvp_out); return 0; }
   out = (char *)malloc(cap);
   out[0] = 0;
   q = fmt;
   while (*q)
      {
      char *st = q, save; int r = 0; size_t room = cap - len;
      if (*q != '%') { if (room > 1) { out[len++] = *q; out[len] = 0; } q++; continue; }
      q++;
      while (*q && !strchr("diouxXcsfFeEgGaApn%", *q)) q++;
      if (!*q) break;
      q++;
      save = *q; *q = 0;
      if (q[-1] == '%') r = snprintf(out + len, room, "%s", "%");
      else if (ai >= argc) { *q = save; break; }
      else
         {
         char *a = argv[ai++];
         if (!strncmp(a, "i:", 2)) r = snprintf(out + len, room, st, (int)strtoll(a + 2, NULL, 10));
         else if (!strncmp(a, "u:", 2)) r = snprintf(out + len, room, st, (unsigned)strtoull(a + 2, NULL, 10));
         else if (!strncmp(a, "l:", 2)) r = snprintf(out + len, room, st, (long long)strtoll(a + 2, NULL, 10));
         else if (!strncmp(a, "ul:", 3)) r = snprintf(out + len, room, st, (unsigned long long)strtoull(a + 3, NULL, 10));
         else if (!strncmp(a, "d:", 2)) r = snprintf(out + len, room, st, u2d(strtoull(a + 2, NULL, 16)));
         else if (!strncmp(a, "f:", 2)) r = snprintf(out + len, room, st, (double)u2f((uint32_t)strtoul(a + 2, NULL, 16)));
         else if (!strncmp(a, "p:", 2)) r = snprintf(out + len, room, st, (void *)(uintptr_t)strtoull(a + 2, NULL, 10));
         else if (!strncmp(a, "s:", 2)) { char *sv = hexarg(a + 2); r = snprintf(out + len, room, st, sv ? sv : ""); free(sv); }
         }
      *q = save;
      if (r < 0) break;
      len += ((size_t)r < room) ? (size_t)r : room - 1;
      }
   bvp_print_hex((unsigned char *)out, len);
   free(out); free(fmt);
   return 0;
   }

struct op_entry ops_switch[] = {
   { "sw.set", sw_set }, { "sw.mark", sw_mark }, { "sw.get", sw_get }, { "sw.diag", sw_diag }, { "ss.setd", ss_setd },
   { "sw.fetchB", sw_fetchB }, { "sw.fetchD", sw_fetchD }, { "sw.vprint", sw_vprint }, { "sw.cmc", sw_cmc },
   { "sw.loadtmpl", sw_loadtmpl }, { "sw.loaddata", sw_loaddata }, { "sw.genmsgs", sw_genmsgs }, { "sp.fmt", sp_fmt },
   { NULL, NULL } };
