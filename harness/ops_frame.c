#define _GNU_SOURCE
#include "bvp.h"
#include <unistd.h>
#include <sys/mman.h>
#include <sys/types.h>
#include <limits.h>
/* C06: framing.  A bare BUFR_Message is built through the public structure and API
 * (bufr_create_message, bufr_sect2_set_data, bufr_putstring/putbits, bufr_end_message),
 * written through the four writers and read back through the four readers. */

extern int bufr_swrite_message(int fd, BUFR_Message *bufr);
extern int bufr_sread_message(int fd, BUFR_Message **rtrn);

static BUFR_Message *cm = NULL;   /* current message (being built / to be written) */
static BUFR_Message *lm = NULL;   /* last message read */
static int dirty = 1;             /* lengths not recomputed since the last change */
static int cm_isread = 0;         /* the current message came from a reader (msg.adopt) */

void frame_reset(void)
   {
   if (cm && !bvp_poisoned) bufr_free_message(cm);
   if (lm && !bvp_poisoned) bufr_free_message(lm);
   cm = lm = NULL;
   dirty = 1;
   cm_isread = 0;
   }

static int bad(void) { fputs("bad-op", bvp_out); return 0; }

static int parse_nat(const char *s, long max, long *out)
   {
   char *e; long v;
   if (*s < '0' || *s > '9') return -1;
   v = strtol(s, &e, 10);
   if (*e || v < 0 || v > max) return -1;
   *out = v;
   return 0;
   }

/* ------------------------------------------------------------------ building */

static int m_new(int argc, char **argv)
   {
   long ed;
   if (argc != 2 || parse_nat(argv[1], 1000000, &ed)) return bad();
   if (cm) bufr_free_message(cm);
   cm = bufr_create_message((int)ed);
   bufr_alloc_sect4(cm, 64);
   bufr_begin_message(cm);
   dirty = 1;
   cm_isread = 0;
   fputs("ok", bvp_out);
   return 0;
   }

static int m_s1(int argc, char **argv)
   {
   int i;
   if (!cm || argc < 2) return bad();
   /* validate everything first so that a bad-op changes nothing */
   for (i = 1; i < argc; i++)
      {
      char *eq = strchr(argv[i], '=');
      long v;
      if (!eq) return bad();
      if (strncmp(argv[i], "data=", 5) == 0)
         {
         unsigned char *b; int n = bvp_parse_hex(eq + 1, &b);
         if (n < 0) return bad();
         free(b);
         continue;
         }
      if (strncmp(argv[i], "centre=", 7) == 0 || strncmp(argv[i], "len=", 4) == 0)
         { if (parse_nat(eq + 1, 2147483647L, &v)) return bad(); }
      else if (parse_nat(eq + 1, 32767, &v)) return bad();
      }
   for (i = 1; i < argc; i++)
      {
      char *eq = strchr(argv[i], '=');
      long v = 0;
      size_t kl = (size_t)(eq - argv[i]);
      BufrSection1 *s = &cm->s1;
#define KEY(name) (kl == strlen(name) && strncmp(argv[i], name, kl) == 0)
      if (KEY("data"))
         {
         unsigned char *b; int n = bvp_parse_hex(eq + 1, &b);
         if (s->data) free(s->data);
         s->data = NULL; s->data_len = 0;
         if (n > 0) { s->data = b; s->data_len = n; } else free(b);
         continue;
         }
      v = strtol(eq + 1, NULL, 10);
      if      (KEY("mt"))     s->bufr_master_table = (short)v;
      else if (KEY("centre")) s->orig_centre = (int)v;
      else if (KEY("sub"))    s->orig_sub_centre = (short)v;
      else if (KEY("upd"))    s->upd_seq_no = (short)v;
      else if (KEY("flag"))   s->flag = (short)v;
      else if (KEY("type"))   s->msg_type = (short)v;
      else if (KEY("isub"))   s->msg_inter_subtype = (short)v;
      else if (KEY("lsub"))   s->msg_local_subtype = (short)v;
      else if (KEY("mver"))   s->master_table_version = (short)v;
      else if (KEY("lver"))   s->local_table_version = (short)v;
      else if (KEY("year"))   s->year = (short)v;
      else if (KEY("month"))  s->month = (short)v;
      else if (KEY("day"))    s->day = (short)v;
      else if (KEY("hour"))   s->hour = (short)v;
      else if (KEY("minute")) s->minute = (short)v;
      else if (KEY("second")) s->second = (short)v;
      else if (KEY("len"))    s->len = (int)v;
      else return bad();
#undef KEY
      }
   dirty = 1;
   fputs("ok", bvp_out);
   return 0;
   }

static int m_s2(int argc, char **argv)
   {
   unsigned char *b; int n;
   if (!cm || argc != 2 || (n = bvp_parse_hex(argv[1], &b)) < 0) return bad();
   bufr_sect2_set_data(cm, (char *)b, n);
   free(b);
   dirty = 0;
   fputs("ok", bvp_out);
   return 0;
   }

static int m_s3(int argc, char **argv)
   {
   long ns, fl, d; int i;
   if (!cm || argc < 3 || parse_nat(argv[1], 2147483647L, &ns) || parse_nat(argv[2], 255, &fl)) return bad();
   for (i = 3; i < argc; i++) if (parse_nat(argv[i], 2147483647L, &d)) return bad();
   BUFR_SET_NB_DATASET(cm, (int)ns);
   cm->s3.flag = (unsigned char)fl;
   arr_del(cm->s3.desc_list, arr_count(cm->s3.desc_list));
   for (i = 3; i < argc; i++)
      {
      int di;
      parse_nat(argv[i], 2147483647L, &d);
      di = (int)d;
      arr_add(cm->s3.desc_list, (char *)&di);
      }
   dirty = 1;
   fputs("ok", bvp_out);
   return 0;
   }

static int m_s4(int argc, char **argv)
   {
   unsigned char *b; int n; long k = 0;
   if (!cm || cm_isread || argc < 2 || argc > 3 || (n = bvp_parse_hex(argv[1], &b)) < 0) return bad();
   if (argc == 3 && (parse_nat(argv[2], 7, &k) || k == 0)) { free(b); return bad(); }
   if (n > 0) bufr_putstring(cm, (char *)b, n);
   if (k > 0) bufr_putbits(cm, (1u << k) - 1, (int)k);
   free(b);
   dirty = 1;
   fputs("ok", bvp_out);
   return 0;
   }

static int m_header(int argc, char **argv)
   {
   unsigned char *b; int n;
   if (!cm || argc != 2) return bad();
   if (strcmp(argv[1], "none") == 0)
      {
      if (cm->header_string) free(cm->header_string);
      cm->header_string = NULL; cm->header_len = 0;
      fputs("ok", bvp_out);
      return 0;
      }
   if ((n = bvp_parse_hex(argv[1], &b)) < 0) return bad();
   if (memchr(b, 0, n)) { free(b); return bad(); }   /* header_string is a C string */
   if (cm->header_string) free(cm->header_string);
   cm->header_string = (char *)malloc(n + 1);
   memcpy(cm->header_string, b, n);
   cm->header_string[n] = 0;
   cm->header_len = n;
   free(b);
   fputs("ok", bvp_out);
   return 0;
   }

static int m_end(int argc, char **argv)
   {
   (void)argv;
   if (!cm || argc != 1) return bad();
   bufr_end_message(cm);
   dirty = 0;
   fprintf(bvp_out, "%u %d %d %d %u %u %u", cm->len_msg, cm->s1.len, cm->s2.len, cm->s3.len,
           cm->s4.len, cm->s4.filled, (unsigned)cm->s4.bitno);
   return 0;
   }

/* ------------------------------------------------------------------ canonical print */

static void show(BUFR_Message *m, int reading)
   {
   BufrSection1 *s = &m->s1;
   int i, n;
   long s3n, s4n;
   fprintf(bvp_out, "ed=%d len=%u s1=%d,%d,%d,%d,%d,%d,%d,%d,%d,%d,%d,%d,%d,%d,%d,%d,%d,%d s1d=",
           m->edition, m->len_msg, s->len, s->header_len, s->bufr_master_table, s->orig_centre,
           s->orig_sub_centre, s->upd_seq_no, s->flag, s->msg_type, s->msg_inter_subtype,
           s->msg_local_subtype, s->master_table_version, s->local_table_version, s->year,
           s->month, s->day, s->hour, s->minute, s->second);
   bvp_print_hex(s->data, s->data_len > 0 ? (size_t)s->data_len : 0);
   fprintf(bvp_out, " s2=%d,", m->s2.len);
   bvp_print_hex(m->s2.data, (m->s2.data && m->s2.data_len > 0) ? (size_t)m->s2.data_len : 0);
   fprintf(bvp_out, " s3=%d,%d,%d d=", m->s3.len, m->s3.no_data_subsets, (int)m->s3.flag);
   n = arr_count(m->s3.desc_list);
   if (n == 0) fputs("-", bvp_out);
   for (i = 0; i < n; i++)
      fprintf(bvp_out, "%s%d", i ? "," : "", *(int *)arr_get(m->s3.desc_list, i));
   /* the octets of s3.data / s4.data that the lengths designate */
   s3n = (long)m->s3.len - m->s3.header_len;
   if (s3n < 0 || s3n > m->s3.max_len) s3n = (m->s3.max_len > 0) ? m->s3.max_len : 0;
   fputs(" s3d=", bvp_out);
   bvp_print_hex(m->s3.data, m->s3.data ? (size_t)s3n : 0);
   if (reading) s4n = (long)m->s4.len - m->s4.header_len;
   else s4n = (long)m->s4.filled + (m->s4.bitno ? 1 : 0);
   if (s4n < 0) s4n = 0;
   fprintf(bvp_out, " s4=%u,%u,%u,", m->s4.len, m->s4.filled, (unsigned)m->s4.bitno);
   bvp_print_hex(m->s4.data, m->s4.data ? (size_t)s4n : 0);
   fputs(" h=", bvp_out);
   if (m->header_string == NULL) fputs("none", bvp_out);
   else bvp_print_hex((unsigned char *)m->header_string, (size_t)m->header_len);
   }

static int m_show(int argc, char **argv)
   {
   (void)argv;
   if (!cm || argc != 1) return bad();
   show(cm, cm_isread);
   return 0;
   }

/* ------------------------------------------------------------------ writers */

struct acc { unsigned char *p; size_t n, cap; };
static ssize_t acc_write(void *cd, size_t len, const char *buf)
   {
   struct acc *a = (struct acc *)cd;
   if (a->n + len > a->cap)
      {
      a->cap = (a->n + len) * 2 + 64;
      a->p = (unsigned char *)realloc(a->p, a->cap);
      }
   if (len) memcpy(a->p + a->n, buf, len);
   a->n += len;
   return (ssize_t)len;
   }

static int mk_fd(void)
   {
   int fd = memfd_create("bvp", 0);
   if (fd < 0)
      {
      FILE *t = tmpfile();
      if (!t) return -1;
      fd = dup(fileno(t));
      fclose(t);
      }
   return fd;
   }

static int m_write(int argc, char **argv)
   {
   const char *path;
   long buflen = -1;
   if (!cm || argc < 2 || argc > 3) return bad();
   if (argc == 3 && parse_nat(argv[2], 100000000L, &buflen)) return bad();
   if (dirty && cm->len_msg <= BUFR_MAX_MSG_LEN) { fputs("stale", bvp_out); return 0; }
   path = argv[1];
   if (strcmp(path, "cb") == 0)
      {
      struct acc a = { NULL, 0, 0 };
      int rc = bufr_callback_write_message(acc_write, &a, cm);
      fprintf(bvp_out, "%d ", rc);
      bvp_print_hex(a.p, a.n);
      free(a.p);
      }
   else if (strcmp(path, "mem") == 0)
      {
      struct acc a = { NULL, 0, 0 };
      unsigned char *buf; size_t cap; ssize_t rc;
      if (buflen < 0)
         {
         /* size the buffer exactly: one pass through a counting callback */
         if (bufr_callback_write_message(acc_write, &a, cm) < 0) { free(a.p); fputs("-1 -", bvp_out); return 0; }
         cap = a.n;
         free(a.p);
         }
      else cap = (size_t)buflen;
      buf = (unsigned char *)malloc(cap ? cap : 1);
      memset(buf, 0xEE, cap ? cap : 1);
      rc = bufr_memwrite_message((char *)buf, cap, cm);
      fprintf(bvp_out, "%ld ", (long)rc);
      bvp_print_hex(buf, rc > 0 ? (size_t)rc : 0);
      free(buf);
      }
   else if (strcmp(path, "file") == 0)
      {
      FILE *fp = tmpfile();
      int rc; long n; unsigned char *buf;
      if (!fp) { fputs("io-error", bvp_out); return 0; }
      rc = bufr_write_message(fp, cm);
      n = ftell(fp);
      rewind(fp);
      buf = (unsigned char *)malloc(n > 0 ? n : 1);
      if (n > 0 && fread(buf, 1, n, fp) != (size_t)n) { fputs("io-error", bvp_out); fclose(fp); free(buf); return 0; }
      fprintf(bvp_out, "%d ", rc);
      bvp_print_hex(buf, n > 0 ? (size_t)n : 0);
      free(buf);
      fclose(fp);
      }
   else if (strcmp(path, "fd") == 0)
      {
      int fd = mk_fd();
      int rc; off_t n; unsigned char *buf;
      if (fd < 0) { fputs("io-error", bvp_out); return 0; }
      rc = bufr_swrite_message(fd, cm);
      n = lseek(fd, 0, SEEK_CUR);
      buf = (unsigned char *)malloc(n > 0 ? n : 1);
      if (n > 0 && pread(fd, buf, n, 0) != n) { fputs("io-error", bvp_out); close(fd); free(buf); return 0; }
      fprintf(bvp_out, "%d ", rc);
      bvp_print_hex(buf, n > 0 ? (size_t)n : 0);
      free(buf);
      close(fd);
      }
   else return bad();
   return 0;
   }

/* ------------------------------------------------------------------ readers */

struct cur { const unsigned char *p; size_t n, pos, chunk; };
/* user callback.  chunk == 0: the device hands out at most 3 bytes at a time and the
 * callback loops until it has `len` bytes or the device is exhausted (what the library's own
 * fd/stdio callbacks do).  chunk > 0: the callback itself returns at most `chunk` bytes. */
static ssize_t cur_read(void *cd, size_t len, char *buf)
   {
   struct cur *c = (struct cur *)cd;
   size_t got = 0;
   if (c->chunk > 0)
      {
      size_t k = len < c->chunk ? len : c->chunk;
      if (k > c->n - c->pos) k = c->n - c->pos;
      if (k) memcpy(buf, c->p + c->pos, k);
      c->pos += k;
      return (ssize_t)k;
      }
   while (got < len && c->pos < c->n)
      {
      size_t k = len - got;
      if (k > 3) k = 3;
      if (k > c->n - c->pos) k = c->n - c->pos;
      memcpy(buf + got, c->p + c->pos, k);
      c->pos += k; got += k;
      }
   return (ssize_t)got;
   }

/* a reader over the whole input: open, next (rc, consumed by this call), close */
struct rd
   {
   int kind;            /* 0 file 1 fd 2 mem 3 cb */
   FILE *fp; int fd;
   const unsigned char *p; size_t n, off;
   struct cur c;
   };

static int rd_open(struct rd *r, const char *path, const unsigned char *b, size_t n)
   {
   memset(r, 0, sizeof *r);
   r->p = b; r->n = n; r->off = 0; r->fd = -1;
   if (strcmp(path, "file") == 0)
      {
      r->kind = 0;
      r->fp = tmpfile();
      if (!r->fp) return -1;
      if (n && fwrite(b, 1, n, r->fp) != n) return -1;
      rewind(r->fp);
      }
   else if (strcmp(path, "fd") == 0)
      {
      r->kind = 1;
      r->fd = mk_fd();
      if (r->fd < 0) return -1;
      if (n && write(r->fd, b, n) != (ssize_t)n) return -1;
      lseek(r->fd, 0, SEEK_SET);
      }
   else if (strcmp(path, "mem") == 0) r->kind = 2;
   else if (strncmp(path, "cb", 2) == 0)
      {
      long k = 0;
      if (path[2] && parse_nat(path + 2, 1000000, &k)) return -2;
      r->kind = 3;
      r->c.p = b; r->c.n = n; r->c.pos = 0; r->c.chunk = (size_t)k;
      }
   else return -2;
   return 0;
   }

static long rd_next(struct rd *r, BUFR_Message **m, long *consumed)
   {
   long rc;
   *m = NULL;
   switch (r->kind)
      {
      case 0: {
         long a = ftell(r->fp);
         rc = bufr_read_message(r->fp, m);
         *consumed = ftell(r->fp) - a;
         break; }
      case 1: {
         off_t a = lseek(r->fd, 0, SEEK_CUR);
         rc = bufr_sread_message(r->fd, m);
         *consumed = (long)(lseek(r->fd, 0, SEEK_CUR) - a);
         break; }
      case 2: {
         ssize_t k = bufr_memread_message((const char *)r->p + r->off, r->n - r->off, m);
         rc = (long)k;
         *consumed = k > 0 ? (long)k : 0;
         if (k > 0) r->off += (size_t)k;
         break; }
      default: {
         size_t a = r->c.pos;
         rc = bufr_callback_read_message(cur_read, &r->c, m);
         *consumed = (long)(r->c.pos - a);
         break; }
      }
   return rc;
   }

static void rd_close(struct rd *r)
   {
   if (r->fp) fclose(r->fp);
   if (r->fd >= 0) close(r->fd);
   }

/* the return value says "a message was read": >0.  For the memory reader it is the byte count. */
static int m_read(int argc, char **argv)
   {
   unsigned char *b; int n; struct rd r; BUFR_Message *m; long rc, consumed; int e;
   if (argc != 3 || (n = bvp_parse_hex(argv[2], &b)) < 0) return bad();
   e = rd_open(&r, argv[1], b, (size_t)n);
   if (e) { rd_close(&r); free(b); if (e == -2) return bad(); fputs("io-error", bvp_out); return 0; }
   rc = rd_next(&r, &m, &consumed);
   if (rc > 0 && m)
      {
      fprintf(bvp_out, "%d %ld ", 1, consumed);
      show(m, 1);
      if (lm) bufr_free_message(lm);
      lm = m;
      }
   else fprintf(bvp_out, "%ld -", rc < 0 ? -1L : 0L);
   rd_close(&r);
   free(b);
   return 0;
   }

static int m_readall(int argc, char **argv)
   {
   unsigned char *b; int n; struct rd r; BUFR_Message *m; long rc, consumed; int e, count = 0;
   if (argc != 3 || (n = bvp_parse_hex(argv[2], &b)) < 0) return bad();
   e = rd_open(&r, argv[1], b, (size_t)n);
   if (e) { rd_close(&r); free(b); if (e == -2) return bad(); fputs("io-error", bvp_out); return 0; }
   while ((rc = rd_next(&r, &m, &consumed)) > 0 && m && count < 10000)
      {
      fprintf(bvp_out, "%s%ld ", count ? " | " : "", consumed);
      show(m, 1);
      if (lm) bufr_free_message(lm);
      lm = m;
      count++;
      }
   fprintf(bvp_out, "%sn=%d rc=%ld", count ? " | " : "", count, rc < 0 ? -1L : 0L);
   rd_close(&r);
   free(b);
   return 0;
   }

/* make the last message read the current one (to write it again without bufr_end_message) */
static int m_adopt(int argc, char **argv)
   {
   (void)argv;
   if (argc != 1 || !lm) return bad();
   if (cm) bufr_free_message(cm);
   cm = lm; lm = NULL;
   dirty = 0;
   cm_isread = 1;
   fputs("ok", bvp_out);
   return 0;
   }

/* Section 1 through bufr_copy_sect1 into a new message of the same edition */
static int m_s1copy(int argc, char **argv)
   {
   BUFR_Message *n;
   (void)argv;
   if (argc != 1 || !cm) return bad();
   n = bufr_create_message(cm->edition);
   bufr_copy_sect1(&n->s1, &cm->s1);
   show(n, 0);
   bufr_free_message(n);
   return 0;
   }

struct op_entry ops_frame[] = {
   { "msg.new", m_new }, { "msg.s1", m_s1 }, { "msg.s2", m_s2 }, { "msg.s3", m_s3 }, { "msg.s4", m_s4 },
   { "msg.header", m_header }, { "msg.end", m_end }, { "msg.show", m_show }, { "msg.write", m_write },
   { "msg.read", m_read }, { "msg.readall", m_readall }, { "msg.adopt", m_adopt }, { "msg.s1copy", m_s1copy },
   { NULL, NULL } };
