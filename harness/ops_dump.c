#define _GNU_SOURCE
#include "bvp.h"
#include "bufr_template.h"
#include "bufr_dataset.h"
#include "bufr_desc.h"
#include "bufr_value.h"
#include "bufr_af.h"
#include <locale.h>
/* C13: the text dump of a dataset (bufr_fdump_dataset) and its loader (bufr_read_dataset_dump,
 * driven the way bufr_genmsgs_from_dump drives it: ONE dataset object of the template, read
 * again and again until the reader returns <= 0, each loaded dataset encoded at once).
 *
 * Number formatting: the library never calls setlocale(); neither does this harness, so the
 * process runs in the "C" locale whatever LC_* the environment carries.  dump_reset() pins
 * LC_ALL to "C" explicitly so that this stays true if a later harness file changes that. */

extern BUFR_Tables   *cur_tables;
extern BUFR_Template *cur_tmpl;
extern BUFR_Dataset  *cur_dts;
BUFR_Dataset *bvp_dec_dts(void);
void bvp_fmt_nodes(BufrDescriptor **pb, int count);
void bvp_fmt_vals(DataSubset *s);

#define MAXLD 16
#define MAXDUMPS 64
static unsigned char *dumps[MAXDUMPS]; static size_t dumplen[MAXDUMPS]; static int ndumps = 0;
struct ldrec { int nsub; char **list; char **vals; char *hdr; char *msg; };
static struct ldrec ld[MAXLD];
static int nld = 0;

static void ld_free(void)
   {
   int i, k;
   for (i = 0; i < nld; i++)
      {
      for (k = 0; k < ld[i].nsub; k++) { free(ld[i].list[k]); free(ld[i].vals[k]); }
      free(ld[i].list); free(ld[i].vals); free(ld[i].hdr); free(ld[i].msg);
      }
   nld = 0;
   }

unsigned char *bvp_last_msg = NULL; int bvp_last_msg_len = -1;

void dump_reset(void)
   {
   int i;
   ld_free();
   free(bvp_last_msg); bvp_last_msg = NULL; bvp_last_msg_len = -1;
   for (i = 0; i < ndumps; i++) free(dumps[i]);
   ndumps = 0;
   bufr_set_trimzero(1);
   setlocale(LC_ALL, "C");
   }

static int bad(void) { fputs("bad-op", bvp_out); return 0; }

static BUFR_Dataset *which_dts(const char *w)
   {
   if (strcmp(w, "s") == 0) return cur_dts;
   if (strcmp(w, "d") == 0) return bvp_dec_dts();
   return NULL;
   }

/* capture what a formatting function prints to bvp_out */
static char *capture_begin_buf; static size_t capture_sz; static FILE *capture_saved;
static void capture_begin(void) { capture_saved = bvp_out; bvp_out = open_memstream(&capture_begin_buf, &capture_sz); }
static char *capture_end(void) { fclose(bvp_out); bvp_out = capture_saved; return capture_begin_buf; }

static void fmt_hdr(BUFR_Dataset *d)
   {
   BufrSection1 *s = &d->s1;
   fprintf(bvp_out, "mt=%d centre=%d sub=%d upd=%d type=%d isub=%d lsub=%d mver=%d lver=%d year=%d month=%d day=%d hour=%d minute=%d second=%d flag=%d hs=",
           (int)s->bufr_master_table, (int)s->orig_centre, (int)s->orig_sub_centre, (int)s->upd_seq_no, (int)s->msg_type,
           (int)s->msg_inter_subtype, (int)s->msg_local_subtype, (int)s->master_table_version, (int)s->local_table_version,
           (int)s->year, (int)s->month, (int)s->day, (int)s->hour, (int)s->minute, (int)s->second, d->data_flag);
   if (d->header_string) bvp_print_hex((const unsigned char *)d->header_string, strlen(d->header_string));
   else fputs("none", bvp_out);
   }

/* the whole message bufr_encode_message builds, as bufr_memwrite_message serialises it */
static void fmt_msg(BUFR_Dataset *d, int compress)
   {
   BUFR_Message *m = bufr_encode_message(d, compress);
   size_t cap; unsigned char *buf; ssize_t rc;
   if (!m) { fputs("null", bvp_out); return; }
   cap = (size_t)m->len_msg + (size_t)m->header_len + 64;
   if (m->len_msg > (1u << 26)) { fputs("toolong", bvp_out); bufr_free_message(m); return; }
   buf = (unsigned char *)malloc(cap);
   rc = bufr_memwrite_message((char *)buf, cap, m);
   if (rc < 0) fprintf(bvp_out, "werr");
   else bvp_print_hex(buf, (size_t)rc);
   /* kept for `ds.decodemsg @` (C07 chains: decode the message just written) */
   free(bvp_last_msg); bvp_last_msg = NULL; bvp_last_msg_len = -1;
   if (rc >= 0) { bvp_last_msg = buf; bvp_last_msg_len = (int)rc; buf = NULL; }
   free(buf);
   bufr_free_message(m);
   }

/* ds.hdr <s|d> key=value ... : Section 1 fields and the data flag of a dataset */
static int ds_hdr(int argc, char **argv)
   {
   BUFR_Dataset *d; int i;
   if (argc < 2 || !(d = which_dts(argv[1]))) { fputs("none", bvp_out); return 0; }
   for (i = 2; i < argc; i++)
      {
      char *eq = strchr(argv[i], '='); char *e; long v;
      if (!eq || !eq[1]) return bad();
      v = strtol(eq + 1, &e, 10);
      if (*e || v < -2147483647L || v > 2147483647L) return bad();
      }
   for (i = 2; i < argc; i++)
      {
      char *eq = strchr(argv[i], '=');
      long v = strtol(eq + 1, NULL, 10);
      size_t kl = (size_t)(eq - argv[i]);
#define KEY(name) (kl == strlen(name) && strncmp(argv[i], name, kl) == 0)
      if      (KEY("mt"))     d->s1.bufr_master_table = (int)v;
      else if (KEY("centre")) BUFR_SET_ORIG_CENTRE(d, (int)v);
      else if (KEY("sub"))    BUFR_SET_SUB_CENTRE(d, (int)v);
      else if (KEY("upd"))    BUFR_SET_UPD_SEQUENCE(d, (int)v);
      else if (KEY("type"))   BUFR_SET_DATA_CATEGORY(d, (int)v);
      else if (KEY("isub"))   BUFR_SET_INTERN_SUB_CAT(d, (int)v);
      else if (KEY("lsub"))   BUFR_SET_LOCAL_SUB_CAT(d, (int)v);
      else if (KEY("mver"))   BUFR_SET_MSTR_TBL_VRSN(d, (int)v);
      else if (KEY("lver"))   BUFR_SET_LOCAL_TBL_VRSN(d, (int)v);
      else if (KEY("year"))   BUFR_SET_YEAR(d, (int)v);
      else if (KEY("month"))  BUFR_SET_MONTH(d, (int)v);
      else if (KEY("day"))    BUFR_SET_DAY(d, (int)v);
      else if (KEY("hour"))   BUFR_SET_HOUR(d, (int)v);
      else if (KEY("minute")) BUFR_SET_MINUTE(d, (int)v);
      else if (KEY("second")) BUFR_SET_SECOND(d, (int)v);
      else if (KEY("flag"))   d->data_flag = (int)v;
      else return bad();
#undef KEY
      }
   fmt_hdr(d);
   return 0;
   }

/* ds.hstr <s|d> <hex|none> : the header string of a dataset (a C string: stops at a NUL) */
static int ds_hstr(int argc, char **argv)
   {
   BUFR_Dataset *d; unsigned char *b; int n;
   if (argc != 3 || !(d = which_dts(argv[1]))) { fputs("none", bvp_out); return 0; }
   if (strcmp(argv[2], "none") == 0)
      {
      if (d->header_string) free(d->header_string);
      d->header_string = NULL;
      fputs("ok", bvp_out);
      return 0;
      }
   if ((n = bvp_parse_hex(argv[2], &b)) < 0) return bad();
   b[n] = 0;
   if (d->header_string) free(d->header_string);
   d->header_string = strdup((char *)b);
   free(b);
   fputs("ok", bvp_out);
   return 0;
   }

/* ds.s1data <s|d> <hex> : additional (local use) octets of Section 1, as the message reader leaves
 * them in a decoded dataset: data, data_len, and len = header_len + data_len */
static int ds_s1data(int argc, char **argv)
   {
   BUFR_Dataset *d; unsigned char *b; int n;
   if (argc != 3 || !(d = which_dts(argv[1]))) { fputs("none", bvp_out); return 0; }
   if ((n = bvp_parse_hex(argv[2], &b)) < 0) return bad();
   if (d->s1.data) free(d->s1.data);
   d->s1.data = NULL; d->s1.data_len = 0;
   if (n > 0) { d->s1.data = b; d->s1.data_len = n; } else free(b);
   d->s1.len = d->s1.header_len + d->s1.data_len;
   if (n == 0 && d->tmplte->edition < 4) d->s1.len = d->s1.header_len + 1;
   fprintf(bvp_out, "%d", d->s1.len);
   return 0;
   }

/* ds.dump <s|d> <trimzero> : hex of the text bufr_fdump_dataset writes, and its return value */
static int ds_dump(int argc, char **argv)
   {
   BUFR_Dataset *d; FILE *fp; long sz; unsigned char *buf; int rc;
   if (argc != 3) return bad();
   if (!(d = which_dts(argv[1]))) { fputs("none", bvp_out); return 0; }
   bufr_set_trimzero(atoi(argv[2]));
   fp = tmpfile();
   if (!fp) { fputs("ioerr", bvp_out); return 0; }
   rc = bufr_fdump_dataset(d, fp);
   fflush(fp);
   sz = ftell(fp);
   rewind(fp);
   buf = (unsigned char *)malloc((size_t)sz + 1);
   if (sz > 0 && fread(buf, 1, (size_t)sz, fp) != (size_t)sz) { fputs("ioerr", bvp_out); free(buf); fclose(fp); return 0; }
   fclose(fp);
   fprintf(bvp_out, "%d ", rc);
   bvp_print_hex(buf, (size_t)sz);
   if (ndumps < MAXDUMPS) { dumps[ndumps] = buf; dumplen[ndumps] = (size_t)sz; ndumps++; }
   else free(buf);
   return 0;
   }

/* ds.msg <s|d> <compress> : the message the dataset encodes to (Sections 0-5, header string first) */
static int ds_msg(int argc, char **argv)
   {
   BUFR_Dataset *d;
   if (argc != 3) return bad();
   if (!(d = which_dts(argv[1]))) { fputs("none", bvp_out); return 0; }
   fmt_msg(d, atoi(argv[2]));
   return 0;
   }

/* ds.loadtext <s|d> <compress> <hex> : bufr_genmsgs_from_dump on a memory file.  One dataset of the
 * template of <s|d> is read again and again; each loaded dataset is listed and encoded at once.
 * prints: <datasets loaded> <status of the last read> */
static int ds_loadtext(int argc, char **argv)
   {
   BUFR_Dataset *src, *dts; BUFR_Template *t; FILE *fp; unsigned char *b; int n, st = 0, compress;
   if (argc != 4) return bad();
   src = which_dts(argv[1]);
   t = src ? bufr_get_dataset_template(src) : (strcmp(argv[1], "s") == 0 ? cur_tmpl : NULL);
   if (!t) { fputs("none", bvp_out); return 0; }
   if (strcmp(argv[3], "@") == 0)
      {
      /* every text dumped since `reset`, one after the other */
      size_t tot = 0; int i;
      for (i = 0; i < ndumps; i++) tot += dumplen[i];
      b = (unsigned char *)malloc(tot + 16);
      n = 0;
      for (i = 0; i < ndumps; i++) { memcpy(b + n, dumps[i], dumplen[i]); n += (int)dumplen[i]; }
      }
   else if ((n = bvp_parse_hex(argv[3], &b)) < 0) return bad();
   compress = atoi(argv[2]);
   ld_free();
   fp = tmpfile();
   if (!fp) { free(b); fputs("ioerr", bvp_out); return 0; }
   if (n) fwrite(b, 1, (size_t)n, fp);
   free(b);
   rewind(fp);
   dts = bufr_create_dataset(t);
   /* bufr_create_dataset stamps the current time: make the start state reproducible */
   dts->s1.year = dts->s1.month = dts->s1.day = dts->s1.hour = dts->s1.minute = dts->s1.second = 0;
   while ((st = bufr_read_dataset_dump(dts, fp)) > 0)
      {
      struct ldrec *r; int k;
      if (nld >= MAXLD) { st = -99; break; }
      r = &ld[nld];
      r->nsub = bufr_count_datasubset(dts);
      r->list = (char **)calloc((size_t)r->nsub + 1, sizeof(char *));
      r->vals = (char **)calloc((size_t)r->nsub + 1, sizeof(char *));
      nld++;
      for (k = 0; k < r->nsub; k++)
         {
         DataSubset *s = bufr_get_datasubset(dts, k);
         capture_begin();
         if (s && s->data) bvp_fmt_nodes((BufrDescriptor **)arr_get(s->data, 0), bufr_datasubset_count_descriptor(s));
         else fputs("none", bvp_out);
         r->list[k] = capture_end();
         capture_begin();
         if (s && s->data) bvp_fmt_vals(s); else fputs("none", bvp_out);
         r->vals[k] = capture_end();
         }
      capture_begin(); fmt_hdr(dts); r->hdr = capture_end();
      capture_begin(); fmt_msg(dts, compress); r->msg = capture_end();
      }
   fclose(fp);
   bufr_free_dataset(dts);
   fprintf(bvp_out, "%d %d", nld, st);
   return 0;
   }

/* ds.clear s : drop the constructed dataset; the next ss.new starts a new one of the same template */
static int ds_clear(int argc, char **argv)
   {
   if (argc != 2 || strcmp(argv[1], "s") != 0) return bad();
   if (cur_dts) bufr_free_dataset(cur_dts);
   cur_dts = NULL;
   fputs("ok", bvp_out);
   return 0;
   }

static struct ldrec *get_ld(const char *p)
   {
   int i = atoi(p);
   if (*p < '0' || *p > '9' || i < 0 || i >= nld) return NULL;
   return &ld[i];
   }

static int ld_nsub(int argc, char **argv)
   {
   struct ldrec *r;
   if (argc != 2) return bad();
   if (!(r = get_ld(argv[1]))) { fputs("none", bvp_out); return 0; }
   fprintf(bvp_out, "%d", r->nsub);
   return 0;
   }
static int ld_sub(int argc, char **argv, int vals)
   {
   struct ldrec *r; int k;
   if (argc != 3) return bad();
   if (!(r = get_ld(argv[1]))) { fputs("none", bvp_out); return 0; }
   k = atoi(argv[2]);
   if (argv[2][0] < '0' || argv[2][0] > '9' || k < 0 || k >= r->nsub) { fputs("none", bvp_out); return 0; }
   fputs(vals ? r->vals[k] : r->list[k], bvp_out);
   return 0;
   }
static int ld_list(int argc, char **argv) { return ld_sub(argc, argv, 0); }
static int ld_vals(int argc, char **argv) { return ld_sub(argc, argv, 1); }
static int ld_hdr(int argc, char **argv)
   {
   struct ldrec *r;
   if (argc != 2) return bad();
   if (!(r = get_ld(argv[1]))) { fputs("none", bvp_out); return 0; }
   fputs(r->hdr, bvp_out);
   return 0;
   }
static int ld_msg(int argc, char **argv)
   {
   struct ldrec *r;
   if (argc != 2) return bad();
   if (!(r = get_ld(argv[1]))) { fputs("none", bvp_out); return 0; }
   fputs(r->msg, bvp_out);
   return 0;
   }

struct op_entry ops_dump[] = {
   { "ds.hdr", ds_hdr }, { "ds.hstr", ds_hstr }, { "ds.s1data", ds_s1data }, { "ds.dump", ds_dump }, { "ds.msg", ds_msg }, { "ds.loadtext", ds_loadtext }, { "ds.clear", ds_clear },
   { "ld.nsub", ld_nsub }, { "ld.list", ld_list }, { "ld.vals", ld_vals }, { "ld.hdr", ld_hdr }, { "ld.msg", ld_msg },
   { NULL, NULL } };
