#define _GNU_SOURCE
#include "bvp.h"
#include "bufr_template.h"
#include "bufr_dataset.h"
#include "bufr_tables.h"
#include "bufr_local.h"
/* C20: local table update messages (bufr_store_tables / bufr_extract_tables).
 *
 *   lt.def <name> <base> <cat> <catdesc-hex> <entry>...   table set = base + local entries
 *   lt.use <name>                                          make it the current table set
 *   lt.dump <name>                                         the local arrays as held
 *   lt.store <name> <edition>                              bufr_store_tables -> message bytes
 *   lt.extract <with> <newname> <hex message>|last         read, decode with <with>, extract, install
 *
 * entries:  B:<desc>:<name-hex>:<unit-hex>:<scale>:<ref>:<width>     D:<desc>:<m1>,<m2>,...
 * A table set lives until `reset`. */

extern BUFR_Tables *cur_tables;
BUFR_Tables *bvp_find_set(const char *name);

#define LTMAX 32
static struct { char name[32]; BUFR_Tables *t; } lts[LTMAX];
static int nlts = 0;
static unsigned char *last_msg = NULL;    /* what the last lt.store printed */
static size_t last_len = 0;

void local_reset(void)
   {
   int i;
   for (i = 0; i < nlts; i++)
      {
      if (cur_tables == lts[i].t) cur_tables = NULL;
      bufr_free_tables(lts[i].t);
      }
   nlts = 0;
   free(last_msg); last_msg = NULL; last_len = 0;
   }

static int bad(void) { fputs("bad-op", bvp_out); return 0; }

static BUFR_Tables *lt_find(const char *name, int *is_lt)
   {
   int i;
   for (i = 0; i < nlts; i++)
      if (strcmp(lts[i].name, name) == 0) { if (is_lt) *is_lt = 1; return lts[i].t; }
   if (is_lt) *is_lt = 0;
   return bvp_find_set(name);
   }

static int lt_register(const char *name, BUFR_Tables *t)
   {
   int i;
   for (i = 0; i < nlts; i++)
      if (strcmp(lts[i].name, name) == 0)
         {
         if (cur_tables == lts[i].t) cur_tables = NULL;
         bufr_free_tables(lts[i].t);
         lts[i].t = t;
         return 0;
         }
   if (nlts >= LTMAX) return -1;
   strncpy(lts[nlts].name, name, 31);
   lts[nlts].name[31] = 0;
   lts[nlts].t = t;
   nlts++;
   return 0;
   }

static int parse_int(const char *s, long long lo, long long hi, long long *out)
   {
   char *e; long long v;
   if (!*s) return -1;
   if (!((*s >= '0' && *s <= '9') || (*s == '-' && s[1] >= '0' && s[1] <= '9'))) return -1;
   v = strtoll(s, &e, 10);
   if (*e || v < lo || v > hi) return -1;
   *out = v;
   return 0;
   }

/* a C string from hex; refuses embedded NUL */
static char *hex_cstr(const char *h)
   {
   unsigned char *b; int n = bvp_parse_hex(h, &b), i;
   if (n < 0) return NULL;
   for (i = 0; i < n; i++) if (b[i] == 0) { free(b); return NULL; }
   b[n] = 0;
   return (char *)b;
   }

static void print_cstr_hex(const char *s)
   {
   if (!s) { fputs("null", bvp_out); return; }
   bvp_print_hex((const unsigned char *)s, strlen(s));
   }

/* split "a:b:c" in place; returns the number of fields */
static int split(char *s, char sep, char **f, int max)
   {
   int n = 0;
   f[n++] = s;
   while (*s)
      {
      if (*s == sep) { *s = 0; if (n < max) f[n++] = s + 1; else return max + 1; }
      s++;
      }
   return n;
   }

/* the entries into the local arrays of a fresh BUFR_Tables, in the order given (as
 * bufr_extract_tables leaves them); NULL on a syntax error */
static BUFR_Tables *parse_entries(int n, char **tok)
   {
   BUFR_Tables *x = bufr_create_tables();
   int i;
   x->local.tableB = (EntryTableBArray)arr_create(100, sizeof(EntryTableB *), 100);
   x->local.tableD = (EntryTableDArray)arr_create(100, sizeof(EntryTableD *), 100);
   x->local.tableBtype = TYPE_ALLOCATED;
   x->local.tableDtype = TYPE_ALLOCATED;
   for (i = 0; i < n; i++)
      {
      char *f[8]; int nf; long long d, sc, rf, wd;
      char *copy = strdup(tok[i]);
      nf = split(copy, ':', f, 8);
      if (nf == 7 && strcmp(f[0], "B") == 0)
         {
         char *nm = hex_cstr(f[2]), *un = hex_cstr(f[3]);
         EntryTableB *e;
         if (!nm || !un || parse_int(f[1], 0, 999999, &d) || parse_int(f[4], -2147483647LL - 1, 2147483647LL, &sc) ||
             parse_int(f[5], -2147483647LL - 1, 2147483647LL, &rf) || parse_int(f[6], 0, 2147483647LL, &wd))
            { free(nm); free(un); free(copy); bufr_free_tables(x); return NULL; }
         e = bufr_new_EntryTableB();
         e->descriptor = (int)d;
         e->description = nm;
         e->unit = un;
         e->encoding.scale = (int)sc;
         e->encoding.reference = (int)rf;
         e->encoding.nbits = (int)wd;
         e->encoding.type = bufr_unit_to_datatype(un);       /* as every loader does */
         arr_add(x->local.tableB, (char *)&e);
         }
      else if (nf == 3 && strcmp(f[0], "D") == 0)
         {
         int codes[1100], nc = 0; char *p = f[2], *t; EntryTableD *e; int okk = 1;
         if (parse_int(f[1], 0, 999999, &d)) okk = 0;
         while (okk && (t = strsep(&p, ",")) != NULL)
            {
            long long m;
            if (!*t) continue;
            if (nc >= 1100 || parse_int(t, 0, 2147483647LL, &m)) { okk = 0; break; }
            codes[nc++] = (int)m;
            }
         if (!okk) { free(copy); bufr_free_tables(x); return NULL; }
         e = bufr_new_EntryTableD((int)d, NULL, 0, codes, nc);
         arr_add(x->local.tableD, (char *)&e);
         }
      else { free(copy); bufr_free_tables(x); return NULL; }
      free(copy);
      }
   return x;
   }

static void print_locals(BUFR_Tables *t)
   {
   int i, k, any = 0;
   for (i = 0; i < arr_count(t->local.tableB); i++)
      {
      EntryTableB *e = *(EntryTableB **)arr_get(t->local.tableB, i);
      fprintf(bvp_out, "%sB:%d:", any ? " " : "", e->descriptor);
      print_cstr_hex(e->description); fputc(':', bvp_out);
      print_cstr_hex(e->unit);
      fprintf(bvp_out, ":%d:%d:%d:%d", e->encoding.scale, e->encoding.reference, e->encoding.nbits, (int)e->encoding.type);
      any = 1;
      }
   for (i = 0; i < arr_count(t->local.tableD); i++)
      {
      EntryTableD *e = *(EntryTableD **)arr_get(t->local.tableD, i);
      fprintf(bvp_out, "%sD:%d:", any ? " " : "", e->descriptor);
      for (k = 0; k < e->count; k++) fprintf(bvp_out, "%s%d", k ? "," : "", e->descriptors[k]);
      any = 1;
      }
   if (!any) fputs("-", bvp_out);
   }

/* lt.def <name> <base> <cat> <catdesc-hex> <entry>... */
static int lt_def(int argc, char **argv)
   {
   BUFR_Tables *base, *x, *t; int is_lt; long long cat; char *cd;
   if (argc < 5) return bad();
   base = lt_find(argv[2], &is_lt);
   if (!base || parse_int(argv[3], -1000, 1000, &cat) || !(cd = hex_cstr(argv[4]))) return bad();
   /* the model only knows the local arrays of table sets made here */
   if (!is_lt && (arr_count(base->local.tableB) > 0 || arr_count(base->local.tableD) > 0)) { free(cd); return bad(); }
   x = parse_entries(argc - 5, argv + 5);
   if (!x) { free(cd); return bad(); }
   t = bufr_create_tables();
   bufr_merge_tables(t, base);
   bufr_merge_tables(t, x);
   bufr_set_tables_category(t, base->data_cat, base->data_cat_desc);
   bufr_set_tables_category(t, (int)cat, cd);
   bufr_free_tables(x);
   free(cd);
   if (lt_register(argv[1], t)) { bufr_free_tables(t); return bad(); }
   fprintf(bvp_out, "ok %d %d", arr_count(t->local.tableB), arr_count(t->local.tableD));
   return 0;
   }

static int lt_use(int argc, char **argv)
   {
   BUFR_Tables *t;
   if (argc != 2) return bad();
   t = lt_find(argv[1], NULL);
   if (t) cur_tables = t;
   fputs(t ? "ok" : "fail", bvp_out);
   return 0;
   }

static int lt_dump(int argc, char **argv)
   {
   BUFR_Tables *t; int is_lt;
   if (argc != 2) return bad();
   t = lt_find(argv[1], &is_lt);
   if (!t || !is_lt) { fputs("none", bvp_out); return 0; }
   fprintf(bvp_out, "%d ", t->data_cat);
   print_cstr_hex(t->data_cat_desc);
   fputc(' ', bvp_out);
   print_locals(t);
   return 0;
   }

/* lt.store <name> <edition>: the message bufr_store_tables writes for a dataset whose template
 * was made from the table set; the time of day in Section 1 is zeroed */
static int lt_store(int argc, char **argv)
   {
   BUFR_Tables *t; BUFR_Template *tm; BUFR_Dataset *dts; long long ed;
   BufrDescValue dv; char *mem = NULL; size_t mlen = 0; FILE *fp; int rc;
   if (argc != 3 || parse_int(argv[2], 0, 255, &ed)) return bad();
   t = lt_find(argv[1], NULL);
   if (!t) { fputs("none", bvp_out); return 0; }
   dv.descriptor = 1001; dv.values = NULL; dv.nbval = 0;
   tm = bufr_create_template(&dv, 1, t, (int)ed);
   if (!tm) { fputs("notemplate", bvp_out); return 0; }
   dts = bufr_create_dataset(tm);
   if (!dts) { bufr_free_template(tm); fputs("nodataset", bvp_out); return 0; }
   fp = open_memstream(&mem, &mlen);
   rc = bufr_store_tables(fp, dts);
   fclose(fp);
   bufr_free_dataset(dts);
   bufr_free_template(tm);
   if (mlen >= 8 && memcmp(mem, "BUFR", 4) == 0)
      {
      int e = (unsigned char)mem[7], a, b, i;
      if (e >= 4) { a = 23; b = 29; } else { a = 20; b = 24; }
      for (i = a; i <= b && (size_t)i < mlen; i++) mem[i] = 0;
      }
   fprintf(bvp_out, "%d ", rc);
   bvp_print_hex((unsigned char *)mem, mlen);
   free(last_msg);
   last_msg = (unsigned char *)mem; last_len = mlen;
   return 0;
   }

/* make what an uninitialised automatic variable of the next call holds reproducible */
static void __attribute__((noinline)) poison_stack(void)
   {
   volatile unsigned char junk[16384];
   size_t i;
   for (i = 0; i < sizeof(junk); i++) junk[i] = 0xa5;
   }

/* lt.extract <with> <newname> <hex message> */
static int lt_extract(int argc, char **argv)
   {
   BUFR_Tables *with, *tb, *t; unsigned char *buf; int n; ssize_t r;
   BUFR_Message *msg = NULL; BUFR_Dataset *dts;
   if (argc != 4) return bad();
   with = lt_find(argv[1], NULL);
   if (!with) return bad();
   if (strcmp(argv[3], "last") == 0)
      {
      n = (int)last_len;
      buf = (unsigned char *)calloc(1, last_len + 16);
      if (last_len) memcpy(buf, last_msg, last_len);
      }
   else if ((n = bvp_parse_hex(argv[3], &buf)) < 0) return bad();
   r = bufr_memread_message((const char *)buf, (size_t)n, &msg);
   free(buf);
   if (r <= 0 || !msg) { fputs("noread", bvp_out); return 0; }
   dts = bufr_decode_message(msg, with);
   bufr_free_message(msg);
   if (!dts) { fputs("null", bvp_out); return 0; }
   poison_stack();
   tb = bufr_extract_tables(dts);
   if (!tb)
      {
      bufr_free_dataset(dts);
      fputs("notables", bvp_out);
      return 0;
      }
   if (dts->data_flag & BUFR_FLAG_INVALID)
      {
      /* the decoder stopped early: the string of the element whose read ran past the end of the data is
       * whatever malloc returned (bufr_get_desc_ccittia5), so only the shape of the result is printed */
      fprintf(bvp_out, "ok 1 %d %d", arr_count(tb->local.tableB), arr_count(tb->local.tableD));
      }
   else
      {
      fprintf(bvp_out, "ok 0 %d ", tb->data_cat);
      print_cstr_hex(tb->data_cat_desc);
      fputc(' ', bvp_out);
      print_locals(tb);
      }
   bufr_free_dataset(dts);
   t = bufr_create_tables();
   bufr_merge_tables(t, with);
   bufr_merge_tables(t, tb);
   bufr_set_tables_category(t, tb->data_cat, tb->data_cat_desc);
   tb->local.tableBtype = TYPE_ALLOCATED;     /* bufr_extract_tables allocates the arrays it returns */
   tb->local.tableDtype = TYPE_ALLOCATED;
   bufr_free_tables(tb);
   if (lt_register(argv[2], t)) bufr_free_tables(t);
   return 0;
   }

struct op_entry ops_local[] = {
   { "lt.def", lt_def }, { "lt.use", lt_use }, { "lt.dump", lt_dump }, { "lt.store", lt_store },
   { "lt.extract", lt_extract }, { NULL, NULL } };
