#!/usr/bin/env python3
"""state_sites.py — the library's process-wide mutable state: every variable of static storage duration
defined in API/Sources/*.c (file-scope variables that are not `const`, and `static` locals of functions),
read from the clang AST of the CURRENT sources and written as `Generated/StaticState.lean` with the
obligation `staticState_covered : staticState.all StateVar.covered = true := by decide`.

This is the inventory behind C15's history clause: a result can depend on what was processed before only
through (a) the objects the caller passes in (tables with their lookup cache, templates, datasets: modelled
and proved history-free by T-Cache and the pure model functions), or (b) one of these variables.  Every
variable must be classified in translate/state_annotations.json, keyed by (file, function, name, type):

  switch      one of the run-time switches (mirrored by `Switches`)
  handler     output/debug/abort handlers and files: where text goes
  lazyconst   filled on first use with values that do not depend on any input (limits, powers, masks)
  pool        allocator bookkeeping (gcmemory): which block an object lives in, never its content
  errinfo     "last error" information written by the conversions and read only by the error accessors
A variable without an annotation (a new `static` cache, say) is `unclassified` and the check fails."""
import json, os, re, sys
VERIF = os.path.dirname(os.path.dirname(os.path.abspath(__file__)))
sys.path.insert(0, VERIF)
from vlib import build
from translate import cast
from translate.cast import kids, walk

ANNOT = os.path.join(VERIF, "translate", "state_annotations.json")
OUT = os.path.join(VERIF, "lean", "Generated", "StaticState.lean")
CLASSES = ("switch", "handler", "lazyconst", "pool", "errinfo")
POOLS = []

def qual(n):
    return n.get("type", {}).get("qualType", "")

POOL_MEMBERS = {"ddo_tbe"}        # struct members that are storage pools: appended to and freed, never searched

def pool_uses(tu):
    """every use of a pool member, classified by what is done with it"""
    from translate.cast import callee, strip
    out = []
    for f in tu.functions:
        for n in walk(f):
            if n.get("kind") == "MemberExpr" and n.get("name") in POOL_MEMBERS:
                p = n.get("_p")
                while p is not None and p.get("kind") in ("ImplicitCastExpr", "ParenExpr", "CStyleCastExpr"):
                    p = p.get("_p")
                use = "other"
                if p is not None:
                    k = p.get("kind")
                    if k == "CallExpr" and callee(p) == "arr_add":
                        use = "append"
                    elif k == "CallExpr" and callee(p) in ("bufr_tableb_free", "arr_free"):
                        use = "free"
                    elif k == "BinaryOperator" and p.get("opcode") == "=" and strip(kids(p)[0]) is n:
                        use = "assign"          # = arr_create(...) or = NULL
                    elif k == "IfStmt" or (k == "BinaryOperator" and p.get("opcode") in ("!=", "==")):
                        use = "test"
                out.append({"file": tu.name, "func": f["name"], "name": n["name"], "use": use, "line": n.get("_line", 0)})
    return out

def analyse(tu):
    return {"vars": analyse_vars(tu), "pools": pool_uses(tu)}

def analyse_vars(tu):
    out = []
    for n in kids(tu.root):
        if n.get("kind") == "VarDecl" and "_off" in n and n.get("storageClass") != "extern":
            t = qual(n)
            if re.match(r"^const\b", t) and "*" not in t:
                continue
            out.append({"file": tu.name, "func": "", "name": n["name"], "type": t, "line": n.get("_line", 0)})
    for f in tu.functions:
        for n in walk(f):
            if n.get("kind") == "VarDecl" and n.get("storageClass") == "static":
                t = qual(n)
                if re.match(r"^const\b", t) and "*" not in t:
                    continue
                out.append({"file": tu.name, "func": f["name"], "name": n["name"], "type": t, "line": n.get("_line", 0)})
    return out

def collect():
    parts = cast.map_tus("translate.state_sites", "analyse")
    vs = [v for p in parts for v in p["vars"]]
    global POOLS
    POOLS = sorted([u for p in parts for u in p["pools"]], key=lambda u: (u["file"], u["line"]))
    raw = json.load(open(ANNOT)) if os.path.exists(ANNOT) else {"vars": []}
    ann = {(a["file"], a.get("function", ""), a["name"], a["type"]): a for a in raw.get("vars", [])}
    used = set()
    for v in vs:
        k = (v["file"], v["func"], v["name"], v["type"])
        a = ann.get(k)
        if a and a["class"] in CLASSES:
            v["cls"], v["why"] = a["class"], a["why"]
            used.add(k)
        else:
            v["cls"], v["why"] = "unclassified", ""
    stale = [k for k in ann if k not in used]
    vs.sort(key=lambda v: (v["file"], v["line"], v["name"]))
    return vs, stale

def lean_str(s):
    return '"' + s.replace("\\", "\\\\").replace('"', '\\"') + '"'

def render(vs):
    out = ["import BufrModel.Switches",
           "/- GENERATED by translate/state_sites.py from API/Sources/*.c (%d variables of static storage duration) — do not edit -/" % len(vs),
           "namespace Bufr.Generated", "open Bufr", "",
           "def staticState : List StateVar := ["]
    out.append(",\n".join("  ⟨%s, %s, %s, %s, .%s⟩" % (lean_str(v["file"]), lean_str(v["func"]), lean_str(v["name"]), lean_str(v["type"]), v["cls"])
                          for v in vs) + "]")
    out += ["", "/-- uses of the storage pools hung on long-lived objects (`BUFR_Template.ddo_tbe`): (file, function, member, use) -/",
            "def poolUses : List (String × String × String × String) := [",
            ",\n".join("  (%s, %s, %s, %s)" % (lean_str(u["file"]), lean_str(u["func"]), lean_str(u["name"]), lean_str(u["use"])) for u in POOLS) + "]",
            "/-- a pool is only created, appended to, tested and freed: nothing is ever looked up in it -/",
            "theorem poolUses_storage_only : poolUses.all (fun u => u.2.2.2 ∈ [\"append\", \"free\", \"assign\", \"test\"]) = true := by decide +kernel",
            "theorem poolUses_length : poolUses.length = %d := by decide +kernel" % len(POOLS)]
    out += ["", "/-- every process-wide variable is a switch, a handler, a lazily initialised constant, allocator bookkeeping",
            "or last-error information -/",
            "theorem staticState_covered : staticState.all StateVar.covered = true := by decide +kernel",
            "theorem staticState_length : staticState.length = %d := by decide +kernel" % len(vs), "", "end Bufr.Generated"]
    return "\n".join(out) + "\n"

def main(write=True):
    key = cast.sources_hash(extra=open(os.path.abspath(__file__)).read() + (open(ANNOT).read() if os.path.exists(ANNOT) else ""))
    cachef = os.path.join(build.CACHE, "state-sites-%s.json" % key)
    os.makedirs(build.CACHE, exist_ok=True)
    if os.path.exists(cachef):
        txt = open(cachef).read()
    else:
        vs, stale = collect()
        if len(POOLS) < 3:
            raise ValueError("the storage pool ddo_tbe is no longer found: the translator no longer understands the sources")
        if len(vs) < 10:
            raise ValueError("only %d static variables found: the translator no longer understands the sources" % len(vs))
        if stale:
            raise ValueError("stale annotations (variable renamed, retyped or removed): " + ", ".join(":".join(k) for k in stale))
        txt = render(vs)
        with open(cachef, "w") as f:
            f.write(txt)
    if write:
        os.makedirs(os.path.dirname(OUT), exist_ok=True)
        if not os.path.exists(OUT) or open(OUT).read() != txt:
            with open(OUT, "w") as f:
                f.write(txt)
    return OUT

if __name__ == "__main__":
    if len(sys.argv) > 1 and sys.argv[1] == "--report":
        vs, stale = collect()
        for v in vs:
            print("%s:%d %s%s %s : %s -> %s" % (v["file"], v["line"], v["func"] + "::" if v["func"] else "", v["name"], "", v["type"], v["cls"]))
        print(len(vs), "variables;", sum(1 for v in vs if v["cls"] == "unclassified"), "unclassified; stale:", stale)
    else:
        print(main())
