#!/usr/bin/env python3
"""switch_sites.py — every place where the library READS one of its run-time switches

    debug     bufr_is_debug(), the global bufr_debugmode
    verbose   bufr_is_verbose(), the static verbosemode
    meta      the global bufr_meta_enabled
    trimzero  bufr_is_trimzero(), the static trimzero_mode
    ieee      the static C_use_ieee754

read from the clang AST of the CURRENT sources, with the enclosing function and a classification of what
the read can influence, written as `Generated/SwitchSites.lean` with the obligation
`switchSites_covered : switchSites.all SwitchSite.covered = true := by decide`.

Classification (conservative and purely syntactic; anything not recognised is `unclassified`):

  accessor   the read is inside the accessor/setter of the switch itself (bufr_is_debug, bufr_set_debug,
             bufr_set_verbose, …): these are mirrored by `Switches.set`/`Switches.get` in the model and tied
             by the `sw.set`/`sw.get` ops.
  alias      `int debug = bufr_is_debug();` / `debug = bufr_is_debug();` with `debug` a local of the
             function: every later read of the local is a site of its own; the local must have no other
             assignment and must not be used except as (a conjunct/disjunct/negation in) an `if` condition.
  harmless   the read is (part of) the condition of an `if` statement S such that HARMLESS(S):
               - the condition is PURE;
               - both branches consist only of
                   * calls of SINK functions with PURE arguments: the listed ones (they hand text to the
                     debug/output handler or to stderr) and library functions whose whole body passes this very
                     check (e.g. the static helper print_set_value_error), computed over all sources,
                   * calls of TEXT functions (sprintf, snprintf, strcpy, strcat, the bufr_print_* family)
                     whose destination is a DIAGNOSTIC BUFFER of the function and whose other arguments are PURE,
                   * assignments / ++ / -- whose target is a SCRATCH local, with a PURE right-hand side,
                   * declarations of locals with PURE initialisers (such locals are SCRATCH),
                   * `if`/`for`/`while`/`do` built from the same, `break`/`continue` inside such loops,
                   * empty statements;
               - no `return`, `goto`, `break` out of an enclosing loop.
             PURE expression: literals, variables, member and array accesses, arithmetic/comparison/logical
               operators, casts, `sizeof`, `?:`, calls of functions in PURE_FUNCS or proved pure by the
               mechanical check below, and calls of TEXT functions into a DIAGNOSTIC BUFFER (as in
               `if (bufr_print_value( errmsg, v )) …`); no assignment operator, no ++/--.  A length stored
               through `&local` by bufr_value_get_string counts as an assignment to that local.
             DIAGNOSTIC BUFFER: a local `char` array of the function all of whose uses in the whole function
               are inside `sizeof` or as an argument of a TEXT or SINK function (so its bytes never reach a
               result).
             SCRATCH local: a local scalar declared inside S, or a function-level local every read of which
               is inside a switch-guarded HARMLESS statement (it is then never read by code that runs
               whatever the switch says).
             Mechanical purity check of a library function: its body contains no assignment or ++/-- whose
               target is anything but one of its own locals, and calls only functions that are pure by the
               same check or listed in PURE_FUNCS/LIBC_PURE.
  annotated  listed in translate/switch_annotations.json with a one-line justification, keyed by
             (file, function, switch, sha1 of the guarded statement's text): editing the statement makes the
             annotation stale and the site `unclassified` again.
  unclassified   none of the above: `switchSites_covered` is false and the check fails.

The script only transcribes and classifies; the tie to behaviour is the 16-configuration stream of props/c15.py."""
import hashlib, json, os, re, sys
VERIF = os.path.dirname(os.path.dirname(os.path.abspath(__file__)))
sys.path.insert(0, VERIF)
from vlib import build
from translate import cast
from translate.cast import kids, walk, callee, args, strip

ANNOT = os.path.join(VERIF, "translate", "switch_annotations.json")
OUT = os.path.join(VERIF, "lean", "Generated", "SwitchSites.lean")

READ_FUNCS = {"bufr_is_debug": "debug", "bufr_is_verbose": "verbose", "bufr_is_trimzero": "trimzero"}
READ_VARS = {"bufr_debugmode": "debug", "verbosemode": "verbose", "bufr_meta_enabled": "meta",
             "trimzero_mode": "trimzero", "C_use_ieee754": "ieee"}
ACCESSORS = {"bufr_is_debug", "bufr_is_verbose", "bufr_set_debug", "bufr_set_verbose", "bufr_enable_meta",
             "bufr_set_trimzero", "bufr_is_trimzero", "bufr_use_C_ieee754"}

# hand text to the user's handler, a file, or stderr; return nothing the library uses
SINKS = {"bufr_print_debug", "bufr_print_output", "bufr_vprint_debug", "bufr_vprint_output",
         "fprintf", "fputs", "printf", "puts", "fflush", "perror"}
# write text into their first argument (TEXT functions); index of the destination argument
TEXT = {"sprintf": 0, "snprintf": 0, "strcpy": 0, "strcat": 0, "strncpy": 0, "strncat": 0,
        "bufr_print_value": 0, "bufr_print_scaled_value": 0, "bufr_print_dscptr_value": 0, "bufr_snprint_dscptr_value": 0,
        "bufr_snprint_value": 0, "bufr_snprint_scaled_value": 0, "bufr_snprint_binary": 0,
        "bufr_print_descriptor": 0, "bufr_print_binary": 0, "bufr_print_af": 0, "bufr_print_float": 0, "bufr_print_double": 0,
        "bufr_print_rtmd_data": 0, "bufr_print_rtmd_repl": 0, "bufr_print_rtmd_location": 0, "bufr_print_rtmd_qualifiers": 0}
# libc functions without side effects on program state
LIBC_PURE = {"strlen", "strcmp", "strncmp", "strchr", "strrchr", "strstr", "memcmp", "isspace", "isdigit", "isalpha", "iscntrl",
             "isprint", "toupper", "tolower", "abs", "labs", "llabs", "fabs", "fabsf", "pow", "floor", "ceil", "round", "log10",
             "gettext", "dgettext", "dcgettext", "ngettext", "dngettext", "__builtin_expect", "__ctype_b_loc", "__ctype_tolower_loc",
             "__ctype_toupper_loc", "__errno_location", "strerror", "isnan", "isinf", "__builtin_isnan", "__builtin_isinf_sign",
             "__builtin_inff", "__builtin_nanf", "__builtin_huge_valf", "__builtin_huge_val", "__builtin_inf", "__builtin_nan"}
# library functions assumed pure although the mechanical check cannot see it, with the reason
# functions that are pure except that they store a length through the given argument: the argument must be
# `&local` and the local is then treated as assigned (it must be SCRATCH)
OUT_PARAMS = {"bufr_value_get_string": [1], "bufr_descriptor_get_svalue": [1]}
PURE_FUNCS = {
    "bufr_value_get_string": "returns the stored pointer; writes the length through its second argument (checked: OUT_PARAMS)",
    "bufr_descriptor_get_svalue": "returns the stored string; writes the length through its second argument (checked: OUT_PARAMS)",
    "bufr_get_max_double": "returns the constant DBL_MAX, computed on first use (bufr_init_limits) and never changed",
    "bufr_get_max_float": "returns the constant FLT_MAX, computed on first use (bufr_init_limits) and never changed",
    "bufr_is_debug": "reads the switch", "bufr_is_verbose": "reads the switch", "bufr_is_trimzero": "reads the switch",
}

ASSIGN_OPS = {"=", "+=", "-=", "*=", "/=", "%=", "<<=", ">>=", "&=", "|=", "^="}

def sha(tu, n):
    txt = re.sub(r"\s+", " ", tu.src(n)).strip()
    return hashlib.sha1(txt.encode("latin-1", "replace")).hexdigest()[:12]

def base_decl(n):
    """the variable an lvalue expression is rooted in, and whether the path goes through a pointer"""
    through = False
    n = strip(n)
    while True:
        k = n.get("kind")
        if k == "DeclRefExpr":
            return n["referencedDecl"], through
        if k == "MemberExpr":
            if n.get("isArrow"):
                through = True
            n = strip(kids(n)[0])
        elif k == "ArraySubscriptExpr":
            b = strip(kids(n)[0])
            t = (b.get("type", {}).get("desugaredQualType") or b.get("type", {}).get("qualType") or "")
            if "[" not in t:
                through = True
            n = b
        elif k == "UnaryOperator" and n.get("opcode") == "*":
            through = True
            n = strip(kids(n)[0])
        elif k == "UnaryOperator" and n.get("opcode") == "&":
            n = strip(kids(n)[0])
        else:
            return None, True

class FnInfo:
    """per-function facts: locals, parameters, uses of each local"""
    def __init__(self, tu, f):
        self.tu, self.f = tu, f
        self.locals = {}      # decl id -> VarDecl node
        self.params = {}
        for n in walk(f):
            if n.get("kind") == "VarDecl" and n.get("storageClass") not in ("static", "extern"):
                self.locals[n["id"]] = n
            elif n.get("kind") == "ParmVarDecl":
                self.params[n["id"]] = n
        self.uses = {}        # decl id -> [DeclRefExpr nodes]
        for n in walk(f):
            if n.get("kind") == "DeclRefExpr":
                self.uses.setdefault(n["referencedDecl"]["id"], []).append(n)

def is_local(fi, decl):
    return decl is not None and decl.get("id") in fi.locals

# ------------------------------------------------------------------ purity summaries (whole library)

def fn_summary(tu, f):
    """(has_nonlocal_write, set of callees, calls_through_pointer)"""
    fi = FnInfo(tu, f)
    bad, calls, indirect = False, set(), False
    for n in walk(f):
        k = n.get("kind")
        if k in ("BinaryOperator", "CompoundAssignOperator") and n.get("opcode") in ASSIGN_OPS:
            d, through = base_decl(kids(n)[0])
            if not is_local(fi, d) or through:
                bad = True
        elif k == "UnaryOperator" and n.get("opcode") in ("++", "--"):
            d, through = base_decl(kids(n)[0])
            if not is_local(fi, d) or through:
                bad = True
        elif k == "CallExpr":
            c = callee(n)
            if c is None:
                indirect = True
            else:
                calls.add(c)
    # is the whole body a harmless statement (the function is then a sink: it only produces text)?
    ck = Check(fi, None)
    body = [c for c in kids(f) if c.get("kind") == "CompoundStmt"]
    sink = False
    if body:
        # `return;` at the end or in branches of a void function does not matter for a sink
        ck.allow_return = (f.get("type", {}).get("qualType", "").startswith("void"))
        ck.stmt(body[0])
        probs = list(ck.problems)
        for b in ck.buffers:
            ok, why, need = diagnostic_buffer(fi, b)
            if not ok:
                probs.append(why)
            ck.sinks |= need
        sink = not probs
    return {"bad": bad, "calls": sorted(calls), "indirect": indirect, "sink": sink,
            "sink_calls": sorted(ck.calls), "sink_sinks": sorted(ck.sinks)}

# ------------------------------------------------------------------ harmlessness of a statement

class Check:
    def __init__(self, fi, guarded_ids):
        self.fi = fi
        self.calls = set()          # callees that must be pure
        self.problems = []
        self.scratch_decl = set()   # locals declared inside the statement
        self.assigned = set()       # function-level locals assigned inside (must be scratch: checked by caller)
        self.buffers = set()        # locals used as TEXT destinations (must be diagnostic buffers)
        self.sinks = set()          # other functions called as statements: must be proved to be sinks

    def pure(self, n):
        if not n or not n.get("kind"):
            return
        for x in walk(n):
            k = x.get("kind")
            if k in ("BinaryOperator", "CompoundAssignOperator") and x.get("opcode") in ASSIGN_OPS:
                self.problems.append("assignment inside an expression: " + self.fi.tu.src(x)[:60])
            elif k == "UnaryOperator" and x.get("opcode") in ("++", "--"):
                self.problems.append("++/-- inside an expression: " + self.fi.tu.src(x)[:60])
            elif k == "CallExpr":
                c = callee(x)
                if c is None:
                    self.problems.append("call through a pointer")
                elif c in TEXT:
                    # e.g. `if (bufr_print_value( errmsg, v )) …`: the text goes to a diagnostic buffer
                    a = args(x)
                    d, through = base_decl(a[TEXT[c]]) if TEXT[c] < len(a) else (None, True)
                    if d is None or through or d.get("id") not in self.fi.locals:
                        self.problems.append("text written to something that is not a local buffer: " + self.fi.tu.src(x)[:40])
                    else:
                        self.buffers.add(d["id"])
                elif c not in LIBC_PURE:
                    self.calls.add(c)
                    for i in OUT_PARAMS.get(c, []):
                        a = args(x)
                        if i < len(a):
                            self.target(a[i], "output argument of %s" % c)
            elif k in ("StmtExpr", "GCCAsmStmt"):
                self.problems.append("statement expression")

    def target(self, lhs, what):
        d, through = base_decl(lhs)
        if d is None or through or d.get("id") not in self.fi.locals:
            self.problems.append("%s to something that is not a local: %s" % (what, self.fi.tu.src(lhs)[:60]))
            return
        if d["id"] not in self.scratch_decl:
            self.assigned.add(d["id"])
        # index expressions etc. must be pure
        for c in kids(strip(lhs)):
            pass

    def stmt(self, n, in_loop=False):
        k = n.get("kind")
        if not k or k == "NullStmt":
            return
        if k == "CompoundStmt":
            for c in kids(n):
                self.stmt(c, in_loop)
        elif k == "IfStmt":
            ks = kids(n)
            self.pure(ks[0])
            for c in ks[1:]:
                self.stmt(c, in_loop)
        elif k in ("ForStmt",):
            ks = list(n.get("inner") or [])
            init, cond, inc, body = ks[0], ks[2], ks[3], ks[4]
            if init and init.get("kind"):
                self.stmt(init, True)
            self.pure(cond)
            if inc and inc.get("kind"):
                self.stmt(inc, True)
            self.stmt(body, True)
        elif k == "WhileStmt":
            ks = kids(n)
            self.pure(ks[0]); self.stmt(ks[-1], True)
        elif k == "DoStmt":
            ks = kids(n)
            self.stmt(ks[0], True); self.pure(ks[1])
        elif k == "DeclStmt":
            for v in kids(n):
                if v.get("kind") == "VarDecl":
                    if v.get("storageClass") == "static":
                        self.problems.append("static local declared")
                    self.scratch_decl.add(v["id"])
                    for c in kids(v):
                        self.pure(c)
        elif k in ("BreakStmt", "ContinueStmt"):
            if not in_loop:
                self.problems.append(k + " leaves an enclosing loop")
        elif k == "ReturnStmt" and getattr(self, "allow_return", False) and not kids(n):
            pass
        elif k in ("ReturnStmt", "GotoStmt", "SwitchStmt", "LabelStmt", "CaseStmt", "DefaultStmt"):
            self.problems.append(k)
        elif k in ("BinaryOperator", "CompoundAssignOperator") and n.get("opcode") in ASSIGN_OPS:
            self.target(kids(n)[0], "assignment")
            self.pure(kids(n)[1])
            # subscripts on the left must be pure too
            for x in walk(kids(n)[0]):
                if x.get("kind") == "CallExpr":
                    self.pure(x)
        elif k == "BinaryOperator" and n.get("opcode") == ",":
            for c in kids(n):
                self.stmt(c, in_loop)
        elif k == "UnaryOperator" and n.get("opcode") in ("++", "--"):
            self.target(kids(n)[0], n["opcode"])
        elif k in ("ParenExpr", "ImplicitCastExpr", "CStyleCastExpr"):
            self.stmt(kids(n)[-1], in_loop)
        elif k == "CallExpr":
            c = callee(n)
            a = args(n)
            if c in SINKS:
                for x in a:
                    self.pure(x)
            elif c in TEXT:
                di = TEXT[c]
                if di < len(a):
                    d, through = base_decl(a[di])
                    if d is None or through or d.get("id") not in self.fi.locals:
                        self.problems.append("text written to something that is not a local buffer: " + self.fi.tu.src(a[di])[:40])
                    else:
                        self.buffers.add(d["id"])
                for i, x in enumerate(a):
                    if i != di:
                        self.pure(x)
            elif c is None:
                self.problems.append("call of a function pointer")
            else:
                self.sinks.add(c)
                for x in a:
                    self.pure(x)
        else:
            # any other expression statement must be pure (e.g. `(void)x;`)
            self.pure(n)

def diagnostic_buffer(fi, decl_id):
    """every use of the local is an argument of a TEXT or SINK call (or of a function still to be shown to be a
    sink: returned as the third component), or inside sizeof"""
    v = fi.locals[decl_id]
    t = (v.get("type", {}).get("desugaredQualType") or v.get("type", {}).get("qualType") or "")
    need = set()
    if not re.match(r"^(unsigned |signed )?char\s*\[\d+\]$", t):
        return False, "%s is not a local char array (%s)" % (v.get("name"), t), need
    for u in fi.uses.get(decl_id, []):
        p = u.get("_p")
        while p is not None and p.get("kind") in ("ImplicitCastExpr", "ParenExpr", "CStyleCastExpr"):
            p = p.get("_p")
        if p is not None and p.get("kind") == "UnaryExprOrTypeTraitExpr":
            continue            # sizeof(buffer)
        if p is None or p.get("kind") != "CallExpr" or callee(p) is None:
            return False, "%s is also used outside text functions (line %s)" % (v.get("name"), u.get("_line")), need
        c = callee(p)
        if c not in (set(TEXT) | SINKS | {"bufr_abort", "strlen"}):
            need.add(c)         # e.g. a static helper that only prints: must be proved a sink
    return True, "", need

def inside(n, anc):
    p = n
    while p is not None:
        if p is anc:
            return True
        p = p.get("_p")
    return False

def cond_role(fi, read):
    """if the read is (part of) an `if` condition through &&, ||, !, parentheses, casts and comparisons
    with constants: the IfStmt; else None"""
    n = read
    while True:
        p = n.get("_p")
        if p is None:
            return None
        k = p.get("kind")
        if k in ("ParenExpr", "ImplicitCastExpr", "CStyleCastExpr"):
            n = p; continue
        if k == "UnaryOperator" and p.get("opcode") == "!":
            n = p; continue
        if k == "BinaryOperator" and p.get("opcode") in ("&&", "||", "!=", "==", ">", "<", ">=", "<="):
            n = p; continue
        if k == "IfStmt" and kids(p)[0] is n:
            return p
        return None

def analyse(tu):
    out = {"sites": [], "summaries": {}}
    for f in tu.functions:
        out["summaries"][f["name"]] = fn_summary(tu, f)
    for f in tu.functions:
        fi = FnInfo(tu, f)
        fname = f["name"]
        reads = []      # (switch, node, via)
        for n in walk(f):
            if n.get("kind") == "CallExpr" and callee(n) in READ_FUNCS:
                reads.append((READ_FUNCS[callee(n)], n, callee(n) + "()"))
            elif n.get("kind") == "DeclRefExpr" and n["referencedDecl"].get("name") in READ_VARS \
                    and n["referencedDecl"]["id"] not in fi.locals and n["referencedDecl"]["id"] not in fi.params:
                reads.append((READ_VARS[n["referencedDecl"]["name"]], n, n["referencedDecl"]["name"]))
        if not reads:
            continue
        if fname in ACCESSORS:
            for sw, n, via in reads:
                out["sites"].append({"file": tu.name, "func": fname, "line": n.get("_line", 0), "sw": sw, "via": via,
                                     "cls": "accessor", "why": "", "sha": sha(tu, f), "text": ""})
            continue
        # aliases: locals initialised / assigned from a read
        work = []       # (switch, node read in a condition or elsewhere, via)
        aliases = {}
        for sw, n, via in reads:
            p = n.get("_p")
            while p is not None and p.get("kind") in ("ParenExpr", "ImplicitCastExpr", "CStyleCastExpr"):
                p = p.get("_p")
            if p is not None and p.get("kind") == "VarDecl" and p["id"] in fi.locals:
                aliases.setdefault(p["id"], []).append((sw, n, via))
            elif p is not None and p.get("kind") == "BinaryOperator" and p.get("opcode") == "=" and \
                    strip(kids(p)[0]).get("kind") == "DeclRefExpr" and strip(kids(p)[0])["referencedDecl"]["id"] in fi.locals \
                    and (p.get("_p") or {}).get("kind") == "CompoundStmt":
                aliases.setdefault(strip(kids(p)[0])["referencedDecl"]["id"], []).append((sw, n, via))
            else:
                work.append((sw, n, via, None))
        for vid, inits in aliases.items():
            v = fi.locals[vid]
            sw = inits[0][0]
            init_nodes = [x[1] for x in inits]
            # record the initialisation itself
            for sw0, n0, via0 in inits:
                out["sites"].append({"file": tu.name, "func": fname, "line": n0.get("_line", 0), "sw": sw0, "via": via0,
                                     "cls": "alias", "why": "local `%s`" % v["name"], "sha": sha(tu, n0), "text": ""})
            for u in fi.uses.get(vid, []):
                # the assignment `debug = bufr_is_debug()` itself
                p = u.get("_p")
                if p is not None and p.get("kind") == "BinaryOperator" and p.get("opcode") == "=" and strip(kids(p)[0]) is u \
                        and any(inside(x, p) for x in init_nodes):
                    continue
                work.append((sw, u, "local `%s`" % v["name"], vid))
        # classify every read
        ifs = {}
        for sw, n, via, vid in work:
            st = cond_role(fi, n)
            rec = {"file": tu.name, "func": fname, "line": n.get("_line", 0), "sw": sw, "via": via}
            if st is None:
                par = n.get("_p") or n
                while par.get("_p") is not None and par.get("kind") not in ("CompoundStmt", "IfStmt", "ForStmt", "WhileStmt", "ReturnStmt", "CallExpr", "BinaryOperator", "VarDecl"):
                    par = par["_p"]
                rec.update({"cls": "unclassified", "why": "the switch is not read as an `if` condition: " + re.sub(r"\s+", " ", tu.src(par))[:80],
                            "sha": sha(tu, par), "text": re.sub(r"\s+", " ", tu.src(par))[:200]})
                out["sites"].append(rec)
                continue
            ifs.setdefault(id(st), (st, []))[1].append(rec)
        guarded = [st for st, _ in ifs.values()]
        checks = {}
        for key, (st, recs) in ifs.items():
            ck = Check(fi, None)
            ck.stmt(st)
            checks[key] = ck
        for key, (st, recs) in ifs.items():
            ck = checks[key]
            problems = list(ck.problems)
            for b in ck.buffers:
                ok, why, need = diagnostic_buffer(fi, b)
                if not ok:
                    problems.append(why)
                ck.sinks |= need
            for a in ck.assigned:
                # every read of the local must lie inside some switch-guarded statement of this function
                for u in fi.uses.get(a, []):
                    if not any(inside(u, g) for g in guarded):
                        # a pure write (the use is the target of an assignment) is fine
                        p = u.get("_p")
                        if p is not None and p.get("kind") == "BinaryOperator" and p.get("opcode") == "=" and strip(kids(p)[0]) is u:
                            continue
                        problems.append("local `%s` assigned here is also read outside the guarded statements (line %s)" %
                                        (fi.locals[a].get("name"), u.get("_line")))
                        break
            txt = re.sub(r"\s+", " ", tu.src(st))
            for rec in recs:
                rec.update({"cls": "harmless" if not problems else "unclassified", "why": "; ".join(problems[:3]),
                            "sha": sha(tu, st), "text": txt[:200], "calls": sorted(ck.calls), "sinks": sorted(ck.sinks)})
                out["sites"].append(rec)
    return out

# ------------------------------------------------------------------ assembling

def resolve_purity(summaries):
    pure = {}
    def is_pure(name, stack=()):
        if name in LIBC_PURE or name in PURE_FUNCS:
            return True
        if name in pure:
            return pure[name]
        if name in stack:
            return True         # recursion: decided by the rest of the body
        s = summaries.get(name)
        if s is None or s["bad"] or s["indirect"]:
            pure[name] = False
            return False
        r = all(is_pure(c, stack + (name,)) for c in s["calls"])
        pure[name] = r
        return r
    sinkmemo = {}
    def is_sink(name, stack=()):
        if name in SINKS:
            return True
        if name in sinkmemo:
            return sinkmemo[name]
        if name in stack:
            return True
        s = summaries.get(name)
        if s is None or not s.get("sink"):
            sinkmemo[name] = False
            return False
        r = all(is_pure(c) for c in s["sink_calls"]) and all(is_sink(c, stack + (name,)) for c in s["sink_sinks"])
        sinkmemo[name] = r
        return r
    return is_pure, is_sink

def load_annotations():
    if not os.path.exists(ANNOT):
        return {}
    raw = json.load(open(ANNOT))
    return {(a["file"], a["function"], a["switch"], a["sha"]): a for a in raw.get("sites", [])}

def collect():
    parts = cast.map_tus("translate.switch_sites", "analyse")
    summaries, sites = {}, []
    for p in parts:
        summaries.update(p["summaries"])
        sites.extend(p["sites"])
    is_pure, is_sink = resolve_purity(summaries)
    ann = load_annotations()
    used = set()
    for s in sites:
        if s["cls"] == "harmless":
            imp = [c for c in s.get("calls", []) if not is_pure(c)]
            nsk = [c for c in s.get("sinks", []) if not is_sink(c)]
            if imp or nsk:
                s["cls"] = "unclassified"
                s["why"] = "; ".join((["calls functions not known to be pure: " + ", ".join(imp)] if imp else []) +
                                     (["calls functions that are not text sinks: " + ", ".join(nsk)] if nsk else []))
        if s["cls"] == "unclassified":
            k = (s["file"], s["func"], s["sw"], s["sha"])
            if k in ann:
                s["cls"] = "annotated"
                s["note"] = s["why"]
                s["why"] = ann[k]["why"]
                used.add(k)
    stale = [k for k in ann if k not in used]
    sites.sort(key=lambda s: (s["file"], s["line"], s["sw"]))
    return sites, stale

LEAN_SW = {"debug": "debug", "verbose": "verbose", "meta": "rtmd", "trimzero": "trimzero", "ieee": "ieee"}   # `meta` is a Lean keyword

def lean_str(s):
    return '"' + s.replace("\\", "\\\\").replace('"', '\\"').replace("\n", " ") + '"'

def render(sites):
    out = ["import BufrModel.Switches",
           "/- GENERATED by translate/switch_sites.py from API/Sources/*.c (%d reads of a switch) — do not edit -/" % len(sites),
           "namespace Bufr.Generated", "open Bufr", ""]
    CH = 40
    names = []
    for c in range(0, len(sites), CH):
        name = "switchSites_%d" % (c // CH)
        names.append(name)
        rows = []
        for s in sites[c:c + CH]:
            cls = {"accessor": ".accessor", "alias": ".alias", "harmless": ".harmless", "unclassified": ".unclassified"}.get(s["cls"])
            if s["cls"] == "annotated":
                cls = "(.annotated %s)" % lean_str(s["why"])
            rows.append("  ⟨%s, %s, %d, .%s, %s⟩" % (lean_str(s["file"]), lean_str(s["func"]), s["line"], LEAN_SW[s["sw"]], cls))
        out.append("def %s : List SwitchSite := [\n%s]" % (name, ",\n".join(rows)))
        out.append("")
    out.append("def switchSites : List SwitchSite := " + " ++ ".join(names))
    out.append("")
    out.append("/-- every read of a switch is an accessor, an alias, syntactically harmless, or annotated -/")
    out.append("theorem switchSites_covered : switchSites.all SwitchSite.covered = true := by decide +kernel")
    out.append("theorem switchSites_length : switchSites.length = %d := by decide +kernel" % len(sites))
    for sw in ("debug", "verbose", "meta", "trimzero", "ieee"):
        out.append("theorem switchSites_%s : (switchSites.filter (·.sw = .%s)).length = %d := by decide +kernel" %
                   (sw, LEAN_SW[sw], sum(1 for s in sites if s["sw"] == sw)))
    out.append("")
    out.append("end Bufr.Generated")
    return "\n".join(out) + "\n"

def main(write=True):
    key = cast.sources_hash(extra=open(os.path.abspath(__file__)).read() + (open(ANNOT).read() if os.path.exists(ANNOT) else ""))
    cachef = os.path.join(build.CACHE, "switch-sites-%s.json" % key)
    os.makedirs(build.CACHE, exist_ok=True)
    if os.path.exists(cachef):
        txt = open(cachef).read()
    else:
        sites, stale = collect()
        if len(sites) < 20:
            raise ValueError("only %d switch reads found: the translator no longer understands the sources" % len(sites))
        if stale:
            raise ValueError("stale annotations (the annotated statement changed or disappeared): " +
                             ", ".join("%s:%s:%s:%s" % k for k in stale))
        txt = render(sites)
        with open(cachef, "w") as f:
            f.write(txt)
    if write:
        os.makedirs(os.path.dirname(OUT), exist_ok=True)
        if not os.path.exists(OUT) or open(OUT).read() != txt:
            with open(OUT, "w") as f:
                f.write(txt)
    return OUT

if __name__ == "__main__":
    if len(sys.argv) > 1 and sys.argv[1] == "--report":
        sites, stale = collect()
        import collections
        c = collections.Counter(s["cls"] for s in sites)
        print("%d reads: %s; stale annotations: %d" % (len(sites), dict(c), len(stale)))
        for s in sites:
            if s["cls"] in ("unclassified",) or (len(sys.argv) > 2 and sys.argv[2] == "all"):
                print("%s:%d %s [%s via %s] %s sha=%s -- %s\n      %s" % (s["file"], s["line"], s["func"], s["sw"], s["via"], s["cls"], s["sha"], s["why"], s.get("text", "")[:160]))
        for k in stale:
            print("stale:", k)
    else:
        print(main())
