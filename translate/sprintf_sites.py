#!/usr/bin/env python3
"""sprintf_sites.py — every place where the library formats or copies text into a buffer without the
callee knowing the buffer's size (sprintf, vsprintf, strcpy, strcat) or with a size argument that must
itself be checked (snprintf, vsnprintf, strncpy, strncat), read from the clang AST of the CURRENT sources
and written as the table `Generated/SprintfSites.lean` with the obligation
`sprintfSites_safe : sprintfSites.all siteSafe = true := by decide +kernel`.

A site records
  * the destination's capacity: the declared size of a `char[N]` variable or struct member; for a `char *`
    the capacity comes from the annotation table ("cap": a contract the function's callers must meet, and
    every call inside the library is itself extracted as a site and checked against it); unknown = unsafe;
  * the format string (the msgid: NLS off; both plural forms of `_n()`; the translations shipped in po/*.po
    are added as alternative formats when they differ), decoded to bytes;
  * for every argument the bound its C type gives: integers by width and signedness, `double` (a `float`
    argument is promoted but keeps FLT_MAX as its bound), `char`, pointers; for `%s` the length bound is
      - the length of a string literal, or of the longest branch of a conditional of literals,
      - N-1 for a `char[N]` variable or member (a C string held in N bytes),
      - otherwise the annotation table ("str": keyed by function and argument expression, with a one-line
        justification); absent annotation = `unk` = unsafe;
  * for strcat/strncat the bound on what the buffer already holds ("pre" annotation; absent = unsafe).
Nothing here decides safety: the Lean side computes `maxLen` from the format and the bounds and compares
with the capacity (BufrModel/Sprintf.lean); this script only transcribes.  A source it cannot parse, a
format that is not a literal and has no annotation, or an argument type it does not know raise or yield
`unk` (unsafe), never a guess."""
import json, os, re, sys
VERIF = os.path.dirname(os.path.dirname(os.path.abspath(__file__)))
sys.path.insert(0, VERIF)
from vlib import build
from translate import cast
from translate.cast import kids, walk, callee, args, c_unescape

ANNOT = os.path.join(VERIF, "translate", "sprintf_annotations.json")
OUT = os.path.join(VERIF, "lean", "Generated", "SprintfSites.lean")

FORMATTED = {"sprintf": 1, "vsprintf": 1, "snprintf": 2, "vsnprintf": 2}      # index of the format argument
COPIES = {"strcpy", "strcat", "strncpy", "strncat"}

INT_TYPES = {
    "_Bool": (8, False), "char": (8, True), "signed char": (8, True), "unsigned char": (8, False),
    "short": (16, True), "unsigned short": (16, False), "int": (32, True), "unsigned int": (32, False),
    "long": (64, True), "unsigned long": (64, False), "long long": (64, True), "unsigned long long": (64, False),
}

def strip_implicit(n):
    while n.get("kind") in ("ParenExpr", "ImplicitCastExpr", "ConstantExpr") and kids(n):
        n = kids(n)[-1]
    return n

def ctype(n):
    t = n.get("type", {})
    return (t.get("desugaredQualType") or t.get("qualType") or "").replace("const ", "").replace("volatile ", "").strip()

def array_size(t):
    m = re.match(r"^(?:unsigned |signed )?char\s*\[(\d+)\]$", t)
    return int(m.group(1)) if m else None

def literals(n):
    """the string literal(s) an expression can evaluate to (conditional operator = alternatives), or None"""
    n = cast.strip(n)
    k = n.get("kind")
    if k == "StringLiteral":
        return [c_unescape(n["value"])]
    if k == "ConditionalOperator":
        a, b = literals(kids(n)[1]), literals(kids(n)[2])
        return a + b if a is not None and b is not None else None
    if k == "CallExpr" and callee(n) in ("gettext", "dgettext", "dcgettext"):
        return literals(args(n)[-1] if callee(n) != "dcgettext" else args(n)[1])
    if k == "CallExpr" and callee(n) in ("ngettext", "dngettext"):
        a = args(n)
        a = a[-3:]
        x, y = literals(a[0]), literals(a[1])
        return x + y if x is not None and y is not None else None
    return None

def const_int(tu, n):
    """value of an integer constant expression clang has folded or that is `sizeof array`"""
    n0 = n
    n = cast.strip(n)
    k = n.get("kind")
    if k == "IntegerLiteral":
        return int(n["value"])
    if k == "UnaryExprOrTypeTraitExpr" and n.get("name") == "sizeof":
        t = n.get("argType", {}).get("qualType") if "argType" in n else (ctype(cast.strip(kids(n)[0])) if kids(n) else None)
        if t:
            s = array_size(t.replace("const ", ""))
            if s is not None:
                return s
            if t in ("char", "unsigned char"):
                return 1
        return None
    if k == "BinaryOperator" and n.get("opcode") in ("-", "+", "*"):
        a, b = const_int(tu, kids(n)[0]), const_int(tu, kids(n)[1])
        if a is None or b is None:
            return None
        return {"-": a - b, "+": a + b, "*": a * b}[n["opcode"]]
    return None

def dest_info(tu, n):
    """-> (kind, size, text): kind 'arr' (size known), 'ptr', 'other'"""
    e = strip_implicit(n)
    t = ctype(e)
    s = array_size(t)
    if e.get("kind") in ("DeclRefExpr", "MemberExpr") and s is not None:
        return "arr", s, tu.src(e)
    if e.get("kind") in ("DeclRefExpr", "MemberExpr") and t.endswith("*"):
        return "ptr", None, tu.src(e)
    return "other", None, tu.src(e)

def arg_bound(tu, fn, n):
    """bound record for one variadic argument (annotations are applied later, in the main process)"""
    e = strip_implicit(n)           # the expression as written (explicit casts kept)
    t = ctype(e)
    src = tu.src(e)
    if t in INT_TYPES:
        b, s = INT_TYPES[t]
        return {"k": "int", "bits": b, "signed": s, "src": src}
    if t.startswith("enum ") or ctype(n) in INT_TYPES:
        # an enumeration (or a typedef clang does not desugar): the type after the default promotions
        b, s = INT_TYPES.get(ctype(n), (32, False))
        return {"k": "int", "bits": b, "signed": s, "src": src}
    if t == "double":
        return {"k": "dbl", "src": src}
    if t == "float":
        return {"k": "flt", "src": src}
    if t == "long double":
        return {"k": "unk", "src": src, "why": "long double"}
    s = array_size(t)
    if s is not None:
        return {"k": "str", "n": s - 1, "src": src, "why": "char[%d]" % s, "auto": True}
    if t in ("char *", "unsigned char *", "signed char *"):
        lits = literals(e)
        if lits is not None:
            return {"k": "str", "n": max(len(x) for x in lits), "src": src, "why": "literal"}
        return {"k": "unk", "src": src, "why": "%s argument without a bound", "wantstr": True}
    if t.endswith("*"):
        return {"k": "ptr", "src": src}
    return {"k": "unk", "src": src, "why": "type " + t}

def malloc_size_text(tu, f, dst_text):
    """text of E when the destination (a variable or member, compared as source text) is assigned exactly
    once in the function, from `malloc(E)` (through casts; `(E) * sizeof(char)` is reduced to E); else None"""
    found = []
    want = re.sub(r"\s+", "", dst_text)
    for n in walk(f):
        if n.get("kind") == "BinaryOperator" and n.get("opcode") == "=":
            l = strip_implicit(kids(n)[0])
            if re.sub(r"\s+", "", tu.src(l)) == want:
                found.append(kids(n)[1])
        elif n.get("kind") == "VarDecl" and n.get("name") == want and kids(n):
            found.append(kids(n)[-1])
    if len(found) != 1:
        return None
    r = cast.strip(found[0])
    if r.get("kind") != "CallExpr" or callee(r) != "malloc":
        return None
    e = strip_implicit(args(r)[0])
    txt = re.sub(r"\s+", "", tu.src(e))
    m = re.match(r"^\((.*)\)\*sizeof\(char\)$", txt)
    if m:
        txt = m.group(1)
    return txt

def analyse(tu):
    """raw sites of one translation unit"""
    out = []
    for f in tu.functions:
        fn = f["name"]
        params = [c.get("name") for c in kids(f) if c.get("kind") == "ParmVarDecl"]
        for n in walk(f):
            nm = callee(n)
            if nm is None:
                continue
            a = args(n)
            site = None
            if nm in FORMATTED:
                fi = FORMATTED[nm]
                dk, size, dsrc = dest_info(tu, a[0])
                fmts = literals(a[fi]) if len(a) > fi else None
                fsrc = tu.src(strip_implicit(a[fi])) if len(a) > fi else "?"
                site = {"fn": nm, "dst": dsrc, "dk": dk, "cap": size, "fmts": fmts, "fmtsrc": fsrc,
                        "args": [arg_bound(tu, fn, x) for x in a[fi + 1:]] if not nm.startswith("v") else None}
                if nm in ("snprintf", "vsnprintf"):
                    site["limit"] = const_int(tu, a[1])
                    site["limitsrc"] = re.sub(r"\s+", "", tu.src(strip_implicit(a[1])))
            elif nm in COPIES:
                dk, size, dsrc = dest_info(tu, a[0])
                src = arg_bound(tu, fn, a[1])
                site = {"fn": nm, "dst": dsrc, "dk": dk, "cap": size, "fmts": [b"%s"], "fmtsrc": "", "args": [src]}
                if nm in ("strncpy", "strncat"):
                    site["limit"] = const_int(tu, a[2])
                    site["limitsrc"] = re.sub(r"\s+", "", tu.src(strip_implicit(a[2])))
            else:
                # any other call: kept only if the callee has a contract (decided in the main process);
                # record, for every argument, what a destination would look like
                site = {"fn": "call:" + nm, "callargs": []}
                for x in a:
                    dk, size, dsrc = dest_info(tu, x)
                    site["callargs"].append({"dk": dk, "cap": size, "src": dsrc, "const": const_int(tu, x),
                                             "text": re.sub(r"\s+", "", tu.src(strip_implicit(x)))})
            site.update({"file": tu.name, "func": fn, "line": n.get("_line", 0), "params": params})
            # a destination that is a local pointer assigned once from malloc(E)
            if site.get("dk") == "ptr":
                site["malloc"] = malloc_size_text(tu, f, site["dst"])
            out.append(site)
    return out

def load_annotations():
    raw = json.load(open(ANNOT)) if os.path.exists(ANNOT) else {}
    ann = {"str": {}, "cap": {}, "pre": {}, "fmt": {}, "lim": {}, "relay": {}, "manual": {}, "known": {}, "unbounded": {}}
    for a in raw.get("unbounded", []):
        ann["unbounded"][a["function"]] = dict(a)
    for a in raw.get("str", []):
        ann["str"][(a["function"], a["expr"])] = dict(a)
    for a in raw.get("cap", []):
        ann["cap"][(a["function"], a["dst"])] = dict(a)
    for a in raw.get("pre", []):
        ann["pre"][(a["function"], a["dst"])] = dict(a)
    for a in raw.get("fmt", []):
        ann["fmt"][(a["function"], a["expr"])] = dict(a)
    for a in raw.get("lim", []):
        ann["lim"][(a["function"], a["expr"])] = dict(a)
    for a in raw.get("relay", []):
        ann["relay"][a["function"]] = dict(a)
    for a in raw.get("manual", []):
        ann["manual"][(a["function"], a["call"], a["dst"], a.get("key", ""))] = dict(a)
    for a in raw.get("known", []):
        ann["known"][(a["function"], a.get("call", "*"), a.get("dst", "*"))] = dict(a)
    return ann

# ------------------------------------------------------------------ translations (po/*.po)

def po_translations():
    """{msgid bytes: [msgstr bytes, …]} over every po file of the checkout (plural forms included)"""
    import glob
    res = {}
    for p in sorted(glob.glob(os.path.join(build.REPO, "po", "*.po"))):
        raw = open(p, "rb").read()
        m = re.search(rb'charset=([-\w]+)', raw)
        enc = m.group(1).decode() if m else "latin-1"
        try:
            txt = raw.decode(enc)
        except (UnicodeDecodeError, LookupError):
            txt = raw.decode("latin-1")
        cur, key, ent = None, None, {}
        def flush():
            if "msgid" in ent and ent["msgid"]:
                ids = [ent["msgid"]] + ([ent["msgid_plural"]] if "msgid_plural" in ent else [])
                strs = [v for k, v in ent.items() if k.startswith("msgstr") and v]
                for i in ids:
                    res.setdefault(i, [])
                    for s in strs:
                        if s not in res[i]:
                            res[i].append(s)
        for line in txt.splitlines() + [""]:
            line = line.strip()
            if not line or line.startswith("#"):
                if not line:
                    flush(); ent = {}; key = None
                continue
            m = re.match(r'^(msgid_plural|msgid|msgstr(?:\[\d+\])?)\s+(".*")$', line)
            if m:
                key = m.group(1)
                ent[key] = c_unescape(m.group(2))
            elif line.startswith('"') and key:
                ent[key] += c_unescape(line)
        flush()
    return res

DIRECTIVE = re.compile(rb"%[-+ #0]*(?:\*|\d+)?(?:\.(?:\*|\d+))?(?:hh|h|ll|l|L|z|j|t)?[a-zA-Z%]")

def directives(fmt):
    return [m.group(0) for m in DIRECTIVE.finditer(fmt) if m.group(0) != b"%%"]

# ------------------------------------------------------------------ assembling

def site_key(s):
    """what distinguishes the sites of one function with the same callee and destination: the size argument's
    text, else the (first) format"""
    if s.get("limitsrc"):
        return s["limitsrc"]
    if s.get("fmts"):
        return s["fmts"][0].decode("latin-1")
    return s.get("fmtsrc") or ""

def collect():
    res = cast.map_tus("translate.sprintf_sites", "analyse")
    raw = [s for part in res for s in part]
    ann = load_annotations()
    po = po_translations()
    used = set()
    sites = []
    for s in raw:
        fn = s["func"]
        # ---- calls of functions with a (buffer, size) contract
        if s["fn"].startswith("call:"):
            cal = s["fn"][5:]
            r = ann["relay"].get(cal)
            u = ann["unbounded"].get(cal)
            cc = [c for (cf, _), c in ann["cap"].items() if cf == cal and "argindex" in c]
            ca = s["callargs"]
            if r:
                used.add(("relay", cal))
                bi, si = r["buffer_index"], r["size_index"]
                if bi >= len(ca) or si >= len(ca):
                    continue
                b, z = ca[bi], ca[si]
                s.update({"dst": b["src"], "dk": b["dk"], "cap": b["cap"], "fmts": None, "fmtsrc": "", "args": [],
                          "limit": z["const"], "limitsrc": z["text"]})
            elif u:
                used.add(("unbounded", cal))
                bi = u["buffer_index"]
                if bi >= len(ca):
                    continue
                b = ca[bi]
                s.update({"dst": b["src"], "dk": b["dk"], "cap": b["cap"], "fmts": None, "fmtsrc": "", "args": [],
                          "limit": None, "limitsrc": "unbounded:" + cal})
            elif cc:
                c = cc[0]
                bi = c["argindex"]
                if bi >= len(ca):
                    continue
                b = ca[bi]
                s.update({"dst": b["src"], "dk": b["dk"], "cap": b["cap"], "fmts": None, "fmtsrc": "", "args": [],
                          "limit": int(c["min"]), "limitsrc": "contract:%s>=%d" % (cal, int(c["min"]))})
            else:
                continue
        # ---- annotations on arguments
        for a in (s.get("args") or []):
            k = (fn, a["src"])
            if a.get("wantstr") or (a.get("auto") and k in ann["str"]):
                x = ann["str"].get(k)
                if x:
                    used.add(("str",) + k)
                    a.update({"k": "str", "n": int(x["max"]), "why": x["why"]})
        if s["fn"] in FORMATTED and s["fmts"] is None:
            x = ann["fmt"].get((fn, s["fmtsrc"]))
            if x:
                used.add(("fmt", fn, s["fmtsrc"]))
                s["fmts"] = [f.encode("latin-1") for f in x["formats"]]
        # ---- capacity of pointer destinations
        s["special"] = None
        if s["dk"] != "arr":
            c = ann["cap"].get((fn, s["dst"]))
            if c:
                used.add(("cap", fn, s["dst"]))
                s["cap"] = int(c["min"])
        # the function's own (buffer, size) parameters handed on: safe by the contract of the function
        r = ann["relay"].get(fn)
        if r and s["dst"] == r["buffer"] and s.get("limitsrc") == r["size"]:
            used.add(("relay", fn))
            s["special"] = ("relay", "buffer `%s` and size `%s` are the function's own parameters" % (r["buffer"], r["size"]))
        # malloc(E) … (dst, E): the size argument is the allocation's size, or E-1 for `malloc(E+1)` with limit E
        if s.get("malloc") and s.get("limitsrc") and s["special"] is None and s["dst"] not in s.get("params", []):
            m, l = s["malloc"], s["limitsrc"]
            if m == l or m == l + "+1" or m == "(" + l + "+1)" or m == "(" + l + ")+1":
                s["special"] = ("alloc", "`%s` points to malloc(%s) and the size argument is `%s`" % (s["dst"], m, l))
        # strncat(d, s, sizeof(d)-strlen(d)-1)
        if s["fn"] == "strncat" and s["dk"] == "arr" and s.get("limitsrc") == "sizeof(%s)-strlen(%s)-1" % (s["dst"], s["dst"]):
            s["special"] = ("idiom", "strncat(d, s, sizeof(d)-strlen(d)-1)")
        # ---- content already in the buffer (strcat/strncat)
        s["pre"] = 0
        if s["fn"] in ("strcat", "strncat"):
            p = ann["pre"].get((fn, s["dst"]))
            if p:
                used.add(("pre", fn, s["dst"]))
                s["pre"] = int(p["max"])
            else:
                s["pre"] = None
        if "limit" in s and s["limit"] is None:
            l = ann["lim"].get((fn, s["limitsrc"]))
            if l:
                used.add(("lim", fn, s["limitsrc"]))
                s["limit"] = int(l["max"])
        # ---- manual / known
        mk = (fn, s["fn"], s["dst"], site_key(s))
        if mk in ann["manual"] and s["special"] is None:
            used.add(("manual",) + mk)
            s["special"] = ("manual", ann["manual"][mk]["why"])
        s["known"] = None
        for kk in ((fn, s["fn"], s["dst"]), (fn, s["fn"], "*"), (fn, "*", s["dst"]), (fn, "*", "*")):
            if kk in ann["known"]:
                used.add(("known",) + kk)
                s["known"] = ann["known"][kk]["finding"]
                break
        # ---- translations with the same directives are alternative formats
        if s["fmts"] and s["fn"] in FORMATTED:
            extra = []
            for f in s["fmts"]:
                for t in po.get(f, []):
                    if t not in s["fmts"] and t not in extra:
                        if directives(t) == directives(f):
                            extra.append(t)
                        else:
                            s.setdefault("po_mismatch", []).append(t)
            s["fmts"] = s["fmts"] + extra
        sites.append(s)
    sites.sort(key=lambda s: (s["file"], s["line"], s["dst"]))
    unused = []
    allk = [("str",) + k for k in ann["str"]] + [("cap",) + k for k in ann["cap"]] + [("pre",) + k for k in ann["pre"]] + \
           [("fmt",) + k for k in ann["fmt"]] + [("lim",) + k for k in ann["lim"]] + [("relay", k) for k in ann["relay"]] + \
           [("manual",) + k for k in ann["manual"]] + [("known",) + k for k in ann["known"]] + [("unbounded", k) for k in ann["unbounded"]]
    for k in allk:
        if k not in used and k[0] != "unbounded":      # a printer nobody calls inside the library is not an error
            unused.append(":".join(str(x) for x in k))
    return sites, unused

def lean_bytes(b):
    return "[" + ", ".join(str(x) for x in b) + "]"

def lean_str(s):
    return '"' + s.replace("\\", "\\\\").replace('"', '\\"').replace("\n", "\\n") + '"'

def lean_arg(a):
    k = a["k"]
    if k == "int": return ".int %d %s" % (a["bits"], "true" if a["signed"] else "false")
    if k == "dbl": return ".dbl"
    if k == "flt": return ".flt"
    if k == "str": return ".str %d" % a["n"]
    if k == "ptr": return ".ptr"
    return ".unk"

def site_kind(s):
    """Lean constructor text"""
    fn = s["fn"]
    if s.get("special"):
        kind, why = s["special"]
        if kind == "relay":
            return ".relay"
        return "(.manual %s)" % lean_str(("" if kind == "manual" else kind + ": ") + why)
    if fn in ("snprintf", "vsnprintf", "strncpy") or fn.startswith("call:"):
        return ".bounded %s" % ("(some %d)" % s["limit"] if s.get("limit") is not None else "none")
    if fn == "strncat":
        # strncat(d, s, n) writes at most strlen(d) + n + 1 bytes
        if s.get("limit") is None or s.get("pre") is None:
            return ".bounded none"
        return ".bounded (some %d)" % (s["pre"] + s["limit"] + 1)
    if fn == "vsprintf":
        return ".fmt none"
    return ".fmt %s" % ("(some %d)" % s["pre"] if s.get("pre") is not None else "none")

def render_rows(sites, prefix):
    CH = 25
    out, names = [], []
    for c in range(0, len(sites), CH):
        name = "%s_%d" % (prefix, c // CH)
        names.append(name)
        rows = []
        for s in sites[c:c + CH]:
            fm = s["fmts"] if s["fmts"] is not None else []
            cm = "  -- %s:%d %s: %s(%s, %s)" % (s["file"], s["line"], s["func"], s["fn"], s["dst"],
                                                (s["fmtsrc"] or s.get("limitsrc") or ", ".join(a["src"] for a in (s["args"] or [])))[:90].replace("\n", " "))
            rows.append(cm + "\n  { file := %s, func := %s, line := %d, kind := %s, cap := %s,\n    fmts := %s,\n    args := [%s], fmtKnown := %s }" % (
                lean_str(s["file"]), lean_str(s["func"]), s["line"], site_kind(s),
                "some %d" % s["cap"] if s.get("cap") is not None else "none",
                "[" + ", ".join(lean_bytes(f) for f in fm) + "]",
                ", ".join(lean_arg(a) for a in (s["args"] or [])),
                "true" if (s["fmts"] is not None or not s["fn"] in FORMATTED) else "false"))
        out.append("def %s : List Site := [\n%s]" % (name, ",\n".join(rows)))
        out.append("")
    out.append("def %s : List Site := %s" % (prefix, " ++ ".join(names) if names else "[]"))
    out.append("")
    return out

def render(sites):
    good = [s for s in sites if not s.get("known")]
    known = [s for s in sites if s.get("known")]
    out = ["import BufrModel.Sprintf",
           "/- GENERATED by translate/sprintf_sites.py from %d call sites in API/Sources/*.c — do not edit -/" % len(sites),
           "namespace Bufr.Generated", "open Bufr.Sprintf", ""]
    out += render_rows(good, "sprintfSites")
    out.append("/-- the sites of recorded findings (translate/sprintf_annotations.json, \"known\"): not claimed safe -/")
    out += render_rows(known, "sprintfKnown")
    out.append("/-- every formatting or copying call outside the recorded findings writes within its destination -/")
    out.append("theorem sprintfSites_safe : sprintfSites.all siteSafe = true := by decide +kernel")
    out.append("theorem sprintfSites_length : sprintfSites.length = %d := by decide +kernel" % len(good))
    out.append("theorem sprintfKnown_length : sprintfKnown.length = %d := by decide +kernel" % len(known))
    out.append("/-- how many sites are safe by reading (a one-line justification each) rather than by the computed bound -/")
    out.append("theorem sprintfSites_manual : (sprintfSites.filter Site.isManual).length = %d := by decide +kernel" %
               sum(1 for s in good if s.get("special") and s["special"][0] != "relay"))
    out.append("theorem sprintfSites_relay : (sprintfSites.filter Site.isRelay).length = %d := by decide +kernel" %
               sum(1 for s in good if s.get("special") and s["special"][0] == "relay"))
    out.append("")
    out.append("end Bufr.Generated")
    return "\n".join(out) + "\n"

# ------------------------------------------------------------------ python replica of siteSafe (for reports only)

def py_maxlen(fmt, argb):
    """mirror of Sprintf.maxLen, used to LIST the unsafe sites in reports; the decision is Lean's"""
    i, n, total = 0, len(fmt), 0
    ai = 0
    while i < n:
        c = fmt[i]
        if c != 37:
            total += 1; i += 1; continue
        m = DIRECTIVE.match(fmt, i)
        if not m:
            return None
        d = m.group(0)
        i = m.end()
        if d == b"%%":
            total += 1; continue
        mm = re.match(rb"%([-+ #0]*)(\*|\d+)?(?:\.(\*|\d+))?(hh|h|ll|l|L|z|j|t)?([a-zA-Z])", d)
        flags, width, prec, lm, cv = mm.groups()
        if width == b"*" or prec == b"*" or ai >= len(argb):
            return None
        a = argb[ai]; ai += 1
        w = int(width) if width else 0
        p = int(prec) if prec is not None else None
        cvs = cv.decode()
        need = {"": 32, "h": 32, "hh": 32, "l": 64, "ll": 64, "z": 64, "j": 64, "t": 64}.get((lm or b"").decode())
        def ndig(b, n):
            k = 1
            while n >= b ** k: k += 1
            return k
        def smax(size, bits, signed):
            if signed and bits <= size: return 2 ** (bits - 1), True
            if not signed and bits < size: return 2 ** bits - 1, False
            return 2 ** (size - 1), True
        def umax(size, bits, signed):
            return 2 ** bits - 1 if (not signed and bits <= size) else 2 ** size - 1
        def ibody(nd):
            return nd if p is None else max(p, nd)
        sgn = 1 if (b"+" in flags or b" " in flags) else 0
        if cvs in "diuxo":
            if a["k"] != "int" or need is None or not (1 <= a["bits"] <= need): return None
        if cvs in "di":
            m, neg = smax(need, a["bits"], a["signed"])
            body = (1 if neg else sgn) + ibody(ndig(10, m))
        elif cvs == "u":
            body = ibody(ndig(10, umax(need, a["bits"], a["signed"])))
        elif cvs == "x":
            body = (2 if b"#" in flags else 0) + ibody(ndig(16, umax(need, a["bits"], a["signed"])))
        elif cvs == "o":
            body = (1 if b"#" in flags else 0) + ibody(ndig(8, umax(need, a["bits"], a["signed"])))
        elif cvs == "c":
            if a["k"] != "int": return None
            body = 1
        elif cvs == "s":
            if a["k"] != "str": return None
            body = a["n"] if p is None else min(p, a["n"])
        elif cvs in "fF":
            if a["k"] not in ("dbl", "flt"): return None
            pp = 6 if p is None else p
            body = 1 + (309 if a["k"] == "dbl" else 39) + ((1 + pp) if pp else (1 if b"#" in flags else 0))
        elif cvs in "eE":
            if a["k"] not in ("dbl", "flt") or b"#" in flags: return None
            pp = 6 if p is None else p
            body = 1 + 1 + ((1 + pp) if pp else 0) + 5
        elif cvs == "g":
            if a["k"] not in ("dbl", "flt"): return None
            pp = 6 if p is None else p
            body = (pp or 1) + 7
        elif cvs == "p":
            if a["k"] != "ptr" or p is not None or flags: return None
            body = 18
        else:
            return None
        total += max(w, body)
    return total

def py_safe(s):
    if s.get("special"):
        return True, s["special"][1]
    if s.get("cap") is None:
        return False, "destination capacity unknown (%s %s)" % (s["dk"], s["dst"])
    k = site_kind(s)
    if k.startswith(".bounded"):
        if "none" in k:
            return False, "size argument not a constant: %s" % s.get("limitsrc")
        lim = int(re.search(r"\d+", k).group(0))
        return (lim <= s["cap"]), "limit %d > capacity %d" % (lim, s["cap"])
    if s["fmts"] is None:
        return False, "format is not a literal: %s" % s["fmtsrc"]
    if s["args"] is None:
        return False, "vsprintf: arguments unknown"
    if s.get("pre") is None:
        return False, "strcat without a bound on the existing content"
    worst = 0
    for f in s["fmts"]:
        m = py_maxlen(f, s["args"])
        if m is None:
            why = [a.get("why", a["k"]) for a in s["args"] if a["k"] == "unk"]
            return False, "no bound: " + ("; ".join(why) or "directive/argument mismatch in %r" % f)
        worst = max(worst, m)
    return (s["pre"] + worst + 1 <= s["cap"]), "needs %d bytes, has %d" % (s["pre"] + worst + 1, s["cap"])

def report(sites):
    bad = []
    for s in sites:
        if s.get("known"):
            continue
        ok, why = py_safe(s)
        if not ok:
            bad.append((s, why))
    return bad

def main(write=True):
    key = cast.sources_hash(extra=open(os.path.abspath(__file__)).read() + (open(ANNOT).read() if os.path.exists(ANNOT) else "") + _po_hash())
    cachef = os.path.join(build.CACHE, "sprintf-sites-%s.json" % key)
    os.makedirs(build.CACHE, exist_ok=True)
    if os.path.exists(cachef):
        txt = open(cachef).read()
    else:
        sites, unused = collect()
        if not sites:
            raise ValueError("no sprintf sites found: the translator no longer understands the sources")
        if unused:
            raise ValueError("annotations that match no site (stale): " + ", ".join(unused))
        txt = render(sites)
        with open(cachef, "w") as f:
            f.write(txt)
    if write:
        os.makedirs(os.path.dirname(OUT), exist_ok=True)
        if not os.path.exists(OUT) or open(OUT).read() != txt:
            with open(OUT, "w") as f:
                f.write(txt)
    return OUT

def _po_hash():
    import glob, hashlib
    h = hashlib.sha256()
    for p in sorted(glob.glob(os.path.join(build.REPO, "po", "*.po"))):
        h.update(open(p, "rb").read())
    return h.hexdigest()

if __name__ == "__main__":
    if len(sys.argv) > 1 and sys.argv[1] == "--report":
        sites, unused = collect()
        bad = report(sites)
        print("%d sites, %d not provably safe, %d known, %d manual, %d stale annotations" % (
            len(sites), len(bad), sum(1 for s in sites if s.get("known")), sum(1 for s in sites if s.get("special") and not s.get("known")), len(unused)))
        for s, why in bad:
            print("%s:%d %s: %s(%s, %s) -- %s" % (s["file"], s["line"], s["func"], s["fn"], s["dst"],
                                                 (s["fmtsrc"] or "")[:60].replace("\n", " "), why))
        for u in unused:
            print("stale annotation:", u)
    else:
        print(main())
