"""cast.py — the C sources of the CURRENT checkout as clang JSON ASTs (shared by switch_sites.py and
sprintf_sites.py).  `clang -fsyntax-only -Xclang -ast-dump=json` is run on every API/Sources/*.c with the
same include set and defines the harness build uses (NLS off, so `_()` is the identity and the format is
the msgid).  Nodes are the plain dicts clang prints, with three additions made while loading:
  n["_p"]   parent node,   n["_line"] line of the node's first token in the main file (expansion line for
  macro bodies),           n["_off"], n["_end"] byte offsets of the node's text in the main file.
A file clang cannot parse raises: a translator that cannot read its input is a broken tie."""
import hashlib, json, os, subprocess, sys, tempfile
from concurrent.futures import ThreadPoolExecutor
VERIF = os.path.dirname(os.path.dirname(os.path.abspath(__file__)))
sys.path.insert(0, VERIF)
from vlib import build

CLANG = os.environ.get("VERIF_CLANG", "clang")

def sources():
    srcs, hdrs, cfg = build.repo_sources()
    return srcs, hdrs, cfg

def sources_hash(extra=""):
    srcs, hdrs, cfg = sources()
    me = [os.path.abspath(__file__)]
    return build._hash_files(srcs + hdrs + cfg + me, extra=extra)

def _inc_dir():
    d = os.path.join(build.CACHE, "cast-inc")
    os.makedirs(d, exist_ok=True)
    cfgp = os.path.join(build.REPO, "config.h")
    txt = open(cfgp).read() if os.path.exists(cfgp) else build.FALLBACK_CONFIG
    txt += "\n#undef ENABLE_NLS\n"
    api = os.path.join(build.REPO, "API/Headers/bufr_api.h")
    if os.path.exists(api):
        a = open(api, encoding="latin-1").read()
    else:
        a = open(api + ".in", encoding="latin-1").read().replace("@PACKAGE_VERSION@", "0.9.4")
    for name, t in (("config.h", txt), ("bufr_api.h", a)):
        p = os.path.join(d, name)
        if not os.path.exists(p) or open(p, encoding="latin-1").read() != t:
            with open(p, "w", encoding="latin-1") as f:
                f.write(t)
    return d

def clang_json(path):
    inc = _inc_dir()
    cmd = [CLANG, "-std=gnu99", "-DHAVE_CONFIG_H", '-DLOCALEDIR="/usr/share/locale"', "-D" + build.GUARD,
           "-I" + inc, "-I" + os.path.join(build.REPO, "API/Headers"), "-I" + os.path.join(build.REPO, "API/Sources"),
           "-w", "-fsyntax-only", "-Xclang", "-ast-dump=json", path]
    r = subprocess.run(cmd, stdout=subprocess.PIPE, stderr=subprocess.PIPE)
    if r.returncode != 0:
        raise RuntimeError("clang cannot parse %s: %s" % (path, r.stderr.decode("latin-1")[-800:]))
    return json.loads(r.stdout)

class TU:
    """one translation unit: .path, .text (bytes), .functions = [FunctionDecl nodes defined in the main file]"""
    def __init__(self, path):
        self.path = path
        self.name = os.path.basename(path)
        self.text = open(path, "rb").read()
        self.root = clang_json(path)
        self.functions = []
        self.globals = {}       # name -> VarDecl node (file-scope variables of the main file)
        self._annotate()

    # clang omits "file" and "line" when they repeat the previous location it printed; locations are
    # printed in document order (loc, range.begin, range.end of each node, then its children)
    def _annotate(self):
        st = {"file": None, "line": 0}
        main = os.path.abspath(self.path)
        def see(loc):
            """update the running (file, line); returns (in_main_file, offset, line, toklen)"""
            if not loc:
                return None
            if "expansionLoc" in loc:
                # both are printed: spellingLoc first
                see(loc["spellingLoc"])
                return see(loc["expansionLoc"])
            if "file" in loc:
                st["file"] = os.path.abspath(loc["file"])
            if "line" in loc:
                st["line"] = loc["line"]
            if "offset" not in loc:
                return None
            return (st["file"] == main, loc["offset"], st["line"], loc.get("tokLen", 0))
        stack = [(self.root, None)]
        # iterative pre-order walk keeping document order
        def walk(n, parent):
            n["_p"] = parent
            see(n.get("loc"))
            rg = n.get("range") or {}
            b = see(rg.get("begin"))
            e = see(rg.get("end"))
            if b and b[0]:
                n["_off"], n["_line"] = b[1], b[2]
                if e and e[0]:
                    n["_end"] = e[1] + e[3]
            for c in n.get("inner", []) or []:
                if isinstance(c, dict):
                    walk(c, n)
        sys.setrecursionlimit(20000)
        walk(self.root, None)
        for n in self.root.get("inner", []):
            if n.get("kind") == "FunctionDecl" and "_off" in n and any(c.get("kind") == "CompoundStmt" for c in n.get("inner", [])):
                self.functions.append(n)
            if n.get("kind") == "VarDecl" and "_off" in n:
                self.globals[n["name"]] = n

    def src(self, n):
        if "_off" in n and "_end" in n:
            return self.text[n["_off"]:n["_end"]].decode("latin-1")
        return "?"

def load_all(jobs=8):
    srcs, _, _ = sources()
    with ThreadPoolExecutor(max_workers=jobs) as ex:
        return list(ex.map(TU, srcs))

# ------------------------------------------------------------------ small AST helpers

def kids(n):
    return [c for c in (n.get("inner") or []) if isinstance(c, dict)]

def walk(n):
    yield n
    for c in kids(n):
        yield from walk(c)

def strip(n):
    """through parentheses and implicit/explicit casts"""
    while n.get("kind") in ("ParenExpr", "ImplicitCastExpr", "CStyleCastExpr", "ConstantExpr") and kids(n):
        n = kids(n)[-1]
    return n

def callee(n):
    """name of the function a CallExpr calls, or None (call through a pointer)"""
    if n.get("kind") != "CallExpr":
        return None
    f = strip(kids(n)[0])
    if f.get("kind") == "DeclRefExpr":
        return f["referencedDecl"]["name"]
    return None

def args(n):
    return kids(n)[1:]

def declref(n):
    n = strip(n)
    if n.get("kind") == "DeclRefExpr":
        return n["referencedDecl"]
    return None

def enclosing(n, kind):
    p = n.get("_p")
    while p is not None and p.get("kind") != kind:
        p = p.get("_p")
    return p

# ------------------------------------------------------------------ parallel map over translation units

def _apply(a):
    fn_mod, fn_name, path = a
    import importlib
    mod = importlib.import_module(fn_mod)
    return getattr(mod, fn_name)(TU(path))

def map_tus(fn_mod, fn_name, jobs=10):
    """[fn(TU(path)) for every source], each in its own process (the JSON trees are large)"""
    import multiprocessing as mp
    srcs, _, _ = sources()
    _inc_dir()
    with mp.get_context("fork").Pool(min(jobs, len(srcs))) as pool:
        return pool.map(_apply, [(fn_mod, fn_name, p) for p in srcs])

def c_unescape(lit):
    """value of a C string literal as clang prints it ("..." with escapes) -> bytes"""
    assert lit.startswith('"') and lit.endswith('"'), lit
    s = lit[1:-1]
    out = bytearray()
    i = 0
    simple = {"n": 10, "t": 9, "r": 13, "\\": 92, '"': 34, "'": 39, "a": 7, "b": 8, "f": 12, "v": 11, "?": 63, "0": 0}
    while i < len(s):
        c = s[i]
        if c != "\\":
            out += c.encode("latin-1", "replace") if ord(c) < 256 else c.encode("utf-8")
            i += 1
            continue
        i += 1
        c = s[i]
        if c in "01234567":
            j = i
            while j < len(s) and j < i + 3 and s[j] in "01234567":
                j += 1
            out.append(int(s[i:j], 8) & 255)
            i = j
        elif c == "x":
            j = i + 1
            while j < len(s) and s[j] in "0123456789abcdefABCDEF":
                j += 1
            out.append(int(s[i + 1:j], 16) & 255)
            i = j
        else:
            out.append(simple[c])
            i += 1
    return bytes(out)
