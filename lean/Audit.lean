import Audit.C11
import Audit.C10
import Audit.C09
import Audit.C19
import Audit.C01
import Audit.C12
import Audit.C02
