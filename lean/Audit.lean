import Audit.C11
import Audit.C10
