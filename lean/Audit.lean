import Audit.C11
