/-
  BufrSpec.Ieee — IEEE 754-2008 §3.4 binary interchange formats, transcribed from the
  standard (read, not proved).  Mathlib-free.

  A binary interchange format of k = 1 + w + t bits has, most significant first,
    S  1 bit   sign
    E  w bits  biased exponent,  bias = 2^(w−1) − 1
    T  t bits  trailing significand field (p = t + 1 digits of precision)
  and represents
    E = 2^w − 1, T ≠ 0   NaN
    E = 2^w − 1, T = 0   (−1)^S × ∞
    1 ≤ E ≤ 2^w − 2      (−1)^S × 2^(E − bias) × (1 + 2^(1−p) × T)
    E = 0, T ≠ 0         (−1)^S × 2^emin × (0 + 2^(1−p) × T),   emin = 1 − bias   (subnormal)
    E = 0, T = 0         (−1)^S × 0
  binary32: w = 8, t = 23;  binary64: w = 11, t = 52.

  `FVal` is the value vocabulary shared with the model (a float *value*: sign and exact
  rational magnitude, or ±∞, or NaN).  Everything else here is used by theorems only.
-/
namespace Bufr

/-- a floating-point datum: finite (sign bit and exact magnitude `≥ 0`, so that `−0` exists),
infinite, or NaN (payload not represented) -/
inductive FVal where
  | fin (neg : Bool) (mag : Rat)
  | inf (neg : Bool)
  | nan
  deriving DecidableEq, Repr

namespace Spec

/-- `2^e` for any integer `e`, as an exact rational (the spec's own definition) -/
def twoPow (e : Int) : Rat :=
  match e with
  | Int.ofNat n => ((2 ^ n : Nat) : Rat)
  | Int.negSucc n => 1 / ((2 ^ (n + 1) : Nat) : Rat)

/-- the datum represented by the `1 + w + t`-bit string `b` (read as an unsigned integer) -/
def ieeeValue (w t : Nat) (b : Nat) : FVal :=
  let T := b % 2 ^ t
  let E := b / 2 ^ t % 2 ^ w
  let S := b / 2 ^ (t + w) % 2 = 1
  let bias : Int := 2 ^ (w - 1) - 1
  if E = 2 ^ w - 1 then
    if T = 0 then .inf S else .nan
  else if E = 0 then
    .fin S (twoPow (1 - bias) * (0 + (T : Rat) / ((2 ^ t : Nat) : Rat)))
  else
    .fin S (twoPow ((E : Int) - bias) * (1 + (T : Rat) / ((2 ^ t : Nat) : Rat)))

def ieeeValue32 (b : Nat) : FVal := ieeeValue 8 23 b
def ieeeValue64 (b : Nat) : FVal := ieeeValue 11 52 b

/-- the bit string is a NaN -/
def isNaN (w t b : Nat) : Prop := b / 2 ^ t % 2 ^ w = 2 ^ w - 1 ∧ b % 2 ^ t ≠ 0
instance (w t b : Nat) : Decidable (isNaN w t b) := by unfold isNaN; infer_instance

/-- a non-zero subnormal whose trailing significand has its top bit clear, i.e. `|x| < 2^(emin−1)`:
the lower half of the subnormal range (the patterns the unchanged portable encoder gets wrong) -/
def lowSubnormal (w t b : Nat) : Prop := b / 2 ^ t % 2 ^ w = 0 ∧ 0 < b % 2 ^ t ∧ b % 2 ^ t < 2 ^ (t - 1)
instance (w t b : Nat) : Decidable (lowSubnormal w t b) := by unfold lowSubnormal; infer_instance

end Spec
end Bufr
