import BufrSpec.RefDecode
/-
  BufrSpec.RefEncode — a reference *encoder* for the data section that exercises the freedoms
  FM 94 leaves to an encoder (used to generate inputs for C04; every output is checked against
  `refDecode` when it is produced).

  Freedoms: in compressed form any local reference value R0 not above the smallest value, any
  increment width NBINC from the smallest that fits up to the element width (one more for
  associated fields, where the implementation's own encoder can produce it), an explicit NBINC > 0 form even when all values
  are equal, any R0 for character columns that are listed in full; trailing zero pad bits.
-/
namespace Bufr.Spec
open Bufr

/-- pseudo-random choice source (same mixing function as the harness) -/
def choice (seed idx : Nat) : Nat :=
  let m := 2^64
  let x := (seed * 6364136223846793005 + idx * 1442695040888963407 + 1013904223) % m
  let y := (x ^^^ (x >>> 29)) * 2685821657736338717 % m
  y ^^^ (y >>> 32)

def strBits (s : List Nat) : List Bool := s.flatMap (bitsMSB 8)

/-- one element of one subset, uncompressed -/
def encItem (it : Item) : List Bool :=
  bitsMSB it.afW it.af ++ (if it.kind = .ccitt then strBits it.str else bitsMSB it.width it.raw)

/-- least `k ≥ 1` with `2^k - 1 > d` -/
def minNbinc (d : Nat) : Nat := (d + 1).log2 + 1

/-- a numeric column with the encoder's freedoms; `hasMissing` says whether all-ones means missing -/
def encColumn (seed idx : Nat) (w : Nat) (vals : List Nat) (hasMissing : Bool) (isAf : Bool := false) : List Bool :=
  let miss := allOnes w
  let present := if hasMissing then vals.filter (· ≠ miss) else vals
  let c := choice seed idx
  match present with
  | [] => bitsMSB w miss ++ bitsMSB 6 0          -- every subset missing
  | p0 :: _ =>
    let mn := present.foldl min p0
    let mx := present.foldl max p0
    if mn = mx ∧ present.length = vals.length ∧ c % 3 ≠ 0 then
      bitsMSB w mn ++ bitsMSB 6 0                 -- the usual form for a constant column
    else
      -- class 31 columns are constant; keep R0 at the value so that no increment is all ones
      let r0 := mn - (if c % 5 = 0 ∨ (!hasMissing ∧ !isAf) then 0 else (c >>> 8) % (mn + 1))
      let need := minNbinc (mx - r0)
      let top := max need (min 62 (if isAf then w + 1 else w))
      let nbinc := need + (c >>> 24) % (top - need + 1)
      bitsMSB w r0 ++ bitsMSB 6 nbinc ++
        vals.flatMap fun v => bitsMSB nbinc (if hasMissing ∧ v = miss then allOnes nbinc else v - r0)

/-- a character column -/
def encStrColumn (seed idx : Nat) (octets : Nat) (strs : List (List Nat)) : List Bool :=
  let c := choice seed idx
  match strs with
  | [] => []
  | s0 :: rest =>
    if rest.all (· = s0) ∧ (c % 3 ≠ 0 ∨ octets > 63) then strBits s0 ++ bitsMSB 6 0   -- 6 bits cannot announce more than 63 octets
    else
      let r0 : List Nat := if c % 2 = 0 then List.replicate octets 0 else List.replicate octets (32 + c % 90)
      strBits r0 ++ bitsMSB 6 octets ++ strs.flatMap strBits

/-- one column (the same element in every subset), compressed -/
def encItemColumn (seed idx : Nat) (col : List Item) : List Bool :=
  match col with
  | [] => []
  | it :: _ =>
    (if it.afW > 0 then encColumn seed (2 * idx) it.afW (col.map (·.af)) false true else []) ++
    (if it.kind = .ccitt then encStrColumn seed (2 * idx + 1) (it.width / 8) (col.map (·.str))
     else encColumn seed (2 * idx + 1) it.width (col.map (·.raw)) (decide (Desc.x it.desc ≠ 31 ∨ Desc.f it.desc ≠ 0)))

def transposeItems : List (List Item) → List (List Item)
  | [] => []
  | s0 :: rest => (List.range s0.length).map fun j => (s0 :: rest).filterMap (·[j]?)

/-- the data section for the given subsets; `pad` extra zero bits are appended, then zero bits up
to the octet boundary -/
def refEncode (seed : Nat) (compressed : Bool) (subs : List (List Item)) (pad : Nat) : List Bool :=
  let body :=
    if compressed then
      let cols := transposeItems subs
      (List.zip (List.range cols.length) cols).flatMap fun (j, col) => encItemColumn seed j col
    else subs.flatMap fun s => s.flatMap encItem
  let b1 := body ++ List.replicate pad false
  b1 ++ List.replicate ((8 - b1.length % 8) % 8) false

def bitsToBytesF : Nat → List Bool → List Nat
  | 0, _ => []
  | _, [] => []
  | f+1, bs => ofBitsMSB (bs.take 8) :: bitsToBytesF f (bs.drop 8)

def bitsToBytes (bs : List Bool) : List Nat := bitsToBytesF (bs.length / 8 + 1) bs

end Bufr.Spec
