import BufrModel.TableTypes
import BufrModel.Basic
/-
  BufrSpec.Ops — WMO FM 94 Table C (data description operators 2 01–2 09), written from the
  regulation as a register file over the *expanded* descriptor sequence.  Shares only the
  `Desc`/`Tables` vocabulary with the model.

  2 01 YYY  add YYY-128 bits to the data width of Table B elements other than CCITT IA5, code or
            flag tables; YYY = 0 cancels.
  2 02 YYY  add YYY-128 to the scale of the same elements; YYY = 0 cancels.
  2 03 YYY  the element descriptors that follow define new reference values, YYY bits each, until
            2 03 255; 2 03 000 cancels all redefinitions.
  2 04 YYY  precede each data element with YYY bits (associated field), nested; 2 04 000 cancels
            the most recent; its meaning is given by 0 31 021, which follows immediately.
  2 05 YYY  YYY characters are inserted as a data field.
  2 06 YYY  YYY bits of data are described by the immediately following local descriptor.
  2 07 YYY  for the same elements as 2 01: scale + YYY, reference × 10^YYY,
            width + (10·YYY + 2) ÷ 3; YYY = 0 cancels.  (edition 4)
  2 08 YYY  YYY characters replace the width of CCITT IA5 elements; YYY = 0 cancels. (edition 4)
  2 09 YYY  IEEE 754 representation of YYY = 32 or 64 bits for the same elements as 2 01. (edition 5)
  None of these applies to class 31 elements.
-/
namespace Bufr.Spec
open Bufr

inductive Kind | num | code | flag | ccitt | ieee | newRef | op | none
deriving DecidableEq, Repr, Inhabited

/-- what occupies Section 4 for one expanded descriptor -/
structure Layout where
  desc : Nat
  kind : Kind
  width : Int := 0
  scale : Int := 0
  ref : Int := 0
  af : Nat := 0          -- total associated-field bits preceding the element
deriving DecidableEq, Repr, Inhabited

structure OpState where
  dw : Int := 0                       -- 2 01
  ds : Int := 0                       -- 2 02
  newRefBits : Nat := 0               -- 2 03 definition in progress
  newRefs : List (Nat × Int) := []    -- redefined reference values, most recent first
  af : List Nat := []                 -- 2 04, oldest first
  localW : Nat := 0                   -- 2 06
  s7 : Nat := 0                       -- 2 07
  ccitt : Nat := 0                    -- 2 08
  ieee : Nat := 0                     -- 2 09
deriving DecidableEq, Repr, Inhabited

/-- the edition that introduced operator 2 XX -/
def definedIn (edition x : Nat) : Bool :=
  if x ≥ 1 ∧ x ≤ 6 then edition ≥ 2
  else if x = 7 ∨ x = 8 then edition ≥ 4
  else if x = 9 then edition ≥ 5
  else false

def afTotal (st : OpState) : Nat := st.af.foldl (· + ·) 0

/-- an operator descriptor 2 XX YYY -/
def stepOp (st : OpState) (d x y : Nat) : OpState × Layout :=
  let plain : Layout := { desc := d, kind := .op }
  match x with
  | 1 => ({ st with dw := if y = 0 then 0 else (y : Int) - 128 }, plain)
  | 2 => ({ st with ds := if y = 0 then 0 else (y : Int) - 128 }, plain)
  | 3 =>
    if y = 255 then ({ st with newRefBits := 0 }, plain)
    else if y = 0 then ({ st with newRefBits := 0, newRefs := [] }, plain)
    else ({ st with newRefBits := y }, plain)
  | 4 => if y > 0 then ({ st with af := st.af ++ [y] }, plain) else ({ st with af := st.af.dropLast }, plain)
  | 5 => (st, { desc := d, kind := .ccitt, width := 8 * y })
  | 6 => ({ st with localW := y }, plain)
  | 7 => ({ st with s7 := y, dw := if y = 0 then 0 else st.dw, ds := if y = 0 then 0 else st.ds }, plain)
  | 8 => ({ st with ccitt := y }, plain)
  | 9 => ({ st with ieee := if y = 32 ∨ y = 64 then y else if y = 0 then 0 else st.ieee }, plain)
  | _ => (st, plain)

def isLocal (d : Nat) : Bool := Desc.x d > 47 || (Desc.y d > 191 && Desc.y d ≤ 255)

/-- an element descriptor; `newRef` is the value carried by a 2 03 definition element when known -/
def stepElem (T : Tables) (st : OpState) (d : Nat) (newRef : Option Int) : OpState × Layout :=
  match T.fetchB d with
  | none =>
    -- not in Table B: only 2 06 YYY can describe it
    if st.localW > 0 ∧ isLocal d then
      ({ st with localW := 0 }, { desc := d, kind := .num, width := st.localW, af := afTotal st })
    else (st, { desc := d, kind := .none })
  | some e =>
    if Desc.x d = 31 then
      let k : Kind := match e.typ with | .numeric => .num | .ccitt => .ccitt | .codetable => .code | .flagtable => .flag
      (st, { desc := d, kind := k, width := e.nbits, scale := e.scale, ref := e.ref })
    else match e.typ with
      | .ccitt => (st, { desc := d, kind := .ccitt, width := if st.ccitt > 0 then 8 * (st.ccitt : Int) else e.nbits,
                          scale := e.scale, ref := e.ref, af := afTotal st })
      | .codetable => (st, { desc := d, kind := .code, width := e.nbits, scale := e.scale, ref := e.ref, af := afTotal st })
      | .flagtable => (st, { desc := d, kind := .flag, width := e.nbits, scale := e.scale, ref := e.ref, af := afTotal st })
      | .numeric =>
        if st.ieee > 0 then (st, { desc := d, kind := .ieee, width := st.ieee, scale := e.scale, ref := e.ref, af := afTotal st })
        else if st.newRefBits > 0 then
          let st' := match newRef with
            | some v => { st with newRefs := (d, v) :: st.newRefs }
            | none => st
          (st', { desc := d, kind := .newRef, width := st.newRefBits })
        else
          let ref0 : Int := match st.newRefs.find? (·.1 = d) with | some (_, r) => r | none => e.ref
          let (w, st') : Int × OpState :=
            if st.localW > 0 then ((if isLocal d then (st.localW : Int) else e.nbits), { st with localW := 0 })
            else ((e.nbits : Int) + (if st.s7 > 0 then (((10 * st.s7 + 2) / 3 : Nat) : Int) else st.dw), st)
          (st', { desc := d, kind := .num, width := w,
                  scale := e.scale + (if st.s7 > 0 then (st.s7 : Int) else st.ds),
                  ref := ref0 * 10 ^ st.s7, af := afTotal st })

def step (T : Tables) (st : OpState) (d : Nat) (newRef : Option Int) : OpState × Layout :=
  if Desc.f d = 2 then stepOp st d (Desc.x d) (Desc.y d)
  else if Desc.f d = 0 then stepElem T st d newRef
  else (st, { desc := d, kind := .none })

/-- layout of an expanded sequence when no new-reference value is known yet (template build) -/
def layoutAll (T : Tables) : OpState → List Nat → List Layout
  | _, [] => []
  | st, d :: ds => let (st', l) := step T st d none; l :: layoutAll T st' ds

/-- the sequences this transcription covers: operators 2 01–2 09 that exist in the edition, 2 07
not nested with 2 01/2 02 (FM 94 forbids it), inserted characters (2 05) outside the scope of
2 04/2 08 (the regulation does not say what happens inside), every element in Table B or
described by 2 06, associated fields of at most 64 bits in total, scaled references that fit. -/
def inScope (T : Tables) (edition : Nat) : OpState → List Nat → Bool
  | _, [] => true
  | st, d :: ds =>
    let okHere : Bool :=
      if Desc.f d = 2 then
        let x := Desc.x d; let y := Desc.y d
        definedIn edition x &&
        (if x = 1 ∨ x = 2 then st.s7 = 0 else true) &&
        (if x = 7 ∧ y ≠ 0 then st.dw = 0 ∧ st.ds = 0 else true) &&
        (if x = 5 then st.af = [] ∧ st.ccitt = 0 else true) &&
        (if x = 4 ∧ y > 0 then afTotal st + y ≤ 64 else true)
      else if Desc.f d = 0 then
        match T.fetchB d with
        | none => decide (st.localW > 0) && isLocal d && decide (Desc.x d ≠ 31) && decide (st.ieee = 0)
                    && decide (st.newRefBits = 0) && decide (st.s7 = 0) && decide (st.ds = 0)
        | some e =>
          (if st.localW > 0 then e.typ = .numeric ∧ Desc.x d ≠ 31 else true) &&
          (if Desc.x d = 31 then e.typ ≠ .ccitt else true) &&
          decide (-2147483648 ≤ e.ref * 10 ^ st.s7 ∧ e.ref * 10 ^ st.s7 ≤ 2147483647)
      else false
    okHere && inScope T edition (step T st d none).1 ds

end Bufr.Spec
