import BufrModel.Core
import BufrModel.Find
/-
  BufrSpec.Find — what searching a data subset must return (property C17), written from the property
  text.  Shared with the model: the vocabulary only — `Node` (a descriptor of the subset with its
  encoding, flags and value), `Val`, `Key` (a descriptor number and a list of values; the API marks a
  qualifier key by the bit `QUAL_FLAG_BIT` of the number), the library's notion of a missing value.

  * A position is an index into the subset's descriptor list.
  * `firstMatch`: the smallest position at or after the start at which the element keys match
    consecutive descriptors, every qualifier key holding at each of them; none otherwise.
  * An element key matches a descriptor with the same number: always when it has no value; when it has
    two values, if the descriptor's value is a number inside the inclusive range; otherwise if the
    descriptor's value equals one of the key's values.
  * Two values are equal if both are missing, or both are numbers no further apart than half a unit of
    the last decimal of the element (`10^-scale / 2`), or both are text and equal up to trailing blanks.
  * A qualifier key names an element descriptor of classes 01–09.  The qualifier in effect for a
    descriptor is the most recent descriptor with that number before it that carries data (it has a
    value and is not a placeholder of a replication occurring zero times) — unless that one is missing,
    which cancels the qualifier.  Replication factors and the quality information following a
    2 22/2 24/… operator (flags class31/class33) are not qualified.  The key holds if a qualifier is in
    effect and, when the key has a value, equals it (within half the qualifier's own precision).
-/
namespace Bufr.Spec.Find
open Bufr Bufr.SF Bufr.Find

def absQ (q : Rat) : Rat := if q < 0 then -q else q

/-- the number a value stands for; `none`: missing, or not a number -/
def num : Val → Option Rat
  | .i32 v => if v = -1 then none else some v
  | .i64 v => if v = -1 then none else some v
  | .f32 (.fin q) => if q = maxFloat then none else some q
  | .f64 (.fin q) => if q = maxDouble then none else some q
  | _ => none

/-- half a unit of the last decimal of an element of the given decimal scale -/
def halfPrecision (scale : Int) : Rat := (1/2 : Rat) * pow10r (-scale)

def trimBlanks (bs : List Nat) : List Nat := (bs.reverse.dropWhile (· = 32)).reverse

/-- equality of a descriptor's value `x` and a key value `k` -/
def valEq (scale : Int) (x k : Val) : Bool :=
  match x, k with
  | .str a, .str b => trimBlanks a == trimBlanks b
  | .str _, _ => false
  | _, .str _ => false
  | _, _ =>
    match num x, num k with
    | none, none => true
    | some a, some b => decide (absQ (a - b) ≤ halfPrecision scale)
    | _, _ => false

/-- `lo ≤ x ≤ hi`, all three numbers -/
def inRange (lo x hi : Val) : Bool :=
  match num lo, num x, num hi with
  | some a, some v, some b => decide (a ≤ v ∧ v ≤ b)
  | _, _, _ => false

/-- the API marks a qualifier key by bit 18 of the descriptor number -/
def isQualKey (k : Key) : Bool := k.desc / QUAL_FLAG_BIT % 2 = 1
/-- the descriptor number a key names -/
def keyDesc (k : Key) : Nat := if isQualKey k then k.desc - QUAL_FLAG_BIT else k.desc

/-- an element key on one descriptor -/
def elemKeyMatches (n : Node) (k : Key) : Bool :=
  n.desc == keyDesc k &&
  match k.vals with
  | [] => true
  | [lo, hi] => n.val.isSome && inRange lo n.val hi
  | vs => n.val.isSome && vs.any (valEq n.enc.scale n.val)

/-- element descriptors of classes 01 to 09 -/
def isQualifierDesc (d : Nat) : Bool := d / 100000 = 0 && 1 ≤ d / 1000 % 100 && d / 1000 % 100 ≤ 9

/-- the descriptor carries data for qualifier `d` -/
def carries (n : Node) (d : Nat) : Bool := n.desc == d && n.val.isSome && !n.flags.skipped

/-- the last position before `i` (searching downwards from `i-1`) whose descriptor carries `d` -/
def lastCarrier (ns : List Node) (d : Nat) : Nat → Option Nat
  | 0 => none
  | i+1 => match ns[i]? with
    | some n => if carries n d then some i else lastCarrier ns d i
    | none => lastCarrier ns d i

/-- the last carrier of `d` before `i`, unless it is missing (a missing value cancels the qualifier) -/
def effective (ns : List Node) (d i : Nat) : Option Nat :=
  match lastCarrier ns d i with
  | none => none
  | some k => match ns[k]? with
    | some q => if q.val.isMissing then none else some k
    | none => none

/-- position of the qualifier `d` in effect for the descriptor at position `i` -/
def inEffect (ns : List Node) (i : Nat) (d : Nat) : Option Nat :=
  match ns[i]? with
  | none => none
  | some n =>
    if n.flags.class31 || n.flags.class33 || !isQualifierDesc d then none
    else effective ns d i

/-- a qualifier key at position `i` -/
def qualKeyHolds (ns : List Node) (i : Nat) (k : Key) : Bool :=
  match inEffect ns i (keyDesc k) with
  | none => false
  | some p => match ns[p]?, k.vals with
    | some _, [] => true
    | some q, v :: _ => valEq q.enc.scale q.val v
    | none, _ => false

def elemKeys (keys : List Key) : List Key := keys.filter (!isQualKey ·)
def qualKeys (keys : List Key) : List Key := keys.filter isQualKey

/-- the `j`-th element key and every qualifier key at position `i` -/
def posMatches (ns : List Node) (keys : List Key) (i j : Nat) : Bool :=
  match ns[i]?, (elemKeys keys)[j]? with
  | some n, some k => elemKeyMatches n k && (qualKeys keys).all (qualKeyHolds ns i)
  | _, _ => false

/-- least `p` with `s ≤ p`, `p + nb ≤ count` (and `p < count`) at which `m (p+j) j` for every `j < nb` -/
def firstMatchGen (m : Nat → Nat → Bool) (nb count s : Nat) : Option Nat :=
  (List.range count).find? fun p => decide (s ≤ p) && decide (p + nb ≤ count) && (List.range nb).all fun j => m (p + j) j

/-- the keys match consecutively at position `p` -/
def matchesAt (ns : List Node) (keys : List Key) (p : Nat) : Bool :=
  decide (p + (elemKeys keys).length ≤ ns.length) && (List.range (elemKeys keys).length).all fun j => posMatches ns keys (p + j) j

/-- the smallest position at or after `start` at which the keys match consecutively -/
def firstMatch (ns : List Node) (keys : List Key) (start : Int) : Option Nat :=
  firstMatchGen (posMatches ns keys) (elemKeys keys).length ns.length (if start < 0 then 0 else start.toNat)

/-- position `p` holds descriptor `d` -/
def holdsDesc (ns : List Node) (d : Int) (p : Nat) : Bool :=
  match ns[p]? with
  | some n => decide ((n.desc : Int) = d)
  | none => false

/-- the first position at or after `start` holding descriptor `d` -/
def firstIndexFrom (ns : List Node) (d : Int) (start : Int) : Option Nat :=
  (List.range ns.length).find? fun p => decide ((if start < 0 then 0 else start.toNat) ≤ p) && holdsDesc ns d p

/-- what the search functions return for a result -/
def result : Option Nat → Int
  | some p => p
  | none => -1

end Bufr.Spec.Find
