import BufrSpec.Ops
import BufrSpec.Expand
import BufrModel.Bits
/-
  BufrSpec.RefDecode — reference decoder for the data section (Section 4) of FM 94, written
  from the regulation.  It shares with the model only the vocabulary (`Desc`, `Tables`,
  `bitsMSB`/`ofBitsMSB`) and uses the regulation transcriptions `Spec.stepOp/stepElem`.

  94.5.3/94.5.4  expansion of sequences and replication, delayed factors read from the data;
  94.1.5         all bits set = missing;
  94.6.3         compressed form: for each element a local reference value R0 of the element's
                 width, a 6-bit increment width NBINC, then one increment per subset (all ones =
                 missing); NBINC = 0: every subset has R0.  Character data: R0 of the element's
                 width, NBINC in octets, then NBINC octets per subset.
-/
namespace Bufr.Spec
open Bufr

/-- what one data-bearing descriptor of one subset holds -/
structure Item where
  desc : Nat
  kind : Kind
  width : Nat
  afW : Nat := 0
  af : Nat := 0
  raw : Nat := 0               -- the bits as an unsigned number (numeric, code, flag, IEEE, new reference)
  str : List Nat := []         -- the octets (character data)
deriving DecidableEq, Repr, Inhabited

def takeBits (n : Nat) (bs : List Bool) : Option (Nat × List Bool) :=
  if bs.length < n then none else some (ofBitsMSB (bs.take n), bs.drop n)

def takeOctets : Nat → List Bool → Option (List Nat × List Bool)
  | 0, bs => some ([], bs)
  | k+1, bs => do
    let (c, bs1) ← takeBits 8 bs
    let (cs, bs2) ← takeOctets k bs1
    pure (c :: cs, bs2)

/-- a new reference value is a sign-and-magnitude integer of YYY bits (first bit set = negative) -/
def newRefValue (w raw : Nat) : Int :=
  if w = 0 then 0
  else if raw / 2^(w-1) % 2 = 1 then -((raw % 2^(w-1) : Nat) : Int) else (raw : Int)

def dataKind (k : Kind) : Bool := k = .num || k = .code || k = .flag || k = .ccitt || k = .ieee || k = .newRef

/-- read the field(s) of one element descriptor whose layout is `l` -/
def readItem (l : Layout) (bs : List Bool) : Option (Item × List Bool) :=
  if !dataKind l.kind then some ({ desc := l.desc, kind := l.kind, width := 0 }, bs)
  else do
    let (af, bs1) ← takeBits l.af bs
    let w := l.width.toNat
    if l.kind = .ccitt then
      let (cs, bs2) ← takeOctets (w / 8) bs1
      pure ({ desc := l.desc, kind := l.kind, width := w, afW := l.af, af := af, str := cs }, bs2)
    else
      let (v, bs2) ← takeBits w bs1
      pure ({ desc := l.desc, kind := l.kind, width := w, afW := l.af, af := af, raw := v }, bs2)

/-- all bits set: the value is missing (class 31 excepted) -/
def allOnes (w : Nat) : Nat := 2^w - 1

mutual
/-- one subset, uncompressed: walk the (unexpanded) descriptor list with the operator registers,
expanding as the data dictate.  Returns the items in data order. -/
def decSeq (T : Tables) : Nat → OpState → List Nat → List Bool → Option (List Item × OpState × List Bool)
  | 0, _, _, _ => none
  | _, st, [], bs => some ([], st, bs)
  | f+1, st, d :: ds, bs =>
    if Desc.f d = 3 then
      match T.fetchD d with
      | none => none
      | some e => do
        let (a, st1, bs1) ← decSeq T f st e.members bs
        let (b, st2, bs2) ← decSeq T f st1 ds bs1
        pure (a ++ b, st2, bs2)
    else if Desc.f d = 1 then
      let x := Desc.x d
      if Desc.y d > 0 then
        if ds.length < x then none else do
          let (a, st1, bs1) ← decRep T f st (ds.take x) (Desc.y d) bs
          let (b, st2, bs2) ← decSeq T f st1 (ds.drop x) bs1
          pure (a ++ b, st2, bs2)
      else
        match ds with
        | [] => none
        | c :: rest =>
          if Desc.f c ≠ 0 ∨ Desc.x c ≠ 31 ∨ rest.length < x then none else
          match T.fetchB c with
          | none => none
          | some e => do
            let (v, bs0) ← takeBits e.nbits bs
            let it : Item := { desc := c, kind := .num, width := e.nbits, raw := v }
            let (a, st1, bs1) ← decRep T f st (rest.take x) (factorCount c v) bs0
            let (b, st2, bs2) ← decSeq T f st1 (rest.drop x) bs1
            pure (it :: a ++ b, st2, bs2)
    else if Desc.f d = 2 then do
      let (st1, l) := stepOp st d (Desc.x d) (Desc.y d)
      let (it, bs1) ← readItem l bs
      let (b, st2, bs2) ← decSeq T f st1 ds bs1
      pure ((if dataKind l.kind then [it] else []) ++ b, st2, bs2)
    else do
      -- element: layout first (the value of a new reference definition is only known after reading)
      let (_, l) := stepElem T st d none
      let (it, bs1) ← readItem l bs
      let nr := if l.kind = .newRef then some (newRefValue it.width it.raw) else none
      let (st1, _) := stepElem T st d nr
      let (b, st2, bs2) ← decSeq T f st1 ds bs1
      pure ((if dataKind l.kind then [it] else []) ++ b, st2, bs2)

/-- `count` repetitions of a group -/
def decRep (T : Tables) : Nat → OpState → List Nat → Nat → List Bool → Option (List Item × OpState × List Bool)
  | 0, _, _, _, _ => none
  | _, st, _, 0, bs => some ([], st, bs)
  | f+1, st, body, k+1, bs => do
    let (a, st1, bs1) ← decSeq T f st body bs
    let (b, st2, bs2) ← decRep T f st1 body k bs1
    pure (a ++ b, st2, bs2)
end

/-- all subsets of an uncompressed data section; bits left over must be padding (checked by the caller) -/
def decSubsets (T : Tables) (fuel : Nat) (descs : List Nat) : Nat → List Bool → Option (List (List Item) × List Bool)
  | 0, bs => some ([], bs)
  | k+1, bs => do
    let (its, _, bs1) ← decSeq T fuel {} descs bs
    let (rest, bs2) ← decSubsets T fuel descs k bs1
    pure (its :: rest, bs2)

/-! ### compressed form -/

def takeIncs (w : Nat) : Nat → List Bool → Option (List Nat × List Bool)
  | 0, bs => some ([], bs)
  | k+1, bs => do
    let (v, bs1) ← takeBits w bs
    let (vs, bs2) ← takeIncs w k bs1
    pure (v :: vs, bs2)

/-- one numeric column: the value of each of the `n` subsets -/
def readColumn (w n : Nat) (bs : List Bool) : Option (List Nat × List Bool) := do
  let (r0, bs1) ← takeBits w bs
  let (nbinc, bs2) ← takeBits 6 bs1
  if nbinc = 0 then pure (List.replicate n r0, bs2)
  else
    let (incs, bs3) ← takeIncs nbinc n bs2
    let vals := incs.map (fun i => if i = allOnes nbinc then allOnes w else r0 + i)
    -- every value must fit the element's width (NBINC itself may exceed it by one: the all-ones
    -- increment is reserved for "missing")
    if vals.all (· ≤ allOnes w) then pure (vals, bs3) else none

def takeStrs (octets : Nat) : Nat → List Bool → Option (List (List Nat) × List Bool)
  | 0, bs => some ([], bs)
  | k+1, bs => do
    let (s, bs1) ← takeOctets octets bs
    let (ss, bs2) ← takeStrs octets k bs1
    pure (s :: ss, bs2)

/-- one character column -/
def readStrColumn (octets n : Nat) (bs : List Bool) : Option (List (List Nat) × List Bool) := do
  let (r0, bs1) ← takeOctets octets bs
  let (nbinc, bs2) ← takeBits 6 bs1
  if nbinc = 0 then pure (List.replicate n r0, bs2)
  else takeStrs nbinc n bs2

/-- the items of one element for all `n` subsets (a column), compressed -/
def readItemColumn (l : Layout) (n : Nat) (bs : List Bool) : Option (List Item × List Bool) :=
  if !dataKind l.kind then some (List.replicate n { desc := l.desc, kind := l.kind, width := 0 }, bs)
  else do
    let (afs, bs1) ← (if l.af > 0 then readColumn l.af n bs else some (List.replicate n 0, bs))
    let w := l.width.toNat
    if l.kind = .ccitt then
      let (ss, bs2) ← readStrColumn (w / 8) n bs1
      pure (List.zipWith (fun a s => ({ desc := l.desc, kind := l.kind, width := w, afW := l.af, af := a, str := s } : Item)) afs ss, bs2)
    else
      let (vs, bs2) ← readColumn w n bs1
      pure (List.zipWith (fun a v => ({ desc := l.desc, kind := l.kind, width := w, afW := l.af, af := a, raw := v } : Item)) afs vs, bs2)

def allEq (l : List Nat) : Option Nat :=
  match l with
  | [] => none
  | a :: rest => if rest.all (· = a) then some a else none

mutual
/-- compressed data: one walk, every element a column over the `n` subsets; result is a list of
columns -/
def decSeqC (T : Tables) (n : Nat) : Nat → OpState → List Nat → List Bool → Option (List (List Item) × OpState × List Bool)
  | 0, _, _, _ => none
  | _, st, [], bs => some ([], st, bs)
  | f+1, st, d :: ds, bs =>
    if Desc.f d = 3 then
      match T.fetchD d with
      | none => none
      | some e => do
        let (a, st1, bs1) ← decSeqC T n f st e.members bs
        let (b, st2, bs2) ← decSeqC T n f st1 ds bs1
        pure (a ++ b, st2, bs2)
    else if Desc.f d = 1 then
      let x := Desc.x d
      if Desc.y d > 0 then
        if ds.length < x then none else do
          let (a, st1, bs1) ← decRepC T n f st (ds.take x) (Desc.y d) bs
          let (b, st2, bs2) ← decSeqC T n f st1 (ds.drop x) bs1
          pure (a ++ b, st2, bs2)
      else
        match ds with
        | [] => none
        | c :: rest =>
          if Desc.f c ≠ 0 ∨ Desc.x c ≠ 31 ∨ rest.length < x then none else
          match T.fetchB c with
          | none => none
          | some e => do
            let (vs, bs0) ← readColumn e.nbits n bs
            -- the factor must be the same for every subset
            let v ← allEq vs
            let col := vs.map fun r => ({ desc := c, kind := .num, width := e.nbits, raw := r } : Item)
            let (a, st1, bs1) ← decRepC T n f st (rest.take x) (factorCount c v) bs0
            let (b, st2, bs2) ← decSeqC T n f st1 (rest.drop x) bs1
            pure (col :: a ++ b, st2, bs2)
    else if Desc.f d = 2 then do
      let (st1, l) := stepOp st d (Desc.x d) (Desc.y d)
      let (col, bs1) ← readItemColumn l n bs
      let (b, st2, bs2) ← decSeqC T n f st1 ds bs1
      pure ((if dataKind l.kind then [col] else []) ++ b, st2, bs2)
    else do
      let (_, l) := stepElem T st d none
      let (col, bs1) ← readItemColumn l n bs
      -- a new reference value must be the same for every subset
      let nr : Option Int :=
        if l.kind = .newRef then (allEq (col.map (·.raw))).map (newRefValue l.width.toNat) else none
      if l.kind = .newRef ∧ nr.isNone ∧ n > 0 then none else
      let (st1, _) := stepElem T st d nr
      let (b, st2, bs2) ← decSeqC T n f st1 ds bs1
      pure ((if dataKind l.kind then [col] else []) ++ b, st2, bs2)

def decRepC (T : Tables) (n : Nat) : Nat → OpState → List Nat → Nat → List Bool → Option (List (List Item) × OpState × List Bool)
  | 0, _, _, _, _ => none
  | _, st, _, 0, bs => some ([], st, bs)
  | f+1, st, body, k+1, bs => do
    let (a, st1, bs1) ← decSeqC T n f st body bs
    let (b, st2, bs2) ← decRepC T n f st1 body k bs1
    pure (a ++ b, st2, bs2)
end

/-- columns to subsets -/
def transposeCols (n : Nat) (cols : List (List Item)) : List (List Item) :=
  (List.range n).map fun i => cols.filterMap (·[i]?)

/-- **reference decoder** for a data section: `none` = not a well-formed encoding of this template.
`strict` additionally demands that what follows the data is fewer than 8 (edition 4) / 16
(editions ≤ 3, even-length rule) zero pad bits. -/
def refDecode (T : Tables) (fuel edition : Nat) (descs : List Nat) (nsub : Nat) (compressed : Bool)
    (strict : Bool) (bits : List Bool) : Option (List (List Item)) := do
  let (subs, rest) ←
    if compressed then do
      let (cols, _, rest) ← decSeqC T nsub fuel {} descs bits
      pure (transposeCols nsub cols, rest)
    else decSubsets T fuel descs nsub bits
  if strict ∧ !(rest.all (· = false) ∧ rest.length < (if edition ≤ 3 then 16 else 8)) then none
  else pure subs

end Bufr.Spec
