import BufrModel.TableTypes
import BufrModel.Basic
/-
  BufrSpec.Expand — WMO FM 94 regulation 94.5 (expansion of Section 3), written from the
  regulation as an inductive relation; shares only the `Desc`/`Tables` vocabulary with the model.

  94.5.3  A Table D descriptor is replaced by the list of descriptors it stands for.
  94.5.4  F=1: the X descriptors that follow are repeated Y times; if Y = 0 the count is the
          value of the class 31 element that follows the replication descriptor (which is not
          one of the X descriptors).
-/
namespace Bufr.Spec
open Bufr

def isClass31 (d : Nat) : Prop := Desc.f d = 0 ∧ Desc.x d = 31

/-- `Static T ds out`: `out` is `ds` with every Table D descriptor and every *fixed* replication
expanded (recursively); a delayed replication group — replication descriptor, its class 31
factor and the X descriptors it governs — is kept as written, because its count is data. -/
inductive Static (T : Tables) : List Nat → List Nat → Prop
  | nil : Static T [] []
  | elem (d : Nat) (ds out : List Nat) (h : Desc.f d ≠ 1 ∧ Desc.f d ≠ 3) :
      Static T ds out → Static T (d :: ds) (d :: out)
  | seq (d : Nat) (ds : List Nat) (e : EntryD) (m out : List Nat) :
      Desc.f d = 3 → T.fetchD d = some e → Static T e.members m → Static T ds out →
      Static T (d :: ds) (m ++ out)
  | fixed (d : Nat) (ds b out : List Nat) :
      Desc.f d = 1 → 0 < Desc.y d → Desc.x d ≤ ds.length →
      Static T (List.replicate (Desc.y d) (ds.take (Desc.x d))).flatten b →
      Static T (ds.drop (Desc.x d)) out →
      Static T (d :: ds) (b ++ out)
  | delayed (d c : Nat) (ds out : List Nat) :
      Desc.f d = 1 → Desc.y d = 0 → isClass31 c →
      Static T (ds.drop (Desc.x d)) out →
      Static T (d :: c :: ds) (d :: c :: ds.take (Desc.x d) ++ out)

/-- the count a class 31 factor stands for (94.5.4.1, 94.5.5): 0 31 000 is a one-bit switch,
0 31 001/002 carry the count, 0 31 011/012 are repetition factors: the data occur once -/
def factorCount (c v : Nat) : Nat :=
  if c = 31000 then (if v = 0 then 0 else 1)
  else if c = 31001 ∨ c = 31002 then v
  else 1

/-- `Full T ds fs out fs'`: complete expansion of `ds` consuming the delayed factors `fs` in
data order and leaving `fs'`; `out` lists every element and operator descriptor in the order
their data appear in Section 4, each factor ahead of the data it governs. -/
inductive Full (T : Tables) : List Nat → List Nat → List Nat → List Nat → Prop
  | nil (fs : List Nat) : Full T [] fs [] fs
  | elem (d : Nat) (ds fs out fs' : List Nat) (h : Desc.f d ≠ 1 ∧ Desc.f d ≠ 3) :
      Full T ds fs out fs' → Full T (d :: ds) fs (d :: out) fs'
  | seq (d : Nat) (ds : List Nat) (e : EntryD) (fs m fs1 out fs2 : List Nat) :
      Desc.f d = 3 → T.fetchD d = some e → Full T e.members fs m fs1 → Full T ds fs1 out fs2 →
      Full T (d :: ds) fs (m ++ out) fs2
  | fixed (d : Nat) (ds fs b fs1 out fs2 : List Nat) :
      Desc.f d = 1 → 0 < Desc.y d → Desc.x d ≤ ds.length →
      Full T (List.replicate (Desc.y d) (ds.take (Desc.x d))).flatten fs b fs1 →
      Full T (ds.drop (Desc.x d)) fs1 out fs2 →
      Full T (d :: ds) fs (b ++ out) fs2
  | delayed (d c v : Nat) (ds fs b fs1 out fs2 : List Nat) :
      Desc.f d = 1 → Desc.y d = 0 → isClass31 c → Desc.x d ≤ ds.length →
      Full T (List.replicate (factorCount c v) (ds.take (Desc.x d))).flatten fs b fs1 →
      Full T (ds.drop (Desc.x d)) fs1 out fs2 →
      Full T (d :: c :: ds) (v :: fs) (c :: b ++ out) fs2

end Bufr.Spec
