import BufrModel.Tables
import BufrModel.Switches
/-
  BufrModel.History — what outlives a call of the library, as one record, and the operations that
  change it (C15, history clause).

  Between two calls the C keeps: the switches; the objects the application holds — above all the
  `BUFR_Tables` with its lookup cache (`tableB_cache`) and last hit (`last_searched`), modelled in
  BufrModel/Tables.lean (`BTables`, `fetchB`); storage pools that are only appended to and freed
  (`BUFR_Template.ddo_tbe`: the Table B copies made for 2 03 YYY; they are found through the
  per-call `override_tableb`, never through `ddo_tbe`); and the static variables inventoried in
  Generated/StaticState.lean (constants filled on first use, handlers, last-error information).

  Everything the encoder and decoder learn from the tables they learn through `bufr_fetch_tableB` /
  `bufr_fetch_tableD`.  `view` is what those return in a given state; the history theorem
  (BufrProps/C15.lean) says `view` is the same function after any sequence of operations, so any
  model function applied to it (`createTemplate`, `encodeData`, `decodeData` take a `Tables`, i.e.
  exactly such a pair of lookup functions) gives the same result.

  Mathlib-free.
-/
namespace Bufr.History
open Bufr.Tbl

/-- the part of the library state that persists between calls and that the model keeps -/
structure LibState where
  sw : Switches := {}
  tables : BTables := {}
  /-- number of override entries accumulated in `tmplt->ddo_tbe` (storage only) -/
  ddoTbe : Nat := 0
  /-- the lazily filled static tables have been initialised -/
  staticsReady : Bool := false
deriving Repr

/-- an operation as far as persistent state goes -/
inductive HOp
  /-- `bufr_fetch_tableB` (directly, or from inside a template/encode/decode operation) -/
  | lookupB (d : Nat)
  /-- `bufr_fetch_tableD` -/
  | lookupD (d : Nat)
  /-- a switch setter -/
  | setSw (w : Sw) (v : Int)
  /-- a new reference value met while a template's tables are applied: one more entry in `ddo_tbe` -/
  | override
  /-- first use of `bufr_missing_ivalue`, `bufr_value_nbits`, `bufr_get_max_double`, … -/
  | touchStatics
deriving Repr

def step (L : Libc) (h : Heap) (s : LibState) : HOp → LibState
  | .lookupB d => { s with tables := (fetchB L h s.tables d).2 }
  | .lookupD _ => s
  | .setSw w v => { s with sw := s.sw.set w v }
  | .override => { s with ddoTbe := s.ddoTbe + 1 }
  | .touchStatics => { s with staticsReady := true }

def run (L : Libc) (h : Heap) (s : LibState) (ops : List HOp) : LibState := ops.foldl (step L h) s

/-- what the lookups answer in state `s`: the `Tables` record the model functions take
(`none` from `fetchB` = a dangling cache pointer, excluded by the cache invariant) -/
def view (L : Libc) (h : Heap) (s : LibState) : Tables :=
  { fetchB := fun d => ((fetchB L h s.tables d).1).getD none,
    fetchD := fun d => Tbl.fetchD L s.tables d }

/-- `bufr_missing_ivalue(n)` read from the static table `msng_values`, filled on first use:
the same closed form whether or not the table was ready -/
def missingFromStatic (ready : Bool) (n : Nat) : Nat :=
  let table : Nat → Nat := fun i => if i < 64 then 2 ^ i - 1 else 2 ^ 64 - 1
  let _ := ready          -- a table that is not ready is filled before it is read
  if n = 0 then 0 else if n ≥ 64 then table 64 else table n

end Bufr.History
