import BufrSpec.Ieee
/-
  BufrModel.Ieee — executable model of the portable IEEE 754 codec in
  API/Sources/bufr_ieee754.c (bufr_ieee_decode_single/double, bufr_ieee_encode_single/double,
  bufr_single/double_get_significand, bufr_get_significand_value) and of the start-up
  switch bufr_use_C_ieee754 / check_C_ieee754_compliance.  Mathlib-free.

  Floating-point values are exact rationals (`FVal`: sign + magnitude, ±∞, NaN).
  Rounding sites are explicit: `flr p umin q` is round-to-nearest-even to `p` significant bits
  with smallest ulp `2^umin` (binary32: 24, −149; binary64: 53, −1074).  It is applied where
  the C narrows or scales a value (the `float fvalue = fvalue / pow(2.0, expon)` assignment, the
  final product of the decoders).  The remaining operations of the C are exact for *every*
  binary floating-point operand and are written as exact rational operations:
    * `s += fractions2[i]`    — every partial sum is a subset sum of 2^0 … 2^−52 (≤ 53 bits);
    * `fvalue - ival`         — x − ⌊x⌋ is representable whenever x is (ival < 2^24 resp. 2^53);
    * `dvalue * 2`            — 0 < dvalue < 1;
    * `dvalue -= 1.0`         — 1 ≤ dvalue < 2 (Sterbenz);
    * `sign * …`, `fvalue * -1`.

  Contracts (parameters rather than mirrored code), checked by the driver on the values seen:
    * `g`, the value of `(int)(logf(fvalue)/logf(2.0))` (resp. `log`): `GuessOK x g`, i.e.
      2^(g−2) ≤ x < 2^(g+2), i.e. ⌊log₂x⌋ − 1 ≤ g ≤ ⌊log₂x⌋ + 2: what a quotient within 1 of log₂x gives
      after the cast, which truncates toward zero (just below a power of two < 1, e.g. 0x00ffffff,
      glibc's logf really yields ⌊log₂x⌋ + 2); not needed below 2^emin;
    * `pow(2.0, k)`, `powf(2.0, k)`, `1.0/pow(2,i)` are exact for the integral k used;
    * the host `float`/`double` are binary32/binary64 (`hostVal`), `(uint32_t)x`/`(uint64_t)x`
      truncate (x ≥ 2^32 resp. 2^64 is undefined behaviour in C; the model wraps).
-/
namespace Bufr

/-! ### exact powers of two and rounding -/

/-- `2^e`, any integer `e` (`pow(2.0, e)`, `powf(2.0, e)`: exact in C for the exponents used) -/
def ipow2 (e : Int) : Rat :=
  if 0 ≤ e then ((2 ^ e.toNat : Nat) : Rat) else 1 / ((2 ^ (-e).toNat : Nat) : Rat)

/-- `⌊log₂ q⌋` for `q > 0` -/
def ilog2q (q : Rat) : Int :=
  let k : Int := (q.num.natAbs.log2 : Int) - (q.den.log2 : Int)
  if ipow2 k ≤ q then k else k - 1

/-- round-half-even of a non-negative rational to an integer -/
def rneq (q : Rat) : Int :=
  let f := q.floor
  let r := q - (f : Rat)
  if r < 1 / 2 then f
  else if 1 / 2 < r then f + 1
  else if f % 2 = 0 then f else f + 1

/-- round a magnitude to the nearest binary float with `p` significant bits and smallest ulp
`2^umin`, ties to even (no overflow: the callers stay far below the largest finite value or the
theorems bound the argument) -/
def flr (p : Nat) (umin : Int) (q : Rat) : Rat :=
  if q = 0 then 0
  else
    let u := max (ilog2q q - ((p : Int) - 1)) umin
    ((rneq (q / ipow2 u) : Int) : Rat) * ipow2 u

/-! ### host floating-point objects -/

/-- value of a host `float`/`double` object whose bytes, read as an unsigned integer, are `b`
(t trailing-significand bits, w exponent bits): the layout assumption about the host that
`check_C_ieee754_compliance` probes; written in (integer × 2^k) form -/
def hostVal (w t : Nat) (b : Nat) : FVal :=
  let f := b % 2 ^ t
  let e := b / 2 ^ t % 2 ^ w
  let neg := b.testBit (t + w)
  if e = 2 ^ w - 1 then (if f = 0 then .inf neg else .nan)
  else if e = 0 then .fin neg ((f : Rat) * ipow2 (2 - 2 ^ (w - 1) - (t : Int)))
  else .fin neg (((2 ^ t + f : Nat) : Rat) * ipow2 ((e : Int) - (2 ^ (w - 1) - 1) - (t : Int)))

def hostVal32 (b : Nat) : FVal := hostVal 8 23 b
def hostVal64 (b : Nat) : FVal := hostVal 11 52 b

/-- the host object holding a value (`none` when the value is not representable): used by the
driver to print results and by the model of the self-test -/
def hostBits (w t : Nat) : FVal → Option Nat
  | .nan => some ((2 ^ w - 1) * 2 ^ t + 2 ^ (t - 1))
  | .inf neg => some ((if neg then 2 ^ (t + w) else 0) + (2 ^ w - 1) * 2 ^ t)
  | .fin neg q =>
    let s := if neg then 2 ^ (t + w) else 0
    if q = 0 then some s
    else if q < 0 then none
    else
      let bias : Int := 2 ^ (w - 1) - 1
      let e := ilog2q q
      if e < 1 - bias then
        let m := q / ipow2 (1 - bias - (t : Int))
        if m.den = 1 ∧ m.num.toNat < 2 ^ t then some (s + m.num.toNat) else none
      else if e > bias then none
      else
        let m := q / ipow2 (e - (t : Int))
        if m.den = 1 ∧ 2 ^ t ≤ m.num.toNat ∧ m.num.toNat < 2 ^ (t + 1) then
          some (s + (e + bias).toNat * 2 ^ t + (m.num.toNat - 2 ^ t))
        else none

/-! ### decoding -/

/-- loop of `bufr_get_significand_value`: `for (i = 1; i <= nbits; i++) if (fraction & (1<<(nbits-i))) s += fractions2[i]`;
`k` counts the iterations still to run, so `i = nbits − k + 1`.  `fractions2[i] = 1.0/pow(2,i)`. -/
def sigValueLoop (fraction nbits : Nat) : Nat → Rat → Rat
  | 0, s => s
  | k + 1, s =>
    let i := nbits - k
    sigValueLoop fraction nbits k
      (if fraction &&& (1 <<< (nbits - i)) ≠ 0 then s + 1 / ((2 ^ i : Nat) : Rat) else s)

/-- `bufr_get_significand_value(fraction, nbits, denormal)` -/
def significandValue (fraction nbits : Nat) (denormal : Bool) : Rat :=
  sigValueLoop fraction nbits nbits (if denormal then 0 else 1)

/-- portable branch of `bufr_ieee_decode_single(ival)`, `ival < 2^32` -/
def decodeSingle (ival : Nat) : FVal :=
  let neg := ival &&& 0x80000000 ≠ 0                 -- sign = (ival & SIGN_BIT_32) ? -1.0 : 1.0
  let exponent := (ival &&& 0x7f800000) >>> 23
  let signific := ival &&& 0x007fffff
  if exponent = 0 ∧ signific = 0 then .fin neg 0       -- sign * 0.0
  else if exponent = 0xff then
    (if signific = 0 then .inf neg else .nan)          -- sign * HUGE_VALF / nanf("char-sequence")
  else
    let denormal := exponent = 0
    let e : Int := if denormal then -126 else (exponent : Int) - 127
    let signif := significandValue signific 23 denormal
    -- fval = sign * signif * powf(2.0, (float)exponent): double product (exact: ≤ 24 bits,
    -- |e| ≤ 127), narrowed to float
    .fin neg (flr 24 (-149) (signif * ipow2 e))

/-- portable branch of `bufr_ieee_decode_double(lval)`, `lval < 2^64` -/
def decodeDouble (lval : Nat) : FVal :=
  let neg := lval &&& 0x8000000000000000 ≠ 0
  let exponent := (lval &&& 0x7ff0000000000000) >>> 52
  let signific := lval &&& 0x000fffffffffffff
  if exponent = 0 ∧ signific = 0 then .fin neg 0
  else if exponent = 0x7ff then
    (if signific = 0 then .inf neg else .nan)          -- sign * HUGE_VALL / nan("char-sequence")
  else
    let denormal := exponent = 0
    let e : Int := if denormal then -1022 else (exponent : Int) - 1023
    let signif := significandValue signific 52 denormal
    -- dval = sign * signif * pow(2, exponent): double product, may be subnormal
    .fin neg (flr 53 (-1074) (signif * ipow2 e))

/-! ### encoding -/

/-- `bufr_leftest_bit(val)`: number of right shifts until zero = bit length -/
def leftestBit (v : Nat) : Nat := if v = 0 then 0 else v.log2 + 1

/-- constants that distinguish `bufr_single_get_significand` from `bufr_double_get_significand` -/
structure FCfg where
  nbits : Nat      -- FRACT_NBITS_32 / _64
  word  : Nat      -- width of `ival` (uint32_t / uint64_t)
  emin  : Int      -- −126 / −1022
  emax  : Int      -- 127 / 1023
  prec  : Nat      -- precision of the variable holding `fvalue / pow(2.0, expon)` (float: 24, double: 53)
  umin  : Int      -- its smallest ulp exponent
  fuel  : Nat      -- bound on the `while` iterations (a float/double in (0,1) has < 1200 leading zeros + bits)

def cfg32 : FCfg := { nbits := 23, word := 32, emin := -126, emax := 127, prec := 24, umin := -149, fuel := 200 }
def cfg64 : FCfg := { nbits := 52, word := 64, emin := -1022, emax := 1023, prec := 53, umin := -1074, fuel := 1200 }

structure SigSt where
  ival   : Nat
  dvalue : Rat
  rem    : Int
  n      : Nat
  ni0    : Nat
  deriving DecidableEq, Repr

/-- the `while ((dvalue > 0)&&(rem > 0))` loop of `bufr_*_get_significand`; `den` is `expon == emin` -/
def encLoop (word nb : Nat) (den : Bool) : Nat → SigSt → SigSt
  | 0, s => s
  | fuel + 1, s =>
    if 0 < s.dvalue ∧ 0 < s.rem then
      let n := s.n + 1
      let d := s.dvalue * 2
      let s1 : SigSt :=
        if 1 ≤ d then
          { s with ival := ((s.ival <<< 1) ||| 1) % 2 ^ word, dvalue := d - 1, n := n,
                   ni0 := if s.ni0 = 0 then n else s.ni0 }
        else
          { s with ival := (s.ival <<< 1) % 2 ^ word, dvalue := d, n := n }
      let s2 : SigSt := if 0 < s1.ni0 ∨ 0 < nb ∨ den then { s1 with rem := s1.rem - 1 } else s1
      encLoop word nb den fuel s2
    else s

/-- `if ((expon < emin)||(fvalue < FLT_MIN/DBL_MIN)) expon = emin; if (expon > emax) expon = emax;` -/
def clampExp (c : FCfg) (fvalue : Rat) (g : Int) : Int :=
  let expon := if g < c.emin ∨ fvalue < ipow2 c.emin then c.emin else g
  if expon > c.emax then c.emax else expon

/-- from `ival = (uintN_t) fvalue` to `ni0 = n = 0`: returns `nb` and the state entering the loop -/
def sigInit (c : FCfg) (fv : Rat) : Nat × SigSt :=
  let ival0 := fv.floor.toNat % 2 ^ c.word                 -- ival = (uintN_t) fvalue
  let nb := if 0 < ival0 then leftestBit ival0 else 0
  let rem0 : Int := if 0 < nb then (c.nbits : Int) - nb + 1 else (c.nbits : Int) + 1
  (nb, { ival := ival0, dvalue := fv - (ival0 : Rat), rem := rem0, n := 0, ni0 := 0 })

/-- the code after the loop: `(significand bits, *exponent, *denormal)` -/
def sigFinish (c : FCfg) (expon : Int) (nb : Nat) (s : SigSt) : Nat × Int × Bool :=
  let mask := 2 ^ c.nbits - 1                              -- FRACT_BITS
  if 0 < nb then
    (if 0 < s.rem then ((s.ival <<< s.rem.toNat) % 2 ^ c.word) &&& mask else s.ival &&& mask,
     expon + nb - 1, false)
  else if expon = c.emin then
    (if 1 < s.rem then ((s.ival <<< (s.rem - 1).toNat) % 2 ^ c.word) &&& mask else s.ival,
     expon, true)
  else
    (((s.ival <<< s.rem.toNat) % 2 ^ c.word) &&& mask, expon - s.ni0, false)

/-- `bufr_single_get_significand` / `bufr_double_get_significand`: returns
`(significand bits, *exponent, *denormal)`; `fvalue > 0`, `g` = the truncated `log(fvalue)/log(2.0)` -/
def getSignificand (c : FCfg) (fvalue : Rat) (g : Int) : Nat × Int × Bool :=
  let expon := clampExp c fvalue g
  let fv := flr c.prec c.umin (fvalue / ipow2 expon)       -- fvalue = fvalue / pow(2.0, expon)
  let init := sigInit c fv
  sigFinish c expon init.1 (encLoop c.word init.1 (decide (expon = c.emin)) c.fuel init.2)

/-- portable branch of `bufr_ieee_encode_single(fvalue)`; `g` is used only for finite non-zero values -/
def encodeSingle (x : FVal) (g : Int) : Nat :=
  match x with
  | .nan => 0x7f800000 ||| (1 <<< 22)                       -- EXPON_BITS_32 | (1ULL << (FRACT_NBITS_32-1))
  | .inf neg => if neg then 0x7f800000 ||| 0x80000000 else 0x7f800000
  | .fin neg q =>
    if q = 0 then (if neg then 0 ||| 0x80000000 else 0)     -- fpclassify == FP_ZERO, signbit
    else
      let (ifract, exponent, denormal) := getSignificand cfg32 q g   -- sign taken, fvalue * -1
      let ival :=
        if denormal then ifract                                        -- exponent + 126 unused
        else ((((exponent + 127).toNat <<< 23) ||| ifract) % 2 ^ 32)
      if neg then ival ||| 0x80000000 else ival

/-- portable branch of `bufr_ieee_encode_double(fvalue)` -/
def encodeDouble (x : FVal) (g : Int) : Nat :=
  match x with
  | .nan => 0x7ff0000000000000 ||| (1 <<< 51)
  | .inf neg => if neg then 0x7ff0000000000000 ||| 0x8000000000000000 else 0x7ff0000000000000
  | .fin neg q =>
    if q = 0 then (if neg then 0 ||| 0x8000000000000000 else 0)
    else
      let (ifract, exponent, denormal) := getSignificand cfg64 q g
      let ival :=
        if denormal then ((((exponent + 1023 - 1).toNat <<< 52) ||| ifract) % 2 ^ 64)
        else ((((exponent + 1023).toNat <<< 52) ||| ifract) % 2 ^ 64)
      if neg then ival ||| 0x8000000000000000 else ival

/-- contract of the exponent guess: `2^(g−2) ≤ x < 2^(g+2)`, i.e. `⌊log₂x⌋ − 1 ≤ g ≤ ⌊log₂x⌋ + 2` -/
def GuessOK (x : Rat) (g : Int) : Prop := ipow2 (g - 2) ≤ x ∧ x < ipow2 (g + 2)
instance (x : Rat) (g : Int) : Decidable (GuessOK x g) := by unfold GuessOK; infer_instance

/-- the whole contract on the guess for a value: consulted for finite non-zero values only, and
irrelevant below `2^emin` (there the clamp forces `expon = emin` whatever libm returned) -/
def GuessOKV (c : FCfg) : FVal → Int → Prop
  | .fin _ q, g => q = 0 ∨ q < ipow2 c.emin ∨ GuessOK q g
  | _, _ => True
instance (c : FCfg) (x : FVal) (g : Int) : Decidable (GuessOKV c x g) := by
  cases x <;> unfold GuessOKV <;> infer_instance

/-! ### the public functions with the `C_use_ieee754` switch -/

/-- `bufr_ieee_decode_single`: native branch reinterprets the bits as a host float -/
def ieeeDecodeSingle (useC : Bool) (ival : Nat) : FVal :=
  if useC then hostVal32 ival else decodeSingle ival
def ieeeDecodeDouble (useC : Bool) (lval : Nat) : FVal :=
  if useC then hostVal64 lval else decodeDouble lval

/-- `bufr_ieee_encode_single`: the argument is a host float object (its bits `fbits`);
native branch returns those bits -/
def ieeeEncodeSingle (useC : Bool) (fbits : Nat) (g : Int) : Nat :=
  if useC then fbits else encodeSingle (hostVal32 fbits) g
def ieeeEncodeDouble (useC : Bool) (dbits : Nat) (g : Int) : Nat :=
  if useC then dbits else encodeDouble (hostVal64 dbits) g

/-! ### start-up self-test and `bufr_use_C_ieee754` -/

/-- what the self-test reads from its environment -/
structure SelfTestEnv where
  sizesOK : Bool            -- sizeof(float)=4, sizeof(uint32_t)=4, sizeof(double)=8, sizeof(uint64_t)=8
  guess32 : Nat → Int       -- `(int)(logf(v)/logf(2.0))` for the float with host bits v
  guess64 : Nat → Int

/-- C `==` on floating-point values: NaN unequal to everything, `+0 == −0` -/
def feq : FVal → FVal → Bool
  | .nan, _ => false
  | _, .nan => false
  | .fin na a, .fin nb b => (a = 0 ∧ b = 0) ∨ (na = nb ∧ a = b)
  | .inf na, .inf nb => na = nb
  | _, _ => false

def FVal.isNan : FVal → Bool
  | .nan => true
  | _ => false

/-- `test_decoding_single(fval)`: 1 or −1 (called while `C_use_ieee754 == 0`) -/
def testDecodingSingle (b : Nat) : Int :=
  let v2 := decodeSingle b
  if feq v2 (hostVal32 b) ∨ (v2.isNan ∧ (hostVal32 b).isNan) then 1 else -1
def testDecodingDouble (b : Nat) : Int :=
  let v2 := decodeDouble b
  if feq v2 (hostVal64 b) ∨ (v2.isNan ∧ (hostVal64 b).isNan) then 1 else -1
/-- `test_encoding_single(fval)` -/
def testEncodingSingle (env : SelfTestEnv) (b : Nat) : Int :=
  let v2 := hostVal32 (encodeSingle (hostVal32 b) (env.guess32 b))
  if feq v2 (hostVal32 b) ∨ (v2.isNan ∧ (hostVal32 b).isNan) then 1 else -1
def testEncodingDouble (env : SelfTestEnv) (b : Nat) : Int :=
  let v2 := hostVal64 (encodeDouble (hostVal64 b) (env.guess64 b))
  if feq v2 (hostVal64 b) ∨ (v2.isNan ∧ (hostVal64 b).isNan) then 1 else -1

/-- host bits of `{ nanf(""), 3.4E38, 0.0, 1.0, 0.15625, 1.18E-38, -750.15625, MAXFLOAT }` as compiled
(values[0] is overwritten by nanf; MAXFLOAT comes from <values.h>) -/
def selfTestValues32 : List Nat :=
  [0x7fc00000, 0x7f7fc99e, 0x00000000, 0x3f800000, 0x3e200000, 0x00807d99, 0xc43b8a00, 0x7f7fffff]
/-- host bits of `{ nan(""), 5.9E-39, 3.4E38, 0.0, 1.0, 0.15625, 1.18E-38, -750.15625, MAXDOUBLE }` -/
def selfTestValues64 : List Nat :=
  [0x7ff8000000000000, 0x38000fb32c6204c4, 0x47eff933c78cdfad, 0x0000000000000000,
   0x3ff0000000000000, 0x3fc4000000000000, 0x38100fb32c6204c4, 0xc087714000000000,
   0x7fefffffffffffff]

/-- `check_single_mem_layout()`: −1 if any test failed, else 0 -/
def checkSingleMemLayout (env : SelfTestEnv) : Int :=
  selfTestValues32.foldl (fun r b =>
    let r := if testDecodingSingle b < 0 then -1 else r
    if testEncodingSingle env b < 0 then -1 else r) 0
def checkDoubleMemLayout (env : SelfTestEnv) : Int :=
  selfTestValues64.foldl (fun r b =>
    let r := if testDecodingDouble b < 0 then -1 else r
    if testEncodingDouble env b < 0 then -1 else r) 0

/-- `check_sign_bit()`: host bits of −1.0f, 1.0f, −1.0, 1.0 -/
def checkSignBit : Int :=
  let e := false
  let e := if 0xbf800000 &&& 0x80000000 = 0 then true else e
  let e := if 0x3f800000 &&& 0x80000000 ≠ 0 then true else e
  let e := if 0xbff0000000000000 &&& 0x8000000000000000 = 0 then true else e
  let e := if 0x3ff0000000000000 &&& 0x8000000000000000 ≠ 0 then true else e
  if e then -1 else 1

/-- `check_match_encoding2decoding()`: max_float = MAXFLOAT, max_double = MAXDOUBLE (<values.h>) -/
def checkMatchEncoding2Decoding (env : SelfTestEnv) : Int :=
  let e : Int := 0
  let e := if encodeSingle (hostVal32 0x7f7fffff) (env.guess32 0x7f7fffff) ≠ 0x7f7fffff then -1 else e
  let e := if encodeDouble (hostVal64 0x7fefffffffffffff) (env.guess64 0x7fefffffffffffff)
              ≠ 0x7fefffffffffffff then -1 else e
  e

/-- `check_C_ieee754_compliance()` -/
def checkCompliance (env : SelfTestEnv) : Int :=
  let got : Int := 0
  let got := if !env.sizesOK then 1 else got
  let got := if checkSignBit < 0 then 1 else got
  let got := if checkSingleMemLayout env < 0 then 1 else got
  let got := if checkDoubleMemLayout env < 0 then 1 else got
  let got := if checkMatchEncoding2Decoding env < 0 then 1 else got
  if got ≠ 0 then 0 else 1

/-- statics of `bufr_use_C_ieee754` / the codec -/
structure NativeSt where
  checked : Int := 0        -- static int checked
  cUse    : Bool := false   -- static int C_use_ieee754
  deriving DecidableEq, Repr

/-- `bufr_use_C_ieee754(use)`: returns the new statics and the result -/
def useCIeee754 (env : SelfTestEnv) (st : NativeSt) (use : Int) : NativeSt × Int :=
  let checked := if st.checked = 0 then (if checkCompliance env ≠ 0 then 1 else -1) else st.checked
  let c : Bool := 0 < checked ∧ use ≠ 0
  ({ checked := checked, cUse := c }, if c then 1 else 0)

end Bufr
