import BufrModel.Template
/-
  BufrModel.Merge — `bufr_merge_dataset(dest, dest_pos, src, src_pos, nb)` (bufr_dataset.c) and the
  template test it relies on (`bufr_compare_template`: the flattened descriptor lists).
-/
namespace Bufr

def sameTemplate (a b : Template) : Bool := a.gabarit.map (·.desc) == b.gabarit.map (·.desc)

/-- the copy loop: `destcount` is read once before the loop; positions below it are replaced,
others appended -/
def mergeCore (dest1 src : List (List Node)) (dc dp sp nb : Nat) : List (List Node) :=
  (List.range nb).foldl (fun a i =>
    let s := (src[sp + i]?).getD []
    if dp + i < dc then a.set (dp + i) s else a ++ [s]) dest1

/-- `bufr_merge_dataset` for non-negative positions; `blank` is what `bufr_create_datasubset(dest)`
adds.  Returns the C return value and the destination's subsets. -/
def mergeDataset (same : Bool) (blank : List Node) (dest src : List (List Node)) (dp sp : Nat) (nb : Int) :
    Int × List (List Node) :=
  if !same then (-1, dest)
  else
    let nb0 : Int := if nb > src.length then src.length else nb
    -- no more than what the source holds from `sp` on
    let nb1 : Int := if sp > 0 ∧ nb0 > (src.length : Int) - sp then (src.length : Int) - sp else nb0
    let dest1 := if dp ≥ dest.length then dest ++ List.replicate (dp - dest.length + 1) blank else dest
    (if nb1 < 0 then 0 else nb1, mergeCore dest1 src dest1.length dp sp nb1.toNat)

end Bufr
