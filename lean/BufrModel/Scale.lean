import BufrModel.Basic
import BufrModel.SoftFloat
/-
  BufrModel.Scale — the scaling arithmetic of libecbufr (C08), mirrored branch by branch.

  Interface (what the Section 4 codec model imports):

    structure Enc  := (scale : Int) (ref : Int) (nbits : Nat)      -- a Table B encoding
    missingIvalue  : Int → Nat                     bufr_missing_ivalue        (bufr_value.c:1058)
    cvtI64ToDval   : Enc → Int → Rat               bufr_cvt_i64_to_dval       (bufr_tables.c:1891)
    cvtDvalToI64   : Desc → Enc → FP → Nat         bufr_cvt_dval_to_i64       (bufr_tables.c:1967)
    cvtI32ToFval   : Enc → Nat → Rat               bufr_cvt_i32_to_fval       (bufr_tables.c:1928)
    cvtFvalToI32   : Desc → Enc → FP → Nat         bufr_cvt_fval_to_i32       (bufr_tables.c:1758)
    getRange       : Desc → Enc → Rat × Rat        bufr_descriptor_get_range  (bufr_desc.c:507, numeric/code/flag)
    isMissingDouble/isMissingFloat : FP → Bool     bufr_is_missing_double/float (bufr_value.c:1340)
    setDvalueAccepts : Desc → Enc → FP → Bool      range test of bufr_descriptor_set_dvalue (bufr_desc.c:704–716)
    int32Path      : Desc → Enc → Int → Nat        the INT32-with-reference path of bufr_put_desc_value /
                                                   bufr_value2bits: cvt_dval_to_i64(…, (double)i32val)

  Finite doubles/floats are exact rationals (`SF.FP`); a decoded value is always finite, so the
  decoders return `Rat` (`maxDouble`/`maxFloat` = the library's "missing").

  Conventions: `fl 53`/`fl 24` = one correctly rounded IEEE operation.  int→double conversions of
  32-bit quantities are exact and written without `fl`.  `pow(10.0, s)` is `pow10 s =
  fl 53 (10^s)` — a CONTRACT on libm (correctly rounded for these arguments), checked at run time
  by the `scale.powcheck` op against the 41 bit patterns the harness prints.
  Float→integer casts out of range (UB in C) follow x86-64 (`SF.cast*`); no theorem depends on them.
  For `scale < 0` the C multiplies by the exact `pow(10,-scale)` (decoder, range bounds) and divides by
  it (encoder) instead of using the inexact `pow(10,scale)`.
  Side effects on the library's diagnostic globals (bufr_errcode, bufr_minimum_nbits, …) and the
  debug text are not modelled.
-/
namespace Bufr.Scale
open Bufr Bufr.SF

/-- a Table B element encoding: decimal scale, reference value, data width in bits -/
structure Enc where
  scale : Int
  ref   : Int
  nbits : Nat
  deriving Repr, DecidableEq

/-- `pow(10.0, (double)s)` (contract: correctly rounded) -/
def pow10 (s : Int) : Rat := fl 53 (pow10r s)

/-- `bufr_missing_ivalue`: all ones on `nbits` bits (`nbits ≥ 64` reads `msng_values[64] = ~0ULL`) -/
def missingIvalue (nbits : Int) : Nat :=
  if nbits ≤ 0 then 0 else if nbits ≥ 64 then 2 ^ 64 - 1 else 2 ^ nbits.toNat - 1

def isMissingDouble : FP → Bool
  | .nan => true
  | .inf _ => true
  | .fin q => q = maxDouble

def isMissingFloat : FP → Bool
  | .nan => true
  | .inf _ => true
  | .fin q => q = maxFloat

/-! ### decode: raw → physical -/

/-- `bufr_cvt_i64_to_dval(be, ival)` -/
def cvtI64ToDval (e : Enc) (ival : Int) : Rat :=
  let missing : Int := missingIvalue e.nbits
  if ival < 0 ∨ ival = missing then maxDouble else
  if e.scale < 0 then
    fl 53 (fl 53 ((ival + e.ref : Int) : Rat) * pow10 (-e.scale))   -- (double)(ival+ref) * pow(10,-scale)
  else
  let P := pow10 e.scale
  if e.ref < 0 ∧ ival < -e.ref then
    fl 53 (fl 53 ((ival + e.ref : Int) : Rat) / P)      -- (double)(int64_t)(ival+ref) / val_pow
  else
    fl 53 (fl 53 ((ival + e.ref : Int) : Rat) / P)      -- (double)(ival+ref) / val_pow

/-- `bufr_cvt_i32_to_fval(be, ival)`, `ival` a `uint32_t` -/
def cvtI32ToFval (e : Enc) (ival : Nat) : Rat :=
  let missing := missingIvalue e.nbits % 2^32          -- uint32_t missing = (uint64_t)…
  if ival = missing then maxFloat else
  if e.scale < 0 then
    let Q := fl 24 (pow10 (-e.scale))                   -- float val_pow = pow(10,-scale)
    if e.ref < 0 ∧ ival < wrapU32 (-e.ref) then
      fl 24 (fl 24 (wrapI32 ((ival : Int) + e.ref) : Rat) * Q)
    else
      fl 24 (fl 24 (wrapU32 ((ival : Int) + e.ref) : Rat) * Q)
  else
  let Pf := fl 24 (pow10 e.scale)                       -- float val_pow = pow(…)
  if e.ref < 0 ∧ ival < wrapU32 (-e.ref) then
    let v := wrapI32 ((ival : Int) + e.ref)             -- (int32_t)(ival + reference)
    fl 24 (fl 24 (v : Rat) / Pf)
  else
    let v := wrapU32 ((ival : Int) + e.ref)             -- uint32_t sum
    fl 24 (fl 24 (v : Rat) / Pf)

/-! ### encode: physical → raw (double path) -/

/-- `fmin`: `reference / val_pow`, or `reference * inv_pow` with `inv_pow = pow(10,-scale)` for `scale < 0` -/
def dFmin (e : Enc) : Rat :=
  if e.scale < 0 then fl 53 ((e.ref : Rat) * pow10 (-e.scale))
  else fl 53 ((e.ref : Rat) / pow10 e.scale)
/-- `fmax`: `((int64_t)(maxval-1) + reference)` divided by `val_pow` (multiplied by `inv_pow`) -/
def dFmax (e : Enc) : Rat :=
  let M : Int := 2 ^ e.nbits - 1 - 1 + e.ref
  if e.scale < 0 then fl 53 (fl 53 (M : Rat) * pow10 (-e.scale))
  else fl 53 (fl 53 (M : Rat) / pow10 e.scale)
/-- `ival_pow = (val_pow < 9.0e18) ? (int64_t)val_pow : 0` -/
def dIpow (e : Enc) : Int :=
  if pow10 e.scale < 9 * 10 ^ 18 then castI64 (ctrunc (pow10 e.scale)) else 0

/-- first computation in the `scale ≥ 0` branch: `val1`, `ival = round(val1*val_pow)`,
`delta = maxval - ival` narrowed to `int` -/
def dVal1 (e : Enc) (fval : Rat) : Rat := fl 53 (fval - fl 53 ((e.ref : Rat) / pow10 e.scale))
def dDelta (e : Enc) (fval : Rat) : Int :=
  let ival0 := castU64 (cround (fl 53 (dVal1 e fval * pow10 e.scale)))
  wrapI32 ((2:Int) ^ e.nbits - 1 - ival0)

/-- branch `delta < reference` -/
def dBranchA (e : Enc) (fval : Rat) : Nat :=
  let P := pow10 e.scale
  let val1 := dVal1 e fval
  let t := castU64 (ctrunc val1)                                       -- ival = val1
  let rem := castU64 (cround (fl 53 (fl 53 (val1 - fl 53 (t : Rat)) * P)))
  castU64 (ctrunc (fl 53 (fl 53 (fl 53 (t : Rat) * P) + fl 53 (rem : Rat))))  -- ival*val_pow + rem

/-- branch `fval > 0.0` -/
def dBranchB (e : Enc) (fval : Rat) : Nat :=
  let P := pow10 e.scale
  let ipow := dIpow e
  let t := castU64 (ctrunc fval)                                       -- ival = fval
  let sval := wrapU64 ((t : Int) * ipow)                               -- uint64 * int64
  let rem := castU64 (cround (fl 53 (fl 53 (fval - fl 53 (t : Rat)) * P)))
  wrapU64 ((wrapU64 ((sval : Int) - e.ref) : Int) + rem)

/-- branch `fval ≤ 0.0` (`scale ≥ 0`) -/
def dBranchC (e : Enc) (fval : Rat) : Nat :=
  let sval := castI64 (cround (fl 53 (fval * pow10 e.scale)))          -- int64_t sval = round(…)
  wrapU64 (sval - e.ref)

/-- the `scale < 0` branch: `round(fval / inv_pow) - reference` -/
def dBranchNeg (e : Enc) (fval : Rat) : Nat :=
  let sval := castI64 (cround (fl 53 (fval / pow10 (-e.scale))))
  wrapU64 (sval - e.ref)

/-- `bufr_cvt_dval_to_i64(code, be, fval)` -/
def cvtDvalToI64 (code : Desc) (e : Enc) (x : FP) : Nat :=
  if e.nbits > 32 then 0 else
  let missing := missingIvalue e.nbits
  match x with
  | .nan => missing
  | .inf _ => missing
  | .fin fval =>
    if fval = maxDouble then missing else
    let maxval : Nat := 2 ^ e.nbits - 1
    if fval > dFmax e then
      -- overflow = 1; class 31: ival = (int)fval; if (ival == maxval) overflow = 0
      if Desc.x code = 31 ∧ wrapU64 (castI32 (ctrunc fval)) = maxval then maxval else missing
    else if fval < dFmin e then maxval                                 -- underflow: ival = maxval
    else
      let ival :=
        if 0 ≤ e.scale then
          (if dDelta e fval < e.ref then dBranchA e fval
           else if fval > 0 then dBranchB e fval
           else dBranchC e fval)
        else dBranchNeg e fval
      if ival ≥ maxval then missing else ival                          -- both branches test overflow

/-! ### encode: physical → raw (single-precision path) -/

def fPow (e : Enc) : Rat := fl 24 (pow10 e.scale)                     -- float val_pow = pow(…)
def fInv (e : Enc) : Rat := fl 24 (pow10 (-e.scale))                  -- float inv_pow = pow(10,-scale)
/-- `fmin`: `(float)reference / val_pow`, or `(float)reference * inv_pow` for `scale < 0`, in float -/
def fFmin (e : Enc) : Rat :=
  if e.scale < 0 then fl 24 (fl 24 (e.ref : Rat) * fInv e) else fl 24 (fl 24 (e.ref : Rat) / fPow e)
def fFmax (e : Enc) : Rat :=
  let M : Int := 2 ^ e.nbits - 1 - 1 + e.ref
  if e.scale < 0 then fl 24 (fl 24 (M : Rat) * fInv e) else fl 24 (fl 24 (M : Rat) / fPow e)
def fIpow (e : Enc) : Int :=
  if fPow e < 9 * 10 ^ 18 then castI64 (ctrunc (fPow e)) else 0
/-- `val1 = fval - (be->reference / val_pow)` evaluated in float, stored in a double -/
def fVal1 (e : Enc) (fval : Rat) : Rat := fl 24 (fval - fl 24 (fl 24 (e.ref : Rat) / fPow e))
def fDelta (e : Enc) (fval : Rat) : Int :=
  let ival0 := castU32 (cround (fl 53 (fVal1 e fval * fPow e)))       -- double * (double)float
  wrapI32 ((2:Int) ^ e.nbits - 1 - ival0)

def fBranchA (e : Enc) (fval : Rat) : Nat :=
  let P := fPow e
  let val1 := fVal1 e fval
  let t := castU32 (ctrunc val1)
  let rem := castU32 (cround (fl 53 (fl 53 (val1 - (t : Rat)) * P)))  -- double arithmetic; (double)uint32 exact
  castU32 (ctrunc (fl 24 (fl 24 (fl 24 (t : Rat) * P) + fl 24 (rem : Rat))))  -- float arithmetic

def fBranchB (e : Enc) (fval : Rat) : Nat :=
  let P := fPow e
  let ipow := fIpow e
  let t := castU32 (ctrunc fval)
  let sval := wrapU32 ((t : Int) * ipow)
  let rem := castU32 (cround (fl 24 (fl 24 (fval - fl 24 (t : Rat)) * P)))
  wrapU32 ((wrapU32 ((sval : Int) - e.ref) : Int) + rem)

def fBranchC (e : Enc) (fval : Rat) : Nat :=
  let sval := castI64 (cround (fl 24 (fval * fPow e)))                 -- int64_t sval = round(fval*val_pow)
  wrapU32 (sval - e.ref)

def fBranchNeg (e : Enc) (fval : Rat) : Nat :=
  let sval := castI64 (cround (fl 24 (fval / fInv e)))                 -- int64_t sval = round(fval/inv_pow)
  wrapU32 (sval - e.ref)

/-- `bufr_cvt_fval_to_i32(code, be, fval)` -/
def cvtFvalToI32 (code : Desc) (e : Enc) (x : FP) : Nat :=
  if e.nbits > 32 then 0 else
  let missing := missingIvalue e.nbits % 2^32
  match x with
  | .nan => missing
  | .inf _ => missing
  | .fin fval =>
    if fval = maxFloat then missing else
    let maxval : Nat := 2 ^ e.nbits - 1
    if fval > fFmax e then
      if Desc.x code = 31 ∧ wrapU32 (castI32 (ctrunc fval)) = maxval then maxval else missing
    else if fval < fFmin e then maxval
    else
      let ival :=
        if 0 ≤ e.scale then
          (if fDelta e fval < e.ref then fBranchA e fval
           else if fval > 0 then fBranchB e fval
           else fBranchC e fval)
        else fBranchNeg e fval
      if ival ≥ maxval then missing else ival

/-- `bufr_put_desc_value` / `bufr_value2bits`, `VALTYPE_INT32` with a reference or scale
(bufr_dataset.c): `bufr_cvt_dval_to_i64(desc, be, (double)i32val)` — a double holds any int32 exactly.
(Before repository commit 8cba48a the integer went through `(float)` and the single-precision
encoder, DESIGN §10 #11; `C08_int32_via_float_fails` records what that did.) -/
def int32Path (code : Desc) (e : Enc) (v : Int) : Nat :=
  cvtDvalToI64 code e (.fin (v : Rat))

/-! ### range and range test -/

/-- `bufr_descriptor_get_range` for numeric / code table / flag table elements: `(min, max)` -/
def getRange (code : Desc) (e : Enc) : Rat × Rat :=
  let imax : Int := (2:Int) ^ e.nbits - 1
  let top : Int := (if Desc.x code = 31 then imax else imax - 1) + e.ref
  if e.scale < 0 then
    let Q := pow10 (-e.scale)
    (fl 53 ((e.ref : Rat) * Q), fl 53 (fl 53 (top : Rat) * Q))
  else
    let P := pow10 e.scale
    (fl 53 ((e.ref : Rat) / P), fl 53 (fl 53 (top : Rat) / P))

/-- range test of `bufr_descriptor_set_dvalue`: a missing value is stored as is; a finite value is
kept iff `min ≤ dval ≤ max`, otherwise the element becomes missing (return −1) -/
def setDvalueAccepts (code : Desc) (e : Enc) (x : FP) : Bool :=
  match x with
  | .fin q => if q = maxDouble then true else
      let (mn, mx) := getRange code e
      decide (mn ≤ q ∧ q ≤ mx)
  | _ => true

end Bufr.Scale
