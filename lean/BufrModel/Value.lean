import BufrModel.SoftFloat
/-
  BufrModel.Value — `BufrValue` (bufr_value.c): a typed value and the conversions the getters and
  setters perform between types.  Floats are exact (`SF.FP`).
-/
namespace Bufr
open SF

inductive Val
  | none                         -- no value attached (`value == NULL`)
  | i32 (v : Int)                -- VALTYPE_INT32 (and INT8); -1 is missing
  | i64 (v : Int)                -- VALTYPE_INT64; -1 is missing
  | f32 (x : FP)                 -- VALTYPE_FLT32; FLT_MAX / NaN / inf are missing
  | f64 (x : FP)                 -- VALTYPE_FLT64; DBL_MAX / NaN / inf are missing
  | str (bs : List Nat)          -- VALTYPE_STRING with its length
deriving DecidableEq, Repr, Inhabited

def Val.isSome : Val → Bool
  | .none => false
  | _ => true

def fpMissingD : FP → Bool
  | .nan => true | .inf _ => true | .fin q => q = maxDouble
def fpMissingF : FP → Bool
  | .nan => true | .inf _ => true | .fin q => q = maxFloat

/-- truncating cast of a float/double to `int32_t` / `int64_t` (x86-64 behaviour out of range) -/
def fpToI32 : FP → Int
  | .fin q => castI32 (ctrunc q)
  | _ => castI32 ((2:Int)^62)
def fpToI64 : FP → Int
  | .fin q => castI64 (ctrunc q)
  | _ => -(2:Int)^63

/-- `bufr_value_get_double` -/
def Val.getDouble : Val → FP
  | .f64 x => x
  | .f32 x => if fpMissingF x then .fin maxDouble else x
  | .i32 v => if v = -1 then .fin maxDouble else .fin v
  | .i64 v => if v = -1 then .fin maxDouble else .fin (fl 53 v)
  | _ => .fin maxDouble

/-- `bufr_value_get_float` -/
def Val.getFloat : Val → FP
  | .f32 x => x
  | .f64 x => if fpMissingD x then .fin maxFloat else toFloat x
  | .i32 v => if v = -1 then .fin maxFloat else .fin (fl 24 v)
  | .i64 v => if v = -1 then .fin maxFloat else .fin (fl 24 v)
  | _ => .fin maxFloat

/-- `bufr_value_get_int64` -/
def Val.getInt64 : Val → Int
  | .i32 v => v
  | .i64 v => v
  | .f32 x => if fpMissingF x then -1 else fpToI64 x
  | .f64 x => if fpMissingD x then -1 else fpToI64 x
  | _ => -1

/-- `bufr_value_get_int32` -/
def Val.getInt32 : Val → Int
  | .i32 v => v
  | .i64 v => wrapI32 v
  | .f32 x => if fpMissingF x then -1 else fpToI32 x
  | .f64 x => if fpMissingD x then -1 else fpToI32 x
  | _ => -1

/-- `bufr_value_set_int32(bv, value)` (`value` already an `int`) -/
def Val.setInt32 (bv : Val) (v : Int) : Val :=
  -- the parameter is an `int`
  let v := wrapI32 v
  match bv with
  | .i32 _ => .i32 v
  | .i64 _ => .i64 v
  | .f32 _ => .f32 (.fin (fl 24 v))
  | .f64 _ => .f64 (.fin v)
  | other => other

/-- `bufr_value_set_int64(bv, value)` -/
def Val.setInt64 (bv : Val) (v : Int) : Val :=
  -- the parameter is an `int64_t`
  let v := wrapI64 v
  match bv with
  | .i32 _ => .i32 (wrapI32 v)
  | .i64 _ => .i64 v
  | .f32 _ => .f32 (.fin (fl 24 v))
  | .f64 _ => .f64 (.fin (fl 53 v))
  | other => other

/-- `bufr_value_set_double(bv, value)` -/
def Val.setDouble (bv : Val) (x : FP) : Val :=
  match bv with
  | .f64 _ => .f64 x
  | .f32 _ => .f32 (toFloat x)
  | .i32 _ => .i32 (if fpMissingD x then -1 else fpToI32 x)
  | .i64 _ => .i64 (if fpMissingD x then -1 else fpToI64 x)
  | other => other

/-- `bufr_value_set_float(bv, value)` -/
def Val.setFloat (bv : Val) (x : FP) : Val :=
  match bv with
  | .f32 _ => .f32 x
  | .f64 _ => .f64 x
  | .i32 _ => .i32 (if fpMissingF x then -1 else fpToI32 x)
  | .i64 _ => .i64 (if fpMissingF x then -1 else fpToI64 x)
  | other => other

/-- `bufr_value_set_string(bv, str, len)`: `str` is a C string (stops at the first NUL); padded
with blanks, or with 0xFF when every copied character is 0xFF (including none at all) -/
def strPad (s : Option (List Nat)) (len : Nat) : List Nat :=
  let cs := match s with
    | some bs => (bs.takeWhile (· ≠ 0)).take len
    | none => []
  let missing := cs.all (· = 255)
  cs ++ List.replicate (len - cs.length) (if missing then 255 else 32)

/-- `bufr_is_missing_string(str, len)`: trailing blanks (down to one character) ignored, the rest
all 0xFF -/
def strIsMissing (bs : List Nat) : Bool :=
  let rec trim : List Nat → List Nat
    | [] => []
    | [a] => [a]
    | a :: rest => if a = 32 then trim rest else a :: rest
  (trim bs.reverse).all (· = 255)

/-- `bufr_value_is_missing(bv)` -/
def Val.isMissing : Val → Bool
  | .i32 v => v = -1
  | .i64 v => v = -1
  | .f32 x => fpMissingF x
  | .f64 x => fpMissingD x
  | .str bs => strIsMissing bs
  | .none => true

def Val.setString (bv : Val) (s : Option (List Nat)) (len : Nat) : Val :=
  match bv with
  | .str _ => .str (strPad s len)
  | other => other

end Bufr
