import BufrModel.Decode
import BufrModel.Tables
import BufrModel.Frame
import BufrSpec.RefDecode
/-
  BufrModel.LocalTables — local table update messages (bufr_local.c):
  `bufr_store_tables` (a BUFR message of data category 11 written by hand: Section 3 built
  descriptor by descriptor, Section 4 with `bufr_putbits`/`bufr_putstring`, `split_lines`,
  `fill_line`, the `sprintf` formats) and `bufr_extract_tables` (the walk over the decoded
  data subsets looking at 0 00 001–003, 0 00 010–020, 0 31 001 and 0 00 030, `atoi`,
  `strimdup`, `bufr_unit_to_datatype`), plus `bufr_merge_tables` on the local arrays
  (`bufr_merge_tableB/D`: overwrite in place or append and sort).

  The model describes the code *with* the four C20 repairs (see known_findings.json):
  the extracted encoding is zero-initialised, `split_lines` does not touch a NULL second line,
  the magnitude of scale and reference is taken in `long long`, and more than 255 Table D
  entries are counted by 0 31 002 in the data section.

  Mathlib-free: this file is linked into the `bvp_lean` driver.
-/
namespace Bufr.LT
open Bufr Bufr.Tbl

/-! ## What a local table holds -/

/-- a local Table B entry as `EntryTableB` holds it; the data type is not a field: every loader
(and the extraction) derives it from the unit with `bufr_unit_to_datatype` -/
structure LB where
  desc : Nat
  name : Bytes
  unit : Bytes
  scale : Int
  ref : Int
  width : Nat
deriving DecidableEq, Repr, Inhabited

structure LD where
  desc : Nat
  members : List Nat
deriving DecidableEq, Repr, Inhabited

/-- the local part of a `BUFR_Tables`: category, its description (always 64 characters) and the
two arrays in array order -/
structure Local where
  cat : Nat := 0
  catDesc : Bytes := List.replicate 64 32
  b : List LB := []
  d : List LD := []
deriving DecidableEq, Repr, Inhabited

def LB.toEntryB (e : LB) : EntryB :=
  { desc := e.desc, scale := e.scale, ref := e.ref, nbits := e.width, typ := unitToType e.unit,
    unit := strOfBytes e.unit, descr := strOfBytes e.name }

def LD.toEntryD (e : LD) : EntryD := { desc := e.desc, members := e.members }

/-- `bufr_set_tables_category(tbls, cat, desc)` -/
def setCategory (l : Local) (cat : Int) (desc : Option Bytes) : Local :=
  let c := if 0 ≤ cat ∧ cat < 256 then cat.toNat else l.cat
  let d := match desc with
    | some s => ((cstr s).take 64).map fun ch => if isSpace ch then 32 else ch
    | none => []
  { l with cat := c, catDesc := d ++ List.replicate (64 - d.length) 32 }

/-! ## `bufr_merge_tableB` / `bufr_merge_tableD`

The destination is sorted by descriptor (every load and merge ends with `arr_sort`), lookups are
binary searches.  An entry whose descriptor is present is overwritten in place; otherwise it is
appended and the array sorted again. -/

def insertSorted {α : Type} (key : α → Nat) (e : α) : List α → List α
  | [] => [e]
  | a :: as => if key e < key a then e :: a :: as else a :: insertSorted key e as

def merge1 {α : Type} (key : α → Nat) (dst : List α) (e : α) : List α :=
  if dst.any (fun a => key a = key e) then dst.map (fun a => if key a = key e then e else a)
  else insertSorted key e dst

def mergeArr {α : Type} (key : α → Nat) (dst src : List α) : List α := src.foldl (merge1 key) dst

/-- `bufr_merge_tables(dst, src)` on the local arrays (the master arrays are shared) -/
def mergeLocal (dst src : Local) : Local :=
  { dst with b := mergeArr LB.desc dst.b src.b, d := mergeArr LD.desc dst.d src.d }

/-- lookups in a table set whose local arrays are `l` over the master tables `M`
(`bufr_fetch_tableB`: local first, then master; `bufr_fetch_tableD`: only F = 3) -/
def tablesOf (M : Tables) (l : Local) : Tables :=
  { fetchB := fun k =>
      if Desc.f k = 0 then
        match l.b.find? (fun e => e.desc = k) with
        | some e => some e.toEntryB
        | none => M.fetchB k
      else M.fetchB k
    fetchD := fun k =>
      if Desc.f k = 3 then
        match l.d.find? (fun e => e.desc = k) with
        | some e => some e.toEntryD
        | none => M.fetchD k
      else M.fetchD k }

/-! ## `sprintf` -/

def decDigitsF : Nat → Nat → Bytes
  | 0, _ => []
  | f + 1, v => if v < 10 then [48 + v] else decDigitsF f (v / 10) ++ [48 + v % 10]

/-- `sprintf("%d", v)` for `v ≥ 0` (fuel: a number has fewer digits than its value plus one) -/
def decDigits (v : Nat) : Bytes := decDigitsF (v + 1) v

def padLeft (c : Nat) (w : Nat) (s : Bytes) : Bytes := List.replicate (w - s.length) c ++ s

/-- the first `w` characters of `sprintf("%<w>d", v)`, which is what `bufr_putstring(…, w)` sends -/
def fmtBlank (w v : Nat) : Bytes := (padLeft 32 w (decDigits v)).take w
/-- the first `w` characters of `sprintf("%.<w>d", v)` -/
def fmtZero (w v : Nat) : Bytes := (padLeft 48 w (decDigits v)).take w

def signChar (v : Int) : Nat := if v ≥ 0 then 43 else 45

/-- `fill_line(line, len, str, slen)` -/
def fillLine (len : Nat) (str : Bytes) (slen : Nat) : Bytes :=
  let s := str.take (min slen len)
  s ++ List.replicate (len - s.length) 32

/-- `split_lines(line1, len1, line2, len2, str, strlen(str))`: the two lines sent -/
def splitLines (len1 len2 : Nat) (str : Bytes) : Bytes × Bytes :=
  if str.length > len1 then
    let rest := (str.drop len1).take len2
    (str.take len1, rest ++ List.replicate (len2 - rest.length) 32)
  else
    (str ++ List.replicate (len1 - str.length) 32, List.replicate len2 32)

/-! ## `bufr_store_tables` -/

/-- the widths the writer takes from the tables in force: the two replication factors (bits) and
the character elements 0 00 002, 003, 013, 014, 015, 030 (octets) -/
structure Meta where
  w31001 : Nat
  w31002 : Nat
  n2 : Nat
  n3 : Nat
  n13 : Nat
  n14 : Nat
  n15 : Nat
  n30 : Nat
deriving DecidableEq, Repr

/-- the layout of the WMO class 00 elements -/
def stdMeta : Meta := { w31001 := 8, w31002 := 16, n2 := 32, n3 := 32, n13 := 32, n14 := 32, n15 := 24, n30 := 6 }

/-- `bufr_sequence_2TBarray(bufr_expand_descriptor(300004, OP_RM_XPNDBL_DESC, …))`: the Table B
entries of the elements 3 00 004 expands to (expandable descriptors removed) -/
def seq300004 (T : Tables) (fuel : Nat) : Option (List (Option EntryB)) :=
  match expandDesc T fuel 0 none 300004 with
  | .ok (ns, false) => some ((ns.filter fun n => !n.flags.skipped).map fun n => T.fetchB n.desc)
  | _ => none

inductive MetaRes
  | ok (m : Meta)
  | err        -- 3 00 004 does not expand: the C returns -1
  | crash      -- an entry the C dereferences without a test is missing
deriving DecidableEq, Repr

/-- what the writer looks up.  `needB`/`needD`: which parts are written; an entry that is not
needed is looked up all the same here (its absence is no error then, and its width is not used). -/
def metaOf (T : Tables) (fuel : Nat) (needB needD : Bool) : MetaRes :=
  let nb (d : Nat) : Option Nat := (T.fetchB d).map (·.nbits)
  let get (o : Option Nat) (need : Bool) : Option Nat := if need then o else some (o.getD 0)
  match (if needB then seq300004 T fuel else some ((seq300004 T fuel).getD [])) with
  | none => if (nb 31001).isSome ∧ (nb 2).isSome ∧ (nb 3).isSome then .err else .crash
  | some es =>
    let at_ (i : Nat) : Option Nat := get ((es.getD i none).map (·.nbits / 8)) needB
    match get (nb 31001) (needB || needD), get (nb 31002) true, get ((nb 2).map (· / 8)) needB,
          get ((nb 3).map (· / 8)) needB, at_ 3, at_ 4, at_ 5, get ((nb 30).map (· / 8)) needD with
    | some a, some b, some c, some d, some e, some f, some g, some h =>
      .ok { w31001 := a, w31002 := b, n2 := c, n3 := d, n13 := e, n14 := f, n15 := g, n30 := h }
    | _, _, _, _, _, _, _, _ => .crash

/-- the descriptor list of Section 3 -/
def sec3 (tcount dcount : Nat) : List Nat :=
  (if tcount > 0 then [103000, 31001, 1, 2, 3, 101000, if tcount < 256 then 31001 else 31002, 300004] else []) ++
  (if dcount > 0 then (if dcount < 256 then [101000 + dcount] else [101000, 31002]) ++ [300010] else [])

def putFxy (w : W) (d : Nat) : W :=
  ((w.putstring (fmtZero 1 (Desc.f d))).putstring (fmtZero 2 (Desc.x d))).putstring (fmtZero 3 (Desc.y d))

/-- one Table B entry: F, X, Y, the two name lines, the unit, sign and scale, sign and reference, width -/
def putB (m : Meta) (w : W) (e : LB) : W :=
  let w := putFxy w e.desc
  let (l1, l2) := splitLines m.n13 m.n14 e.name
  let w := (w.putstring l1).putstring l2
  let w := w.putstring (splitLines m.n15 0 e.unit).1
  let w := (w.putstring [signChar e.scale]).putstring (fmtBlank 3 e.scale.natAbs)
  let w := (w.putstring [signChar e.ref]).putstring (fmtBlank 10 e.ref.natAbs)
  w.putstring (fmtBlank 3 e.width)

/-- one Table D entry: F, X, Y, the count, the members as six characters each -/
def putD (m : Meta) (w : W) (e : LD) : W :=
  let w := putFxy w e.desc
  let w := w.putbits e.members.length m.w31001
  e.members.foldl (fun w c => w.putstring (fillLine m.n30 (fmtZero 6 c) 6)) w

/-- the Table B part of Section 4: the 1 03 000 group (category), the count, the entries -/
def storeBPart (m : Meta) (l : Local) (w : W) : W :=
  let tcount := l.b.length
  if tcount > 0 then
    let w := w.putbits 1 m.w31001
    let w := w.putstring (fmtZero 3 (l.cat % 256))
    let w := (w.putstring (splitLines m.n2 m.n3 l.catDesc).1).putstring (splitLines m.n2 m.n3 l.catDesc).2
    let w := w.putbits tcount (if tcount < 256 then m.w31001 else m.w31002)
    l.b.foldl (putB m) w
  else w

/-- the Table D part: the count when it does not fit the replication descriptor, the entries -/
def storeDPart (m : Meta) (l : Local) (w : W) : W :=
  let dcount := l.d.length
  if dcount > 0 then
    let w := if dcount ≥ 256 then w.putbits dcount m.w31002 else w
    l.d.foldl (putD m) w
  else w

/-- Section 4 as `bufr_store_tables` fills it (`bufr_alloc_sect4(bufr, 8192)` first) -/
def storeBits (m : Meta) (l : Local) : W := storeDPart m l (storeBPart m l (W.new 8192))

/-- the message before `bufr_end_message` (time of day left at zero: the harness masks it) -/
def preMsg (m : Meta) (edition : Nat) (l : Local) : Frame.Msg :=
  let m0 := Frame.createMessage edition
  let w := storeBits m l
  { m0 with s1 := { m0.s1 with msgType := 11 }, s3Flag := 0, nSubsets := 1,
            descs := sec3 l.b.length l.d.length,
            s4Data := w.bytes, s4Filled := w.filled, s4Bitno := w.bitno }

/-- the message handed to `bufr_write_message` -/
def storeMsg (m : Meta) (edition : Nat) (l : Local) : Frame.Msg := (preMsg m edition l).endMessage

inductive StoreRes
  | nothing                 -- both arrays empty: returns 0, writes nothing
  | failed                  -- returns -1
  | crash
  | wrote (bytes : List Nat)   -- returns 0; the bytes written (none if the writer refused the length)
deriving DecidableEq, Repr

/-- `bufr_store_tables(fp, dts)` for a dataset whose template carries `l` over the master tables `M` -/
def store (M : Tables) (fuel : Nat) (edition : Nat) (l : Local) : StoreRes :=
  if l.b.isEmpty ∧ l.d.isEmpty then .nothing
  else
    match metaOf (tablesOf M l) fuel (!l.b.isEmpty) (!l.d.isEmpty) with
    | .err => .failed
    | .crash => .crash
    | .ok m =>
      match Frame.writeMessage (storeMsg m edition l) with
      | .ok (_, bytes) => .wrote bytes
      | .err => .wrote []

/-! ## `bufr_extract_tables` -/

/-- an extracted Table B entry: what `atoi` makes of the text, `none` = a NULL string -/
structure XB where
  desc : Int
  name : Option Bytes
  unit : Option Bytes
  scale : Int
  ref : Int
  width : Int
  typ : Nat                    -- `BufrDataType` as a number (0 = TYPE_UNDEFINED)
deriving DecidableEq, Repr, Inhabited

structure XD where
  desc : Int
  members : List Int
deriving DecidableEq, Repr, Inhabited

structure Extracted where
  cat : Nat := 0
  catDesc : Bytes := List.replicate 64 32
  b : List XB := []
  d : List XD := []
deriving DecidableEq, Repr, Inhabited

def XB.ofLB (e : LB) : XB :=
  { desc := e.desc, name := some e.name, unit := some e.unit, scale := e.scale, ref := e.ref, width := e.width,
    typ := typeCode (unitToType e.unit) }
def XD.ofLD (e : LD) : XD := { desc := e.desc, members := e.members.map Int.ofNat }

def XB.toLB? (e : XB) : Option LB :=
  match e.name, e.unit with
  | some n, some u =>
    if e.desc ≥ 0 ∧ e.width ≥ 0 then
      some { desc := e.desc.toNat, name := n, unit := u, scale := e.scale, ref := e.ref, width := e.width.toNat }
    else none
  | _, _ => none
def XD.toLD? (e : XD) : Option LD :=
  if e.desc ≥ 0 ∧ e.members.all (· ≥ 0) then some { desc := e.desc.toNat, members := e.members.map Int.toNat } else none

/-- the local arrays a program gets by merging the extracted tables into a table set
(`bufr_merge_tables(dst, extracted)`); entries no table could hold are dropped -/
def Extracted.toLocal (x : Extracted) : Local :=
  { cat := x.cat, catDesc := x.catDesc, b := x.b.filterMap XB.toLB?, d := x.d.filterMap XD.toLD? }

/-- `strimdup(NULL, s, 65)`: the destination is allocated to fit, only trailing white space goes -/
def strim (s : Bytes) : Bytes := rtrim isSpace (cstr s)

/-- `atoll` -/
def atoll (s : Bytes) : Int := clamp64 (atoiRaw s)

/-- `bufr_unit_to_datatype(unit)` as a number -/
def unitTypeCode : Option Bytes → Nat
  | none => 0
  | some u => typeCode (unitToType u)

/-- the automatic variables of `bufr_extract_tables` -/
structure XSt where
  out : Extracted := {}
  cat : Int := 0
  desc : Bytes := []                -- `char desc[512]`: copies and concatenations stop at 511 characters
  f : Int := 0
  x : Int := 0
  y : Int := 0
  descriptor : Int := 0
  ebDesc : Int := 0
  ebName : Option Bytes := none
  ebUnit : Option Bytes := none
  ebScale : Int := 0
  ebRef : Int := 0
  ebWidth : Int := 0
  codes : Option (List Int) := none     -- `codes[0..c)`, `none` = NULL
  countD : Int := 0
  c : Nat := 0
deriving Repr, Inhabited

/-- `bufr_value_get_string(value, &len)`: `none` = NULL -/
def valStr : Val → Option Bytes
  | .str bs => some (cstr bs)
  | _ => none

/-- one round of the `switch` for a descriptor `d` carrying the value `v`; `none` = the C
dereferences a NULL string -/
def xStepV (st : XSt) (d : Nat) (v : Val) : Option XSt :=
  let s := valStr v
  match d with
  | 1 => some (match s with | some s => { st with cat := atoi s } | none => st)
  | 2 => some (match s with | some s => { st with desc := s.take 511 } | none => st)
  | 3 =>
    let st := match s with | some s => { st with desc := (st.desc ++ s).take 511 } | none => st
    let l := setCategory { cat := st.out.cat, catDesc := st.out.catDesc } st.cat (some st.desc)
    some { st with out := { st.out with cat := l.cat, catDesc := l.catDesc } }
  | 10 => some (match s with | some s => { st with f := atoi s } | none => st)
  | 11 => some (match s with | some s => { st with x := atoi s } | none => st)
  | 12 => some (match s with
      | some s =>
        let y := atoi s
        let d := wrap32 (st.f * 100000 + st.x * 1000 + y)
        { st with y := y, descriptor := d, ebDesc := d }
      | none => st)
  | 13 => s.map fun s => { st with desc := s.take 511 }
  | 14 => s.map fun s => let d := (st.desc ++ s).take 511; { st with desc := d, ebName := some (strim d) }
  | 15 => s.map fun s => { st with ebUnit := some (strim s) }
  | 16 => s.map fun s => { st with ebScale := if s.head? = some 45 then -1 else 1 }
  | 17 => s.map fun s => { st with ebScale := wrap32 (st.ebScale * atoi s) }
  | 18 => s.map fun s => { st with ebRef := if s.head? = some 45 then -1 else 1 }
  | 19 => s.map fun s => { st with ebRef := wrap32 (st.ebRef * atoll s) }
  | 20 => s.map fun s =>
    let e : XB := { desc := st.ebDesc, name := st.ebName, unit := st.ebUnit, scale := st.ebScale, ref := st.ebRef,
                    width := atoi s, typ := unitTypeCode st.ebUnit }
    { st with ebWidth := atoi s, out := { st.out with b := st.out.b ++ [e] }, ebName := none, ebUnit := none }
  | 31001 =>
    -- `codes = malloc(count * sizeof(int))`: a negative count asks for more than there is
    let cnt := v.getInt32
    some { st with countD := cnt, codes := if cnt < 0 then none else some [], c := 0 }
  | 30 =>
    match (if (st.c : Int) < st.countD then s.map (fun s => { st with codes := st.codes.map (· ++ [atoi s]), c := st.c + 1 })
           else some st) with
    | none => none
    | some st =>
      if (st.c : Int) = st.countD then
        let e : XD := { desc := st.descriptor, members := (st.codes.getD []).take st.c }
        some { st with out := { st.out with d := st.out.d ++ [e] }, codes := none, countD := 0, c := 0 }
      else some st
  | _ => some st

/-- the walk only looks at the descriptor and the value of a node -/
def xStep (st : XSt) (n : Node) : Option XSt := xStepV st n.desc n.val

def xWalk : XSt → List Node → Option XSt
  | st, [] => some st
  | st, n :: ns => match xStep st n with
    | some st' => xWalk st' ns
    | none => none

/-- the loops over the subsets (`i`) and their descriptors from the second on (`j = 1`) -/
def xSubsets : XSt → List (List Node) → Option XSt
  | st, [] => some st
  | st, s :: ss => match xWalk st (s.drop 1) with
    | some st' => xSubsets st' ss
    | none => none

/-- `bufr_extract_tables(dts)` for a dataset that is a table update; `none` = NULL dereference -/
def extract (subsets : List (List Node)) : Option Extracted := (xSubsets {} subsets).map (·.out)

/-! ## The walk over the items of the reference decoder

`bufr_extract_tables` looks only at the descriptor and the value of a node.  The reference decoder
(BufrSpec.RefDecode) returns items; the value the decoder attaches to the node of an item is the
string as `bufr_value_set_string` stores it (cut at a NUL, blank filled), and a 32-bit integer for a
class 31 count. -/

def itemVal (it : Spec.Item) : Val :=
  if it.kind = .ccitt then .str (strPad (some it.str) it.str.length) else .i32 it.raw

def xWalkV : XSt → List (Nat × Val) → Option XSt
  | st, [] => some st
  | st, (d, v) :: r => match xStepV st d v with
    | some st' => xWalkV st' r
    | none => none

def walkItems (st : XSt) (its : List Spec.Item) : Option XSt := xWalkV st (its.map fun it => (it.desc, itemVal it))

/-- the walk over a list of items, as `bufr_extract_tables` would do it over their nodes -/
def extractItems (its : List Spec.Item) : Option Extracted := (walkItems {} its).map (·.out)

def bytesBits (s : Bytes) : List Bool := s.flatMap (bitsMSB 8)

/-- cross-check used by the driver: when the reference decoder accepts the message, the walk over its
items must give what the walk over the decoder model's nodes gave (`x`).  A sequence with no member
is excepted: the decoder leaves a placeholder node for the zero-fold replication, which the walk
sees, and the reference decoder has no item for it. -/
def specAgrees (T : Tables) (fuel : Nat) (m : Frame.Msg) (x : Extracted) : Bool :=
  -- (the reference decoder works on a list of bits and measures it at every field: small messages only)
  if m.s4Data.length > 4000 then true else
  match Spec.refDecode T fuel m.edition m.descs m.nSubsets (m.s3Flag &&& 64 ≠ 0) false (bytesBits m.s4Data) with
  | none => true
  | some subs =>
    match extractItems subs.flatten with
    | none => true
    | some y => decide (y = x) || x.d.any (fun e => e.members.isEmpty)

/-! ## Reading a table update message -/

inductive ExtractRes
  | noread                  -- `bufr_memread_message` fails
  | null                    -- `bufr_decode_message` returns NULL
  | notables                -- the dataset is not a table update (`bufr_contains_tables`)
  | crash
  | diverge
  | ok (invalid : Bool) (x : Extracted)
  | specDiffers             -- (model only) the reference decoder reads the message differently
deriving DecidableEq, Repr

/-- read a message from `bytes`, decode it with `T` (`bufr_decode_message`), extract the tables -/
def extractFromBytes (T : Tables) (nonEmpty : Bool) (fuel : Nat) (bytes : List Nat) : ExtractRes :=
  -- `bufr_memread_message`: what the ideal byte source gives (C06_paths: the memory callback agrees)
  match Frame.readMessage bytes with
  | .err => .noread
  | .ok (m, _) =>
    -- no tables at all, or no descriptor in Section 3 (`bufr_create_dataset` refuses an empty template)
    if !nonEmpty ∨ m.descs.isEmpty then .null else
    match createTemplate T fuel m.edition m.descs with
    | .error .fuel => .diverge
    | .error _ => .null
    | .ok t =>
      match decodeData T fuel t .warnAllow m.nSubsets (m.s3Flag &&& 64 ≠ 0) m.s4Len m.s4Data 0 0 with
      | .error .fuel => .diverge
      | .error _ => .crash
      | .ok none => .null
      | .ok (some out) =>
        -- an early return of the decoder leaves Section 1 of the dataset at its defaults
        if out.early ∨ m.s1.msgType ≠ 11 then .notables
        else match extract out.subsets with
          | none => .crash
          | some x => if !out.invalid && !specAgrees T fuel m x then .specDiffers else .ok out.invalid x

end Bufr.LT
