import BufrModel.TableTypes
/-
  BufrModel.TableDRank — a decidable acyclicity/closure check for a Table D given as a list of
  entries: every sequence gets a rank (1 + the maximal rank of its members, plain descriptors rank 0)
  within a fixed fuel.  Used by the generated obligations on the shipped tables
  (`Generated/ShippedD.lean`: `allRanked shippedD = true := by decide +kernel`).  Mathlib-free.
-/
namespace Bufr

def lookupD (t : List EntryD) (d : Nat) : Option (List Nat) := (t.find? (·.desc == d)).map (·.members)

def rankD (t : List EntryD) : Nat → Nat → Option Nat
  | 0, _ => none
  | fuel + 1, d =>
    if d / 100000 != 3 then some 0 else
    match lookupD t d with
    | none => none
    | some ms => (ms.foldl (fun acc m => match acc, rankD t fuel m with
        | some a, some r => some (max a r)
        | _, _ => none) (some 0)).map (· + 1)

/-- every entry has a rank below 12 (the shipped tables nest 6 deep): closed and acyclic -/
def allRanked (t : List EntryD) : Bool := t.all (fun e => (rankD t 12 e.desc).isSome)

def maxRank (t : List EntryD) : Nat := (t.map (fun e => (rankD t 12 e.desc).getD 99)).foldl max 0

end Bufr
