/-
  BufrModel.Frame — executable model of message framing in libecbufr:
  `bufr_create_message`, `bufr_init_header`, `bufr_init_sect1`, `bufr_sect2_set_data`,
  `bufr_encode_sect3`, `bufr_end_message` (bufr_message.c) and
  `bufr_wr_section0..5`, `bufr_wr_header_string`, `bufr_callback_write_message`,
  `bufr_seek_msg_start`, `bufr_rd_section0..5`, `bufr_decode_sect3`,
  `bufr_callback_read_message`, the four read callbacks (bufr_io.c, bufr_sio.c).

  Conventions
  * A message is the record `Msg`; only what the framing code reads or writes is kept.
  * Integers are `Nat`; where the C relies on a machine type the model says so
    explicitly (`short` fields refuse values ≥ 32768 on read, `unsigned` length
    differences wrap modulo 2^32, `int len = ilen` in the stdio callback).
  * The reader is a *program over a byte source* (`Prog`): the only primitive is
    "call the read callback for n bytes and insist on getting n".  Running it on a
    list (`runList`) is the ideal source; running it on a `Src` (`runSrc`) is one
    of the real callbacks.
  * A failed read makes the program fail at once.  The C sometimes stores -1 and
    fails on the following read; both are the same for a source that keeps
    returning short once it has returned short (assumed, see `Src.Faithful`).

  Mathlib-free: this file is linked into the `bvp_lean` driver.
-/
import BufrModel.Basic
import BufrModel.Header
namespace Bufr.Frame

/-- outcome of a C function: value or error return -/
inductive Res (α : Type) where
  | ok : α → Res α
  | err : Res α
deriving Repr, DecidableEq

structure Sect1 where
  len : Nat
  headerLen : Nat
  masterTable : Nat
  centre : Nat
  subCentre : Nat
  updSeq : Nat
  flag : Nat
  msgType : Nat
  interSub : Nat
  localSub : Nat
  masterVer : Nat
  localVer : Nat
  year : Nat
  month : Nat
  day : Nat
  hour : Nat
  minute : Nat
  second : Nat
  data : List Nat          -- `data[0..data_len)`
deriving Repr, DecidableEq

structure Msg where
  edition : Nat
  lenMsg : Nat             -- `unsigned int`
  s1 : Sect1
  s2Len : Nat
  s2Data : List Nat        -- `s2.data[0..data_len)`
  s3Len : Nat
  nSubsets : Nat
  s3Flag : Nat
  descs : List Nat         -- `s3.desc_list`, FXXYYY
  s3Buf : List Nat         -- `s3.data[0..max_len)`
  s4Len : Nat
  s4Data : List Nat        -- `s4.data[0 .. filled + (bitno>0))` when writing, `[0 .. len-4)` after reading
  s4Filled : Nat
  s4Bitno : Nat
  header : Option (List Nat)   -- `header_string` (escaped form), `header_len` = its length
deriving Repr, DecidableEq

def BUFR_MAX_MSG_LEN : Nat := 16777216

def s1HeaderLen (ed : Nat) : Nat := if ed ≥ 4 then 22 else 17
def s1DefaultLen (ed : Nat) : Nat := if ed ≥ 4 then 22 else 18

/-- `bufr_init_sect1` -/
def initSect1 (ed : Nat) : Sect1 :=
  { len := s1DefaultLen ed, headerLen := s1HeaderLen ed, masterTable := 0, centre := 54,
    subCentre := 0, updSeq := 0, flag := 0, msgType := 0, interSub := 0, localSub := 0,
    masterVer := 17, localVer := 0, year := 0, month := 0, day := 0, hour := 0, minute := 0,
    second := 0, data := [] }

/-- editions outside 2..5 become 4 -/
def normEdition (ed : Nat) : Nat := if ed < 2 ∨ ed > 5 then 4 else ed

/-- `bufr_init_header` (Section 2/4 buffers, descriptor list and header string are not touched) -/
def Msg.initHeader (m : Msg) (ed : Nat) : Msg :=
  let ed := normEdition ed
  { m with edition := ed, s1 := initSect1 ed, s2Len := 0, s3Len := 7, s4Len := 4,
           nSubsets := 0, s3Flag := 0, s4Filled := 0, s4Bitno := 0 }

/-- `bufr_create_message`; `len_msg = -1` as `unsigned` -/
def createMessage (ed : Nat) : Msg :=
  Msg.initHeader
    { edition := 0, lenMsg := 4294967295, s1 := initSect1 4, s2Len := 0, s2Data := [], s3Len := 7,
      nSubsets := 0, s3Flag := 0, descs := [], s3Buf := [], s4Len := 4, s4Data := [],
      s4Filled := 0, s4Bitno := 0, header := none } ed

/-- `bufr_descriptor_i32_to_i16` -/
def descCode (d : Nat) : Nat :=
  (d / 100000 % 4) * 16384 + (d / 1000 % 100 % 64) * 256 + (d % 1000 % 256)

def descBytes (d : Nat) : List Nat := [descCode d / 256, descCode d % 256]

/-- the two-octet code back to FXXYYY (`bufr_decode_sect3`) -/
def codeDesc (hi lo : Nat) : Nat :=
  let code := hi * 256 + lo
  (code / 16384 % 4) * 100000 + (code / 256 % 64) * 1000 + code % 256

/-- `bufr_encode_sect3` including `bufr_alloc_sect3`: the buffer only grows; the pad octet
is zeroed only when the buffer is (re)allocated. -/
def Msg.encodeSect3 (m : Msg) : Msg :=
  let n := m.descs.length
  let bytes := m.descs.flatMap descBytes
  let want := 2 * n + (if m.edition ≤ 3 then 1 else 0)
  let buf := if m.s3Buf.length < want then bytes ++ (if m.edition ≤ 3 then [0] else [])
             else bytes ++ m.s3Buf.drop (2 * n)
  let len := 7 + 2 * n
  let len := if m.edition = 3 ∧ len % 2 = 1 then len + 1 else len
  { m with s3Buf := buf, s3Len := len }

def hasSect2 (flag : Nat) : Bool := flag &&& 129 != 0

/-- `bufr_end_message`.  When an edition ≤ 3 Section 4 has odd length the C calls
`bufr_putbits(bufr, 0, nbits)` with nbits = 8 on an octet boundary, else (8-bitno)+8: the
partial octet is completed with zero bits and one zero octet follows. -/
def Msg.endMessage (m : Msg) : Msg :=
  let s2Len := if hasSect2 m.s1.flag then 4 + m.s2Data.length else 0
  let m1 := m.encodeSect3
  let s3Len := if m.edition ≤ 3 ∧ m1.s3Len % 2 = 1 then m1.s3Len + 1 else m1.s3Len
  let rem := if m.s4Bitno > 0 then 1 else 0
  let s4Len0 := m.s4Filled + 4 + rem
  let pad : Bool := decide (m.edition ≤ 3 ∧ s4Len0 % 2 = 1)
  let filled := if pad then (if m.s4Bitno = 0 then m.s4Filled + 1 else m.s4Filled + 2) else m.s4Filled
  let s4Len := if pad then filled + 4 else s4Len0
  { m1 with s2Len := s2Len, s3Len := s3Len, s4Len := s4Len,
            s4Data := if pad then m.s4Data ++ [0] else m.s4Data,
            s4Filled := filled, s4Bitno := if pad then 0 else m.s4Bitno,
            lenMsg := 8 + m.s1.len + s2Len + s3Len + s4Len + 4 }

/-- `bufr_sect2_set_data` -/
def Msg.sect2SetData (m : Msg) (data : List Nat) : Msg :=
  let pad := if m.edition ≤ 3 ∧ data.length % 2 = 1 then [0] else []
  let d := data ++ pad
  Msg.endMessage { m with s2Data := d, s2Len := 4 + d.length, s1 := { m.s1 with flag := m.s1.flag ||| 128 } }

/-! ## Writing -/

def int3b (v : Nat) : List Nat := [v / 65536 % 256, v / 256 % 256, v % 256]
def int2b (v : Nat) : List Nat := [v / 256 % 256, v % 256]

/-- edition ≤ 3 year octet: `(year - 1) % 100 + 1` in C `int` arithmetic (year ≥ 0) -/
def yearOfCentury (y : Nat) : Nat := if y = 0 then 0 else (y - 1) % 100 + 1

def wrSection0 (m : Msg) : List Nat := [66, 85, 70, 82] ++ int3b m.lenMsg ++ [m.edition % 256]

/-- `bufr_wr_section1`; the master table has already been forced to 0 by the caller -/
def wrSection1 (m : Msg) : List Nat :=
  let s := m.s1
  int3b s.len ++ [0] ++
  (if m.edition = 2 then int2b s.centre
   else if m.edition = 3 then [s.subCentre % 256, s.centre % 256]
   else if m.edition ≥ 4 then int2b s.centre ++ int2b s.subCentre
   else []) ++
  [s.updSeq % 256, s.flag % 256, s.msgType % 256] ++
  (if m.edition ≥ 4 then [s.interSub % 256] else []) ++
  [s.localSub % 256, s.masterVer % 256, s.localVer % 256] ++
  (if m.edition ≥ 4 then int2b s.year else [yearOfCentury s.year % 256]) ++
  [s.month % 256, s.day % 256, s.hour % 256, s.minute % 256] ++
  (if m.edition ≥ 4 then [s.second % 256] else []) ++
  (if m.edition ≥ 2 then s.data else []) ++
  List.replicate (s.len - (s.headerLen + s.data.length)) 0

def wrSection2 (m : Msg) : List Nat :=
  if hasSect2 m.s1.flag ∧ m.s2Len > 0 then int3b m.s2Len ++ [0] ++ m.s2Data else []

def wrSection3 (m : Msg) : List Nat :=
  int3b m.s3Len ++ [0] ++ int2b m.nSubsets ++ [m.s3Flag % 256] ++ m.s3Buf.take (m.s3Len - 7)

def wrSection4 (m : Msg) : List Nat :=
  int3b m.s4Len ++ [0] ++ m.s4Data.take (m.s4Len - 4)

def wrSection5 : List Nat := [55, 55, 55, 55]

/-- Sections 0–5 as written -/
def writeBody (m : Msg) : List Nat :=
  wrSection0 m ++ wrSection1 m ++ wrSection2 m ++ wrSection3 m ++ wrSection4 m ++ wrSection5

/-- the message after `bufr_wr_section1` has overwritten a non-zero master table -/
def Msg.written (m : Msg) : Msg := { m with s1 := { m.s1 with masterTable := 0 } }

/-- the bytes `bufr_wr_header_string` sends -/
def rawHeader (m : Msg) : List Nat :=
  match m.header with
  | none => []
  | some h => oct2char h

/-- `bufr_callback_write_message` on a sink that accepts everything: the message afterwards
and the bytes sent.  A total length that does not fit three octets is refused. -/
def writeMessage (m : Msg) : Res (Msg × List Nat) :=
  if m.lenMsg ≥ BUFR_MAX_MSG_LEN then .err
  else .ok (m.written, rawHeader m ++ writeBody m)

/-- `bufr_copy_sect1(dest, src)`: everything except the flag octet; the lengths only when
positive; the additional octets with them -/
def copySect1 (dest src : Sect1) : Sect1 :=
  { src with flag := dest.flag,
             len := if src.len > 0 then src.len else dest.len,
             headerLen := if src.headerLen > 0 then src.headerLen else dest.headerLen }

/-! ## Reading: programs over a byte source -/

inductive Prog (α : Type) where
  | ret : α → Prog α
  | fail : Prog α
  /-- `readcb(cd, n, buf)` must return `n` -/
  | bulk : Nat → (List Nat → Prog α) → Prog α

def Prog.bind {α β : Type} : Prog α → (α → Prog β) → Prog β
  | .ret a, f => f a
  | .fail, _ => .fail
  | .bulk n k, f => .bulk n (fun l => (k l).bind f)

instance : Monad Prog where
  pure := Prog.ret
  bind := Prog.bind

/-- the ideal source: a list of bytes -/
def Prog.runList {α : Type} : Prog α → List Nat → Res (α × List Nat)
  | .ret a, l => .ok (a, l)
  | .fail, _ => .err
  | .bulk n k, l => if n ≤ l.length then (k (l.take n)).runList (l.drop n) else .err

/-- a read callback with its client data `σ` -/
structure Src (σ : Type) where
  read : σ → Nat → List Nat × σ
  /-- an upper bound on the bytes still to come (fuel for the scan for `BUFR`) -/
  remaining : σ → Nat

def Prog.runSrc {α σ : Type} (S : Src σ) : Prog α → σ → Res (α × σ)
  | .ret a, s => .ok (a, s)
  | .fail, _ => .err
  | .bulk n k, s =>
    let r := S.read s n
    if r.1.length = n then (k r.1).runSrc S r.2 else .err

/-- `bufr_read_octet` -/
def readOctet : Prog Nat := .bulk 1 (fun l => .ret (l.headD 0))

/-- `bufr_read_int3b` (three one-octet reads) -/
def readInt3b : Prog Nat := do
  let a ← readOctet
  let b ← readOctet
  let c ← readOctet
  pure (a * 65536 + b * 256 + c)

/-- `bufr_read_int2b` -/
def readInt2b : Prog Nat := do
  let a ← readOctet
  let b ← readOctet
  pure (a * 256 + b)

/-- a value read into a `short` and tested `< 0` -/
def asShort (v : Nat) : Prog Nat := if v ≥ 32768 then .fail else pure v

/-- next state of the scanner: `k` characters of `BUFR` matched so far -/
def seekNext (k c : Nat) : Nat :=
  if c = [66, 85, 70, 82].getD k 0 then k + 1 else if c = 66 then 1 else 0

/-- `bufr_seek_msg_start` as an automaton.  In state 0 (the C's inner `while (c != 'B')`
and the very first read) the byte `\004` is not appended; in states 1–3 (after `B`, `BU`,
`BUF`) every byte is appended.  A mismatch goes back to the outer loop with the byte just
read, which is exactly `seekNext`.  On success the last four characters are removed.
The result is the collected header (not yet escaped). -/
def seekP : Nat → Nat → List Nat → Prog (List Nat)
  | 0, _, _ => .fail
  | fuel + 1, k, acc => do
    let c ← readOctet
    let acc' := if k = 0 ∧ c = 4 then acc else c :: acc
    if seekNext k c = 4 then pure (acc'.drop 4).reverse else seekP fuel (seekNext k c) acc'

/-- `bufr_rd_section0` -/
def rdSection0 (m : Msg) : Prog Msg := do
  let len ← readInt3b
  let c ← readOctet
  let m := { m with lenMsg := len }
  pure (if m.edition ≠ c then m.initHeader c else m)

/-- `n` one-octet reads whose values are discarded -/
def skipOctets : Nat → Prog Unit
  | 0 => pure ()
  | n + 1 => do let _ ← readOctet; skipOctets n

/-- `bufr_rd_section1`.  A length larger than the edition's default turns the excess over
`header_len` into extra data (`data_len = c - header_len`); a smaller one is refused. -/
def rdSection1 (m : Msg) : Prog Msg := do
  let c ← readInt3b
  if c ≠ m.s1.len ∧ ¬ (m.edition ≥ 2 ∧ c > m.s1.len) then .fail else
  let dataLen := if c ≠ m.s1.len then c - m.s1.headerLen else m.s1.data.length
  let s1 := { m.s1 with len := c }
  let mt ← readOctet
  let s1 := { s1 with masterTable := mt }
  let s1 ← (if m.edition = 3 then do
              let sc ← readOctet
              let ce ← readOctet
              pure { s1 with subCentre := sc, centre := ce }
            else if m.edition = 2 ∨ m.edition ≥ 4 then do
              let ce ← readInt2b
              pure { s1 with centre := ce }
            else pure s1)
  let s1 ← (if m.edition ≥ 4 then do
              let sc ← readInt2b
              let sc ← asShort sc
              pure { s1 with subCentre := sc }
            else pure s1)
  let u ← readOctet
  let fl ← readOctet
  let ty ← readOctet
  let s1 := { s1 with updSeq := u, flag := fl, msgType := ty }
  let s1 ← (if m.edition ≥ 4 then do
              let x ← readOctet
              pure { s1 with interSub := x }
            else pure s1)
  let ls ← readOctet
  let mv ← readOctet
  let lv ← readOctet
  let s1 := { s1 with localSub := ls, masterVer := mv, localVer := lv }
  let s1 ← (if m.edition ≥ 4 then do
              let y ← readInt2b
              let y ← asShort y
              pure { s1 with year := y }
            else do
              let y ← readOctet
              pure { s1 with year := y })
  let mo ← readOctet
  let da ← readOctet
  let ho ← readOctet
  let mi ← readOctet
  let s1 := { s1 with month := mo, day := da, hour := ho, minute := mi }
  let s1 ← (if m.edition ≥ 4 then do
              let x ← readOctet
              pure { s1 with second := x }
            else pure s1)
  let s1 ← (if m.edition ≥ 2 ∧ dataLen > 0 then
              Prog.bulk dataLen (fun d => pure { s1 with data := d })
            else pure s1)
  skipOctets (s1.len - (s1.headerLen + dataLen))
  pure { m with s1 := s1 }

/-- `unsigned int` subtraction (both arguments are below 2^32 wherever it is used) -/
def usub32 (a b : Nat) : Nat := if b ≤ a then a - b else (a + 4294967296 - b % 4294967296) % 4294967296

/-- `bufr_rd_section2` -/
def rdSection2 (m : Msg) : Prog Msg :=
  if hasSect2 m.s1.flag then do
    let l ← readInt3b
    let _ ← readOctet
    let len := usub32 l 4
    -- `malloc(len2)` then `readcb(cd, len, data) != len`
    Prog.bulk len (fun d => pure { m with s2Len := l, s2Data := d })
  else pure m

/-- `bufr_rd_section3` -/
def rdSection3 (m : Msg) : Prog Msg := do
  let l ← readInt3b
  let _ ← readOctet
  let ns ← readInt2b
  let fl ← readOctet
  let len := usub32 l 7
  let len2 := if m.edition = 3 ∧ l % 2 = 1 then len + 1 else len
  Prog.bulk len (fun d =>
    pure { m with s3Len := l, nSubsets := ns, s3Flag := fl,
                  s3Buf := if len2 ≠ len then d ++ [0] else d })

/-- `bufr_decode_sect3`: `(s3.len - 7) / 2` descriptors appended to the list -/
def decodeDescs : Nat → List Nat → List Nat
  | 0, _ => []
  | n + 1, hi :: lo :: r => codeDesc hi lo :: decodeDescs n r
  | _ + 1, _ => []

def Msg.decodeSect3 (m : Msg) : Msg :=
  { m with descs := m.descs ++ decodeDescs ((m.s3Len - 7) / 2) m.s3Buf }

/-- `bufr_rd_section4`.  When the section lengths do not add up to `len_msg`, the data
length is what `len_msg` leaves for Section 4; either way it is computed as a signed 64-bit
value and a negative or impossible one is refused. -/
def rdSection4 (m : Msg) : Prog Msg := do
  let l ← readInt3b
  let _ ← readOctet
  let others := 8 + m.s1.len + m.s2Len + m.s3Len + 4
  let total := others + l
  let lenI : Int :=
    if total ≠ m.lenMsg then (m.lenMsg : Int) - others - 4
    else (l : Int) - 4
  if lenI < 0 ∨ lenI > 16777216 then .fail
  else
    let len := lenI.toNat
    Prog.bulk len (fun d => pure { m with s4Len := 4 + len, s4Data := d })

/-- `bufr_rd_section5` -/
def rdSection5 : Prog Unit :=
  Prog.bulk 4 (fun d => if d = [55, 55, 55, 55] then pure () else .fail)

/-- `bufr_callback_read_message` after the start marker: `h` is the header string collected -/
def readSections (h : Option (List Nat)) : Prog Msg := do
  let m := createMessage 4
  let m := { m with header := h }
  let m ← rdSection0 m
  let m ← rdSection1 m
  let m ← rdSection2 m
  let m ← rdSection3 m
  let m := m.decodeSect3
  let m ← rdSection4 m
  rdSection5
  pure m

/-- the stored header string for the bytes collected before the marker -/
def headerOf (raw : List Nat) : Option (List Nat) := if raw.isEmpty then none else some (schar2oct raw)

/-- `bufr_callback_read_message`; `fuel` bounds the scan for the start marker -/
def readMessageP (fuel : Nat) : Prog Msg := do
  let h ← seekP fuel 0 []
  readSections (headerOf h)

/-- read one message from a list of bytes: the message and the number of bytes consumed -/
def readMessage (bytes : List Nat) : Res (Msg × Nat) :=
  match (readMessageP (bytes.length + 1)).runList bytes with
  | .ok (m, rest) => .ok (m, bytes.length - rest.length)
  | .err => .err

/-- the documented caller loop (`while ((n = bufr_memread_message(buf, len, &msg)) > 0) buf += n`):
all messages of a stream with the bytes each call consumed -/
def readAll : Nat → List Nat → List (Msg × Nat)
  | 0, _ => []
  | fuel + 1, bytes =>
    match readMessage bytes with
    | .ok (m, n) => (m, n) :: readAll fuel (bytes.drop n)
    | _ => []

/-! ## The four read callbacks -/

/-- client data of all four callbacks: the bytes and a position -/
structure Cur where
  data : List Nat
  pos : Nat
deriving Repr

def Cur.rest (c : Cur) : List Nat := c.data.drop c.pos

/-- `bufr_memread_fn` with `max_len = data.length` -/
def memSrc : Src Cur where
  read c n :=
    let n' := if c.pos + n ≥ c.data.length then c.data.length - c.pos else n
    ((c.data.drop c.pos).take n', { c with pos := c.pos + n' })
  remaining c := c.data.length - c.pos

/-- `size_t → int` as in `int len = ilen` -/
def toInt32 (n : Nat) : Int :=
  let r := n % 4294967296
  if r ≥ 2147483648 then (r : Int) - 4294967296 else r

/-- `bufr_read_fn` on a `FILE*`: loops on `fread` until `(int)len` bytes or end of file -/
def fileSrc : Src Cur where
  read c n :=
    let len := toInt32 n
    if len ≤ 0 then ([], c)
    else
      let got := min len.toNat (c.data.length - c.pos)
      ((c.data.drop c.pos).take got, { c with pos := c.pos + got })
  remaining c := c.data.length - c.pos

/-- `bufr_sread_fn` on a file descriptor: loops on `read(2)`; a count above `SSIZE_MAX` is refused -/
def fdSrc : Src Cur where
  read c n :=
    if n ≥ 9223372036854775808 then ([], c)
    else
      let got := min n (c.data.length - c.pos)
      ((c.data.drop c.pos).take got, { c with pos := c.pos + got })
  remaining c := c.data.length - c.pos

/-- a user callback that hands out at most `chunk` bytes per call (`chunk = 0`: no limit) -/
def cbSrc (chunk : Nat) : Src Cur where
  read c n :=
    let want := if chunk = 0 then n else min n chunk
    let got := min want (c.data.length - c.pos)
    ((c.data.drop c.pos).take got, { c with pos := c.pos + got })
  remaining c := c.data.length - c.pos

/-- `bufr_callback_read_message` through a callback; result and the client data afterwards -/
def readMessageSrc {σ : Type} (S : Src σ) (s : σ) : Res (Msg × σ) :=
  (readMessageP (S.remaining s + 1)).runSrc S s

end Bufr.Frame
